#!/usr/bin/env python3
"""py2v -- fail-closed translator from a tiny integer subset of Python to Coq (Gallina over Z).

It reads a function from a source file of /repo with `ast` (the code is never imported or
run) and emits a `Definition`.  Anything outside the accepted subset raises Unsupported, which
the check reports as a broken obligation "translate:<unit>"; nothing is ever skipped silently.

Accepted subset
---------------
statements : assignment (name, tuple of names), augmented assignment, if/elif/else, return,
             docstrings, `assert <x>.step is None` (slices are modelled as pairs, which have no step),
             `pass`.
expressions: int literals, names, + - * // % & | ^ ~ << >>, unary -, comparisons (chained),
             and / or / not, conditional expressions, min/max/abs, tuples, constant subscripts of
             tuple-typed parameters, `.start` / `.stop` of slice-typed values, `slice(a, b)`,
             calls to other functions translated in the same unit, True/False, bool(),
             `TABLE[i][j]` for a module-level constant table declared in spec["tables"] (mapped to
             the lookup function of a dumped unit), integer parameter defaults declared in
             spec["defaults"] (checked against the source; the Coq parameters stay explicit),
             `NAME[key]` for a module-level constant dict declared in spec["lookups"] (mapped to the
             lookup function of a dumped unit), `Enum(expr)` for an IntEnum class declared in
             spec["casts"] (identity on the integer value).
semantics  : Python int = Coq Z.  // is Z.div and % is Z.modulo (both floor, sign of divisor);
             & | ^ ~ are Z.land/lor/lxor/lnot (two's complement on negatives, as Python);
             << >> are Z.shiftl/Z.shiftr (for a negative count Python raises; the models only use
             them with non-negative counts, which the correspondence run exercises).
             A Python int used as a condition is `x <> 0`.
contract   : the Coq definition yields the value Python returns WHENEVER PYTHON RETURNS.  Where Python
             raises (// or % by zero, a negative shift count, KeyError / IndexError of a table,
             ValueError of an enum cast, a failing `assert x.step is None`) the Coq function is total
             and yields some value; the hand-written models decide those cases.  Only the literal
             cases (`x // 0`, `x << -1`) can be, and are, rejected.
name rules : (whole-function mode, i.e. translate_unit) a local variable may be read only where it
             is assigned on every path; a name that is neither a local nor declared in
             spec["globals"] = {name: dict(coq=..., type=...)} is rejected; two Python names may not
             become one Coq identifier (`end`/`end_`, the components `x_0`, `e_key` of a tuple /
             key-mask variable against a variable of that name); a local may not be called `true`,
             `false`, `fst`, ... or like a Coq definition the unit refers to; min/max/abs/bool/int/
             sum/range/slice must not be rebound by the function or its module; a bare-name call
             denotes a translated function only if that is a module-level function of the same file
             (or imported from its file by that name); a function must be bound once in its scope
             and carry no decorator other than staticmethod / classmethod / property.
             tools/PY2V_AUDIT.md is the full account; tools/py2v_selftest.py tests it differentially.
"""
import ast
import sys
import warnings

RESERVED = {"return", "end", "in", "at", "as", "fun", "match", "with", "if", "then", "else",
            "let", "fix", "forall", "exists", "Type", "Set", "Prop", "where", "for", "mod",
            "using", "cofix", "struct"}


class Unsupported(Exception):
    pass


USES = {"list": False}

# identifiers the translator itself emits (or that a generated file relies on): a Python variable of
# one of these names would capture them (`true = False; return True`), so it is rejected
EMITTED = {"true", "false", "negb", "andb", "orb", "fst", "snd", "map", "seq", "fold_right",
           "Z", "bool", "nat", "list", "prod", "pair"}
# names the translator gives a built-in meaning to when they are called
BUILTINS = {"min", "max", "abs", "bool", "int", "sum", "range", "slice"}


def ident(n):
    return n + "_" if n in RESERVED else n


class _Tail(str):
    """The expression a block yields when control falls off its end, with the Python variables it reads."""
    names = ()


def bound_names(stmts):
    """Every name the statements can bind, at any depth (assignment, for / with / except / walrus /
    comprehension targets, import, def, class, global, match captures, del)."""
    out = set()
    for top in stmts:
        for n in ast.walk(top):
            if isinstance(n, ast.Name) and isinstance(n.ctx, (ast.Store, ast.Del)):
                out.add(n.id)
            elif isinstance(n, (ast.FunctionDef, ast.AsyncFunctionDef, ast.ClassDef)):
                out.add(n.name)
            elif isinstance(n, (ast.Import, ast.ImportFrom)):
                out.update((a.asname or a.name.split(".")[0]) for a in n.names)
            elif isinstance(n, (ast.Global, ast.Nonlocal)):
                out.update(n.names)
            elif isinstance(n, ast.ExceptHandler) and n.name:
                out.add(n.name)
            elif type(n).__name__ in ("MatchAs", "MatchStar") and n.name:
                out.add(n.name)
            elif type(n).__name__ == "MatchMapping" and n.rest:
                out.add(n.rest)
    return out


def module_names(tree):
    """Names bound at module level ('*' stands for a star import).  Over-approximated for compound
    statements (everything bound anywhere inside them), which can only cause a rejection."""
    out = set()
    for n in tree.body:
        if isinstance(n, (ast.FunctionDef, ast.AsyncFunctionDef, ast.ClassDef)):
            out.add(n.name)
        else:
            out |= bound_names([n])
    return out


class Fn:
    """Translate one function.

    spec: dict(name=python name, coq=coq name, params={pname: type}, ret=type,
               calls={python callee name: (coq name, ret type)})
    types: 'Z', 'bool', 'slice' (pair), 'Z2', 'Z3', ... tuples of Z.
    """

    def __init__(self, node, spec, calls, module=None, origin=None):
        self.node = node
        self.spec = spec
        self.calls = calls
        self.types = {}
        # whole-function mode (translate / translate_fragment): name hygiene is checked.  The
        # expression mode used by the dumpers (expr / as_bool / block called directly with
        # self.types preset) leaves these None: every free name is then a Z variable of the caller.
        self.bound = None          # names definitely assigned on the current path
        self.locals = None         # names that are local variables of the Python function
        self.coqnames = None       # Coq identifier -> the Python name it stands for
        self.module = module       # ast of the file (None: module-level shadowing is not checked)
        self.module_names = module_names(module) if module is not None else set()
        self.origin = origin       # callee name -> (file, qualified name) (None: not checked)

    def err(self, node, what):
        raise Unsupported("%s:%s: unsupported %s: %s" % (
            self.spec["name"], getattr(node, "lineno", "?"), what,
            ast.dump(node)[:160] if isinstance(node, ast.AST) else node))

    # ---------------------------------------------------------------- name hygiene
    def enter(self, stmts):
        """Whole-function mode: collect the local names of `stmts` and refuse every clash between
        the Coq identifiers the translation will bind."""
        params = self.spec["params"]
        self.locals = set(params) | bound_names(stmts)
        self.bound = set(params)
        names = set(self.locals)
        for s in stmts:
            names.update(n.id for n in ast.walk(s) if isinstance(n, ast.Name))
        self.coqnames = {}
        for n in sorted(names):
            c = ident(n)
            if c in self.coqnames:
                raise Unsupported("%s: the names %s and %s both become the Coq identifier %s"
                                  % (self.spec["name"], self.coqnames[c], n, c))
            self.coqnames[c] = n
        taken = set(EMITTED) | {self.spec["coq"]} | {c[0] for c in self.calls.values()}
        for k in ("tables", "lookups", "globals"):
            taken |= {d["coq"] for d in self.spec.get(k, {}).values()}
        for n in sorted(self.locals):
            if ident(n) in taken:
                raise Unsupported("%s: the local name %s would capture the Coq identifier %s"
                                  % (self.spec["name"], n, ident(n)))

    def components(self, n, suffixes):
        """Coq identifiers of the components of the tuple / key-mask variable n."""
        out = ["%s_%s" % (ident(n), s) for s in suffixes]
        if self.coqnames is not None:
            for c in out:
                if c in self.coqnames:
                    raise Unsupported("%s: component %s of %s clashes with the name %s"
                                      % (self.spec["name"], c, n, self.coqnames[c]))
        return out

    def shadowed(self, f):
        """Is the global / built-in name f rebound by the function or by its module?"""
        if self.locals is not None and f in self.locals:
            return True
        if self.module is not None and f in BUILTINS \
                and (f in self.module_names or "*" in self.module_names):
            return True
        return False

    def callee_visible(self, f):
        """Does the bare name f, called in this function, denote the translated function calls[f]?"""
        if self.origin is None:
            return True
        file, qual = self.origin[f]
        if "." in qual:
            return False                      # a method is never reached through a bare name
        if file == self.spec.get("file"):
            return True
        if self.module is None:
            return False
        here = self.spec.get("file", "").split("/")[:-1]
        for n in self.module.body:
            if isinstance(n, ast.ImportFrom):
                for a in n.names:
                    if (a.asname or a.name) == f and a.name == qual:
                        if n.level > len(here) + 1:
                            continue
                        base = here[:len(here) - (n.level - 1)] if n.level else []
                        path = "/".join(base + (n.module.split(".") if n.module else [])) + ".py"
                        if path == file:
                            return True
        return False

    # ---------------------------------------------------------------- expressions
    def expr(self, e):
        """-> (coq text, type)"""
        if isinstance(e, ast.Constant):
            if isinstance(e.value, bool):
                return ("true" if e.value else "false", "bool")
            if isinstance(e.value, int):
                return ("(%d)" % e.value, "Z")
            self.err(e, "constant")
        if isinstance(e, ast.Name):
            if self.bound is not None and e.id not in self.bound:
                g = self.spec.get("globals", {})
                if e.id in self.locals:
                    self.err(e, "use of the local variable %s where it may be unassigned" % e.id)
                if e.id not in g:
                    self.err(e, "global name %s (not declared in spec['globals'])" % e.id)
                return (g[e.id]["coq"], g[e.id]["type"])
            return (ident(e.id), self.types.get(e.id, "Z"))
        if isinstance(e, ast.Tuple):
            parts = [self.expr(x) for x in e.elts]
            for p in parts:
                if p[1] != "Z":
                    self.err(e, "non-integer tuple element")
            return ("(" + ", ".join(p[0] for p in parts) + ")", "Z%d" % len(parts))
        if isinstance(e, ast.BinOp):
            a = self.as_Z(e.left)
            b = self.as_Z(e.right)
            r = e.right
            if isinstance(e.op, (ast.FloorDiv, ast.Mod)) and isinstance(r, ast.Constant) and r.value == 0:
                self.err(e, "division by the literal 0 (Python raises)")
            if isinstance(e.op, (ast.LShift, ast.RShift)) and isinstance(r, ast.UnaryOp) \
                    and isinstance(r.op, ast.USub) and isinstance(r.operand, ast.Constant) \
                    and r.operand.value != 0:
                self.err(e, "shift by a negative literal (Python raises)")
            ops = {ast.Add: "Z.add", ast.Sub: "Z.sub", ast.Mult: "Z.mul", ast.FloorDiv: "Z.div",
                   ast.Mod: "Z.modulo", ast.BitAnd: "Z.land", ast.BitOr: "Z.lor",
                   ast.BitXor: "Z.lxor", ast.LShift: "Z.shiftl", ast.RShift: "Z.shiftr"}
            for k, v in ops.items():
                if isinstance(e.op, k):
                    return ("(%s %s %s)" % (v, a, b), "Z")
            self.err(e, "binary operator")
        if isinstance(e, ast.UnaryOp):
            if isinstance(e.op, ast.USub):
                return ("(Z.opp %s)" % self.as_Z(e.operand), "Z")
            if isinstance(e.op, ast.Invert):
                return ("(Z.lnot %s)" % self.as_Z(e.operand), "Z")
            if isinstance(e.op, ast.Not):
                return ("(negb %s)" % self.as_bool(e.operand), "bool")
            self.err(e, "unary operator")
        if isinstance(e, ast.BoolOp):
            op = "andb" if isinstance(e.op, ast.And) else "orb"
            parts = [self.as_bool_strict(v) for v in e.values]
            t = parts[-1]
            for p in reversed(parts[:-1]):
                t = "(%s %s %s)" % (op, p, t)
            return (t, "bool")
        if isinstance(e, ast.Compare):
            ops = {ast.Lt: "Z.ltb", ast.LtE: "Z.leb", ast.Gt: "Z.gtb", ast.GtE: "Z.geb",
                   ast.Eq: "Z.eqb"}
            terms = [e.left] + list(e.comparators)
            out = []
            for i, op in enumerate(e.ops):
                a, b = self.as_Z(terms[i]), self.as_Z(terms[i + 1])
                if isinstance(op, ast.NotEq):
                    out.append("(negb (Z.eqb %s %s))" % (a, b))
                    continue
                for k, v in ops.items():
                    if isinstance(op, k):
                        out.append("(%s %s %s)" % (v, a, b))
                        break
                else:
                    self.err(e, "comparison")
            t = out[-1]
            for p in reversed(out[:-1]):
                t = "(andb %s %s)" % (p, t)
            return (t, "bool")
        if isinstance(e, ast.IfExp):
            c = self.as_bool(e.test)
            a, ta = self.expr(e.body)
            b, tb = self.expr(e.orelse)
            if ta != tb:
                self.err(e, "conditional expression with branches of different type")
            return ("(if %s then %s else %s)" % (c, a, b), ta)
        if isinstance(e, ast.Subscript):
            if isinstance(e.value, ast.Name) and isinstance(e.slice, ast.Constant) \
                    and isinstance(e.slice.value, int):
                t = self.types.get(e.value.id, "Z")
                if t.startswith("Z") and t[1:].isdigit() and 0 <= e.slice.value < int(t[1:]):
                    self.expr(e.value)          # (whole-function mode: the variable must be assigned)
                    return ("%s_%d" % (ident(e.value.id), e.slice.value), "Z")
            # TABLE[i][j] where TABLE is a module-level 2-D constant table declared in the spec
            # (spec["tables"] = {python name: dict(coq=lookup function, elem=element type)}); the table
            # itself and its lookup function come from a dumped unit named in unit["requires"].
            tables = self.spec.get("tables", {})
            if isinstance(e.value, ast.Subscript) and isinstance(e.value.value, ast.Name) \
                    and e.value.value.id in tables and e.value.value.id not in self.types \
                    and not self.shadowed(e.value.value.id):
                tb = tables[e.value.value.id]
                return ("(%s %s %s)" % (tb["coq"], self.as_Z(e.value.slice), self.as_Z(e.slice)),
                        tb["elem"])
            # NAME[key] where NAME is a module-level constant dict declared in the spec
            # (spec["lookups"] = {python name: dict(coq=lookup function, key=key type, elem=result type)});
            # the lookup function comes from a dumped unit named in unit["requires"]; a missing key
            # (Python KeyError) is the lookup function's business (e.g. an option result type).
            lookups = self.spec.get("lookups", {})
            if isinstance(e.value, ast.Name) and e.value.id in lookups and e.value.id not in self.types \
                    and not self.shadowed(e.value.id):
                lk = lookups[e.value.id]
                kv, kt = self.expr(e.slice)
                if kt != lk["key"]:
                    self.err(e, "lookup key of type %s, expected %s" % (kt, lk["key"]))
                return ("(%s %s)" % (lk["coq"], kv), lk["elem"])
            self.err(e, "subscript")
        if isinstance(e, ast.Attribute):
            v, t = self.expr(e.value)
            if t == "slice" and e.attr == "start":
                return ("(fst %s)" % v, "Z")
            if t == "slice" and e.attr == "stop":
                return ("(snd %s)" % v, "Z")
            if t == "km" and e.attr in ("key", "mask") and isinstance(e.value, ast.Name):
                return ("%s_%s" % (ident(e.value.id), e.attr), "Z")
            self.err(e, "attribute")
        if isinstance(e, ast.Call) and isinstance(e.func, ast.Name) and not e.keywords:
            f = e.func.id
            if self.shadowed(f):
                self.err(e, "call of %s, which the function or its module rebinds" % f)
            if f in ("min", "max") and len(e.args) >= 2:
                parts = [self.as_Z(a) for a in e.args]
                t = parts[0]
                for p in parts[1:]:
                    t = "(Z.%s %s %s)" % (f, t, p)
                return (t, "Z")
            if f == "abs" and len(e.args) == 1:
                return ("(Z.abs %s)" % self.as_Z(e.args[0]), "Z")
            if f == "bool" and len(e.args) == 1:
                return (self.as_bool(e.args[0]), "bool")
            if f == "int" and len(e.args) == 1:
                return (self.as_Z(e.args[0]), "Z")
            if f == "sum" and len(e.args) == 1 and isinstance(e.args[0], ast.GeneratorExp):
                g = e.args[0]
                if len(g.generators) != 1:
                    self.err(e, "sum over several generators")
                c = g.generators[0]
                it = c.iter
                ok = (isinstance(c.target, ast.Name) and not c.is_async and len(c.ifs) <= 1
                      and isinstance(it, ast.Call) and isinstance(it.func, ast.Name)
                      and it.func.id == "range" and len(it.args) == 1 and not it.keywords
                      and isinstance(it.args[0], ast.Constant) and isinstance(it.args[0].value, int)
                      and not isinstance(it.args[0].value, bool) and it.args[0].value >= 0)
                if not ok:
                    self.err(e, "sum(...) outside the accepted pattern")
                var = c.target.id
                if var in self.types or var in self.spec.get("params", {}) \
                        or (self.bound is not None and var in self.bound) or self.shadowed("range"):
                    self.err(e, "sum variable shadows another name")
                self.types[var] = "Z"
                if self.bound is not None:
                    self.bound.add(var)
                elt = self.as_Z(g.elt)
                cond = self.as_bool(c.ifs[0]) if c.ifs else "true"
                del self.types[var]
                if self.bound is not None:
                    self.bound.discard(var)
                USES["list"] = True
                return ("(fold_right Z.add 0 (map (fun %s : Z => if %s then %s else 0) "
                        "(map Z.of_nat (seq 0 %d))))" % (ident(var), cond, elt, it.args[0].value), "Z")
            if f == "slice" and len(e.args) == 2:
                return ("(%s, %s)" % (self.as_Z(e.args[0]), self.as_Z(e.args[1])), "slice")
            # IntEnum constructors declared in spec["casts"] applied to an integer expression: the
            # models represent a member by its integer value, so the call is the identity (the
            # ValueError for a value that is no member is outside the translated subset: the caller
            # of the translator must only declare a cast whose argument is always a member).
            if f in self.spec.get("casts", []) and len(e.args) == 1 and f not in self.types \
                    and f not in self.calls:
                return (self.as_Z(e.args[0]), "Z")
            if f in self.calls:
                if not self.callee_visible(f):
                    self.err(e, "call of %s: the bare name does not denote the translated function" % f)
                cname, ptypes, rtype = self.calls[f]
                if len(ptypes) != len(e.args):
                    self.err(e, "call arity")
                args = []
                for a, pt in zip(e.args, ptypes):
                    v, t = self.expr(a)
                    if t != pt:
                        self.err(e, "argument type %s, expected %s" % (t, pt))
                    args.append(v)
                return ("(%s %s)" % (cname, " ".join(args)), rtype)
        self.err(e, "expression")

    def as_Z(self, e):
        v, t = self.expr(e)
        if t != "Z":
            self.err(e, "expected an integer, got %s" % t)
        return v

    def as_bool_strict(self, e):
        v, t = self.expr(e)
        if t != "bool":
            self.err(e, "and/or of non-boolean operands (Python returns an operand)")
        return v

    def as_bool(self, e):
        v, t = self.expr(e)
        if t == "bool":
            return v
        if t == "Z":
            return "(negb (Z.eqb %s 0))" % v
        self.err(e, "condition of type %s" % t)

    # ---------------------------------------------------------------- statements
    def assigned(self, stmts):
        out = []

        def add(n):
            if n not in out:
                out.append(n)
        for s in stmts:
            if isinstance(s, ast.Assign):
                for t in s.targets:
                    if isinstance(t, ast.Name):
                        add(t.id)
                    elif isinstance(t, ast.Tuple):
                        for x in t.elts:
                            if not isinstance(x, ast.Name):
                                self.err(s, "assignment target")
                            add(x.id)
                    else:
                        self.err(s, "assignment target")
            elif isinstance(s, ast.AugAssign):
                if not isinstance(s.target, ast.Name):
                    self.err(s, "assignment target")
                add(s.target.id)
            elif isinstance(s, ast.If):
                for n in self.assigned(s.body) + self.assigned(s.orelse):
                    add(n)
        return out

    def has_return(self, stmts):
        for s in stmts:
            if isinstance(s, ast.Return):
                return True
            if isinstance(s, ast.If) and (self.has_return(s.body) or self.has_return(s.orelse)):
                return True
        return False

    def block(self, stmts, tail):
        """tail: None => the block must end in `return`; else a Coq expression (the tuple of live
        variables) produced when the block falls off its end."""
        if not stmts:
            if tail is None:
                raise Unsupported("%s: control can fall off the end of the function"
                                  % self.spec["name"])
            if self.bound is not None:
                for n in getattr(tail, "names", ()):
                    if n not in self.bound:
                        raise Unsupported("%s: %s is assigned in only one branch of an `if` and not "
                                          "before it" % (self.spec["name"], n))
            return tail
        s, rest = stmts[0], stmts[1:]
        if isinstance(s, ast.Expr) and isinstance(s.value, ast.Constant) \
                and isinstance(s.value.value, str):
            return self.block(rest, tail)
        if isinstance(s, ast.Pass):
            return self.block(rest, tail)
        if isinstance(s, ast.Assert):
            t = s.test
            ok = (isinstance(t, ast.Compare) and isinstance(t.left, ast.Attribute)
                  and t.left.attr == "step" and len(t.ops) == 1 and isinstance(t.ops[0], ast.Is)
                  and isinstance(t.comparators[0], ast.Constant)
                  and t.comparators[0].value is None)
            if not ok:
                self.err(s, "assert")
            return self.block(rest, tail)
        if isinstance(s, ast.Return):
            if s.value is None:
                self.err(s, "bare return")
            v, t = self.expr(s.value)
            if t != self.spec["ret"]:
                self.err(s, "return type %s, expected %s" % (t, self.spec["ret"]))
            return v
        if isinstance(s, ast.Assign):
            if len(s.targets) != 1:
                self.err(s, "chained assignment")
            tg = s.targets[0]
            v, t = self.expr(s.value)
            if isinstance(tg, ast.Name):
                self.types[tg.id] = t
                if self.bound is not None and tg.id != "_":
                    self.bound.add(tg.id)
                if t.startswith("Z") and t[1:].isdigit():
                    n = int(t[1:])
                    comps = ", ".join(self.components(tg.id, range(n)))
                    return "let %s := %s in let '(%s) := %s in\n  %s" % (
                        ident(tg.id), v, comps, ident(tg.id), self.block(rest, tail))
                return "let %s := %s in\n  %s" % (ident(tg.id), v, self.block(rest, tail))
            if isinstance(tg, ast.Tuple):
                if not (t.startswith("Z") and t[1:].isdigit() and int(t[1:]) == len(tg.elts)):
                    self.err(s, "tuple unpacking of %s" % t)
                names = []
                for x in tg.elts:
                    if not isinstance(x, ast.Name):
                        self.err(s, "assignment target")
                    if ident(x.id) in names and x.id != "_":
                        self.err(s, "name assigned twice by one tuple assignment")
                    self.types[x.id] = "Z"
                    names.append(ident(x.id))
                if self.bound is not None:
                    self.bound.update(x.id for x in tg.elts if x.id != "_")   # `_` is a wildcard in Coq
                # Python evaluates the right-hand side completely before binding: a let-pattern
                # on a tuple has the same meaning.
                return "let '(%s) := %s in\n  %s" % (", ".join(names), v, self.block(rest, tail))
            self.err(s, "assignment target")
        if isinstance(s, ast.AugAssign):
            if not isinstance(s.target, ast.Name):
                self.err(s, "assignment target")
            fake = ast.BinOp(left=ast.Name(id=s.target.id, ctx=ast.Load()), op=s.op, right=s.value)
            ast.copy_location(fake, s)
            v, t = self.expr(fake)
            return "let %s := %s in\n  %s" % (ident(s.target.id), v, self.block(rest, tail))
        if isinstance(s, ast.If):
            c = self.as_bool(s.test)
            if self.has_return(s.body) or self.has_return(s.orelse):
                saved = dict(self.types)
                bound = set(self.bound) if self.bound is not None else None
                a = self.block(list(s.body) + rest, tail)
                self.types = dict(saved)
                self.bound = bound
                b = self.block(list(s.orelse) + rest, tail)
                return "(if %s then\n  %s\n  else\n  %s)" % (c, a, b)
            vs = self.assigned(s.body) + [n for n in self.assigned(s.orelse)
                                          if n not in self.assigned(s.body)]
            if not vs:
                self.err(s, "if without effect")
            for n in vs:
                if self.types.get(n, "Z") != "Z":
                    self.err(s, "if assigning a non-integer variable")
            tup = _Tail("(" + ", ".join(ident(n) for n in vs) + ")" if len(vs) > 1 else ident(vs[0]))
            tup.names = tuple(vs)
            saved = dict(self.types)
            bound = set(self.bound) if self.bound is not None else None
            a = self.block(list(s.body), tup)
            self.types = dict(saved)
            self.bound = set(bound) if bound is not None else None
            b = self.block(list(s.orelse), tup)
            self.types = dict(saved)
            for n in vs:
                self.types[n] = "Z"
            if bound is not None:
                self.bound = bound | set(vs)      # (both branches were checked to assign or keep them)
            pat = "'" + tup if len(vs) > 1 else tup
            return "let %s := (if %s then\n  %s\n  else\n  %s) in\n  %s" % (
                pat, c, a, b, self.block(rest, tail))
        self.err(s, "statement")

    def fragment(self, frag):
        """Select the assignments to frag['targets'] standing before / inside / after the single
        top-level `for` loop of the function and append `return (<frag['returns']>)`."""
        body = list(self.node.body)
        loops = [i for i, s in enumerate(body) if isinstance(s, (ast.For, ast.While))]
        if len(loops) != 1 or not isinstance(body[loops[0]], ast.For) or body[loops[0]].orelse:
            self.err(self.node, "fragment: the function must have exactly one top-level for loop")
        k = loops[0]
        where = frag["where"]
        region = {"before_for": body[:k], "in_for": list(body[k].body), "after_for": body[k + 1:]}.get(where)
        if region is None:
            self.err(self.node, "fragment position %r" % where)
        targets = set(frag["targets"])

        def names_of(s):
            if isinstance(s, ast.Assign):
                out = []
                for t in s.targets:
                    if isinstance(t, ast.Name):
                        out.append(t.id)
                    elif isinstance(t, ast.Tuple):
                        out += [x.id for x in t.elts if isinstance(x, ast.Name)]
                return out
            if isinstance(s, ast.AugAssign) and isinstance(s.target, ast.Name):
                return [s.target.id]
            return []
        sel = []
        for s in region:
            ns = names_of(s)
            if any(n in targets for n in ns):
                if not all(n in targets for n in ns):
                    self.err(s, "fragment: statement assigns listed and unlisted names")
                sel.append(s)
            elif bound_names([s]) & targets:
                # annotated / walrus / for / with / import ... bindings, or nested control flow
                self.err(s, "fragment: a listed name is bound by a statement that is not selected")
        # The fragment is read as straight-line code from its first to its last statement, the
        # parameters having the values they have at the first one: nothing in between may rebind a
        # name the fragment reads, nor leave the region.
        if sel:
            reads = set(self.spec["params"])
            for s in sel:
                reads.update(n.id for n in ast.walk(s) if isinstance(n, ast.Name))
            for s in region[region.index(sel[0]):region.index(sel[-1])]:
                if s in sel:
                    continue
                if not isinstance(s, (ast.Assign, ast.AugAssign, ast.AnnAssign, ast.Expr, ast.Pass)):
                    self.err(s, "fragment: control flow between the selected statements")
                if bound_names([s]) & reads:
                    self.err(s, "fragment: a name the fragment reads is rebound between the "
                                "selected statements")
        if "count" in frag and len(sel) != frag["count"]:
            self.err(self.node, "fragment: %d statements assign %r, expected %d"
                     % (len(sel), sorted(targets), frag["count"]))
        if not sel:
            self.err(self.node, "fragment: nothing selected")
        rets = frag["returns"]
        val = (ast.Tuple(elts=[ast.Name(id=n, ctx=ast.Load()) for n in rets], ctx=ast.Load())
               if len(rets) > 1 else ast.Name(id=rets[0], ctx=ast.Load()))
        ret = ast.Return(value=val)
        ast.copy_location(ret, sel[-1])
        ast.fix_missing_locations(ret)
        return sel + [ret]

    def translate_fragment(self, frag):
        stmts = self.fragment(frag)
        self.enter(stmts)
        binders = []
        for n, t in self.spec["params"].items():
            self.types[n] = t
            if t == "Z":
                binders.append("(%s : Z)" % ident(n))
            elif t == "km":
                binders.append("(%s : Z) (%s : Z)" % tuple(self.components(n, ("key", "mask"))))
            else:
                raise Unsupported("bad fragment parameter type " + t)
        body = self.block(stmts, None)
        return "Definition %s %s :=\n  %s.\n" % (self.spec["coq"], " ".join(binders), body)

    def translate(self):
        if self.spec.get("fragment"):
            return self.translate_fragment(self.spec["fragment"])
        a = self.node.args
        if a.vararg or a.kwarg or a.kwonlyargs or a.posonlyargs:
            self.err(self.node, "parameter list")
        for d in self.node.decorator_list:
            # decorators that leave the function of its arguments unchanged; any other could wrap it
            if not (isinstance(d, ast.Name) and d.id in ("staticmethod", "classmethod", "property")):
                self.err(d, "decorator")
        names = [x.arg for x in a.args]
        if len(set(names)) != len(names):
            self.err(self.node, "parameter list")
        if a.defaults or self.spec.get("defaults"):
            # default values are accepted only when the spec states them (spec["defaults"] =
            # {parameter: integer}); the Coq definition takes every parameter explicitly and the
            # model / harness supplies the stated default where the caller omits the argument.
            got = {}
            for n, dflt in zip(names[len(names) - len(a.defaults):], a.defaults):
                if not (isinstance(dflt, ast.Constant) and type(dflt.value) is int):
                    self.err(self.node, "default value of parameter " + n)
                got[n] = dflt.value
            if got != self.spec.get("defaults"):
                raise Unsupported("%s: parameter defaults are %r, the model expects %r"
                                  % (self.spec["name"], got, self.spec.get("defaults")))
        # spec["ignore_params"]: leading `cls` of a classmethod etc.; accepted only when the body
        # never mentions the name (the Coq definition does not take it)
        for ig in self.spec.get("ignore_params", []):
            if ig in names:
                for sub in ast.walk(ast.Module(body=list(self.node.body), type_ignores=[])):
                    if isinstance(sub, ast.Name) and sub.id == ig:
                        self.err(sub, "use of ignored parameter " + ig)
                names.remove(ig)
        want = list(self.spec["params"].keys())
        if names != want:
            raise Unsupported("%s: parameters are %r, the model expects %r"
                              % (self.spec["name"], names, want))
        self.enter(list(self.node.body))
        binders, pre = [], []
        for n in names:
            t = self.spec["params"][n]
            self.types[n] = t
            if t == "Z":
                binders.append("(%s : Z)" % ident(n))
            elif t == "bool":
                binders.append("(%s : bool)" % ident(n))
            elif t == "slice":
                binders.append("(%s : Z * Z)" % ident(n))
            elif t.startswith("Z") and t[1:].isdigit():
                k = int(t[1:])
                binders.append("(%s : %s)" % (ident(n), " * ".join(["Z"] * k)))
                pre.append("let '(%s) := %s in" % (", ".join(self.components(n, range(k))), ident(n)))
            else:
                raise Unsupported("bad parameter type " + t)
        body = self.block(list(self.node.body), None)
        return "Definition %s %s :=\n  %s\n  %s.\n" % (
            self.spec["coq"], " ".join(binders), "\n  ".join(pre), body)


def find_function(tree, qualname):
    parts = qualname.split(".")
    body = tree.body
    node = None
    for p in parts:
        node = None
        for n in body:
            if isinstance(n, (ast.FunctionDef, ast.ClassDef)) and n.name == p:
                node = n
                break
        if node is None:
            raise Unsupported("function %s not found" % qualname)
        # Python keeps the LAST binding of a name: refuse any later rebinding of the one found (except
        # the setter / deleter of a property, which keep the getter found first)
        for n in body[body.index(node) + 1:]:
            if isinstance(n, ast.FunctionDef) and n.name == p and n.decorator_list and all(
                    isinstance(d, ast.Attribute) and isinstance(d.value, ast.Name) and d.value.id == p
                    and d.attr in ("setter", "deleter") for d in n.decorator_list):
                continue
            if isinstance(n, (ast.FunctionDef, ast.AsyncFunctionDef, ast.ClassDef)):
                again = n.name == p
            else:
                again = p in bound_names([n])
            if again:
                raise Unsupported("%s is bound again at line %d" % (qualname, n.lineno))
        body = node.body
    if not isinstance(node, ast.FunctionDef):
        raise Unsupported("%s is not a function" % qualname)
    return node


def translate_unit(repo, unit):
    """unit: dict(out=path of .v, header=str, functions=[spec...]); spec has 'file'.
    Returns the text of the generated file."""
    out = ["(* GENERATED by tools/py2v.py from the current /repo sources -- do not edit. *)",
           "From Coq Require Import ZArith Bool."]
    out += ["Require Import %s." % r for r in unit.get("requires", [])]
    out += ["Open Scope Z_scope.", ""]
    calls, origin = {}, {}
    USES["list"] = False
    for spec in unit["functions"]:
        with open(repo + "/" + spec["file"]) as f:
            with warnings.catch_warnings():          # invalid escapes in rig's docstrings
                warnings.simplefilter("ignore")
                tree = ast.parse(f.read())
        node = find_function(tree, spec["name"])
        text = Fn(node, spec, calls, module=tree, origin=origin).translate()
        out.append("(* %s : %s, line %d *)" % (spec["file"], spec["name"], node.lineno))
        out.append(text)
        calls[spec["name"].split(".")[-1]] = (spec["coq"], list(spec["params"].values()),
                                              spec["ret"])
        origin[spec["name"].split(".")[-1]] = (spec["file"], spec["name"])
    if USES["list"]:
        out[1] = "From Coq Require Import ZArith Bool List."
    return "\n".join(out)


if __name__ == "__main__":
    import json
    unit = json.load(open(sys.argv[2]))
    sys.stdout.write(translate_unit(sys.argv[1], unit))
