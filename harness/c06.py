"""C06 -- SCP bursts complete each command exactly once despite loss and reordering.

theorems (Props/C06.v) + correspondence of Model/SCP.v with the real SCPConnection.send_scp_burst / send_scp on
fault schedules (the real code runs against harness/scpsim.py; the model is run in Coq on the very events the
code consumed and must produce the same sends / selects / receives / callbacks / exception) + an independent
oracle that decides the property's sentences on the observed trace."""
import hashlib
import json
import os

import lib
import scpsim
from lib import zlit, vlist

LEVEL = "proof"
UNITS = ["GenSCP", "GenSCPShape"]

# The SC&MP protocol's codes, written here independently of rig.machine_control.consts
RC_OK = 0x80
RC_RETRYABLE = {0x82: "RC_SUM (bad checksum)", 0x8d: "RC_P2P_BUSY (destination busy)"}
FATAL_POOL = [0x81, 0x83, 0x84, 0x85, 0x86, 0x87, 0x88, 0x89, 0x8a, 0x8b, 0x8c, 0x8e, 0x8f,   # documented
              0x00, 0x01, 0x7f, 0x90, 0xff, 0xffff,                                              # unknown
              # 16-bit codes whose LOW byte is an OK / retryable / fatal code: unknown codes, hence fatal
              0x0180, 0x0182, 0x018d, 0x0181, 0x8080, 0x8082, 0x808d, 0xff80, 0xff82, 0xff8d, 0x0288, 0xff8f]


# ------------------------------------------------------------------------------------------ generator
def gen_outcome(rng, T, mood):
    """Outcome of one transmission: {"lost": bool, "replies": [[delay, rc or None], ...]}"""
    lat = lambda: rng.choice([1, 1, 1, 1, 2, 3, T - 1, T, T + 1])
    w = {"clean": [90, 2, 2, 2, 2, 2, 0], "lossy": [35, 25, 20, 15, 5, 0, 0],
         "dup": [30, 5, 5, 25, 35, 0, 0], "busy": [40, 10, 5, 10, 5, 30, 0],
         "hostile": [30, 12, 10, 15, 15, 12, 6]}[mood]
    kind = rng.choices(["ok", "reqlost", "replylost", "delayed", "dup", "retry", "fatal"], weights=w)[0]
    if kind == "ok":
        return kind, {"lost": False, "replies": [[lat(), None]]}
    if kind == "reqlost":
        return kind, {"lost": True, "replies": []}
    if kind == "replylost":
        return kind, {"lost": False, "replies": []}
    if kind == "delayed":
        return kind, {"lost": False, "replies": [[rng.randint(1, 3) * T + rng.randint(0, 3), None]]}
    if kind == "dup":
        first = lat()
        reps = [[first, None]] + [[first + rng.choice([0, 1, T, rng.randint(0, 6 * T)]), None]
                                  for _ in range(rng.choice([1, 1, 2]))]
        return kind, {"lost": False, "replies": reps}
    if kind == "retry":
        reps = [[lat(), rng.choice(sorted(RC_RETRYABLE))]]
        if rng.random() < 0.3:                       # the busy answer is followed by a late real one
            reps.append([rng.randint(1, 3 * T), None])
        return kind, {"lost": False, "replies": reps}
    return kind, {"lost": False, "replies": [[lat(), rng.choice(FATAL_POOL)]]}


def gen_case(rng, idx):
    T = rng.choice([4, 10, 10, 25])
    n_tries = rng.choice([1, 2, 3, 3, 4, 5])
    adv = rng.choice([0, 0, 0, rng.randint(1, 65535), 65535, 65534, 65536 - rng.randint(1, 12),
                      65536 + rng.randint(0, 5)])
    ops, nid, ncmds = [], 0, 0
    for _ in range(rng.choice([1, 1, 2, 2, 3])):
        if ops and rng.random() < 0.35:
            ops.append({"op": "idle", "dt": rng.choice([1, T, 3 * T, 7 * T])})
        if rng.random() < 0.2:
            ops.append({"op": "scp", "id": nid, "extra": rng.choice([0, 0, 2, T]), "nargs": rng.randint(0, 3)})
            nid += 1
            ncmds += 1
        else:
            n = rng.choice([0, 1, 1, 2, 3, 4, 5, 6, 8, 10, 12]) if rng.random() < 0.8 else rng.randint(0, 12)
            cmds = [[nid + i, rng.choice([0, 0, 0, 1, 2, T, 3 * T])] for i in range(n)]
            nid += n
            ncmds += n
            ops.append({"op": "burst", "window": rng.randint(1, 8), "cmds": cmds, "shared_payload": rng.random() < 0.5})
    if rng.random() < 0.45:                       # user code that takes time: the iterable, the callbacks
        for op in ops:
            if op["op"] == "idle":
                continue
            ids_ = [i for i, _ in op_cmds(op)]
            pick = lambda: rng.choice([1, 1, 2, T // 2, T - 1, T, T + 1, 2 * T, 3 * T])
            if op["op"] == "burst":
                op["iter"] = dict((str(i), pick()) for i in ids_ if rng.random() < 0.4)
            op["cb"] = dict((str(i), pick()) for i in ids_ if rng.random() < 0.4)
    sizes = [16, 64, 100, 120, 128, 230, 240, 256, 256, 500]
    style = rng.choice(["same", "same", "independent", "growing", "shrinking"])
    base = rng.choice(sizes)
    calls = [op for op in ops if op["op"] != "idle"]
    drawn = sorted(rng.choice(sizes) for _ in calls)
    for i, op in enumerate(calls):                # buffer_size is a per-call argument
        op["buffer_size"] = {"same": base, "independent": rng.choice(sizes), "growing": drawn[i],
                             "shrinking": drawn[-1 - i]}[style]
    max_tx = ncmds * n_tries + 2
    raw = rng.random() < 0.2
    if raw:
        events, t = [], 0
        for _ in range(rng.randint(2, 6 + 3 * ncmds)):
            ds = []
            for _ in range(rng.choice([0, 0, 1, 1, 1, 2, 3])):
                k = rng.randint(0, max_tx)
                r = rng.random()
                rc = RC_OK if r < 0.8 else rng.choice(sorted(RC_RETRYABLE)) if r < 0.93 else rng.choice(FATAL_POOL)
                ds.append({"rc": rc, "tx": k, "src": k})
            t = max(0, t + rng.choice([0, 0, 1, 1, 2, T - 1, T, T + 1, T + 2, 2 * T, 4 * T, -1]))
            events.append([ds, t])
        policy = {"kind": "raw", "events": events, "pad": ncmds * n_tries + 3 * len(ops) + 4, "pad_step": 8 * T + 50}
        mood = "raw"
    else:
        mood = rng.choice(["clean", "lossy", "lossy", "dup", "dup", "busy", "hostile", "hostile"])
        plan = {}
        for k in range(max_tx + 4):
            kind, o = gen_outcome(rng, T, mood)
            if kind != "ok" or o["replies"][0][0] != 1:
                plan[str(k)] = o
        if mood in ("clean", "lossy", "dup") and rng.random() < 0.15 and max_tx > 2:
            plan[str(rng.randint(0, max_tx - 1))] = {"lost": False, "replies": [[1, rng.choice(FATAL_POOL)]]}
        policy = {"kind": "sim", "plan": plan, "exact": [k for k in range(4 * max_tx + 8) if rng.random() < 0.12],
                  "late": dict((str(k), rng.choice([1, 2, T - 1, T, 2 * T + 1]))
                               for k in range(4 * max_tx + 8) if rng.random() < 0.08),
                  "max_selects": 40 * max_tx + 200}
    return {"n_tries": n_tries, "timeout": T, "advance_seq": adv, "policy": policy, "ops": ops, "mood": mood,
            "idx": idx, "buffer_size": base, "positional": rng.random() < 0.5}


def special_cases(tier):
    """Long schedules that take the 16-bit sequence counter once round."""
    n = 65537
    # K2: window 1, the reply to the first transmission is duplicated; the copy arrives when the sequence
    # number of command 0 has come round to command 65536 and that command is waiting for its own reply.
    wrap = {"n_tries": 2, "timeout": 10, "advance_seq": 0, "mood": "seq-wrap-duplicate", "idx": -1,
            "policy": {"kind": "sim",
                       # further copies arrive after 2^k commands, k = 4..15: a shortened sequence mask would accept them
                       "plan": {"0": {"lost": False, "replies": [[1, None]] + [[2 ** j + 1, None] for j in range(4, 17)]}},
                       "exact": [], "max_selects": 3 * n},
            "ops": [{"op": "burst", "window": 1, "cmds": [], "cmds_range": [0, n, 0]}]}
    # skip rule: `stuck` commands with ADJACENT sequence numbers (long extra timeout, requests lost) stay
    # outstanding while 65 540 other commands go round the counter through the last window slot: all their
    # numbers must be skipped (a single skip is not enough), then they are retransmitted and answered.
    def skip(stuck, idx):
        return {"n_tries": 2, "timeout": 10, "advance_seq": 3, "mood": "seq-wrap-skip-%d" % stuck, "idx": idx,
                "policy": {"kind": "sim", "plan": dict((str(i), {"lost": True, "replies": []}) for i in range(stuck)),
                           "exact": [], "max_selects": 3 * n},
                "ops": [{"op": "burst", "window": stuck + 1, "cmds": [[i, 200000] for i in range(stuck)],
                         "cmds_range": [stuck, n + 3, 0]}]}
    return [wrap, skip(2, -2), skip(3, -3)]


def history_cases():
    """State carried on the reused connection object between calls: histories of 2-4 calls on ONE connection
    whose buffer sizes change from call to call (growing and shrinking across powers of two), every reply a full
    buffer, no faults; a call that raised (lost request, 1 try) sits in the middle of half of them."""
    out, idx = [], 2000000
    for sizes in ([128, 256], [16, 256], [100, 500], [256, 16], [500, 120, 500], [64, 128, 256, 500], [230, 240, 256],
                  [500, 256, 128, 64]):
        for broken in (False, True):
            ops, nid, plan, ntx = [], 0, {}, 0
            for j, bsz in enumerate(sizes):
                if broken and j == 1:              # this call ends in the timeout error, the next ones go on
                    ops.append({"op": "burst", "window": 2, "cmds": [[nid, 0], [nid + 1, 0]], "buffer_size": bsz})
                    plan[str(ntx)] = {"lost": True, "replies": []}
                    nid, ntx = nid + 2, ntx + 2
                n = 3 + j
                ops.append({"op": "burst" if j % 3 != 2 else "scp", "window": 1 + j, "buffer_size": bsz,
                            "cmds": [[nid + i, 0] for i in range(n)], "id": nid, "extra": 0, "nargs": 3})
                if ops[-1]["op"] == "scp":
                    n = 1
                nid, ntx = nid + n, ntx + n
            out.append({"n_tries": 1, "timeout": 10, "advance_seq": 0, "mood": "history", "idx": idx, "buffer_size": 256,
                        "positional": broken,
                        "policy": {"kind": "sim", "plan": plan, "exact": [], "max_selects": 400,
                                   "full_replies": True},
                        "ops": ops})
            idx += 1
    return out


def slow_user_code_cases():
    """The clock advances while user code runs.  (1) a slow command iterable: the deadline of a command counts from
    its own transmission; (2) a slow callback overlapping the in-time reply of another command that is on its last
    transmission: the reply is in the socket before that command's timeout expires."""
    out, idx, T = [], 3000000, 10
    for tries in (1, 2, 3):
        for it in (3, T - 1, T, 2 * T):
            # commands 0..3, all slow to yield; requests of 1 and 2 lost on every try but the last
            plan = dict((str(k), {"lost": True, "replies": []}) for k in (1, 2))
            out.append({"n_tries": tries, "timeout": T, "advance_seq": 0, "mood": "slow-iterable", "idx": idx,
                        "buffer_size": 256, "positional": False,
                        "policy": {"kind": "sim", "plan": plan, "exact": [], "max_selects": 300},
                        "ops": [{"op": "burst", "window": 3, "cmds": [[i, i % 2] for i in range(4)],
                                 "iter": dict((str(i), it) for i in range(4)), "cb": {}}]})
            idx += 1
        for cbd in (T - 2, T + 5, 3 * T):
            for lat in (2, T - 1, T):
                # command 0 answered at once, its callback runs for cbd ticks; command 1's reply to its LAST
                # transmission arrives lat ticks after that transmission (within its timeout)
                # transmissions: 0 = command 0, 1 .. tries = command 1 (all but the last lost); command 0 (long
                # extra timeout) is answered just after command 1's last transmission at (tries - 1) * (T + 1)
                plan = dict((str(k), {"lost": True, "replies": []}) for k in range(1, tries))
                plan[str(tries)] = {"lost": False, "replies": [[lat, None]]}
                if tries > 1:
                    plan["0"] = {"lost": False, "replies": [[1 + (tries - 1) * (T + 1), None]]}
                out.append({"n_tries": tries, "timeout": T, "advance_seq": 0, "mood": "slow-callback", "idx": idx,
                            "buffer_size": 256, "positional": False,
                            "policy": {"kind": "sim", "plan": plan, "exact": [], "max_selects": 300},
                            "ops": [{"op": "burst", "window": 2, "cmds": [[0, 5 * T if tries > 1 else 0], [1, 0]],
                                     "iter": {}, "cb": {"0": cbd}}]})
                idx += 1
    return out


def busy_ahead_cases():
    """A busy (retryable) reply queued AHEAD of the in-time OK reply to another command that is on its last try
    and whose deadline has passed while a slow callback ran: both are read in one pass; the busy one is dropped,
    the OK one completes its command.  Command 2 (long extra timeout) gets the busy answer and a late real one."""
    out, idx, T = [], 5000000, 10
    for tries in (1, 2):
        for busy in sorted(RC_RETRYABLE):
            for cbd in (T + 5, 3 * T):
                for gap in (0, 1):
                    # tx0 = command 0 (answered at once, slow callback); tx1 = command 1, tx2 = command 2;
                    # tries 2: command 1's first request is lost, its retransmission is tx3 at T + 1
                    base = 0 if tries == 1 else T + 1
                    last1 = 1 if tries == 1 else 3
                    plan = {"2": {"lost": False, "replies": [[base + 3, busy], [base + 6 * T, None]]},
                            str(last1): {"lost": False, "replies": [[3 + gap, None]]}}
                    if tries == 2:
                        plan["1"] = {"lost": True, "replies": []}
                        plan["0"] = {"lost": False, "replies": [[base + 1, None]]}
                    out.append({"n_tries": tries, "timeout": T, "advance_seq": 0, "mood": "busy-ahead", "idx": idx,
                                "buffer_size": 256, "positional": False,
                                "policy": {"kind": "sim", "plan": plan, "exact": [], "max_selects": 300},
                                "ops": [{"op": "burst", "window": 3, "cmds": [[0, 20 * T], [1, 0], [2, 20 * T]],
                                         "iter": {}, "cb": {"0": cbd}}]})
                    idx += 1
    return out


def shared_payload_cases():
    """A lazy producer that reuses ONE mutable buffer for the data of every command; first transmissions lost, so
    that commands are retransmitted after the buffer has been refilled: every transmission must still be the
    command as submitted."""
    out, idx, T = [], 4000000, 10
    for window in (2, 3, 5):
        for lost in ([0], [1], [0, 2], [1, 2, 3]):
            out.append({"n_tries": 3, "timeout": T, "advance_seq": 65534, "mood": "shared-payload", "idx": idx,
                        "buffer_size": 256, "positional": False,
                        "policy": {"kind": "sim", "plan": dict((str(k), {"lost": True, "replies": []}) for k in lost),
                                   "exact": [], "max_selects": 300},
                        "ops": [{"op": "burst", "window": window, "shared_payload": True,
                                 "cmds": [[i, 0] for i in (3, 4, 5, 18, 9, 10, 31, 2)]}]})
            idx += 1
    return out


def enumerated_cases(tier):
    """Exhaustive small domain: 1 or 2 commands, window 1..2, tries 1..3 (1..2 for two commands), every
    assignment of {ok, request lost, reply one tick late, duplicated, busy, fatal} to the possible
    transmissions.  quick: the part with at most 2 possible transmissions."""
    import itertools
    T = 4
    kinds = [None,                                               # ok after one tick
             {"lost": True, "replies": []},
             {"lost": False, "replies": [[T + 1, None]]},        # arrives just after the retransmission
             {"lost": False, "replies": [[1, None], [T + 2, None]]},
             {"lost": False, "replies": [[1, 0x8d]]},
             {"lost": False, "replies": [[2, 0x88]]}]
    out, idx = [], 1000000
    for ncmd, tries_range in ((1, (1, 2, 3)), (2, (1, 2))):
        for tries in tries_range:
            if tier == "quick" and ncmd * tries > 2:
                continue
            for window in ((1,) if ncmd == 1 else (1, 2)):
                for combo in itertools.product(range(len(kinds)), repeat=ncmd * tries):
                    plan = dict((str(k), kinds[j]) for k, j in enumerate(combo) if kinds[j] is not None)
                    out.append({"n_tries": tries, "timeout": T, "advance_seq": 65535, "mood": "enumerated", "idx": idx,
                                "buffer_size": 256,
                                "policy": {"kind": "sim", "plan": plan, "exact": [], "max_selects": 200},
                                "ops": [{"op": "burst", "window": window, "cmds": [[i, i] for i in range(ncmd)]}]})
                    idx += 1
    return out


# ------------------------------------------------------------------------------------------ Coq literals
def coq_dg(d):
    return "(Dg %s %s %s)" % (zlit(d[0]), zlit(d[1]), zlit(d[2]))


def coq_output(t):
    if t[0] == "send":
        return "OSend %s %s %s %s" % (zlit(t[1]), zlit(t[2]), zlit(t[3]), zlit(t[4]))
    if t[0] == "select":
        return "OSelect %s" % zlit(t[1])
    if t[0] == "recv":
        return "ORecv %s" % coq_dg(t[1:4])
    return "OCallback %s %s" % (zlit(t[1]), coq_dg(t[2:5]))


def coq_outcome(o):
    if o[0] == "return":
        return "Returned"
    if o[0] == "timeout":
        return "RaisedTimeout %s" % zlit(o[1])
    if o[0] == "fatal":
        return "RaisedFatal %s %s" % (zlit(o[1]), "None" if o[2] is None else "(Some %s)" % zlit(o[2]))
    if o[0] == "stuck":
        return "NeedEvent"
    if o[0] == "other" and o[1] == "KeyError" and o[2].startswith("<SCPReturnCodes."):
        return "RaisedKeyError %s" % zlit(int(o[2].split(":")[1].strip(" >")))
    return None


def calls_of(c):
    """(op, idle before it) for the ops that call the connection"""
    out, idle = [], 0
    for op in c["ops"]:
        if op["op"] == "idle":
            idle += op["dt"]
        else:
            out.append((op, idle))
            idle = 0
    return out


def op_cmds(op):
    """[[identity, extra timeout]] of a call; "cmds_range": [first, n, extra] appends n consecutive identities"""
    if op["op"] != "burst":
        return [[op["id"], op["extra"]]]
    first, n, extra = op.get("cmds_range", [0, 0, 0])
    return op["cmds"] + [[first + i, extra] for i in range(n)]


def coq_events(events):
    """Event list as a Coq term; long runs of single-OK-datagram events whose fields advance by one are
    written ERun n rc seq src time."""
    items, i = [], 0
    while i < len(events):
        ds, t = events[i]
        j = i
        if len(ds) == 1:
            rc, s, x = ds[0]
            while (j + 1 < len(events) and events[j + 1][1] == t + (j + 1 - i) and len(events[j + 1][0]) == 1 and
                   events[j + 1][0][0] == [rc, (s + j + 1 - i) % 65536, x + j + 1 - i]):
                j += 1
        if j - i >= 16:
            rc, s, x = ds[0]
            items.append("ERun %d%%N %s %s %s %s" % (j - i + 1, zlit(rc), zlit(s), zlit(x), zlit(t)))
            i = j + 1
        else:
            items.append("ELit (Ev %s %s)" % (vlist(coq_dg(d) for d in ds), zlit(t)))
            i += 1
    return "(expand_events %s)" % vlist(items)


def coq_cmds(cmds):
    items, i = [], 0
    while i < len(cmds):
        j = i
        while j + 1 < len(cmds) and cmds[j + 1] == [cmds[i][0] + j + 1 - i, cmds[i][1]]:
            j += 1
        if j - i >= 16:
            items.append("CRun %d%%N %s %s" % (j - i + 1, zlit(cmds[i][0]), zlit(cmds[i][1])))
            i = j + 1
        else:
            items.append("CLit (Cmd %s %s)" % (zlit(cmds[i][0]), zlit(cmds[i][1])))
            i += 1
    return "(expand_cmds %s)" % vlist(items)


DIGEST_MOD = 2 ** 63
TAIL = 24


def digest(trace):
    h = 0
    for t in trace:
        xs = {"send": [1] + t[1:5], "select": [2, t[1]], "recv": [3] + t[1:4], "cb": [4] + t[1:5]}[t[0]]
        for x in xs:
            h = (h * 1000003 + x + 7) % DIGEST_MOD
    return h


def coq_calls(c, res):
    """-> (Coq term of the connection and its calls, Coq term of what the implementation did, long?).
    Long traces are compared through (digest, length, last outputs, outcome)."""
    calls, obs = [], []
    long = any(len(b["trace"]) > 4000 for b in res["bursts"])
    for (op, idle), b in zip(calls_of(c), res["bursts"]):
        w = op["window"] if op["op"] == "burst" else 1
        durs = lambda d: vlist("(%s, %s)" % (zlit(int(i)), zlit(v)) for i, v in sorted(d.items(), key=lambda kv: int(kv[0])))
        calls.append("(Call (Cf %s %s %s %s %s) %s %s %s)" % (
            zlit(w), zlit(c["n_tries"]), zlit(c["timeout"]), durs(op.get("iter", {})), durs(op.get("cb", {})),
            coq_cmds(op_cmds(op)), zlit(idle),
            coq_events(b["events"])))
        oc = coq_outcome(b["outcome"])
        if oc is None or any(t[0] == "select" and not isinstance(t[1], int) for t in b["trace"]):
            return None, None, long
        if long:
            obs.append("(%s, N.to_nat %d%%N, %s, %s, 0%%nat)" % (zlit(digest(b["trace"])), len(b["trace"]),
                                                        vlist(coq_output(t) for t in b["trace"][-TAIL:]), oc))
        else:
            obs.append("(%s, %s, 0%%nat)" % (vlist(coq_output(t) for t in b["trace"]), oc))
    return "(conn_after %d%%N) %s" % (c.get("advance_seq", 0), vlist(calls)), vlist(obs), long


# ------------------------------------------------------------------------------------------ independent oracle
def expected_hash(cid):
    b = scpsim.make_request(scpsim.cmd_fields(cid), 0)
    return hashlib.sha1(b[:12] + b[14:]).hexdigest()[:10]


def oracle(c, res):
    """Decide C06's sentences on what the real connection did.  Returns [(key, message, burst index)].
    Uses only the case (commands, window, tries, timeouts) and the observed trace; transmissions are
    identified by their index on the connection, and every simulated reply says which transmission caused it."""
    bad = []
    tx_info = {}                      # transmission index -> (cmd, seq, time)   (whole connection)
    first_tx = {}                     # cmd -> index of its first transmission
    n_tries, T = c["n_tries"], c["timeout"]
    for bi, ((op, _), b) in enumerate(zip(calls_of(c), res["bursts"])):
        def fail(key, msg):
            bad.append((key, msg, bi))
        cmds = op_cmds(op)
        ids = [i for i, _ in cmds]
        extra = dict((i, e) for i, e in cmds)
        window = op["window"] if op["op"] == "burst" else 1
        tr, oc = b["trace"], b["outcome"]
        # --- termination and the kind of ending
        if oc[0] in ("stuck", "hang"):
            fail("no-termination", "the call did not return although the clock kept passing every deadline")
            continue
        if oc[0] == "other":
            fail("unexpected-exception:" + oc[1], "raised %s (%s): neither the timeout nor the fatal-return-code error"
                 % (oc[1], oc[2]))
            continue
        sends = {}                    # cmd -> [(tx, seq, time)]
        seqof = {}
        unanswered = set()
        answered = set()              # commands for which an OK reply caused by one of their own transmissions arrived
        received = []                 # datagrams received so far in this call
        received_set = set()
        received_whole = set()        # (rc, seq, src, digest of all the bytes)
        called = {}                   # cmd -> [datagram]
        fatal_seen = None
        for pos, t in enumerate(tr):
            if t[0] == "send":
                _, tx, cid, seq, now, h = t
                if cid <= -1000000:                # the driver: not the datagram of command arg1 as submitted
                    cid = -1000000 - cid
                    fail("send-bytes", "transmission %d of command %d is not the datagram of that command as submitted"
                         % (tx, cid))
                    h = expected_hash(cid) if cid in extra else h
                if cid not in extra:
                    fail("send-unknown-command", "transmission %d carries command %r, not a command of this burst" % (tx, cid))
                    continue
                if h != expected_hash(cid):
                    fail("send-bytes", "transmission %d of command %d is not the datagram of that command" % (tx, cid))
                tx_info[tx] = (cid, seq, now)
                first_tx.setdefault(cid, tx)
                if cid in sends:
                    ptx, pseq, pnow = sends[cid][-1]
                    if seq != pseq:
                        fail("retransmit-differs", "command %d retransmitted with sequence number %d, first sent with %d"
                             % (cid, seq, pseq))
                    if now - pnow < T + extra[cid]:
                        fail("retransmit-early", "command %d (timeout %d) sent at %d and again at %d: before its timeout elapsed"
                             % (cid, T + extra[cid], pnow, now))
                    if len(sends[cid]) + 1 > n_tries:
                        fail("retransmit-too-often", "command %d transmitted %d times, tries = %d"
                             % (cid, len(sends[cid]) + 1, n_tries))
                    if cid in called:
                        pass          # not excluded by the property's wording
                else:
                    unanswered.add(cid)
                    seqof[cid] = seq
                sends.setdefault(cid, []).append((tx, seq, now))
                if len(unanswered) > window:
                    fail("window-exceeded", "%d commands unanswered %r with window %d (after transmission %d)"
                         % (len(unanswered), sorted(unanswered), window, tx))
            elif t[0] == "recv":
                rc, seq, src = t[1:4]
                received.append((rc, seq, src))
                received_set.add((rc, seq, src))
                received_whole.add(tuple(t[1:5]))
                if fatal_seen is not None:
                    pass
                if rc == RC_OK:
                    if src in tx_info and tx_info[src][0] in unanswered:
                        unanswered.discard(tx_info[src][0])
                        answered.add(tx_info[src][0])
                    elif src in tx_info:
                        answered.add(tx_info[src][0])
                elif rc not in RC_RETRYABLE and fatal_seen is None:
                    fatal_seen = (pos, rc)
            elif t[0] == "cb":
                cid, d = t[1], tuple(t[2:5])
                if cid not in extra:
                    fail("callback-unknown-command", "callback of %r invoked, not a command of this burst" % cid)
                    continue
                called.setdefault(cid, []).append(d)
                if len(called[cid]) > 1:
                    fail("callback-twice", "callback of command %d invoked %d times" % (cid, len(called[cid])))
                rc, seq, src = d
                if d not in received_set:
                    fail("callback-invented-reply", "callback of command %d given a datagram that was not received" % cid)
                elif tuple(t[2:6]) not in received_whole:
                    fail("callback-truncated-reply", "callback of command %d given only part of the reply datagram "
                         "(transmission %r)" % (cid, src))
                elif rc != RC_OK:
                    fail("callback-non-ok-reply", "callback of command %d given a reply with return code %#x" % (cid, rc))
                elif src not in tx_info or tx_info[src][0] != cid:
                    other = tx_info.get(src, (None, None, None))[0]
                    apart = None if other is None or cid not in first_tx else first_tx[cid] - src
                    if other is not None and tx_info[src][1] == seqof.get(cid) and apart is not None and apart >= 65536:
                        fail("seq-wrap-stale-duplicate",
                             "callback of command %d received the reply to command %d (transmission %d): a duplicate "
                             "delivered after the 16-bit sequence number %d had come round to command %d"
                             % (cid, other, src, seq, cid))
                    else:
                        fail("callback-wrong-reply", "callback of command %d received the reply to transmission %r "
                             "(command %r)" % (cid, src, other))
            if fatal_seen is not None and pos > fatal_seen[0]:
                fail("fatal-not-raised", "return code %#x received but the call went on (%r follows)" % (fatal_seen[1], t))
                break
        # --- endings
        if fatal_seen is not None:
            if oc[0] != "fatal" or oc[1] != fatal_seen[1]:
                fail("fatal-not-raised", "return code %#x received; the call ended with %r, not the fatal-return-code error"
                     % (fatal_seen[1], oc))
        elif oc[0] == "fatal":
            fail("fatal-spurious", "fatal-return-code error %r raised but no datagram with a fatal code was received "
                 "(received %r)" % (oc, received[-3:]))
        if oc[0] == "return":
            for cid in ids:
                if len(called.get(cid, [])) != 1:
                    fail("callback-count", "burst completed; callback of command %d invoked %d times"
                         % (cid, len(called.get(cid, []))))
            if len(set(ids)) != len(ids):
                fail("generator", "duplicate command identities")
            if op["op"] == "scp":
                ret = b["ret"]
                import struct
                raws = [bytes.fromhex(h) for ds in b["raw_replies"] for h in ds]
                want = [scpsim.decode(r) for r in raws
                        if [scpsim.decode(r)["cmd_rc"], scpsim.decode(r)["seq"]] == [ret["cmd_rc"], ret["seq"]]]
                got = b"".join(struct.pack("<I", a) for a in ret["args"]) + bytes.fromhex(ret["data"])
                if not any(w["payload"] == got and w["cmd_rc"] == RC_OK and
                           tx_info.get(w["args"][0], (None,))[0] == op["id"] for w in want):
                    fail("send_scp-wrong-packet", "send_scp returned %r, not the reply to its command" % (ret,))
        elif oc[0] == "timeout":
            cid = oc[1]
            if cid not in extra:
                fail("timeout-unknown-command", "timeout error names %r" % (cid,))
            else:
                if len(sends.get(cid, [])) != n_tries:
                    fail("timeout-tries", "timeout error for command %d after %d transmissions, tries = %d"
                         % (cid, len(sends.get(cid, [])), n_tries))
                if cid in answered:
                    fail("timeout-despite-reply", "timeout error for command %d although its reply had been received" % cid)
                elif sends.get(cid):
                    # a reply that had reached the socket before the command's last timeout expired counts as received
                    t_last = sends[cid][-1][2]
                    for arrival, rc, seq, src in b.get("pending") or []:
                        if rc == RC_OK and tx_info.get(src, (None,))[0] == cid and arrival <= t_last + T + extra[cid]:
                            fail("timeout-despite-reply-in-socket",
                                 "timeout error for command %d (last sent at %d, timeout %d) although the reply to its "
                                 "transmission %d had arrived at %d and was waiting in the socket"
                                 % (cid, t_last, T + extra[cid], src, arrival))
                            break
    return bad


def stats(c, res, chk):
    nontriv = False
    for (op, _), b in zip(calls_of(c), res["bursts"]):
        chk.count("call:" + op["op"])
        chk.count("outcome:" + b["outcome"][0])
        n = len(op_cmds(op))
        chk.count("cmds:%s" % ("0" if n == 0 else "1" if n == 1 else "2-4" if n <= 4 else "5-12" if n <= 12 else ">12"))
        nsend = sum(1 for t in b["trace"] if t[0] == "send")
        nrecv = sum(1 for t in b["trace"] if t[0] == "recv")
        ncb = sum(1 for t in b["trace"] if t[0] == "cb")
        if nsend > n:
            chk.count("calls-with-retransmission")
        if nrecv > ncb:
            chk.count("calls-with-ignored-datagram")
        if b["start"]["buf"] or any(t[0] == "recv" and t[3] < b["start"]["ntx"] for t in b["trace"]):
            chk.count("calls-receiving-replies-of-an-earlier-call")
        if n >= 2 and (nsend > n or nrecv > ncb or b["outcome"][0] != "return"):
            nontriv = True
    return nontriv


# ------------------------------------------------------------------------------------------ the check
def run(chk, args):
    chk.trusted += ["harness/scpsim.py: scripted socket / select / clock (the environment of the real SCPConnection)",
                    "CPython dict insertion order (outstanding_packets) mirrored by a list"]
    chk.assumptions += [
        "the clock is read as an integer number of ticks; it moves inside select, while the command iterable yields a "
        "command and inside callbacks (scripted per-command durations, mirrored by the model: every clock reading of "
        "send_scp_burst -- deadline of a new command, select timeout, retransmission scan -- is covered in the order "
        "the code makes it); time passing between two adjacent statements of the library itself is not modelled",
        "datagrams are at least 14 bytes and not longer than the receive length; callbacks do not raise and do not "
        "use the connection; 1 <= window <= 65536, tries >= 1",
        "the network may lose, duplicate, delay and reorder but not forge datagrams (Causal); reply_matches needs "
        "Fresh (no reply delivered after its sequence number was re-issued), refuted without it"]
    chk.regenerate(UNITS)
    chk.prove()
    if args.replay:
        j = json.load(open(args.replay))
        cases = [f["replay"]["case"] for f in j.get("failures", []) + j.get("no_longer_checks", [])
                 if "case" in f.get("replay", {})]
    else:
        n = 1300 if chk.tier == "quick" else 40000
        cases = special_cases(chk.tier) + history_cases() + slow_user_code_cases() + shared_payload_cases() + busy_ahead_cases() + enumerated_cases(chk.tier) + [gen_case(chk.rng, i) for i in range(n)]
    corpus = os.path.join(lib.VERIF, "corpus", "C06.json")
    if os.path.exists(corpus):
        cases = json.load(open(corpus)) + cases
    big = [c for c in cases if c["idx"] < 0]
    small = [c for c in cases if c["idx"] >= 0]
    import time
    t0 = time.time()
    chunks = [[c] for c in big] + [small[i:i + 125] for i in range(0, len(small), 125)]
    outs = [o for part in chk.impl_parallel("impl_c06.py", chunks) for o in part]
    t_impl = time.time() - t0
    t0 = time.time()
    outs = outs[len(big):] + outs[:len(big)]                    # small cases are examined (and reported) first
    cases = small + big
    exprs, idx = [], []
    for c, res in zip(cases, outs):
        if res == ["skipped"]:
            continue
        if res == ["hang"]:
            chk.fail_input("no-termination", "the connection did not finish within the per-case time limit",
                           dict(case=c))
            continue
        chk.count("mood:" + c["mood"])
        chk.note_case(c, stats(c, res, chk))
        for key, msg, bi in oracle(c, res):
            chk.fail_input(key, msg, dict(case=c, call=bi, observed=res["bursts"][bi]["trace"][-40:],
                                          outcome=res["bursts"][bi]["outcome"]))
        k, obs, long = coq_calls(c, res)
        if k is None:
            chk.disagree("implementation ended in a way the model does not have: %r" %
                         [b["outcome"] for b in res["bursts"]], dict(case=c))
            continue
        exprs.append(("agrees_summary %d%%nat %s %s" % (TAIL, k, obs)) if long else ("agrees %s %s" % (k, obs)))
        idx.append((c, res, k, long))
    mid = cases[min(len(cases) - 1, 5)]
    chk.sample(dict(case=mid, implementation=[dict(outcome=b["outcome"], trace=b["trace"][:30])
                                              for b in outs[min(len(cases) - 1, 5)]["bursts"]]))
    t_oracle = time.time() - t0
    t0 = time.time()
    if chk.model_ok:
        try:
            header = ("From Coq Require Import ZArith List. Import ListNotations. Open Scope Z_scope.\n"
                      "Require Import Rig.Model.Base Rig.Model.SCP.\nUnset Printing Records.\n")
            cost = [len(res["bursts"][0]["trace"]) if long else len(e) // 40 for e, (c, res, k, long) in zip(exprs, idx)]
            order = sorted(range(len(exprs)), key=lambda i: -cost[i])
            nsh = max(1, min(40, len(exprs) // 40))
            shards = [order[i::nsh] for i in range(nsh)]          # costly ones first, spread over the shards
            size = max(len(s) for s in shards)
            laid, back = [], []
            for s in shards:                                     # coq_eval cuts consecutive shards of `size`
                for j in range(size):
                    laid.append(exprs[s[j]] if j < len(s) else "true")
                    back.append(s[j] if j < len(s) else None)
            got = chk.coq_eval(header, laid, shard=size, timeout=1500, name="scp")
            vals = [None] * len(exprs)
            for v, bk in zip(got, back):
                if bk is not None:
                    vals[bk] = v
            ndis = 0
            for (c, res, k, long), v in zip(idx, vals):
                chk.traces_validated += len(res["bursts"])
                if v is not True:
                    ndis += 1
                    if ndis <= 3:
                        try:
                            model = chk.coq_eval(header, [("map (summary %d%%nat) (run_conn %s)" % (TAIL, k)) if long
                                                          else "run_conn %s" % k], name="scp_dis%d" % ndis)[0]
                        except Exception as e:      # noqa
                            model = "model evaluation failed: %s" % e
                        small_model = json.loads(json.dumps(model, default=str))
                        chk.disagree("send_scp_burst: trace of the implementation differs from the model's (case %d)" % c["idx"],
                                     dict(case=c, observed=[dict(outcome=b["outcome"], trace=b["trace"][-60:]) for b in res["bursts"]],
                                          model=str(small_model)[-6000:]))
            if not ndis:
                chk.oblige("correspondence:send_scp_burst (%d connections, %d calls: exact equality of sends, select "
                           "timeouts, receives, callbacks, exception)" % (len(idx), chk.traces_validated), True)
        except RuntimeError as e:
            chk.oblige("correspondence:model-evaluates", False, str(e))
    chk.coverage["phases_s"] = dict(implementation=round(t_impl, 1), oracle_and_literals=round(t_oracle, 1),
                                    model_in_coq=round(time.time() - t0, 1))
    chk.coverage["rule"] = (
        "random connections (1300 quick / 40000 thorough): 1-3 calls (send_scp_burst with 0-12 commands, window 1-8; send_scp), tries 1-5, timeout "
        "4/10/25 ticks, per-command extra timeouts, sequence counter pre-advanced (often to the wrap), idle gaps; "
        "80% fault simulations (per-transmission outcome ok / request lost / reply lost / delayed 1-3 timeouts / "
        "duplicated / retryable rc / fatal rc, select waking exactly at or one tick after the deadline, late replies "
        "crossing into the next call), 20% raw event scripts (arbitrary duplication and reordering, clock steps "
        "including backwards), in 45% of them slow user code (the iterable takes 1..3T ticks to yield a command, a "
        "callback runs 1..3T ticks, replies arriving meanwhile), the buffer size an argument of each call (same / independent / growing / shrinking along "
        "the connection, two replies in five a full buffer), half the connections constructed positionally; 16 directed "
        "histories of 2-4 calls with changing buffer sizes and full-size replies, some across a call that raised; 39 directed slow-iterable / slow-callback cases; in half the bursts the data of every command is ONE reused "
        "mutable buffer refilled by a lazy producer (12 directed cases with lost first transmissions); plus three 65 537-command schedules that take the sequence counter round (two or three commands with adjacent "
        "sequence numbers stuck across the wrap; one with copies "
        "of a reply arriving after 2^k commands, k = 4..16) and an exhaustive enumeration (1-2 commands, window 1-2, "
        "tries <= 3, six outcomes per possible transmission; the quick tier takes its part with <= 2 transmissions). "
        "non-trivial = a call with >= 2 commands and a retransmission, an ignored datagram or an exception; "
        "distinct by hash of the whole case")
