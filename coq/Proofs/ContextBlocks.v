(* C18 -- histories: leaving a block (normally or by exception, at any depth) restores the stack;
   an application block sends exactly one stop on the way out. *)
From Coq Require Import ZArith List Bool String Lia.
Require Import Rig.Model.Base Rig.Generated.GenSignatures Rig.Model.Context Rig.Spec.Context Rig.Proofs.Context.
Import ListNotations.
Open Scope string_scope.
Open Scope list_scope.
Open Scope Z_scope.

Definition st (r : res) : stack := snd (fst r).

(* same length, same contexts below the innermost one *)
Definition same_below (s s' : stack) : Prop :=
  removelast s' = removelast s /\ List.length s' = List.length s.

Lemma same_below_refl : forall s, same_below s s.
Proof. intros. split; reflexivity. Qed.

Lemma same_below_trans : forall a b c, same_below a b -> same_below b c -> same_below a c.
Proof. intros a b c [H1 H2] [H3 H4]. split; congruence. Qed.

Lemma same_below_snoc : forall s a s2, same_below (s ++ [a]) s2 -> exists a', s2 = s ++ [a'].
Proof.
  intros s a s2 [H1 H2]. rewrite removelast_last in H1.
  destruct (exists_last (l := s2)) as [l [a' E]].
  - intros E. subst s2. rewrite app_length in H2. simpl in H2. lia.
  - subst s2. rewrite removelast_last in H1. subst l. eauto.
Qed.

(* induction over histories (blocks nest lists of ops) *)
Fixpoint op_ind' (Q : op -> Prop)
  (HC : forall m pos kw pr, Q (OCall m pos kw pr))
  (HF : forall m pos kw, Q (OCallRefused m pos kw))
  (HW : forall kw blk, Forall Q blk -> Q (OWith kw blk))
  (HA : forall pos kw blk intr, Forall Q blk -> Q (OApp pos kw blk intr))
  (HB : forall kw blk, Forall Q blk -> Q (OWithCb kw blk))
  (HU : forall kw, Q (OUpdate kw))
  (HR : Q ORaise)
  (HT : forall blk, Forall Q blk -> Q (OTry blk))
  (o : op) {struct o} : Q o :=
  let all := fix all (l : list op) : Forall Q l :=
    match l with
    | [] => Forall_nil Q
    | x :: t => Forall_cons x (op_ind' Q HC HF HW HA HB HU HR HT x) (all t)
    end in
  match o with
  | OCall m pos kw pr => HC m pos kw pr
  | OCallRefused m pos kw => HF m pos kw
  | OWith kw blk => HW kw blk (all blk)
  | OApp pos kw blk intr => HA pos kw blk intr (all blk)
  | OWithCb kw blk => HB kw blk (all blk)
  | OUpdate kw => HU kw
  | ORaise => HR
  | OTry blk => HT blk (all blk)
  end.

Lemma run_list_st : forall (f : op -> stack -> res) (R : stack -> stack -> Prop),
  (forall s, R s s) -> (forall a b c, R a b -> R b c -> R a c) ->
  forall l, Forall (fun o => forall s, R s (st (f o s))) l -> forall s, R s (st (run_list f l s)).
Proof.
  intros f R Hrefl Htrans l H. induction H as [|o l Ho Hl IH]; intros s; simpl.
  - apply Hrefl.
  - specialize (Ho s). destruct (f o s) as [[e1 s1] r1]. unfold st in Ho. simpl in Ho.
    destruct r1; [exact Ho|].
    specialize (IH s1). destruct (run_list f l s1) as [[e2 s2] r2]. unfold st in *. simpl in *.
    eapply Htrans; eauto.
Qed.

Lemma update_last_same_below : forall kw s s', update_last kw s = Some s' -> same_below s s'.
Proof.
  intros kw s. induction s as [|c r IH]; intros s' H; simpl in H; [discriminate|].
  destruct r as [|c2 r2].
  - inversion H; subst. split; reflexivity.
  - destruct (update_last kw (c2 :: r2)) as [r'|] eqn:E; [|discriminate]. inversion H; subst.
    destruct (IH r' eq_refl) as [H1 H2]. split.
    + destruct r' as [|x r'']; [simpl in H2; discriminate|].
      change (c :: removelast (x :: r'') = c :: removelast (c2 :: r2)). f_equal. exact H1.
    + simpl. f_equal. exact H2.
Qed.

Lemma run_op_with : forall c cls kw blk s,
  run_op c cls (OWith kw blk) s =
  let '(ev, s2, r) := run_list (run_op c cls) blk (s ++ [mkdict kw]) in (ev, removelast s2, r).
Proof. reflexivity. Qed.

Lemma run_op_try : forall c cls blk s,
  run_op c cls (OTry blk) s = let '(ev, s2, _) := run_list (run_op c cls) blk s in (ev, s2, false).
Proof. reflexivity. Qed.

Lemma run_op_withcb : forall c cls kw blk s,
  run_op c cls (OWithCb kw blk) s =
  let '(ev, s2, _) := run_list (run_op c cls) blk (s ++ [mkdict kw]) in (ev, removelast s2, true).
Proof. reflexivity. Qed.

Lemma run_op_app : forall c cls pos kw blk intr s,
  run_op c cls (OApp pos kw blk intr) s =
  match find_sig cls "application" with
  | None => ([EvCall "application" ([], Some OtherErr)], s, true)
  | Some sg =>
      match resolve sg s pos kw with
      | None => ([EvCall "application" ([], Some TypeErr)], s, true)
      | Some e =>
          match sassoc "app_id" (e_args e) with
          | None => ([EvCall "application" ([], Some OtherErr)], s, true)
          | Some a =>
              let '(ev, s2, r) := run_list (run_op c cls) blk (s ++ [mkdict [("app_id", a)]]) in
              let out0 := call FUEL c cls "send_signal" s2 [stop_signal] [] in
              let out := if intr then interrupted out0 else out0 in
              (ev ++ [EvStop out], removelast s2, r || has_err out)
          end
      end
  end.
Proof. reflexivity. Qed.

(* every op leaves the contexts below the innermost one, and the depth, as they were *)
Lemma run_op_frame : forall c cls o s, same_below s (st (run_op c cls o s)).
Proof.
  intros c cls o. induction o using op_ind'; intros s.
  - simpl. apply same_below_refl.
  - simpl. apply same_below_refl.
  - rewrite run_op_with.
    pose proof (run_list_st (run_op c cls) same_below same_below_refl same_below_trans blk H
                            (s ++ [mkdict kw])) as G.
    destruct (run_list (run_op c cls) blk (s ++ [mkdict kw])) as [[ev s2] r]. unfold st in *. simpl in *.
    destruct (same_below_snoc _ _ _ G) as [a' E]. subst s2. rewrite removelast_last. apply same_below_refl.
  - rewrite run_op_app.
    destruct (find_sig cls "application") as [sg|]; [|apply same_below_refl].
    destruct (resolve sg s pos kw) as [e|]; [|apply same_below_refl].
    destruct (sassoc "app_id" (e_args e)) as [a|]; [|apply same_below_refl].
    pose proof (run_list_st (run_op c cls) same_below same_below_refl same_below_trans blk H
                            (s ++ [mkdict [("app_id", a)]])) as G.
    destruct (run_list (run_op c cls) blk (s ++ [mkdict [("app_id", a)]])) as [[ev s2] r].
    unfold st in *. simpl in *.
    destruct (same_below_snoc _ _ _ G) as [a' E]. subst s2. rewrite removelast_last. apply same_below_refl.
  - rewrite run_op_withcb.
    pose proof (run_list_st (run_op c cls) same_below same_below_refl same_below_trans blk H
                            (s ++ [mkdict kw])) as G.
    destruct (run_list (run_op c cls) blk (s ++ [mkdict kw])) as [[ev s2] r]. unfold st in *. simpl in *.
    destruct (same_below_snoc _ _ _ G) as [a' E]. subst s2. rewrite removelast_last. apply same_below_refl.
  - simpl. destruct (update_last kw s) eqn:E; unfold st; simpl.
    + apply update_last_same_below with kw. exact E.
    + apply same_below_refl.
  - simpl. apply same_below_refl.
  - rewrite run_op_try.
    pose proof (run_list_st (run_op c cls) same_below same_below_refl same_below_trans blk H s) as G.
    destruct (run_list (run_op c cls) blk s) as [[ev s2] r]. exact G.
Qed.

Lemma run_ops_frame : forall c cls l s, same_below s (st (run_ops c cls l s)).
Proof.
  intros. unfold run_ops. apply run_list_st.
  - apply same_below_refl.
  - apply same_below_trans.
  - apply Forall_forall. intros o _ s0. apply run_op_frame.
Qed.

(* exit_restores: a `with` block -- whatever it contains, however it is left *)
Theorem exit_restores_with : forall c cls kw blk s, st (run_op c cls (OWith kw blk) s) = s.
Proof.
  intros. rewrite run_op_with.
  pose proof (run_ops_frame c cls blk (s ++ [mkdict kw])) as G. unfold run_ops in G.
  destruct (run_list (run_op c cls) blk (s ++ [mkdict kw])) as [[ev s2] r]. unfold st in *. simpl in *.
  destruct (same_below_snoc _ _ _ G) as [a' E]. subst s2. apply removelast_last.
Qed.

(* ... an application block, including when application() itself is rejected *)
Theorem exit_restores_app : forall c cls pos kw blk intr s, st (run_op c cls (OApp pos kw blk intr) s) = s.
Proof.
  intros. rewrite run_op_app.
  destruct (find_sig cls "application") as [sg|]; [|reflexivity].
  destruct (resolve sg s pos kw) as [e|]; [|reflexivity].
  destruct (sassoc "app_id" (e_args e)) as [a|]; [|reflexivity].
  pose proof (run_ops_frame c cls blk (s ++ [mkdict [("app_id", a)]])) as G. unfold run_ops in G.
  destruct (run_list (run_op c cls) blk (s ++ [mkdict [("app_id", a)]])) as [[ev s2] r].
  unfold st in *. simpl in *.
  destruct (same_below_snoc _ _ _ G) as [a' E]. subst s2. apply removelast_last.
Qed.

(* ... a block whose exit callback raises -- an Exception or a BaseException such as KeyboardInterrupt *)
Theorem exit_restores_withcb : forall c cls kw blk s, st (run_op c cls (OWithCb kw blk) s) = s.
Proof.
  intros. rewrite run_op_withcb.
  pose proof (run_ops_frame c cls blk (s ++ [mkdict kw])) as G. unfold run_ops in G.
  destruct (run_list (run_op c cls) blk (s ++ [mkdict kw])) as [[ev s2] r]. unfold st in *. simpl in *.
  destruct (same_below_snoc _ _ _ G) as [a' E]. subst s2. apply removelast_last.
Qed.

(* an op that does not call update_current_context at its own level leaves the whole stack as it was *)
Lemma run_op_no_update : forall c cls o s, updates_here o = false -> st (run_op c cls o s) = s.
Proof.
  intros c cls o. induction o using op_ind'; intros s Hu.
  - reflexivity.
  - reflexivity.
  - apply exit_restores_with.
  - apply exit_restores_app.
  - apply exit_restores_withcb.
  - discriminate.
  - reflexivity.
  - rewrite run_op_try. simpl in Hu.
    assert (G : forall s0, st (run_list (run_op c cls) blk s0) = s0).
    { clear s. induction H as [|o l Ho Hl IH]; intros s0; [reflexivity|].
      simpl in Hu. apply orb_false_iff in Hu. destruct Hu as [Hu1 Hu2].
      simpl. specialize (Ho s0 Hu1). destruct (run_op c cls o s0) as [[e1 s1] r1]. unfold st in Ho. simpl in Ho.
      subst s1. destruct r1; [reflexivity|].
      specialize (IH Hu2 s0). destruct (run_list (run_op c cls) l s0) as [[e2 s2] r2]. exact IH. }
    specialize (G s). destruct (run_list (run_op c cls) blk s) as [[ev s2] r]. exact G.
Qed.

Lemma run_ops_no_update : forall c cls l s, no_update_here l -> st (run_ops c cls l s) = s.
Proof.
  intros c cls l. unfold no_update_here, run_ops. induction l as [|o l IH]; intros s Hu; [reflexivity|].
  simpl in Hu. apply orb_false_iff in Hu. destruct Hu as [Hu1 Hu2].
  simpl. pose proof (run_op_no_update c cls o s Hu1) as Ho.
  destruct (run_op c cls o s) as [[e1 s1] r1]. unfold st in Ho. simpl in Ho. subst s1.
  destruct r1; [reflexivity|].
  specialize (IH s Hu2). destruct (run_list (run_op c cls) l s) as [[e2 s2] r2]. exact IH.
Qed.

(* leaving an application block: the block's events, then exactly one stop event -- the
   send_signal("stop") call resolved against the stack as it stands (the block's own context innermost) --
   and the stack is restored *)
Theorem application_exit : forall c cls pos kw blk (intr : bool) s sg e a,
  find_sig cls "application" = Some sg -> resolve sg s pos kw = Some e ->
  sassoc "app_id" (e_args e) = Some a ->
  exists evb fr rb,
    run_ops c cls blk (s ++ [mkdict [("app_id", a)]]) = (evb, s ++ [fr], rb)
    /\ (no_update_here blk -> fr = mkdict [("app_id", a)])
    /\ let out0 := call FUEL c cls "send_signal" (s ++ [fr]) [stop_signal] [] in
       let out := if intr then interrupted out0 else out0 in
       run_op c cls (OApp pos kw blk intr) s = (evb ++ [EvStop out], s, rb || has_err out).
Proof.
  intros c cls pos kw blk intr s sg e a Hs Hr Ha.
  rewrite run_op_app, Hs, Hr, Ha.
  pose proof (run_ops_frame c cls blk (s ++ [mkdict [("app_id", a)]])) as G.
  pose proof (run_ops_no_update c cls blk (s ++ [mkdict [("app_id", a)]])) as N.
  unfold run_ops in *.
  destruct (run_list (run_op c cls) blk (s ++ [mkdict [("app_id", a)]])) as [[ev s2] r].
  unfold st in *. simpl in *.
  destruct (same_below_snoc _ _ _ G) as [a' E]. subst s2.
  exists ev, a', r. split; [reflexivity|]. split.
  - intros Hn. specialize (N Hn). apply app_inv_head in N. inversion N. reflexivity.
  - rewrite removelast_last. reflexivity.
Qed.
