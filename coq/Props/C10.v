(* C10 -- placeholder while the proofs are being written; see Proofs/Tables.v, Proofs/Router.v *)
From Coq Require Import ZArith List.
Require Import Rig.Model.Base Rig.Generated.GenRouter Rig.Model.Tables Rig.Model.Router.
Import ListNotations.
Open Scope Z_scope.

Example C10_route_word_example : route_word [0; 7; 23] = 8388737.
Proof. reflexivity. Qed.
