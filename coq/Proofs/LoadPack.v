(* C09: every packet the loader builds fits the wire (struct.pack accepts its fields), and the machine
   answers it -- the facts behind "no other exception than the loading error".  The bounds on the packet
   fields are finite statements proved by evaluation, like Proofs/LoadBits.v. *)
From Coq Require Import ZArith List Bool Lia.
Require Import Rig.Generated.GenLoad Rig.Model.Base Rig.Model.Regions Rig.Spec.Regions Rig.Model.Load Rig.Spec.Load.
Require Import Rig.Proofs.RegionsBits Rig.Proofs.LoadBits Rig.Proofs.LoadMachine Rig.Proofs.LoadCtrl.
Import ListNotations.
Open Scope Z_scope.

Ltac Zify.zify_post_hook ::= Z.to_euclidean_division_equations.

(* ---------------------------------------------------------------- the fields are 32-bit words *)
Lemma ffs_word_check : all2 256 256 (fun pid n => word32 (ffs_arg1 pid n)) = true.
Proof. vm_cast_no_check (eq_refl true). Qed.
Lemma ffs_word : forall pid n, 0 <= pid < 256 -> 0 <= n < 256 -> word32 (ffs_arg1 pid n) = true.
Proof. intros pid n Hp Hn. exact (all2_spec _ _ _ ffs_word_check pid n ltac:(simpl; lia) ltac:(simpl; lia)). Qed.

Lemma ffd1_word_check : forallb (fun pid => word32 (ffd_arg1 pid)) (zrange 256) = true.
Proof. vm_cast_no_check (eq_refl true). Qed.
Lemma ffd1_word : forall pid, 0 <= pid < 256 -> word32 (ffd_arg1 pid) = true.
Proof. intros pid Hp. exact (forallb_zrange _ _ pid ffd1_word_check ltac:(simpl; lia)). Qed.

Lemma ffd2_word_check : all2 256 256 (fun block w => word32 (ffd_arg2 block (4 * (w + 1)))) = true.
Proof. vm_cast_no_check (eq_refl true). Qed.
Lemma ffd2_word : forall block size, 0 <= block < 256 -> 4 <= size <= 1024 -> size mod 4 = 0 ->
  word32 (ffd_arg2 block size) = true.
Proof.
  intros block size Hb Hs Hm.
  assert (Hw : size = 4 * ((size / 4 - 1) + 1)) by lia.
  pose proof (all2_spec _ _ _ ffd2_word_check block (size / 4 - 1) ltac:(simpl; lia) ltac:(simpl; lia)) as H.
  cbv beta in H. rewrite <- Hw in H. exact H.
Qed.

Lemma ffe1_word_check : forallb (fun pid => word32 (ffe_arg1 pid)) (zrange 256) = true.
Proof. vm_cast_no_check (eq_refl true). Qed.
Lemma ffe1_word : forall pid, 0 <= pid < 256 -> word32 (ffe_arg1 pid) = true.
Proof. intros pid Hp. exact (forallb_zrange _ _ pid ffe1_word_check ltac:(simpl; lia)). Qed.

Lemma ffe2_word_check : all2 256 64 (fun aid fl => word32 (ffe_arg2 aid fl)) = true.
Proof. vm_cast_no_check (eq_refl true). Qed.
Lemma ffe2_word : forall aid fl, 0 <= aid < 256 -> 0 <= fl < 64 -> word32 (ffe_arg2 aid fl) = true.
Proof. intros aid fl Ha Hf. exact (all2_spec _ _ _ ffe2_word_check aid fl ltac:(simpl; lia) ltac:(simpl; lia)). Qed.

Lemma sig_word_check : forallb (fun aid => word32 (signal_arg2 AppSignal_start aid)) (zrange 256) = true.
Proof. vm_cast_no_check (eq_refl true). Qed.
Lemma sig_word : forall aid, 0 <= aid < 256 -> word32 (signal_arg2 AppSignal_start aid) = true.
Proof. intros aid Ha. exact (forallb_zrange _ _ aid sig_word_check ltac:(simpl; lia)). Qed.

Lemma count_word_check : forallb (fun aid => word32 (count_arg2 AppState_wait aid)) (zrange 256) = true.
Proof. vm_cast_no_check (eq_refl true). Qed.
Lemma count_word : forall aid, 0 <= aid < 256 -> word32 (count_arg2 AppState_wait aid) = true.
Proof. intros aid Ha. exact (forallb_zrange _ _ aid count_word_check ltac:(simpl; lia)). Qed.

Lemma ffcs_word : forall m, 0 <= m < 262144 -> word32 (ffcs_arg1 m) = true.
Proof.
  intros m Hm. unfold ffcs_arg1. rewrite (lor_shiftl_add 7 24 m) by (try lia; change (2 ^ 24) with 16777216; lia).
  change (2 ^ 24) with 16777216. unfold word32. apply andb_true_intro. split; [apply Z.leb_le|apply Z.ltb_lt]; lia.
Qed.

Lemma word32_range : forall v, 0 <= v < 4294967296 -> word32 v = true.
Proof. intros v Hv. unfold word32. apply andb_true_intro. split; [apply Z.leb_le|apply Z.ltb_lt]; lia. Qed.

(* ---------------------------------------------------------------- the machine answers *)
Lemma mstep_keys : forall m q, map fst (m_chips (fst (mstep m q))) = map fst (m_chips m).
Proof.
  intros m q. unfold mstep. destruct (dest_chip m (q_x q) (q_y q)) as [[xy c]|]; [|reflexivity].
  repeat match goal with |- context [if ?b then _ else _] => destruct b end;
    cbn [fst set_chips m_chips]; try reflexivity; try apply broadcast_keys.
  all: unfold map_cores; rewrite map_map; reflexivity.
Qed.

Definition alive (m : machine) : Prop := hd_error (m_chips m) <> None.

Lemma alive_keys : forall m m', map fst (m_chips m') = map fst (m_chips m) -> alive m -> alive m'.
Proof.
  intros m m' H Ha. unfold alive in *. destruct (m_chips m) as [|e l]; [exfalso; apply Ha; reflexivity|].
  destruct (m_chips m'); [discriminate|]. cbn. discriminate.
Qed.

Lemma mstep_alive : forall m q, alive m -> alive (fst (mstep m q)).
Proof. intros m q. apply alive_keys. apply mstep_keys. Qed.

(* a broadcast command the machine knows is answered *)
Lemma mstep_answers : forall m q, bcast q -> alive m ->
  q_cmd q = CMD_VER \/ q_cmd q = CMD_NNP \/ q_cmd q = CMD_FFD \/ q_cmd q = CMD_SIG ->
  snd (mstep m q) <> RError.
Proof.
  intros m q Hb Ha Hc. unfold mstep. rewrite (dest_bcast m q Hb). unfold alive in Ha.
  destruct (hd_error (m_chips m)) as [[xy c]|]; [|congruence].
  destruct Hc as [Hc|[Hc|[Hc|Hc]]]; rewrite Hc; unfold CMD_VER, CMD_READ, CMD_NNP, CMD_FFD, CMD_SIG;
    cbn [Z.eqb Pos.eqb]; try discriminate.
  repeat match goal with |- context [if ?b then _ else _] => destruct b end; discriminate.
Qed.

Lemma send_progress : forall w q,
  packable q = true -> snd (mstep (w_m w) q) <> RError -> exists w' r, send w q = Ok (w', r).
Proof.
  intros w q Hp Hr. unfold send. rewrite Hp. destruct (mstep (w_m w) q) as [m1 r]. cbn [snd] in Hr.
  destruct r; try congruence; eexists _, _; reflexivity.
Qed.

Lemma send__progress : forall w q,
  packable q = true -> snd (mstep (w_m w) q) <> RError ->
  exists w', send_ w q = Ok w' /\ map fst (m_chips (w_m w')) = map fst (m_chips (w_m w)).
Proof.
  intros w q Hp Hr. destruct (send_progress w q Hp Hr) as (w' & r & Hs). exists w'. unfold send_. rewrite Hs.
  split; [reflexivity|]. apply send_inv in Hs. destruct Hs as (_ & _ & _ & Hm). rewrite Hm. apply mstep_keys.
Qed.

(* a broadcast packet with 32-bit arguments *)
Lemma packable_bcast : forall cmd a1 a2 a3 d, 0 <= cmd < 65536 ->
  word32 a1 = true -> word32 a2 = true -> word32 a3 = true -> packable (mkPkt 255 255 0 cmd a1 a2 a3 d) = true.
Proof.
  intros cmd a1 a2 a3 d Hc H1 H2 H3. unfold packable. cbn [q_x q_y q_cmd q_a1 q_a2 q_a3]. rewrite H1, H2, H3.
  cbn [Z.leb Z.ltb Z.compare Pos.compare Pos.compare_cont andb].
  destruct (0 <=? cmd) eqn:A; [|apply Z.leb_gt in A; lia]. destruct (cmd <? 65536) eqn:B; [|apply Z.ltb_ge in B; lia].
  reflexivity.
Qed.

Lemma packable_intro : forall x y p cmd a1 a2 a3 d,
  0 <= x < 256 -> 0 <= y < 256 -> 0 <= cmd < 65536 ->
  word32 a1 = true -> word32 a2 = true -> word32 a3 = true -> packable (mkPkt x y p cmd a1 a2 a3 d) = true.
Proof.
  intros x y p cmd a1 a2 a3 d Hx Hy Hc H1 H2 H3. unfold packable. cbn [q_x q_y q_cmd q_a1 q_a2 q_a3].
  rewrite H1, H2, H3.
  replace (0 <=? x) with true by (symmetry; apply Z.leb_le; lia).
  replace (x <? 256) with true by (symmetry; apply Z.ltb_lt; lia).
  replace (0 <=? y) with true by (symmetry; apply Z.leb_le; lia).
  replace (y <? 256) with true by (symmetry; apply Z.ltb_lt; lia).
  replace (0 <=? cmd) with true by (symmetry; apply Z.leb_le; lia).
  replace (cmd <? 65536) with true by (symmetry; apply Z.ltb_lt; lia).
  reflexivity.
Qed.

Lemma replay_alive : forall qs m, alive m -> alive (fst (replay m qs)).
Proof.
  induction qs as [|q qs IH]; intros m Ha; [exact Ha|]. rewrite replay_cons. apply IH. apply mstep_alive. exact Ha.
Qed.
