(* C09: the packets of a load_application call, tied to its attempts.  The ghost list [atts] of the model (the map
   each attempt is addressed to, proved by C09_load_returns_iff_loaded to be exactly the cores missing at that
   moment) is what the call really sends: per attempt one flood fill of that map ([fills_ok]: one well formed
   fill per entry selecting exactly the entry's cores), then only verification packets. *)
From Coq Require Import ZArith List Bool Lia.
Require Import Rig.Generated.GenRegions Rig.Generated.GenLoad Rig.Generated.GenLoadShape Rig.Model.Base Rig.Model.Regions Rig.Spec.Regions.
Require Import Rig.Model.Load Rig.Spec.Load.
Require Import Rig.Proofs.Regions Rig.Proofs.LoadBits Rig.Proofs.LoadMachine Rig.Proofs.LoadCtrl Rig.Proofs.LoadFill
               Rig.Proofs.LoadCount Rig.Proofs.LoadLoop Rig.Proofs.Load.
Import ListNotations.
Open Scope Z_scope.

(* ---------------------------------------------------------------- verification packets *)
Lemma sver_not_fill : not_fill_pkt sver_pkt.
Proof. split; discriminate. Qed.

Lemma read_not_fill : forall q, is_read q -> not_fill_pkt q.
Proof. intros q H. unfold is_read in H. split; rewrite H; discriminate. Qed.

Lemma pre_not_fill : forall c, Forall not_fill_pkt (pre_of c).
Proof. intros c. unfold pre_of. destruct (c_buffer c); [constructor|constructor; [apply sver_not_fill|constructor]]. Qed.

Lemma read_sent : forall c w x y p addr len c' w' d,
  ctrl_wf c (w_m w) -> 0 < len <= m_buffer (w_m w) ->
  read c w x y p addr len = Ok (c', w', d) ->
  exists qs, sent w' = sent w ++ qs /\ Forall not_fill_pkt qs.
Proof.
  intros c w x y p addr len c' w' d Hc Hl H. apply read_inv in H; [|exact Hc|exact Hl].
  destruct H as (_ & _ & _ & _ & (q & [Hs _] & Hr & _)). exists (pre_of c ++ [q]). split; [exact Hs|].
  apply Forall_app. split; [apply pre_not_fill|constructor; [apply read_not_fill; exact Hr|constructor]].
Qed.

Lemma read_cpu_state_sent : forall c w x y p c' w' s,
  ctrl_wf c (w_m w) -> machine_wf (w_m w) ->
  read_cpu_state c w x y p = Ok (c', w', s) ->
  exists qs, sent w' = sent w ++ qs /\ Forall not_fill_pkt qs.
Proof.
  intros c w x y p c' w' s Hc Hm H. pose proof Hm as (_ & _ & _ & _ & _ & Hbuf & _).
  unfold read_cpu_state in H. apply bind_ok in H. destruct H as [[[c1 w1] vbase] [Hr H]].
  unfold read_sv_word in Hr. apply bind_ok in Hr. destruct Hr as [[[c0 w0] d0] [Hr0 Hr]]. cbn [fst snd] in Hr.
  destruct (of_le32 d0); [|discriminate]. inversion Hr; subst c0 w0 vbase. clear Hr.
  pose proof Hr0 as Hr0'. apply read_inv in Hr0'; [|exact Hc|lia]. destruct Hr0' as (Hm1 & Hcb1 & Hcn1 & _).
  assert (Hl4 : 0 < 4 <= m_buffer (w_m w)) by lia.
  destruct (read_sent _ _ _ _ _ _ _ _ _ _ Hc Hl4 Hr0) as (q1 & Hs1 & Hf1).
  assert (Hc1 : ctrl_wf c1 (w_m w1)).
  { split; [rewrite Hcn1; exact (proj1 Hc)|right; rewrite Hcb1, Hm1; reflexivity]. }
  apply bind_ok in H. destruct H as [[[c2 w2] d] [Hr2 H]]. cbn [fst snd] in H.
  assert (Hl1 : 0 < vcpu_cpu_state_size <= m_buffer (w_m w1)) by (rewrite Hm1; change vcpu_cpu_state_size with 1; lia).
  destruct (read_sent _ _ _ _ _ _ _ _ _ _ Hc1 Hl1 Hr2) as (q2 & Hs2 & Hf2).
  destruct d as [|b [|]]; try discriminate. inversion H; subst c' w' s.
  exists (q1 ++ q2). split; [rewrite Hs2, Hs1, app_assoc; reflexivity|apply Forall_app; split; assumption].
Qed.

Lemma check_cores_sent : forall x y ps c w c' w' un,
  ctrl_wf c (w_m w) -> machine_wf (w_m w) -> ~ (x = 255 /\ y = 255) ->
  (forall p, In p ps -> in_space (x, y, p)) ->
  check_cores c w x y ps = Ok (c', w', un) ->
  exists qs, sent w' = sent w ++ qs /\ Forall not_fill_pkt qs.
Proof.
  intros x y ps. induction ps as [|p ps IH]; intros c w c' w' un Hc Hm Hxy Hsp H.
  - cbn [check_cores] in H. inversion H; subst. exists []. split; [rewrite app_nil_r; reflexivity|constructor].
  - cbn [check_cores] in H. apply bind_ok in H. destruct H as [[[c1 w1] s] [Hr H]].
    destruct (read_cpu_state_sent _ _ _ _ _ _ _ _ Hc Hm Hr) as (q1 & Hs1 & Hf1).
    apply read_cpu_state_inv in Hr; try assumption; [|apply Hsp; left; reflexivity]. destruct Hr as (Hm1 & Hc1 & _).
    destruct (is_member s AppState_members); [|discriminate].
    apply bind_ok in H. destruct H as [[[c2 w2] l] [Hrec H]]. cbn [fst snd] in H. inversion H; subst c' w' un.
    rewrite <- Hm1 in Hc1. destruct (IH c1 w1 c2 w2 l) as (q2 & Hs2 & Hf2); try assumption; try (rewrite Hm1; assumption).
    { intros q Hq. apply Hsp. right. exact Hq. }
    exists (q1 ++ q2). split; [rewrite Hs2, Hs1, app_assoc; reflexivity|apply Forall_app; split; assumption].
Qed.

Lemma check_targets_sent : forall ts c w c' w' un,
  ctrl_wf c (w_m w) -> machine_wf (w_m w) ->
  (forall x y p, In (x, y, p) (cores_of_targets ts) -> in_space (x, y, p) /\ ~ (x = 255 /\ y = 255)) ->
  check_targets c w ts = Ok (c', w', un) ->
  exists qs, sent w' = sent w ++ qs /\ Forall not_fill_pkt qs.
Proof.
  induction ts as [|[[x y] ps] r IH]; intros c w c' w' un Hc Hm Hsp H.
  - cbn [check_targets] in H. inversion H; subst. exists []. split; [rewrite app_nil_r; reflexivity|constructor].
  - cbn [check_targets fst snd] in H. apply bind_ok in H. destruct H as [[[c1 w1] u] [Hcc H]].
    apply bind_ok in H. destruct H as [[[c2 w2] l] [Hrec H]]. cbn [fst snd] in H.
    assert (Hw : w' = w2) by (destruct u; inversion H; reflexivity). subst w'.
    assert (Hfirst : (exists q1, sent w1 = sent w ++ q1 /\ Forall not_fill_pkt q1) /\ w_m w1 = w_m w /\ ctrl_wf c1 (w_m w)).
    { destruct ps as [|p0 ps].
      - cbn [check_cores] in Hcc. inversion Hcc; subst. split; [exists []; split; [rewrite app_nil_r; reflexivity|constructor]|].
        split; [reflexivity|exact Hc].
      - assert (Hxy : ~ (x = 255 /\ y = 255)).
        { apply (Hsp x y p0). rewrite cores_of_targets_cons. cbn [fst snd map List.app]. left. reflexivity. }
        assert (Hin : forall q, In q (p0 :: ps) -> in_space (x, y, q)).
        { intros q Hq. apply (Hsp x y q). rewrite cores_of_targets_cons. apply in_or_app. left.
          apply in_map_iff. exists q. split; [reflexivity|exact Hq]. }
        split; [apply (check_cores_sent x y (p0 :: ps) c w c1 w1 u Hc Hm Hxy Hin Hcc)|].
        apply check_cores_spec in Hcc; try assumption. destruct Hcc as (A & B & _). split; assumption. }
    destruct Hfirst as ((q1 & Hs1 & Hf1) & Hm1 & Hc1). rewrite <- Hm1 in Hc1.
    destruct (IH c1 w1 c2 w2 l) as (q2 & Hs2 & Hf2); try assumption; try (rewrite Hm1; assumption).
    { intros x0 y0 q Hq. apply Hsp. rewrite cores_of_targets_cons. apply in_or_app. right. exact Hq. }
    exists (q1 ++ q2). split; [rewrite Hs2, Hs1, app_assoc; reflexivity|apply Forall_app; split; assumption].
Qed.

Lemma check_map_sent : forall unl c w c' w' unl1,
  ctrl_wf c (w_m w) -> machine_wf (w_m w) ->
  (forall b x y p, In (b, (x, y, p)) (named unl) -> in_space (x, y, p) /\ ~ (x = 255 /\ y = 255)) ->
  check_map c w unl = Ok (c', w', unl1) ->
  exists qs, sent w' = sent w ++ qs /\ Forall not_fill_pkt qs.
Proof.
  induction unl as [|[b ts] r IH]; intros c w c' w' unl1 Hc Hm Hsp H.
  - cbn [check_map] in H. inversion H; subst. exists []. split; [rewrite app_nil_r; reflexivity|constructor].
  - cbn [check_map] in H. apply bind_ok in H. destruct H as [[[c1 w1] u] [Hct H]].
    assert (Hts : forall x y p, In (x, y, p) (cores_of_targets ts) -> in_space (x, y, p) /\ ~ (x = 255 /\ y = 255)).
    { intros x y p Hin. apply (Hsp b). rewrite named_cons. apply in_or_app. left.
      apply in_map_iff. exists (x, y, p). split; [reflexivity|exact Hin]. }
    destruct (check_targets_sent ts c w c1 w1 u Hc Hm Hts Hct) as (q1 & Hs1 & Hf1).
    apply check_targets_spec in Hct; try assumption. destruct Hct as (Hm1 & Hc1 & _).
    apply bind_ok in H. destruct H as [[[c2 w2] l] [Hrec H]]. cbn [fst snd] in H.
    assert (Hw : w' = w2) by (destruct u; inversion H; reflexivity). subst w'.
    rewrite <- Hm1 in Hc1. destruct (IH c1 w1 c2 w2 l) as (q2 & Hs2 & Hf2); try assumption; try (rewrite Hm1; assumption).
    { intros b0 x y p Hin. apply (Hsp b0). rewrite named_cons. apply in_or_app. right. exact Hin. }
    exists (q1 ++ q2). split; [rewrite Hs2, Hs1, app_assoc; reflexivity|apply Forall_app; split; assumption].
Qed.

(* ---------------------------------------------------------------- the loop, packets and attempts together *)
Lemma attempts_ok_app : forall buffer base bins atts ps v,
  attempts_ok buffer base bins atts ps -> Forall not_fill_pkt v -> attempts_ok buffer base bins atts (ps ++ v).
Proof.
  intros buffer base bins atts. induction atts as [|um r IH]; intros ps v H Hv.
  - cbn [attempts_ok] in *. apply Forall_app. split; assumption.
  - cbn [attempts_ok] in *. destruct H as (fills & ver & rest & Hps & Hf & Hver & Hr).
    exists fills, ver, (rest ++ v). split; [rewrite Hps, <- !app_assoc; reflexivity|].
    split; [exact Hf|]. split; [exact Hver|apply IH; assumption].
Qed.

Lemma count_sent : forall w aid w' n, count_cores_wait w aid = Ok (w', n) ->
  exists q, sent w' = sent w ++ [q] /\ not_fill_pkt q.
Proof.
  intros w aid w' n H. unfold count_cores_wait in H. apply bind_ok in H. destruct H as [[w1 r] [Hs H]].
  cbn [fst snd] in H. apply send_inv in Hs. destruct Hs as ([Hsent _] & _). destruct r; try discriminate.
  inversion H; subst. eexists. split; [exact Hsent|]. split; discriminate.
Qed.

Lemma load_loop_sent : forall fuel bins a am m0 c w unl tries atts c' w' unl' atts',
  map_wf am -> bins_ok (m_buffer m0) bins -> 0 <= a_app a < 256 ->
  (a_count a = true -> no_other_waiting m0 am (a_app a)) ->
  ctrl_wf c (w_m w) -> Inv bins (a_app a) am m0 (w_m w) unl ->
  load_loop fuel bins a (core_count am) c w unl tries atts = Ok (c', w', unl', atts') ->
  exists new ps, atts' = new ++ atts /\ sent w' = sent w ++ ps
                 /\ attempts_ok (m_buffer m0) (m_base m0) bins (rev new) ps.
Proof.
  induction fuel as [|k IH]; intros bins a am m0 c w unl tries atts c' w' unl' atts' Hmap Hbins Haid Hcnt Hc I H.
  - cbn [load_loop] in H. destruct (negb (is_empty unl) && load_continue tries (a_tries a)); [discriminate|].
    inversion H; subst. exists [], []. split; [reflexivity|]. split; [rewrite app_nil_r; reflexivity|constructor].
  - cbn [load_loop] in H.
    destruct (negb (is_empty unl) && load_continue tries (a_tries a)) eqn:Econt.
    2:{ inversion H; subst. exists [], []. split; [reflexivity|]. split; [rewrite app_nil_r; reflexivity|constructor]. }
    clear Econt. destruct Hmap as [Hnd Hsp].
    pose proof (inv_wf _ _ _ _ _ _ I) as Hwf. pose proof (inv_static _ _ _ _ _ _ I) as (Sa & Sb & Sc).
    apply bind_ok in H. destruct H as [[c1 w1] [Hff H]]. cbn [fst snd] in H.
    destruct (flood_fill_aplx_fills bins unl (a_app a) load_fill_wait c w c1 w1 Hc Hwf ltac:(rewrite Sa; exact Hbins) Haid Hff)
      as (fps & Hsf & Hfok). rewrite Sa, Sb in Hfok.
    apply flood_fill_aplx_post in Hff; try assumption; try exact (inv_nodup _ _ _ _ _ _ I); [|rewrite Sa; exact Hbins].
    destruct Hff as (Hpost & Hc1 & Hwf1 & Hst1 & Hk1).
    change (if load_fill_wait then STATE_WAIT else STATE_RUN) with STATE_WAIT in Hpost.
    assert (Hspu : forall b x y p, In (b, (x, y, p)) (named unl) -> in_space (x, y, p) /\ ~ (x = 255 /\ y = 255)).
    { intros b x y p Hin. apply (Hsp b). apply (inv_incl _ _ _ _ _ _ I). exact Hin. }
    assert (Hrec : forall c2 w2 unl1 ver,
               w_m w2 = w_m w1 -> ctrl_wf c2 (w_m w1) -> Inv bins (a_app a) am m0 (w_m w1) unl1 ->
               sent w2 = sent w1 ++ ver -> Forall not_fill_pkt ver ->
               load_loop k bins a (core_count am) c2 w2 unl1 (load_next_tries tries) ((unl, w_m w) :: atts)
               = Ok (c', w', unl', atts') ->
               exists new ps, atts' = new ++ atts /\ sent w' = sent w ++ ps
                              /\ attempts_ok (m_buffer m0) (m_base m0) bins (rev new) ps).
    { intros c2 w2 unl1 ver Hm2 Hc2 I2 Hs2 Hver Hl. rewrite <- Hm2 in Hc2, I2.
      destruct (IH bins a am m0 c2 w2 unl1 _ _ c' w' unl' atts' (conj Hnd Hsp) Hbins Haid Hcnt Hc2 I2 Hl)
        as (new & ps & Hnew & Hsent & Hatt).
      exists (new ++ [(unl, w_m w)]), (fps ++ ver ++ ps). split; [rewrite Hnew, <- app_assoc; reflexivity|].
      split; [rewrite Hsent, Hs2, Hsf, <- !app_assoc; reflexivity|].
      rewrite rev_app_distr. cbn [rev List.app attempts_ok fst].
      exists fps, ver, ps. split; [reflexivity|]. split; [exact Hfok|]. split; [exact Hver|exact Hatt]. }
    assert (Hcheck : forall wx ver0, w_m wx = w_m w1 -> sent wx = sent w1 ++ ver0 -> Forall not_fill_pkt ver0 ->
               bind (check_map c1 wx unl) (fun cwm => let '(c2, w2, unl1) := cwm in
                   load_loop k bins a (core_count am) c2 w2 unl1 (load_next_tries tries) ((unl, w_m w) :: atts))
               = Ok (c', w', unl', atts') ->
               exists new ps, atts' = new ++ atts /\ sent w' = sent w ++ ps
                              /\ attempts_ok (m_buffer m0) (m_base m0) bins (rev new) ps).
    { intros wx ver0 Hmx Hsx Hv0 Hb. apply bind_ok in Hb. destruct Hb as [[[c2 w2] unl1] [Hcm Hl]].
      rewrite <- Hmx in Hc1, Hwf1.
      destruct (check_map_sent unl c1 wx c2 w2 unl1 Hc1 Hwf1 Hspu Hcm) as (ver1 & Hs1 & Hv1).
      apply check_map_spec in Hcm; try assumption. destruct Hcm as (Hm2 & Hc2 & Hunl1 & _). rewrite Hmx in *.
      apply (Hrec c2 w2 unl1 (ver0 ++ ver1) Hm2 Hc2); [| |apply Forall_app; split; assumption|exact Hl].
      - apply (Inv_after_check bins (a_app a) am m0 (w_m w) unl (w_m w1) unl1 Hnd I Hpost Hwf1 Hst1 Hunl1).
      - rewrite Hs1, Hsx, app_assoc. reflexivity. }
    destruct (a_count a) eqn:Ecount.
    + apply bind_ok in H. destruct H as [[w2 bflag] [Hcw H]]. cbn [fst snd] in H.
      apply bind_ok in Hcw. destruct Hcw as [[w3 n] [Hcc Hcw]]. cbn [fst snd] in Hcw. inversion Hcw; subst w2 bflag. clear Hcw.
      destruct (count_sent _ _ _ _ Hcc) as (qc & Hsc & Hqc).
      apply count_cores_wait_inv in Hcc; [|exact Haid]. destruct Hcc as [Hm3 Hn].
      destruct (core_count am =? n) eqn:Eeq.
      * apply Z.eqb_eq in Eeq. subst n.
        apply (Hrec c1 w3 [] [qc] Hm3 Hc1); [|exact Hsc|constructor; [exact Hqc|constructor]|exact H].
        apply (Inv_all_loaded bins (a_app a) am m0 (w_m w) unl (w_m w1) Hnd I Hpost Hwf1 Hst1).
        destruct (after_fills bins (a_app a) am m0 (w_m w) unl (w_m w1) Hnd I Hpost) as [A1 A2].
        apply (count_means_all_loaded bins (w_m w1) am (a_app a) Hwf1 Haid Hnd).
        -- intros b0 c0 Hin. destruct (A1 b0 c0 Hin) as [[_ Hor]|[_ Hh]]; [exact Hor|right; exact Hh].
        -- intros c0 s Hnin Hat. rewrite (A2 c0 Hnin) in Hat. apply (Hcnt eq_refl c0 s Hnin Hat).
        -- exact Eeq.
      * apply (Hcheck w3 [qc] Hm3 Hsc); [constructor; [exact Hqc|constructor]|exact H].
    + cbn [fst snd] in H. apply (Hcheck w1 [] eq_refl); [rewrite app_nil_r; reflexivity|constructor|exact H].
Qed.

(* The packets of a load_application call are, attempt by attempt (the attempts [atts] that
   C09_load_returns_iff_loaded characterises as addressed to exactly the cores missing at that moment), one flood
   fill of the attempt's map -- one well formed fill per entry selecting exactly the entry's cores -- followed by
   verification packets only; after the last attempt only the start signal, if any. *)
Theorem load_application_packets : forall bins c w am a c' w' out atts,
  machine_wf (w_m w) -> ctrl_wf c (w_m w) -> map_wf am -> bins_ok (m_buffer (w_m w)) bins ->
  0 <= a_app a < 256 ->
  no_requested_waiting (w_m w) am ->
  (a_count a = true -> no_other_waiting (w_m w) am (a_app a)) ->
  load_application bins c w am a = Ok (c', w', out, atts) ->
  exists ps, sent w' = sent w ++ ps
             /\ attempts_ok (m_buffer (w_m w)) (m_base (w_m w)) bins atts ps.
Proof.
  intros bins c w am a c' w' out atts Hwf Hc Hmap Hbins Haid Hreq Hoth H.
  unfold load_application in H. apply bind_ok in H. destruct H as [[[[c1 w1] unl] atts0] [Hl H]].
  assert (I0 : Inv bins (a_app a) am (w_m w) (w_m w) am).
  { constructor.
    - intros bc Hin. exact Hin.
    - exact (proj1 Hmap).
    - intros b c0 Hin. left. split; [exact Hin|apply (Hreq b c0 Hin)].
    - reflexivity.
    - exact Hwf.
    - repeat split. }
  apply load_loop_sent with (m0 := w_m w) in Hl; try assumption.
  destruct Hl as (new & ps & Hnew & Hsent & Hatt). rewrite app_nil_r in Hnew. subst atts0.
  destruct (negb (is_empty unl)).
  - inversion H; subst. exists ps. split; assumption.
  - destruct (negb (a_wait a)).
    + apply bind_ok in H. destruct H as [w2 [Hs H]]. inversion H; subst.
      unfold send_signal_start in Hs. apply send__inv in Hs. destruct Hs as ([Hs2 _] & _).
      eexists. split; [rewrite Hs2, Hsent, <- app_assoc; reflexivity|].
      apply attempts_ok_app; [exact Hatt|]. constructor; [split; discriminate|constructor].
    + inversion H; subst. exists ps. split; assumption.
Qed.
