(* Proofs for property C14, part 2: build_machine and the Machine's answers, the core reservations,
   the IOBUF chain. *)
From Coq Require Import ZArith String Ascii List Bool Lia FinFun.
Require Import Rig.Generated.GenProbe Rig.Model.Base Rig.Model.Probe Rig.Spec.Probe Rig.Proofs.Probe.
Import ListNotations.
Open Scope Z_scope.

Ltac Zify.zify_post_hook ::= Z.to_euclidean_division_equations.

(* ------------------------------------------------------------------------------------------------ *)
(* association lists keyed by chips                                                                  *)

Lemma chip_eqb_eq : forall a b : chip, chip_eqb a b = true <-> a = b.
Proof.
  intros [a1 a2] [b1 b2]. unfold chip_eqb. cbn [fst snd]. rewrite andb_true_iff, !Z.eqb_eq.
  split; [intros [-> ->]; reflexivity|intros H; inversion H; auto].
Qed.

Lemma chip_eqb_refl : forall a : chip, chip_eqb a a = true.
Proof. intros. apply chip_eqb_eq. reflexivity. Qed.

Lemma chip_eqb_neq : forall a b : chip, chip_eqb a b = false <-> a <> b.
Proof.
  intros a b. split.
  - intros H Heq. apply chip_eqb_eq in Heq. congruence.
  - intros H. destruct (chip_eqb a b) eqn:E; auto. apply chip_eqb_eq in E. contradiction.
Qed.

Lemma cassoc_In : forall {A} (l : list (chip * A)) c v, cassoc c l = Some v -> In (c, v) l.
Proof.
  induction l as [|[k x] l IH]; intros c v H; [discriminate|]. cbn [cassoc] in H.
  destruct (chip_eqb c k) eqn:E.
  - apply chip_eqb_eq in E. inversion H; subst. left. reflexivity.
  - right. apply IH. assumption.
Qed.

Lemma cassoc_None : forall {A} (l : list (chip * A)) c, cassoc c l = None <-> ~ In c (map fst l).
Proof.
  induction l as [|[k x] l IH]; intros c; cbn [cassoc map fst].
  - split; auto.
  - destruct (chip_eqb c k) eqn:E.
    + apply chip_eqb_eq in E. subst. split; [discriminate|]. intros H. exfalso. apply H. left. reflexivity.
    + apply chip_eqb_neq in E. rewrite IH. cbn [In]. split; [intros H [H'|H']; [congruence|contradiction]|tauto].
Qed.

Lemma In_cassoc : forall {A} (l : list (chip * A)) c v, NoDup (map fst l) -> In (c, v) l -> cassoc c l = Some v.
Proof.
  induction l as [|[k x] l IH]; intros c v Hnd Hin; [contradiction|].
  cbn [map fst] in Hnd. inversion Hnd as [|? ? Hnot Hnd']; subst. cbn [cassoc].
  destruct Hin as [Heq|Hin].
  - inversion Heq; subst. rewrite chip_eqb_refl. reflexivity.
  - destruct (chip_eqb c k) eqn:E.
    + apply chip_eqb_eq in E. subst. exfalso. apply Hnot. apply in_map_iff. exists (k, v). auto.
    + apply IH; assumption.
Qed.

Lemma chip_mem_In : forall c l, chip_mem c l = true <-> In c l.
Proof.
  intros c l. unfold chip_mem. rewrite existsb_exists. split.
  - intros (x & Hx & He). apply chip_eqb_eq in He. subst. assumption.
  - intros H. exists c. split; [assumption|apply chip_eqb_refl].
Qed.

Lemma zmem_In : forall x l, zmem x l = true <-> In x l.
Proof.
  intros x l. unfold zmem. rewrite existsb_exists. split.
  - intros (y & Hy & He). apply Z.eqb_eq in He. subst. assumption.
  - intros H. exists x. split; [assumption|apply Z.eqb_refl].
Qed.

Lemma link_mem_In : forall cl l, link_mem cl l = true <-> In cl l.
Proof.
  intros [c k] l. unfold link_mem. rewrite existsb_exists. cbn [fst snd]. split.
  - intros ([c' k'] & Hin & He). cbn [fst snd] in He. apply andb_true_iff in He. destruct He as [H1 H2].
    apply chip_eqb_eq in H1. apply Z.eqb_eq in H2. subst. assumption.
  - intros H. exists (c, k). split; [assumption|]. cbn [fst snd]. rewrite chip_eqb_refl, Z.eqb_refl. reflexivity.
Qed.

(* ------------------------------------------------------------------------------------------------ *)
(* the views of the description                                                                      *)

Lemma si_has_get : forall si c, si_has si c = true <-> exists ci, si_get si c = Some ci.
Proof.
  intros. unfold si_has. destruct (si_get si c); split; eauto; try discriminate. intros [? H]. discriminate.
Qed.

Lemma In_si_dead_chips : forall si c,
  In c (si_dead_chips si) <-> (in_bounds (si_width si) (si_height si) c /\ si_has si c = false).
Proof.
  intros si [x y]. unfold si_dead_chips, in_bounds. cbn [fst snd]. rewrite in_flat_map. split.
  - intros (x' & Hx & Hin). apply in_flat_map in Hin. destruct Hin as (y' & Hy & Hin).
    destruct (si_has si (x', y')) eqn:E; [contradiction|]. destruct Hin as [Heq|[]]. inversion Heq; subst.
    apply In_zrange in Hx. apply In_zrange in Hy. auto.
  - intros ((Hx & Hy) & Hn). exists x. split; [apply In_zrange; assumption|].
    apply in_flat_map. exists y. split; [apply In_zrange; assumption|]. rewrite Hn. left. reflexivity.
Qed.

Lemma In_si_dead_links : forall si c l, NoDup (map fst (si_chips si)) ->
  In (c, l) (si_dead_links si) <->
  exists ci, si_get si c = Some ci /\ In l links_values /\ ~ In l (ci_links ci).
Proof.
  intros si c l Hnd. unfold si_dead_links. rewrite in_flat_map. split.
  - intros ([c' ci] & Hin & Hl). cbn [fst snd] in Hl. apply in_flat_map in Hl. destruct Hl as (l' & Hl' & Hl).
    destruct (zmem l' (ci_links ci)) eqn:E; [contradiction|]. destruct Hl as [Heq|[]]. inversion Heq; subst.
    exists ci. split; [apply In_cassoc; assumption|]. split; [assumption|].
    intros Hc. apply zmem_In in Hc. congruence.
  - intros (ci & Hg & Hl & Hn). exists (c, ci). split; [apply cassoc_In; assumption|]. cbn [fst snd].
    apply in_flat_map. exists l. split; [assumption|].
    destruct (zmem l (ci_links ci)) eqn:E; [apply zmem_In in E; contradiction|]. left. reflexivity.
Qed.

(* ------------------------------------------------------------------------------------------------ *)
(* build_machine                                                                                     *)

Lemma res3_eqb_eq : forall a b, res3_eqb a b = true <-> a = b.
Proof.
  intros [[a1 a2] a3] [[b1 b2] b3]. unfold res3_eqb. rewrite !andb_true_iff, !Z.eqb_eq.
  split; [intros [[-> ->] ->]; reflexivity|intros H; inversion H; auto].
Qed.

Lemma cassoc_exceptions : forall (M : res3) (l : list (chip * chip_info)) c,
  NoDup (map fst l) ->
  cassoc c (flat_map (fun cc => if res3_eqb (ci_res (snd cc)) M then [] else [(fst cc, ci_res (snd cc))]) l)
  = match cassoc c l with
    | Some ci => if res3_eqb (ci_res ci) M then None else Some (ci_res ci)
    | None => None
    end.
Proof.
  intros M. induction l as [|[k ci] l IH]; intros c Hnd; [reflexivity|].
  cbn [map fst] in Hnd. inversion Hnd as [|? ? Hnot Hnd']; subst.
  cbn [flat_map cassoc fst snd]. destruct (chip_eqb c k) eqn:E.
  - apply chip_eqb_eq in E. subst. destruct (res3_eqb (ci_res ci) M) eqn:Er.
    + cbn [app]. rewrite IH by assumption.
      assert (Hn : cassoc k l = None) by (apply cassoc_None; assumption). rewrite Hn. reflexivity.
    + cbn [app cassoc]. rewrite chip_eqb_refl. reflexivity.
  - destruct (res3_eqb (ci_res ci) M); cbn [app cassoc]; [|rewrite E]; apply IH; assumption.
Qed.

Theorem build_machine_exact : forall si, si_wf si ->
  let m := build_machine si in
  pm_width m = si_width si /\ pm_height m = si_height si /\
  (forall c, pm_has_chip m c = si_has si c) /\
  (forall c ci, si_get si c = Some ci ->
     pm_get m c = Ok (ci_cores ci, ci_free_sdram ci, ci_free_sram ci)) /\
  (forall c, si_has si c = false -> pm_get m c = OtherError) /\
  (forall c l, In l links_values ->
     (pm_has_link m c l = true <-> exists ci, si_get si c = Some ci /\ In l (ci_links ci))) /\
  (forall c, In c (pm_dead_chips m) <-> (in_bounds (si_width si) (si_height si) c /\ si_has si c = false)) /\
  (forall c l, In (c, l) (pm_dead_links m) <->
     exists ci, si_get si c = Some ci /\ In l links_values /\ ~ In l (ci_links ci)).
Proof.
  intros si [Hnd Hb] m.
  assert (Hhas : forall c, pm_has_chip m c = si_has si c).
  { intros c. unfold pm_has_chip. subst m. cbn [build_machine pm_width pm_height pm_dead_chips].
    destruct (si_has si c) eqn:E.
    - apply si_has_get in E. destruct E as [ci Hg]. apply cassoc_In in Hg. destruct (Hb c ci Hg) as [Hx Hy].
      assert (Hd : chip_mem c (si_dead_chips si) = false).
      { destruct (chip_mem c (si_dead_chips si)) eqn:Ed; auto. apply chip_mem_In in Ed.
        apply In_si_dead_chips in Ed. destruct Ed as [_ Ed]. unfold si_has, si_get in Ed.
        rewrite (In_cassoc _ _ _ Hnd Hg) in Ed. discriminate. }
      rewrite Hd. replace (0 <=? fst c) with true by (symmetry; apply Z.leb_le; lia).
      replace (fst c <? si_width si) with true by (symmetry; apply Z.ltb_lt; lia).
      replace (0 <=? snd c) with true by (symmetry; apply Z.leb_le; lia).
      replace (snd c <? si_height si) with true by (symmetry; apply Z.ltb_lt; lia). reflexivity.
    - destruct ((0 <=? fst c) && (fst c <? si_width si) && (0 <=? snd c) && (snd c <? si_height si)) eqn:Eb;
        [|reflexivity].
      rewrite !andb_true_iff in Eb. destruct Eb as [[[H1 H2] H3] H4].
      apply Z.leb_le in H1. apply Z.ltb_lt in H2. apply Z.leb_le in H3. apply Z.ltb_lt in H4.
      assert (Hd : chip_mem c (si_dead_chips si) = true).
      { apply chip_mem_In. apply In_si_dead_chips. unfold in_bounds. auto. }
      rewrite Hd. reflexivity. }
  split; [reflexivity|]. split; [reflexivity|]. split; [exact Hhas|]. split; [|split; [|split; [|split]]].
  - intros c ci Hg. unfold pm_get. rewrite Hhas.
    assert (Hs : si_has si c = true) by (apply si_has_get; eauto). rewrite Hs.
    subst m. cbn [build_machine pm_exc pm_res]. rewrite cassoc_exceptions by assumption.
    unfold si_get in Hg. rewrite Hg.
    destruct (res3_eqb (ci_res ci) _) eqn:Er; [apply res3_eqb_eq in Er; rewrite <- Er|]; reflexivity.
  - intros c Hn. unfold pm_get. rewrite Hhas, Hn. reflexivity.
  - intros c l Hl. unfold pm_has_link. rewrite Hhas. subst m. cbn [build_machine pm_dead_links]. split.
    + intros H. apply andb_true_iff in H. destruct H as [Hs Hd]. apply si_has_get in Hs. destruct Hs as [ci Hg].
      exists ci. split; [assumption|]. apply negb_true_iff in Hd.
      destruct (in_dec Z.eq_dec l (ci_links ci)) as [Hin|Hnin]; [assumption|].
      assert (Hx : link_mem (c, l) (si_dead_links si) = true).
      { apply link_mem_In. apply In_si_dead_links; [assumption|]. exists ci. auto. }
      congruence.
    + intros (ci & Hg & Hin). assert (Hs : si_has si c = true) by (apply si_has_get; eauto). rewrite Hs.
      cbn [andb]. apply negb_true_iff. destruct (link_mem (c, l) (si_dead_links si)) eqn:Ed; auto.
      apply link_mem_In in Ed. apply In_si_dead_links in Ed; [|assumption].
      destruct Ed as (ci' & Hg' & _ & Hn). rewrite Hg in Hg'. inversion Hg'; subst. contradiction.
  - intros c. subst m. cbn [build_machine pm_dead_chips]. apply In_si_dead_chips.
  - intros c l. subst m. cbn [build_machine pm_dead_links]. apply In_si_dead_links. assumption.
Qed.

(* ------------------------------------------------------------------------------------------------ *)
(* _get_minimal_core_reservations                                                                    *)

(* strictly increasing, all elements >= lo *)
Fixpoint incr_from (lo : Z) (l : list Z) : Prop :=
  match l with
  | [] => True
  | c :: r => lo <= c /\ incr_from (c + 1) r
  end.

Lemma incr_from_weaken : forall l lo lo', lo' <= lo -> incr_from lo l -> incr_from lo' l.
Proof. destruct l; cbn [incr_from]; intros; [auto|]. destruct H0. split; [lia|assumption]. Qed.

Lemma incr_from_ge : forall l lo p, incr_from lo l -> In p l -> lo <= p.
Proof.
  induction l as [|c r IH]; intros lo p H Hin; [contradiction|]. destruct H as [H1 H2].
  destruct Hin as [<-|Hin]; [assumption|]. specialize (IH _ _ H2 Hin). lia.
Qed.

Lemma incr_from_filter : forall f l lo, incr_from lo l -> incr_from lo (filter f l).
Proof.
  induction l as [|c r IH]; intros lo H; [exact I|]. destruct H as [H1 H2]. cbn [filter].
  destruct (f c).
  - split; [assumption|]. apply IH. assumption.
  - apply IH. eapply incr_from_weaken; [|eassumption]. lia.
Qed.

Lemma incr_from_seq : forall n k, incr_from (Z.of_nat k) (map Z.of_nat (seq k n)).
Proof.
  induction n as [|n IH]; intros k; [exact I|]. cbn [seq map incr_from]. split; [lia|].
  replace (Z.of_nat k + 1) with (Z.of_nat (S k)) by lia. apply IH.
Qed.

Lemma incr_from_zrange : forall n, incr_from 0 (zrange n).
Proof. intros. unfold zrange. apply (incr_from_seq (Z.to_nat n) 0). Qed.

Definition b2n (b : bool) : nat := if b then 1%nat else 0%nat.

Lemma cover_count_cons : forall p r rs, cover_count p (r :: rs) = (b2n (in_range p r) + cover_count p rs)%nat.
Proof. intros. unfold cover_count. cbn [filter]. destruct (in_range p r); reflexivity. Qed.

Lemma cover_count_app : forall p a b, cover_count p (a ++ b) = (cover_count p a + cover_count p b)%nat.
Proof. intros. unfold cover_count. rewrite filter_app, app_length. reflexivity. Qed.

Lemma zmem_incr_ge : forall l lo p, incr_from lo l -> zmem p l = true -> lo <= p.
Proof. intros l lo p H Hm. apply zmem_In in Hm. eapply incr_from_ge; eassumption. Qed.

Lemma min_res_go_some : forall cores s e p, s < e -> incr_from e cores ->
  cover_count p (min_reservations_go (Some (s, e)) cores) = b2n (in_range p (s, e) || zmem p cores).
Proof.
  induction cores as [|c rest IH]; intros s e p Hse Hinc.
  - cbn [min_reservations_go]. rewrite cover_count_cons. unfold cover_count. cbn [filter length zmem existsb].
    rewrite orb_false_r. lia.
  - destruct Hinc as [Hec Hrest]. cbn [min_reservations_go]. destruct (Z.eqb_spec e c) as [->|Hne].
    + rewrite IH by (auto; lia). f_equal. unfold in_range, zmem. cbn [fst snd existsb].
      destruct (Z.eqb_spec p c); destruct (s <=? p) eqn:E1; destruct (p <? c + 1) eqn:E2; destruct (p <? c) eqn:E3;
        cbn [andb orb]; try reflexivity; exfalso;
        repeat match goal with
               | H : (_ <=? _) = true |- _ => apply Z.leb_le in H
               | H : (_ <=? _) = false |- _ => apply Z.leb_gt in H
               | H : (_ <? _) = true |- _ => apply Z.ltb_lt in H
               | H : (_ <? _) = false |- _ => apply Z.ltb_ge in H
               end; lia.
    + rewrite cover_count_cons. rewrite IH by (auto; lia).
      assert (Hex : in_range p (s, e) = true -> in_range p (c, c + 1) || zmem p rest = false).
      { intros Hin. unfold in_range in *. cbn [fst snd] in *. apply andb_true_iff in Hin. destruct Hin as [H1 H2].
        apply Z.leb_le in H1. apply Z.ltb_lt in H2. apply orb_false_iff. split.
        - apply andb_false_iff. left. apply Z.leb_gt. lia.
        - destruct (zmem p rest) eqn:Em; auto. apply (zmem_incr_ge _ _ _ Hrest) in Em. lia. }
      assert (Hc : zmem p (c :: rest) = in_range p (c, c + 1) || zmem p rest).
      { unfold zmem, in_range. cbn [existsb fst snd]. f_equal.
        destruct (Z.eqb_spec p c); destruct (c <=? p) eqn:E1; destruct (p <? c + 1) eqn:E2; cbn [andb]; try reflexivity;
          exfalso;
          repeat match goal with
                 | H : (_ <=? _) = true |- _ => apply Z.leb_le in H
                 | H : (_ <=? _) = false |- _ => apply Z.leb_gt in H
                 | H : (_ <? _) = true |- _ => apply Z.ltb_lt in H
                 | H : (_ <? _) = false |- _ => apply Z.ltb_ge in H
                 end; lia. }
      rewrite Hc. destruct (in_range p (s, e)) eqn:E.
      * rewrite (Hex eq_refl). reflexivity.
      * cbn [orb b2n]. lia.
Qed.

Lemma min_res_count : forall cores lo p, incr_from lo cores ->
  cover_count p (min_reservations cores) = b2n (zmem p cores).
Proof.
  intros [|c rest] lo p H; [reflexivity|]. destruct H as [_ H]. unfold min_reservations.
  cbn [min_reservations_go]. rewrite min_res_go_some by (auto; lia). f_equal.
  unfold zmem, in_range. cbn [existsb fst snd]. f_equal.
  destruct (Z.eqb_spec p c); destruct (c <=? p) eqn:E1; destruct (p <? c + 1) eqn:E2; cbn [andb]; try reflexivity;
    exfalso;
    repeat match goal with
           | H : (_ <=? _) = true |- _ => apply Z.leb_le in H
           | H : (_ <=? _) = false |- _ => apply Z.leb_gt in H
           | H : (_ <? _) = true |- _ => apply Z.ltb_lt in H
           | H : (_ <? _) = false |- _ => apply Z.ltb_ge in H
           end; lia.
Qed.

Lemma min_res_go_nonempty : forall cores s e r, s < e -> incr_from e cores ->
  In r (min_reservations_go (Some (s, e)) cores) -> s <= fst r /\ fst r < snd r.
Proof.
  induction cores as [|c rest IH]; intros s e r Hse Hinc Hin.
  - destruct Hin as [<-|[]]. cbn [fst snd]. lia.
  - destruct Hinc as [Hec Hrest]. cbn [min_reservations_go] in Hin. destruct (Z.eqb_spec e c) as [->|Hne].
    + apply (IH s (c + 1)); auto; lia.
    + destruct Hin as [<-|Hin]; [cbn [fst snd]; lia|].
      destruct (IH c (c + 1) r) as [H1 H2]; auto; lia.
Qed.

Lemma min_res_nonempty : forall cores lo r, incr_from lo cores ->
  In r (min_reservations cores) -> lo <= fst r /\ fst r < snd r.
Proof.
  intros [|c rest] lo r H Hin; [contradiction|]. destruct H as [H1 H2].
  unfold min_reservations in Hin. cbn [min_reservations_go] in Hin.
  destruct (min_res_go_nonempty rest c (c + 1) r) as [H3 H4]; auto; lia.
Qed.

(* ------------------------------------------------------------------------------------------------ *)
(* the busy-core bit masks                                                                           *)

Definition busy_in (K : list (Z * Z)) (p : Z) : bool :=
  existsb (fun cs => (fst cs =? p) && negb (snd cs =? AppState_idle)) K.

Definition mask_of (K : list (Z * Z)) : Z :=
  fold_right Z.add 0 (map (fun cs => if snd cs =? AppState_idle then 0 else Z.shiftl 1 (fst cs)) K).

Lemma reserved_mask_eq : forall states, reserved_mask states = mask_of (enumerate states).
Proof. reflexivity. Qed.

Lemma busy_in_notin : forall K p, ~ In p (map fst K) -> busy_in K p = false.
Proof.
  induction K as [|[k s] K IH]; intros p Hn; [reflexivity|]. cbn [map fst In] in Hn.
  unfold busy_in. cbn [existsb fst snd]. destruct (Z.eqb_spec k p) as [->|Hne]; [tauto|].
  cbn [andb orb]. apply IH. tauto.
Qed.

Lemma mask_of_nonneg : forall K, (forall k, In k (map fst K) -> 0 <= k) -> 0 <= mask_of K.
Proof.
  induction K as [|[k s] K IH]; intros Hk; [unfold mask_of; simpl; lia|].
  unfold mask_of. cbn [map fold_right fst snd]. fold (mask_of K).
  assert (0 <= mask_of K) by (apply IH; intros; apply Hk; right; assumption).
  destruct (s =? AppState_idle); [lia|]. rewrite Z.shiftl_1_l.
  assert (0 < 2 ^ k) by (apply Z.pow_pos_nonneg; [lia|apply Hk; left; reflexivity]). lia.
Qed.

Lemma mask_bits : forall K, NoDup (map fst K) -> (forall k, In k (map fst K) -> 0 <= k) ->
  forall p, 0 <= p -> Z.testbit (mask_of K) p = busy_in K p.
Proof.
  induction K as [|[c s] K IH]; intros Hnd Hk p Hp.
  - unfold mask_of, busy_in. cbn. apply Z.bits_0.
  - cbn [map fst] in Hnd. inversion Hnd as [|? ? Hnot Hnd']; subst.
    assert (Hk' : forall k, In k (map fst K) -> 0 <= k) by (intros; apply Hk; right; assumption).
    assert (Hc : 0 <= c) by (apply Hk; left; reflexivity).
    unfold mask_of, busy_in. cbn [map fold_right existsb fst snd]. fold (mask_of K). fold (busy_in K p).
    destruct (s =? AppState_idle) eqn:Es.
    + rewrite Z.add_0_l, andb_false_r. cbn [orb]. apply IH; assumption.
    + rewrite Z.shiftl_1_l. cbn [negb]. rewrite andb_true_r.
      assert (Hland : Z.land (2 ^ c) (mask_of K) = 0).
      { rewrite Z.land_comm, land_pow2 by assumption. rewrite IH by assumption.
        rewrite busy_in_notin by assumption. reflexivity. }
      rewrite Z.add_nocarry_lxor by assumption. rewrite Z.lxor_spec, Z.pow2_bits_eqb by assumption.
      rewrite IH by assumption. destruct (Z.eqb_spec c p) as [->|Hne].
      * rewrite busy_in_notin by assumption. reflexivity.
      * destruct (busy_in K p); reflexivity.
Qed.

Lemma map_fst_combine : forall {A B} (a : list A) (b : list B), length a = length b ->
  map fst (combine a b) = a.
Proof.
  induction a as [|x a IH]; intros [|y b] H; try discriminate; [reflexivity|].
  cbn [combine map fst]. f_equal. apply IH. simpl in H. lia.
Qed.

Lemma enumerate_keys : forall {A} (l : list A), map fst (enumerate l) = zrange (Z.of_nat (length l)).
Proof.
  intros. unfold enumerate. apply map_fst_combine. rewrite zrange_length. lia.
Qed.

Lemma In_combine_seq : forall {A} (l : list A) k p s,
  In (p, s) (combine (map Z.of_nat (seq k (length l))) l) <->
  exists i, p = Z.of_nat (k + i) /\ nth_error l i = Some s.
Proof.
  induction l as [|x l IH]; intros k p s.
  - cbn. split; [contradiction|]. intros (i & _ & H). destruct i; discriminate.
  - cbn [length seq map combine In]. rewrite IH. split.
    + intros [H|(i & -> & Hi)].
      * inversion H; subst. exists 0%nat. split; [f_equal; lia|reflexivity].
      * exists (S i). split; [f_equal; lia|assumption].
    + intros (i & -> & Hi). destruct i as [|i].
      * left. cbn in Hi. inversion Hi. f_equal. f_equal. lia.
      * right. exists i. split; [f_equal; lia|assumption].
Qed.

Lemma In_enumerate : forall {A} (l : list A) p s,
  In (p, s) (enumerate l) <-> (0 <= p /\ nth_error l (Z.to_nat p) = Some s).
Proof.
  intros A l p s. unfold enumerate, zrange. rewrite Nat2Z.id. rewrite In_combine_seq. split.
  - intros (i & -> & Hi). rewrite Nat.add_0_l, Nat2Z.id. split; [lia|assumption].
  - intros [Hp Hn]. exists (Z.to_nat p). split; [lia|assumption].
Qed.

Lemma busy_in_enumerate : forall states p,
  busy_in (enumerate states) p = true <->
  (0 <= p < Z.of_nat (length states) /\ nth (Z.to_nat p) states idle_state <> idle_state).
Proof.
  intros states p. unfold busy_in. rewrite existsb_exists. split.
  - intros ([k s] & Hin & Hb). cbn [fst snd] in Hb. apply andb_true_iff in Hb. destruct Hb as [Hk Hs].
    apply Z.eqb_eq in Hk. subst k. apply negb_true_iff in Hs. apply Z.eqb_neq in Hs.
    apply In_enumerate in Hin. destruct Hin as [Hp Hn].
    assert (Hlt : (Z.to_nat p < length states)%nat) by (apply nth_error_Some; congruence).
    split; [lia|]. rewrite (nth_error_nth _ _ _ Hn). exact Hs.
  - intros [Hp Hs]. exists (p, nth (Z.to_nat p) states idle_state). split.
    + apply In_enumerate. split; [lia|]. apply nth_error_nth'. lia.
    + cbn [fst snd]. rewrite Z.eqb_refl. cbn [andb]. apply negb_true_iff. apply Z.eqb_neq. exact Hs.
Qed.

Lemma reserved_mask_bits : forall states p, 0 <= p ->
  Z.testbit (reserved_mask states) p = busy_in (enumerate states) p.
Proof.
  intros states p Hp. rewrite reserved_mask_eq. apply mask_bits; [| |assumption].
  - rewrite enumerate_keys. apply NoDup_zrange.
  - intros k Hk. rewrite enumerate_keys in Hk. apply In_zrange in Hk. lia.
Qed.

Lemma fold_land_bits : forall (r : list chip_info) a p,
  Z.testbit (fold_left (fun g ci => Z.land g (reserved_mask (ci_states ci))) r a) p =
  Z.testbit a p && forallb (fun ci => Z.testbit (reserved_mask (ci_states ci)) p) r.
Proof.
  induction r as [|ci r IH]; intros a p; cbn [fold_left forallb].
  - rewrite andb_true_r. reflexivity.
  - rewrite IH, Z.land_spec, andb_assoc. reflexivity.
Qed.

Lemma global_subset : forall infos ci p, In ci infos ->
  Z.testbit (globally_reserved infos) p = true -> Z.testbit (reserved_mask (ci_states ci)) p = true.
Proof.
  intros [|c0 r] ci p Hin Hb; [contradiction|]. cbn [globally_reserved] in Hb.
  rewrite fold_land_bits in Hb. apply andb_true_iff in Hb. destruct Hb as [H0 Hr].
  destruct Hin as [<-|Hin]; [assumption|]. rewrite forallb_forall in Hr. apply Hr. assumption.
Qed.

Lemma land_shiftl_test : forall g c, 0 <= c -> (Z.land (Z.shiftl 1 c) g =? 0) = negb (Z.testbit g c).
Proof.
  intros g c Hc. rewrite Z.shiftl_1_l, Z.land_comm, land_pow2 by assumption.
  assert (0 < 2 ^ c) by (apply Z.pow_pos_nonneg; lia).
  destruct (Z.testbit g c); cbn [negb]; [apply Z.eqb_neq; lia|reflexivity].
Qed.

(* ------------------------------------------------------------------------------------------------ *)
(* build_core_constraints                                                                            *)

Definition global_cores (g : Z) : list Z :=
  filter (fun core => negb (Z.land (Z.shiftl 1 core) g =? 0)) (zrange bcc_core_range).

Lemma zmem_global_cores : forall g p,
  zmem p (global_cores g) = true <-> (0 <= p < bcc_core_range /\ Z.testbit g p = true).
Proof.
  intros g p. rewrite zmem_In. unfold global_cores. rewrite filter_In, In_zrange. split.
  - intros [Hp Hb]. split; [assumption|]. rewrite land_shiftl_test in Hb by lia. rewrite negb_involutive in Hb. assumption.
  - intros [Hp Hb]. split; [assumption|]. rewrite land_shiftl_test by lia. rewrite negb_involutive. assumption.
Qed.

Lemma incr_map_fst_filter : forall (q : Z * Z -> bool) K lo,
  incr_from lo (map fst K) -> incr_from lo (map fst (filter q K)).
Proof.
  induction K as [|[k s] K IH]; intros lo H; [exact I|]. cbn [map fst incr_from] in H. destruct H as [H1 H2].
  cbn [filter]. destruct (q (k, s)).
  - cbn [map fst incr_from]. split; [assumption|]. apply IH. assumption.
  - apply IH. eapply incr_from_weaken; [|eassumption]. lia.
Qed.

Lemma zmem_busy_not_global : forall g states p,
  zmem p (busy_not_global g states) = true <->
  (busy_in (enumerate states) p = true /\ Z.testbit g p = false).
Proof.
  intros g states p. rewrite zmem_In. unfold busy_not_global. rewrite in_map_iff. split.
  - intros ([k s] & <- & Hin). cbn [fst]. apply filter_In in Hin. destruct Hin as [Hin Hq]. cbn [fst snd] in Hq.
    apply andb_true_iff in Hq. destruct Hq as [Hs Hg].
    assert (Hk : 0 <= k) by (apply In_enumerate in Hin; tauto).
    rewrite Z.land_comm, land_shiftl_test in Hg by assumption. apply negb_true_iff in Hg. split; [|assumption].
    unfold busy_in. apply existsb_exists. exists (k, s). split; [assumption|]. cbn [fst snd].
    rewrite Z.eqb_refl. exact Hs.
  - intros [Hb Hg]. unfold busy_in in Hb. apply existsb_exists in Hb. destruct Hb as ([k s] & Hin & Hq).
    cbn [fst snd] in Hq. apply andb_true_iff in Hq. destruct Hq as [Hk Hs]. apply Z.eqb_eq in Hk. subst k.
    exists (p, s). split; [reflexivity|]. apply filter_In. split; [assumption|]. cbn [fst snd]. rewrite Hs. cbn [andb].
    assert (Hp : 0 <= p) by (apply In_enumerate in Hin; tauto).
    rewrite Z.land_comm, land_shiftl_test by assumption. rewrite Hg. reflexivity.
Qed.

Lemma incr_busy_not_global : forall g states, incr_from 0 (busy_not_global g states).
Proof.
  intros. unfold busy_not_global. apply incr_map_fst_filter. rewrite enumerate_keys. apply incr_from_zrange.
Qed.

Lemma filter_applies_global : forall c (rs : list range),
  filter (applies_to c) (map (fun r => (r, @None chip)) rs) = map (fun r => (r, None)) rs.
Proof. induction rs as [|r rs IH]; [reflexivity|]. cbn [map filter applies_to snd]. rewrite IH. reflexivity. Qed.

Lemma filter_applies_same : forall c (rs : list range),
  filter (applies_to c) (map (fun r => (r, Some c)) rs) = map (fun r => (r, Some c)) rs.
Proof.
  induction rs as [|r rs IH]; [reflexivity|]. cbn [map filter applies_to snd]. rewrite chip_eqb_refl, IH. reflexivity.
Qed.

Lemma filter_applies_diff : forall c k (rs : list range), chip_eqb c k = false ->
  filter (applies_to c) (map (fun r => (r, Some k)) rs) = [].
Proof.
  intros c k rs Hne. induction rs as [|r rs IH]; [reflexivity|]. cbn [map filter applies_to snd]. rewrite Hne. exact IH.
Qed.

Lemma filter_applies_other : forall c (F : chip_info -> list range) (l : list (chip * chip_info)),
  ~ In c (map fst l) ->
  filter (applies_to c) (flat_map (fun cc => map (fun r => (r, Some (fst cc))) (F (snd cc))) l) = [].
Proof.
  induction l as [|[k ck] l IH]; intros Hn; [reflexivity|]. cbn [map fst In] in Hn.
  cbn [flat_map fst snd]. rewrite filter_app. rewrite IH by tauto. rewrite app_nil_r.
  apply filter_applies_diff. apply chip_eqb_neq. intros ->. tauto.
Qed.

Lemma filter_applies_local : forall c ci (F : chip_info -> list range) (l : list (chip * chip_info)),
  NoDup (map fst l) -> In (c, ci) l ->
  filter (applies_to c) (flat_map (fun cc => map (fun r => (r, Some (fst cc))) (F (snd cc))) l)
  = map (fun r => (r, Some c)) (F ci).
Proof.
  induction l as [|[k ck] l IH]; intros Hnd Hin; [contradiction|].
  cbn [map fst] in Hnd. inversion Hnd as [|? ? Hnot Hnd']; subst.
  cbn [flat_map fst snd]. rewrite filter_app. destruct Hin as [Heq|Hin].
  - inversion Heq; subst. rewrite filter_applies_other by assumption. rewrite app_nil_r.
    apply filter_applies_same.
  - rewrite IH by assumption. rewrite filter_applies_diff; [reflexivity|].
    apply chip_eqb_neq. intros ->. apply Hnot. apply in_map_iff. exists (k, ci). auto.
Qed.

Lemma ranges_on_constraints : forall si c ci, NoDup (map fst (si_chips si)) -> si_get si c = Some ci ->
  ranges_on c (build_core_constraints si) =
  min_reservations (global_cores (globally_reserved (map snd (si_chips si)))) ++
  min_reservations (busy_not_global (globally_reserved (map snd (si_chips si))) (ci_states ci)).
Proof.
  intros si c ci Hnd Hg. unfold ranges_on, build_core_constraints. fold (global_cores (globally_reserved (map snd (si_chips si)))).
  rewrite filter_app, map_app. rewrite filter_applies_global.
  rewrite (filter_applies_local c ci
             (fun ci' => min_reservations (busy_not_global (globally_reserved (map snd (si_chips si))) (ci_states ci'))))
    by (auto; apply cassoc_In; assumption).
  rewrite !map_map. cbn [fst]. rewrite !map_id. reflexivity.
Qed.

Theorem core_reservations_exact : forall si,
  NoDup (map fst (si_chips si)) ->
  (forall c ci, In (c, ci) (si_chips si) -> Z.of_nat (length (ci_states ci)) <= 18) ->
  forall c ci, si_get si c = Some ci ->
  let rs := ranges_on c (build_core_constraints si) in
  (forall r, In r rs -> 0 <= fst r < snd r) /\
  (forall p, (cover_count p rs <= 1)%nat) /\
  (forall p, (exists r, In r rs /\ fst r <= p < snd r) <-> core_busy ci p).
Proof.
  intros si Hnd Hlen c ci Hg rs. subst rs. rewrite (ranges_on_constraints si c ci Hnd Hg).
  set (g := globally_reserved (map snd (si_chips si))).
  assert (Hin : In (c, ci) (si_chips si)) by (apply cassoc_In; assumption).
  assert (Hci : In ci (map snd (si_chips si))) by (apply in_map_iff; exists (c, ci); auto).
  assert (Hcount : forall p, cover_count p (min_reservations (global_cores g) ++ min_reservations (busy_not_global g (ci_states ci)))
                             = b2n (busy_in (enumerate (ci_states ci)) p)).
  { intros p. rewrite cover_count_app.
    rewrite (min_res_count (global_cores g) 0) by (unfold global_cores; apply incr_from_filter, incr_from_zrange).
    rewrite (min_res_count (busy_not_global g (ci_states ci)) 0) by apply incr_busy_not_global.
    destruct (zmem p (global_cores g)) eqn:EG; destruct (zmem p (busy_not_global g (ci_states ci))) eqn:EL.
    - apply zmem_global_cores in EG. apply zmem_busy_not_global in EL. destruct EG as [_ EG]. destruct EL as [_ EL]. congruence.
    - apply zmem_global_cores in EG. destruct EG as [Hp Hb].
      apply (global_subset _ ci p Hci) in Hb. rewrite reserved_mask_bits in Hb by lia. rewrite Hb. reflexivity.
    - apply zmem_busy_not_global in EL. destruct EL as [Hb _]. rewrite Hb. reflexivity.
    - destruct (busy_in (enumerate (ci_states ci)) p) eqn:Eb; [|reflexivity]. exfalso.
      destruct (Z.testbit g p) eqn:Et.
      + assert (Hx : zmem p (global_cores g) = true).
        { apply zmem_global_cores. split; [|assumption]. apply busy_in_enumerate in Eb. destruct Eb as [Hp _].
          specialize (Hlen c ci Hin). change bcc_core_range with 18. lia. }
        congruence.
      + assert (Hx : zmem p (busy_not_global g (ci_states ci)) = true) by (apply zmem_busy_not_global; auto).
        congruence. }
  split; [|split].
  - intros r Hr. apply in_app_iff in Hr. destruct Hr as [Hr|Hr].
    + apply (min_res_nonempty _ 0) in Hr; [lia|]. unfold global_cores. apply incr_from_filter, incr_from_zrange.
    + apply (min_res_nonempty _ 0) in Hr; [lia|]. apply incr_busy_not_global.
  - intros p. rewrite Hcount. destruct (busy_in _ p); simpl; lia.
  - intros p. unfold core_busy. rewrite <- busy_in_enumerate. specialize (Hcount p).
    unfold cover_count in Hcount. split.
    + intros (r & Hr & Hp). destruct (busy_in (enumerate (ci_states ci)) p); [reflexivity|]. exfalso.
      assert (Hf : In r (filter (in_range p) (min_reservations (global_cores g) ++ min_reservations (busy_not_global g (ci_states ci))))).
      { apply filter_In. split; [assumption|]. unfold in_range. apply andb_true_iff. split; [apply Z.leb_le|apply Z.ltb_lt]; lia. }
      destruct (filter (in_range p) _); [contradiction|]. simpl in Hcount. discriminate.
    + intros Hb. rewrite Hb in Hcount.
      destruct (filter (in_range p) (min_reservations (global_cores g) ++ min_reservations (busy_not_global g (ci_states ci)))) as [|r l] eqn:Ef;
        [simpl in Hcount; discriminate|].
      assert (Hr : In r (filter (in_range p) (min_reservations (global_cores g) ++ min_reservations (busy_not_global g (ci_states ci)))))
        by (rewrite Ef; left; reflexivity).
      apply filter_In in Hr. destruct Hr as [Hr Hp]. exists r. split; [assumption|].
      unfold in_range in Hp. apply andb_true_iff in Hp. destruct Hp as [H1 H2]. apply Z.leb_le in H1. apply Z.ltb_lt in H2. lia.
Qed.

(* ------------------------------------------------------------------------------------------------ *)
(* the IOBUF chain                                                                                   *)

Lemma unpack_4I : forall b0 b1 b2 b3 b4 b5 b6 b7 b8 b9 b10 b11 b12 b13 b14 b15,
  unpack_ints iobuf_header_format [b0; b1; b2; b3; b4; b5; b6; b7; b8; b9; b10; b11; b12; b13; b14; b15] =
  Some [le_decode [b0; b1; b2; b3]; le_decode [b4; b5; b6; b7]; le_decode [b8; b9; b10; b11];
        le_decode [b12; b13; b14; b15]].
Proof. reflexivity. Qed.

Lemma le_encode_4 : forall v, le_encode 4 v =
  [v mod 256; (v / 256) mod 256; (v / 256 / 256) mod 256; (v / 256 / 256 / 256) mod 256].
Proof. reflexivity. Qed.

Lemma word_range : forall v, is_word v -> 0 <= v < 256 ^ Z.of_nat 4.
Proof. unfold is_word. intros. change (256 ^ Z.of_nat 4) with 4294967296. assumption. Qed.

Lemma iobuf_step : forall (rd : reader) size a b next,
  is_word next -> is_word (b_time b) -> is_word (b_ms b) -> is_word (b_length b) ->
  0 <= size -> Z.of_nat (length (b_payload b)) = size -> b_length b <= size ->
  rd a (size + 16) = block_bytes b next ->
  unpack_ints iobuf_header_format (slice 0 iobuf_header_bytes (rd a (iobuf_read_length size)))
    = Some [next; b_time b; b_ms b; b_length b] /\
  slice iobuf_text_start (iobuf_text_stop (b_length b)) (rd a (iobuf_read_length size))
    = firstn (Z.to_nat (b_length b)) (b_payload b).
Proof.
  intros rd size a b next Hn Ht Hm Hl Hs Hp Hle Hrd.
  unfold iobuf_read_length. rewrite Hrd. unfold block_bytes. split.
  - unfold slice, iobuf_header_bytes. change (Z.to_nat (16 - 0)) with 16%nat. change (Z.to_nat 0) with 0%nat.
    rewrite skipn_O. rewrite !le_encode_4. cbn [app firstn].
    rewrite unpack_4I. rewrite <- !le_encode_4.
    rewrite !le_decode_encode by (apply word_range; assumption). reflexivity.
  - unfold slice, iobuf_text_start, iobuf_text_stop. change (Z.to_nat 16) with 16%nat.
    replace (16 + b_length b - 16) with (b_length b) by lia.
    rewrite !le_encode_4. cbn [app skipn]. reflexivity.
Qed.

Theorem iobuf_chain : forall rd size blocks a fuel,
  chain_at rd size a blocks -> (length blocks < fuel)%nat ->
  iobuf_walk fuel rd size a = Ok (chain_text blocks).
Proof.
  intros rd size. induction blocks as [|b rest IH]; intros a fuel Hc Hf.
  - cbn [chain_at] in Hc. subst a. destruct fuel; reflexivity.
  - cbn [chain_at] in Hc. destruct Hc as (Ha & Hnz & next & Hn & Ht & Hm & Hl & Hs & Hp & Hle & Hrd & Hrest).
    destruct fuel as [|fuel]; [simpl in Hf; lia|]. cbn [iobuf_walk].
    apply Z.eqb_neq in Hnz. rewrite Hnz.
    destruct (iobuf_step rd size a b next Hn Ht Hm Hl Hs Hp Hle Hrd) as [Hh Ht'].
    rewrite Hh, Ht'. rewrite (IH next fuel Hrest) by (simpl in Hf; lia). reflexivity.
Qed.

(* the hypothesis cannot be dropped: on a block whose `next` pointer leads back to itself the loop of
   the code never ends (the model runs out of whatever fuel it is given) *)
Theorem iobuf_cycle_diverges : forall rd size a b,
  a <> 0 -> is_word a -> is_word (b_time b) -> is_word (b_ms b) -> is_word (b_length b) ->
  0 <= size -> Z.of_nat (length (b_payload b)) = size -> b_length b <= size ->
  rd a (size + 16) = block_bytes b a ->
  forall fuel, iobuf_walk fuel rd size a = OutOfFuel.
Proof.
  intros rd size a b Hnz Ha Ht Hm Hl Hs Hp Hle Hrd. induction fuel as [|fuel IH]; cbn [iobuf_walk].
  - apply Z.eqb_neq in Hnz. rewrite Hnz. reflexivity.
  - pose proof Hnz as Hnz'. apply Z.eqb_neq in Hnz'. rewrite Hnz'.
    destruct (iobuf_step rd size a b a Ha Ht Hm Hl Hs Hp Hle Hrd) as [Hh _]. rewrite Hh, IH. reflexivity.
Qed.

(* ------------------------------------------------------------------------------------------------ *)
(* from the machine to the place-and-route model: the whole chain                                    *)


Lemma nth_firstn_lt : forall {A} (l : list A) n i d, (i < n)%nat -> nth i (firstn n l) d = nth i l d.
Proof.
  induction l as [|x l IH]; intros n i d Hi.
  - rewrite firstn_nil. reflexivity.
  - destruct n as [|n]; [lia|]. destruct i as [|i]; [reflexivity|]. cbn [firstn nth]. apply IH. lia.
Qed.

Lemma core_busy_truth : forall cs p, cs_valid cs -> (core_busy (truth_info cs) p <-> machine_busy cs p).
Proof.
  intros cs p (Hc & Hlen & _). unfold core_busy, machine_busy, truth_info. cbn [ci_states].
  rewrite firstn_length, Hlen.
  assert (Hm : Z.of_nat (Nat.min (Z.to_nat (cs_cores cs)) 18) = Z.min (cs_cores cs) 18) by lia.
  rewrite Hm. split; intros [Hp Hs]; (split; [assumption|]).
  - rewrite nth_firstn_lt in Hs by lia. assumption.
  - rewrite nth_firstn_lt by lia. assumption.
Qed.

Lemma end_to_end_of_table : forall route answers w h si,
  answers_valid answers -> (exists c, has_route route w h c) ->
  system_info_of_table (info_of_machine answers) (p2p_truth route w h) = Ok si ->
  model_matches_machine route answers w h si.
Proof.
  intros route answers w h si Hv Hex Hsi. unfold model_matches_machine.
  set (m := build_machine si). set (cons := build_core_constraints si).
  destruct (system_info_of_truth route answers w h Hv Hex) as (si' & Hsi' & Hchips & Hbound & _ & _).
  rewrite Hsi in Hsi'. inversion Hsi'; subst si'. clear Hsi'.
  assert (Hnd : NoDup (map fst (si_chips si))) by (rewrite Hchips; apply NoDup_live_chips).
  assert (Hwf : si_wf si).
  { split; [assumption|]. intros c ci Hin. rewrite Hchips in Hin. apply In_live_chips in Hin.
    destruct Hin as [Hroute _]. destruct (Hbound c Hroute). unfold has_route in Hroute. lia. }
  assert (Hget : forall c cs, has_route route w h c -> answers c = Some cs -> si_get si c = Some (truth_info cs)).
  { intros c cs Hc Ha. unfold si_get. apply In_cassoc; [assumption|]. rewrite Hchips. apply In_live_chips. eauto. }
  assert (Hhas : forall c, si_has si c = true <-> (has_route route w h c /\ exists cs, answers c = Some cs)).
  { intros c. rewrite si_has_get. split.
    - intros [ci Hg]. apply cassoc_In in Hg. rewrite Hchips in Hg. apply In_live_chips in Hg.
      destruct Hg as (Hc & cs & Ha & _). eauto.
    - intros (Hc & cs & Ha). eauto. }
  destruct (build_machine_exact si Hwf) as (_ & _ & Hmc & Hmg & _ & Hml & _ & _). fold m in Hmc, Hmg, Hml.
  split; [|split].
  - intros c. rewrite Hmc. apply Hhas.
  - intros c cs Hc Ha. pose proof (Hget c cs Hc Ha) as Hg. pose proof (Hv c cs Ha) as Hcs.
    split; [assumption|]. split; [exact (Hmg c _ Hg)|]. split; [|split].
    + intros l Hl. rewrite (Hml c l) by (rewrite links_values_eq; assumption). split.
      * intros (ci & Hg' & Hin). rewrite Hg in Hg'. inversion Hg'; subst ci. cbn [truth_info ci_links] in Hin.
        apply filter_In in Hin. tauto.
      * intros Hb. exists (truth_info cs). split; [assumption|]. cbn [truth_info ci_links]. apply filter_In. auto.
    + unfold target_lengths. apply In_cassoc; [rewrite map_map; cbn [fst]; assumption|].
      apply in_map_iff. exists (c, truth_info cs). split; [reflexivity|]. apply cassoc_In. assumption.
    + assert (Hlen : forall c' ci, In (c', ci) (si_chips si) -> Z.of_nat (length (ci_states ci)) <= 18).
      { intros c' ci Hin. rewrite Hchips in Hin. apply In_live_chips in Hin. destruct Hin as (_ & cs' & Ha' & ->).
        destruct (Hv c' cs' Ha') as (_ & Hl18 & _). cbn [truth_info ci_states]. rewrite firstn_length, Hl18. lia. }
      destruct (core_reservations_exact si Hnd Hlen c _ Hg) as (H1 & H2 & H3). fold cons in H1, H2, H3.
      split; [assumption|]. split; [assumption|]. intros p. rewrite H3. apply core_busy_truth. assumption.
  - intros k Hk. unfold cons, build_core_constraints in Hk. apply in_app_iff in Hk. destruct Hk as [Hk|Hk].
    + apply in_map_iff in Hk. destruct Hk as (r & <- & _). left. reflexivity.
    + apply in_flat_map in Hk. destruct Hk as ([c ci] & Hin & Hk). apply in_map_iff in Hk. destruct Hk as (r & <- & _).
      right. exists c. split; [reflexivity|]. rewrite Hmc. apply si_has_get. exists ci.
      apply In_cassoc; assumption.
Qed.

Theorem probe_end_to_end : forall rd route answers w h si,
  0 <= w < 256 -> 0 <= h < 256 -> routes_valid route -> reads_dims rd w h -> reads_p2p rd route ->
  answers_valid answers -> (exists c, has_route route w h c) ->
  system_info rd (info_of_machine answers) = Ok si ->
  model_matches_machine route answers w h si.
Proof.
  intros rd route answers w h si Hw Hh Hr Hd Hp Hv Hex Hsi.
  unfold system_info in Hsi. rewrite (p2p_roundtrip rd route w h) in Hsi by assumption. cbn [bind] in Hsi.
  eapply end_to_end_of_table; eassumption.
Qed.

(* ------------------------------------------------------------------------------------------------ *)
(* router counters: sixteen little-endian words                                                      *)

Lemma unpack_items_words : forall ws rest, Forall is_word ws ->
  unpack_items (repeat (FInt 4) (length ws)) (flat_map (le_encode 4) ws ++ rest) = map UInt ws.
Proof.
  induction ws as [|v ws IH]; intros rest Hw; [reflexivity|]. inversion Hw; subst.
  cbn [length repeat flat_map unpack_items]. rewrite le_encode_4. cbn [app firstn skipn].
  rewrite <- le_encode_4. rewrite le_decode_encode by (apply word_range; assumption).
  cbn [map]. f_equal. apply IH. assumption.
Qed.

Theorem router_counters_roundtrip : forall (rd : reader) ws,
  length ws = 16%nat -> Forall is_word ws ->
  rd 3774874368 64 = flat_map (le_encode 4) ws ->
  router_diagnostics rd = Ok ws.
Proof.
  intros rd ws Hlen Hw Hrd. unfold router_diagnostics.
  change router_diag_address with 3774874368. change router_diag_length with 64. rewrite Hrd.
  unfold unpack_ints, unpack. change (parse_format router_diag_format) with (Some (repeat (FInt 4) 16)).
  assert (Hl : length (flat_map (le_encode 4) ws) = 64%nat).
  { clear Hrd Hw. do 17 (destruct ws as [|? ws]; try discriminate). reflexivity. }
  rewrite Hl. change (items_size (repeat (FInt 4) 16)) with 64%nat. cbn [Nat.eqb].
  rewrite <- Hlen. rewrite <- (app_nil_r (flat_map (le_encode 4) ws)).
  rewrite unpack_items_words by assumption. rewrite ints_of_map_UInt. rewrite Hlen. reflexivity.
Qed.

(* ------------------------------------------------------------------------------------------------ *)
(* examples: the hypotheses of the theorems are satisfiable                                          *)

Definition ex_cs : chip_state :=
  mkCS 17 [7; 15; 15; 7; 7; 15; 11; 15; 15; 15; 15; 15; 15; 15; 15; 15; 2; 0] 45 119275492 22240 2047 true
       [192; 168; 240; 253] (8, 0).

Lemma ex_cs_valid : cs_valid ex_cs.
Proof.
  unfold cs_valid, ex_cs, is_byte. cbn [cs_cores cs_states cs_linkmask cs_rtr cs_ip cs_eth fst snd].
  repeat split; try lia; try reflexivity.
  - repeat (apply Forall_cons; [unfold app_states; cbn [In]; lia|]). apply Forall_nil.
  - repeat (apply Forall_cons; [lia|]). apply Forall_nil.
Qed.

Lemma ex_cs_decodes :
  option_map flat_ci (okopt (decode_info (encode_info ex_cs))) =
  Some ([17; 17; 7; 15; 15; 7; 7; 15; 11; 15; 15; 15; 15; 15; 15; 15; 15; 15; 2; 4; 0; 2; 3; 5;
         119275492; 22240; 2047; 1; 15] ++ chars "192.168.240.253" ++ [8; 0]).
Proof. vm_compute. reflexivity. Qed.

(* a 2 x 3 machine: chip (1, 1) has no route, chip (1, 2) does not answer *)
Definition ex_route (c : chip) : Z :=
  if chip_eqb c (0, 0) then 7 else if chip_eqb c (1, 1) then 6 else (fst c + snd c) mod 6.
Definition ex_answers (c : chip) : option chip_state :=
  if chip_eqb c (1, 2) then None else Some ex_cs.
Definition ex_rd : reader :=
  fun a n => if a =? SV_BASE + SV_P2P_DIMS then le_encode 2 (256 * 2 + 3)
             else map (fun j => p2p_byte ex_route (a - RTR_P2P + j)) (zrange n).

Lemma ex_machine_hypotheses :
  routes_valid ex_route /\ reads_dims ex_rd 2 3 /\ reads_p2p ex_rd ex_route /\ answers_valid ex_answers /\
  (exists c, has_route ex_route 2 3 c).
Proof.
  split; [|split; [|split; [|split]]].
  - intros c. unfold ex_route. destruct (chip_eqb c (0, 0)); [lia|]. destruct (chip_eqb c (1, 1)); [lia|].
    pose proof (Z.mod_pos_bound (fst c + snd c) 6). lia.
  - reflexivity.
  - intros off n Ho Hn Hle. unfold ex_rd.
    replace (RTR_P2P + off =? SV_BASE + SV_P2P_DIMS) with false
      by (symmetry; apply Z.eqb_neq; unfold RTR_P2P, SV_BASE, SV_P2P_DIMS; lia).
    apply map_ext. intros j. f_equal. lia.
  - intros c cs H. unfold ex_answers in H. destruct (chip_eqb c (1, 2)); [discriminate|]. inversion H. apply ex_cs_valid.
  - exists (0, 0). unfold has_route, ex_route, NO_ROUTE. cbn. lia.
Qed.

Lemma ex_machine_probed :
  option_map (fun si => (si_width si, si_height si, map fst (si_chips si)))
             (okopt (system_info ex_rd (info_of_machine ex_answers)))
  = Some (2, 3, [(0, 0); (0, 1); (0, 2); (1, 0)]).
Proof. vm_compute. reflexivity. Qed.

(* a chain of two IOBUF blocks *)
Definition ex_b1 : iobuf_block := mkBlock 1611661312 7 8 3 [104; 105; 10; 0].
Definition ex_b2 : iobuf_block := mkBlock 1611661412 9 10 4 [111; 107; 33; 10].
Definition ex_iobuf_rd : reader :=
  fun a n => if a =? 1611661312 then block_bytes ex_b1 1611661412
             else if a =? 1611661412 then block_bytes ex_b2 0 else [].

Lemma ex_chain : chain_at ex_iobuf_rd 4 1611661312 [ex_b1; ex_b2].
Proof.
  cbn [chain_at]. split; [reflexivity|]. split; [discriminate|]. exists 1611661412.
  unfold is_word. cbn [b_time b_ms b_length b_payload ex_b1 length].
  do 7 (split; [lia || reflexivity|]). split; [reflexivity|].
  split; [reflexivity|]. split; [discriminate|]. exists 0.
  cbn [b_time b_ms b_length b_payload ex_b2 length].
  do 7 (split; [lia || reflexivity|]). split; reflexivity.
Qed.

Lemma ex_chain_walk : iobuf_walk 3 ex_iobuf_rd 4 1611661312 = Ok [104; 105; 10; 111; 107; 33; 10].
Proof. exact (iobuf_chain ex_iobuf_rd 4 [ex_b1; ex_b2] 1611661312 3 ex_chain (Nat.lt_succ_diag_r 2)). Qed.

(* a description on which build_machine / build_core_constraints are exercised: core 0 busy everywhere
   (global reservation), cores 3-4 busy on one chip only (local reservation) *)
Definition ex_ci (states : list Z) (sdram : Z) : chip_info :=
  mkCI (Z.of_nat (length states)) states [0; 1; 2] sdram 22240 1023 false "0.0.0.0" (0, 0).
Definition ex_si : sysinfo :=
  mkSI 2 1 [((0, 0), ex_ci [7; 15; 15; 7; 7; 15] 100); ((1, 0), ex_ci [7; 15; 15; 15] 90)].

Lemma ex_si_wf : si_wf ex_si.
Proof.
  split.
  - cbn. repeat constructor; cbn; intuition discriminate.
  - intros c ci [H|[H|[]]]; inversion H; subst; cbn; lia.
Qed.

Lemma ex_si_constraints :
  build_core_constraints ex_si = [((0, 1), None); ((3, 5), Some (0, 0))].
Proof. vm_compute. reflexivity. Qed.

(* ------------------------------------------------------------------------------------------------ *)
(* get_processor_status: every field is sliced from its documented place in the 128-byte block       *)

Lemma rte_members : forall v, 0 <= v <= rte_codes_max -> zmem v rte_values = true.
Proof.
  intros v Hv. unfold rte_codes_max in Hv.
  assert (H : v = 0 \/ v = 1 \/ v = 2 \/ v = 3 \/ v = 4 \/ v = 5 \/ v = 6 \/ v = 7 \/ v = 8 \/ v = 9 \/ v = 10 \/
              v = 11 \/ v = 12 \/ v = 13 \/ v = 14 \/ v = 15 \/ v = 16 \/ v = 17 \/ v = 18 \/ v = 19 \/ v = 20) by lia.
  repeat (destruct H as [->|H]; [reflexivity|]). subst. reflexivity.
Qed.

Lemma version_bytes : forall sw, 0 <= sw ->
  [Z.land (Z.shiftr sw 16) 255; Z.land (Z.shiftr sw 8) 255; Z.land (Z.shiftr sw 0) 255] =
  [(sw / 65536) mod 256; (sw / 256) mod 256; sw mod 256].
Proof.
  intros sw Hsw. change 255 with (Z.ones 8). rewrite !land_ones_mod by lia. rewrite !Z.shiftr_div_pow2 by lia.
  change (2 ^ 16) with 65536. change (2 ^ 8) with 256. change (2 ^ 0) with 1. rewrite Z.div_1_r. reflexivity.
Qed.

Lemma le_decode_nonneg : forall bs, Forall is_byte bs -> 0 <= le_decode bs.
Proof. induction 1 as [|b bs Hb _ IH]; cbn [le_decode]; unfold is_byte in *; lia. Qed.

Lemma Forall_firstn' : forall {A} (P : A -> Prop) l n, Forall P l -> Forall P (firstn n l).
Proof.
  intros A P l. induction l as [|x l IH]; intros n H; [rewrite firstn_nil; constructor|].
  destruct n; [constructor|]. inversion H; subst. cbn [firstn]. constructor; auto.
Qed.

Lemma Forall_skipn' : forall {A} (P : A -> Prop) l n, Forall P l -> Forall P (skipn n l).
Proof.
  intros A P l. induction l as [|x l IH]; intros n H; [rewrite skipn_nil; constructor|].
  destruct n; [assumption|]. inversion H; subst. cbn [skipn]. auto.
Qed.

Lemma Forall_firstn_skipn : forall {A} (P : A -> Prop) l n o, Forall P l -> Forall P (firstn n (skipn o l)).
Proof. intros. apply Forall_firstn', Forall_skipn'. assumption. Qed.

Lemma read_vcpu_base_ok : forall rd base, is_word base ->
  rd (SV_BASE + SV_VCPU_BASE) 4 = le_encode 4 base -> read_sv_int rd sv_vcpu_base = Ok base.
Proof.
  intros rd base Hb Hrd. unfold read_sv_int, read_int_field, sv_vcpu_base. cbv beta iota zeta.
  change (("<" ++ String.concat "" (repeat "I" (Z.to_nat 1)))%string) with "<I"%string.
  change (calcsize "<I") with (Some 4). cbv beta iota.
  change (sv_base + 204) with (SV_BASE + SV_VCPU_BASE). rewrite Hrd. rewrite le_encode_4.
  match goal with |- context [unpack "<I" ?l] => change (unpack "<I" l) with (Some [UInt (le_decode l)]) end.
  cbv beta iota. rewrite <- le_encode_4. rewrite le_decode_encode by (apply word_range; assumption). reflexivity.
Qed.

Theorem status_slicing : forall (rd : reader) base p d,
  status_block_valid d ->
  read_sv_int rd sv_vcpu_base = Ok base ->
  rd (base + VCPU_SIZE * p) VCPU_SIZE = d ->
  processor_status rd p = Ok (status_truth d).
Proof.
  intros rd base p d (Hlen & Hbytes & Hcs & Hrt & Hname) Hbase Hrd.
  assert (Hsw : 0 <= u32_at d 92) by (unfold u32_at; apply le_decode_nonneg, Forall_firstn_skipn; assumption).
  clear Hbytes. apply app_states_members in Hcs. apply rte_members in Hrt.
  unfold processor_status. rewrite Hbase. cbn [bind]. change vcpu_size with VCPU_SIZE. rewrite Hrd. clear Hrd Hbase.
  unfold status_truth. rewrite <- (version_bytes _ Hsw). clear Hsw.
  do 129 (destruct d as [|? d]; try discriminate). clear Hlen.
  cbv -[le_decode zmem is_ascii strip0 appstate_values rte_values Z.land Z.shiftr] in Hname, Hcs, Hrt |- *.
  rewrite Hname, Hcs, Hrt. reflexivity.
Qed.

(* a status block meeting the hypotheses *)
Definition ex_block : list Z :=
  map (fun i => if i =? 44 then 13 else if i =? 46 then 7 else if (72 <=? i) && (i <? 76) then 97 + i - 72
                else if (76 <=? i) && (i <? 88) then 0 else (7 * i + 3) mod 256) (zrange 128).

Lemma ex_block_valid : status_block_valid ex_block.
Proof.
  unfold status_block_valid. split; [reflexivity|]. split.
  - apply Forall_forall. intros b Hb. unfold ex_block in Hb. apply in_map_iff in Hb. destruct Hb as (i & <- & Hi).
    apply In_zrange in Hi. unfold is_byte.
    destruct (i =? 44); [lia|]. destruct (i =? 46); [lia|].
    destruct ((72 <=? i) && (i <? 76)) eqn:E.
    + apply andb_true_iff in E. destruct E as [E1 E2]. apply Z.leb_le in E1. apply Z.ltb_lt in E2. lia.
    + destruct ((76 <=? i) && (i <? 88)); [lia|]. apply Z.mod_pos_bound. lia.
  - split; [vm_compute; tauto|]. split; [vm_compute; split; discriminate|]. reflexivity.
Qed.

(* ------------------------------------------------------------------------------------------------ *)
(* sver: both version encodings                                                                       *)

Lemma sver_header : forall x y pcpu vcpu buf a2hi a3, sver_header_valid x y pcpu vcpu buf -> 0 <= a2hi ->
  let a1 := sver_arg1 x y pcpu vcpu in let a2 := a2hi * 65536 + buf in
  sver_p2p_address (sver_p2p a1 a2 a3) = (x, y) /\ sver_pcpu a1 a2 a3 = pcpu /\ sver_vcpu a1 a2 a3 = vcpu /\
  sver_buffer_size a1 a2 a3 = buf /\ sver_legacy_field a1 a2 a3 = a2hi.
Proof.
  intros x y pcpu vcpu buf a2hi a3 (Hx & Hy & Hp & Hvc & Hb) Hhi a1 a2. subst a1 a2.
  unfold sver_p2p_address, sver_p2p, sver_pcpu, sver_vcpu, sver_buffer_size, sver_legacy_field, sver_arg1, is_byte in *.
  change 255 with (Z.ones 8). change 65535 with (Z.ones 16). rewrite !land_ones_mod by lia.
  rewrite !Z.shiftr_div_pow2 by lia. change (2 ^ 16) with 65536. change (2 ^ 8) with 256.
  repeat split; try lia. f_equal; lia.
Qed.

Lemma is_ascii_app : forall a b, is_ascii (a ++ b) = is_ascii a && is_ascii b.
Proof. intros. unfold is_ascii. apply forallb_app. Qed.

Lemma ascii_text_is_ascii : forall s, ascii_text s -> is_ascii s = true.
Proof.
  induction 1 as [|c s Hc _ IH]; [reflexivity|]. unfold is_ascii in *. cbn [forallb]. rewrite IH.
  replace (0 <=? c) with true by (symmetry; apply Z.leb_le; lia).
  replace (c <? 128) with true by (symmetry; apply Z.ltb_lt; lia). reflexivity.
Qed.

Lemma digits_ascii_text : forall d, Forall (fun c => 48 <= c <= 57) d -> ascii_text d.
Proof. intros d H. unfold ascii_text. eapply Forall_impl; [|eassumption]. cbv beta. intros; lia. Qed.

Lemma lstrip0_pos : forall s, Forall (fun c => 0 < c < 128) s -> lstrip0 s = s.
Proof. intros [|c s] H; [reflexivity|]. inversion H; subst. destruct c; try reflexivity; lia. Qed.

Lemma rstrip0_text : forall s, ascii_text s -> rstrip0 s = s.
Proof.
  intros s H. unfold rstrip0. rewrite lstrip0_pos; [apply rev_involutive|].
  apply Forall_rev. assumption.
Qed.

Lemma lstrip0_zeros : forall k l, lstrip0 (repeat 0 k ++ l) = lstrip0 l.
Proof. induction k as [|k IH]; intros l; [reflexivity|]. cbn [repeat app lstrip0]. apply IH. Qed.

Lemma rev_repeat0 : forall k, rev (repeat 0 k) = repeat 0 k.
Proof.
  induction k as [|k IH]; [reflexivity|]. cbn [repeat rev]. rewrite IH.
  clear IH. induction k as [|k IH]; [reflexivity|]. cbn [repeat app]. rewrite IH. reflexivity.
Qed.

Lemma rstrip0_text_nul : forall s k, ascii_text s -> rstrip0 (s ++ repeat 0 k) = s.
Proof.
  intros s k H. unfold rstrip0. rewrite rev_app_distr, rev_repeat0, lstrip0_zeros.
  rewrite lstrip0_pos; [apply rev_involutive|]. apply Forall_rev. assumption.
Qed.

Lemma is_ascii_zeros : forall k, is_ascii (repeat 0 k) = true.
Proof. induction k; [reflexivity|]. unfold is_ascii in *. cbn [repeat forallb]. rewrite IHk. reflexivity. Qed.

Lemma partition0_text : forall s rest, ascii_text s -> partition0 (s ++ 0 :: rest) = (s, rest).
Proof.
  induction 1 as [|c s Hc _ IH]; [reflexivity|]. cbn [app partition0].
  replace (c =? 0) with false by (symmetry; apply Z.eqb_neq; lia). rewrite IH. reflexivity.
Qed.

Lemma take_digits_app : forall d r, Forall (fun c => 48 <= c <= 57) d ->
  match r with [] => True | c :: _ => c < 48 \/ 57 < c end ->
  take_digits (d ++ r) = (d, r).
Proof.
  induction 1 as [|c d Hc _ IH]; intros Hr.
  - destruct r as [|c r]; [reflexivity|]. cbn [app take_digits]. unfold is_digit.
    destruct Hr as [Hr|Hr].
    + replace (48 <=? c) with false by (symmetry; apply Z.leb_gt; lia). reflexivity.
    + replace (c <=? 57) with false by (symmetry; apply Z.leb_gt; lia). rewrite andb_false_r. reflexivity.
  - cbn [app take_digits]. unfold is_digit at 1.
    replace (48 <=? c) with true by (symmetry; apply Z.leb_le; lia).
    replace (c <=? 57) with true by (symmetry; apply Z.leb_le; lia). cbn [andb]. rewrite IH by assumption. reflexivity.
Qed.

Lemma match_labels_ok : forall l, labels_ok l -> match_labels l = Some l.
Proof.
  intros [|c t] (_ & Hnl & _); [reflexivity|]. cbn [match_labels].
  destruct (zmem 10 t) eqn:E; [|reflexivity]. apply zmem_In in E. exfalso. apply Hnl. right. assumption.
Qed.

Lemma match_version_ok : forall d1 d2 d3 labels, digits d1 -> digits d2 -> digits d3 -> labels_ok labels ->
  match_version (d1 ++ 46 :: d2 ++ 46 :: d3 ++ labels) = Some (dec_value d1, dec_value d2, dec_value d3, labels).
Proof.
  intros d1 d2 d3 labels [N1 D1] [N2 D2] [N3 D3] Hl. unfold match_version.
  rewrite take_digits_app by (auto; cbv beta iota; lia).
  destruct d1 as [|c1 d1]; [contradiction|].
  rewrite take_digits_app by (auto; cbv beta iota; lia).
  destruct d2 as [|c2 d2]; [contradiction|].
  rewrite take_digits_app by (auto; destruct Hl as (_ & _ & H); exact H).
  destruct d3 as [|c3 d3]; [contradiction|].
  rewrite match_labels_ok by assumption. reflexivity.
Qed.

Theorem sver_legacy_roundtrip : forall x y pcpu vcpu major minor buf date name pad,
  sver_header_valid x y pcpu vcpu buf -> 0 <= major -> 0 <= minor < 100 -> 100 * major + minor < 65535 ->
  ascii_text name ->
  decode_sver (encode_sver_legacy x y pcpu vcpu major minor buf date name pad) =
  Ok (mkCO (x, y) pcpu vcpu (major, minor, 0) buf date name []).
Proof.
  intros x y pcpu vcpu major minor buf date name pad Hh Hmaj Hmin Hlt Hname.
  unfold decode_sver, encode_sver_legacy. cbn [r_arg1 r_arg2 r_arg3 r_data].
  destruct (sver_header x y pcpu vcpu buf (100 * major + minor) date Hh ltac:(lia)) as (H1 & H2 & H3 & H4 & H5).
  cbv zeta in H1, H2, H3, H4, H5. rewrite H1, H2, H3, H4, H5.
  rewrite is_ascii_app, ascii_text_is_ascii, is_ascii_zeros by assumption. cbn [andb].
  unfold sver_is_legacy. replace (100 * major + minor =? 65535) with false by (symmetry; apply Z.eqb_neq; lia).
  cbn [negb]. rewrite rstrip0_text_nul by assumption.
  unfold sver_legacy_major, sver_legacy_minor, sver_legacy_patch.
  replace ((100 * major + minor) / 100) with major by lia. replace ((100 * major + minor) mod 100) with minor by lia.
  reflexivity.
Qed.

Theorem sver_semver_roundtrip : forall x y pcpu vcpu buf date name d1 d2 d3 labels pad,
  sver_header_valid x y pcpu vcpu buf -> ascii_text name -> digits d1 -> digits d2 -> digits d3 -> labels_ok labels ->
  decode_sver (encode_sver_semver x y pcpu vcpu buf date name d1 d2 d3 labels pad) =
  Ok (mkCO (x, y) pcpu vcpu (dec_value d1, dec_value d2, dec_value d3) buf date name labels).
Proof.
  intros x y pcpu vcpu buf date name d1 d2 d3 labels pad Hh Hname H1 H2 H3 Hl.
  unfold decode_sver, encode_sver_semver. cbn [r_arg1 r_arg2 r_arg3 r_data].
  destruct (sver_header x y pcpu vcpu buf 65535 date Hh ltac:(lia)) as (E1 & E2 & E3 & E4 & E5).
  cbv zeta in E1, E2, E3, E4, E5. rewrite E1, E2, E3, E4, E5.
  assert (Htxt : ascii_text (d1 ++ 46 :: d2 ++ 46 :: d3 ++ labels)).
  { destruct H1 as [_ D1]. destruct H2 as [_ D2]. destruct H3 as [_ D3]. destruct Hl as (Hl & _).
    unfold ascii_text in *. apply Forall_app. split; [apply digits_ascii_text; assumption|].
    constructor; [lia|]. apply Forall_app. split; [apply digits_ascii_text; assumption|].
    constructor; [lia|]. apply Forall_app. split; [apply digits_ascii_text; assumption|assumption]. }
  assert (Hasc : is_ascii (name ++ 0 :: (d1 ++ 46 :: d2 ++ 46 :: d3 ++ labels) ++ repeat 0 pad) = true).
  { rewrite is_ascii_app, ascii_text_is_ascii by assumption. cbn [andb].
    change (0 :: (d1 ++ 46 :: d2 ++ 46 :: d3 ++ labels) ++ repeat 0 pad)
      with ([0] ++ (d1 ++ 46 :: d2 ++ 46 :: d3 ++ labels) ++ repeat 0 pad).
    rewrite (is_ascii_app [0] _). rewrite (is_ascii_app (d1 ++ 46 :: d2 ++ 46 :: d3 ++ labels) (repeat 0 pad)).
    rewrite (ascii_text_is_ascii _ Htxt), is_ascii_zeros. reflexivity. }
  rewrite Hasc. change (sver_is_legacy 65535) with false. cbv iota.
  rewrite partition0_text by assumption. rewrite rstrip0_text_nul by assumption.
  rewrite match_version_ok by assumption. rewrite rstrip0_text by assumption. reflexivity.
Qed.

Lemma Forall_chars_range : forall lo hi (l : list Z),
  forallb (fun c => (lo <=? c) && (c <=? hi)) l = true -> Forall (fun c => lo <= c <= hi) l.
Proof.
  intros lo hi l H. apply Forall_forall. intros c Hc. rewrite forallb_forall in H. specialize (H c Hc).
  apply andb_true_iff in H. destruct H as [H1 H2]. apply Z.leb_le in H1. apply Z.leb_le in H2. lia.
Qed.

Lemma ascii_text_chk : forall l, forallb (fun c => (1 <=? c) && (c <=? 127)) l = true -> ascii_text l.
Proof.
  intros l H. apply Forall_chars_range in H. unfold ascii_text. eapply Forall_impl; [|eassumption]. cbv beta. intros; lia.
Qed.

Lemma ex_sver_semver :
  sver_header_valid 3 4 17 0 256 /\ ascii_text (chars "SC&MP/SpiNNaker") /\ digits (chars "2") /\ digits (chars "10") /\
  digits (chars "0") /\ labels_ok (chars "-dev") /\
  option_map flat_core_info (okopt (decode_sver (encode_sver_semver 3 4 17 0 256 1459253424 (chars "SC&MP/SpiNNaker")
                                                                    (chars "2") (chars "10") (chars "0") (chars "-dev") 0)))
  = Some [[3; 4; 17; 0; 2; 10; 0; 256; 1459253424]; chars "SC&MP/SpiNNaker"; chars "-dev"].
Proof.
  split; [unfold sver_header_valid, is_byte; lia|].
  split; [apply ascii_text_chk; reflexivity|].
  split; [split; [discriminate|apply Forall_chars_range; reflexivity]|].
  split; [split; [discriminate|apply Forall_chars_range; reflexivity]|].
  split; [split; [discriminate|apply Forall_chars_range; reflexivity]|].
  split; [|vm_compute; reflexivity].
  split; [apply ascii_text_chk; reflexivity|]. split; [vm_compute; intuition discriminate|vm_compute; left; reflexivity].
Qed.

(* get_iobuf_bytes as a whole: the two struct reads, then the walk *)
Theorem iobuf_bytes_chain : forall rd p size a blocks fuel,
  read_sv_int rd sv_iobuf_size = Ok size -> read_vcpu_int rd "iobuf" p = Ok a ->
  chain_at rd size a blocks -> (length blocks < fuel)%nat ->
  get_iobuf_bytes fuel rd p = Ok (chain_text blocks).
Proof.
  intros rd p size a blocks fuel Hs Ha Hc Hf. unfold get_iobuf_bytes. rewrite Hs. cbn [bind]. rewrite Ha. cbn [bind].
  apply iobuf_chain; assumption.
Qed.
