(* C10 -- histories of loads and read-backs: every statement talks to the chip it names, a load that does
   not succeed leaves every router as it was *)
From Coq Require Import ZArith List Bool Lia.
Require Import Rig.Model.Base Rig.Generated.GenRouter Rig.Model.Tables Rig.Model.Router.
Require Import Rig.Spec.Router Rig.Proofs.Router.
Import ListNotations.
Open Scope Z_scope.

Lemma routers_cupd : forall m c v v0 c',
  cassoc c m = Some v0 -> cs_slots v = cs_slots v0 -> routers (cupd c v m) c' = routers m c'.
Proof.
  intros m c v v0 c' H Hs. unfold routers. destruct (chip_eqb c' c) eqn:E.
  - apply chip_eqb_eq in E. subst c'. rewrite (cassoc_cupd_same m c v v0 H), H, Hs. reflexivity.
  - rewrite cassoc_cupd_other; [reflexivity|]. intros ->. rewrite chip_eqb_refl in E. discriminate.
Qed.

Lemma rtr_alloc_slots : forall cs count, cs_slots (fst (rtr_alloc cs count)) = cs_slots cs.
Proof.
  intros cs count. unfold rtr_alloc.
  destruct ((count <? 0) || ((count =? 0) && negb (cs_zero_ok cs))); [reflexivity|].
  destruct (best_fit count (cs_free cs) None) as [[b s]|]; reflexivity.
Qed.

Lemma mem_write_slots : forall cs addr data cs', mem_write cs addr data = Some cs' -> cs_slots cs' = cs_slots cs.
Proof.
  intros cs addr data cs' H. unfold mem_write in H.
  destruct ((cs_buf cs <=? addr) && (addr + len data <=? cs_buf cs + len (cs_bufmem cs))); [|discriminate].
  destruct (write_at (addr - cs_buf cs) data (cs_bufmem cs)); [|discriminate].
  injection H as <-. reflexivity.
Qed.

(* one load, any machine state, any arguments *)
Theorem load_step : forall m es x y a,
  let r := load_routing_table_entries m es x y a in
  Forall (item_at x y) (snd r)
  /\ (forall it, hd_error (snd r) = Some it -> exists base, it = alloc_item x y a (len es) base)
  /\ (fst (fst r) <> LOk -> forall c, routers (snd (fst r)) c = routers m c).
Proof.
  intros m es x y a. cbv zeta. unfold load_routing_table_entries.
  destruct (cassoc (x, y) m) as [cs|] eqn:Hc.
  2:{ cbn [fst snd]. split; [constructor|]. split; [intros it H; discriminate|intros _ c; reflexivity]. }
  rewrite scp_alloc. destruct (rtr_alloc cs (len es)) as [cs1 base] eqn:Ha.
  assert (Hs1 : cs_slots cs1 = cs_slots cs).
  { pose proof (rtr_alloc_slots cs (len es)) as H. rewrite Ha in H. exact H. }
  assert (Hhd : forall (t : list titem) it,
            hd_error (TScp x y lrte_alloc_p lrte_alloc_cmd (lrte_alloc_arg1 a (len es))
                           (lrte_alloc_arg2 a (len es)) 0 base :: t) = Some it ->
            exists b, it = alloc_item x y a (len es) b).
  { intros t it H. injection H as <-. exists base. reflexivity. }
  assert (Hat : item_at x y (TScp x y lrte_alloc_p lrte_alloc_cmd (lrte_alloc_arg1 a (len es))
                                  (lrte_alloc_arg2 a (len es)) 0 base)) by (split; reflexivity).
  destruct (lrte_alloc_failed base).
  { cbn [fst snd]. split; [constructor; [exact Hat|constructor]|]. split; [apply Hhd|].
    intros _ c. apply (routers_cupd m (x, y) cs1 cs c Hc Hs1). }
  destruct (mem_read cs1 sv_sdram_sys_addr sv_field_size) as [bb|].
  2:{ cbn [fst snd]. split; [constructor; [exact Hat|constructor]|]. split; [apply Hhd|].
      intros _ c. apply (routers_cupd m (x, y) cs1 cs c Hc Hs1). }
  destruct (pack_entries es) as [data|].
  2:{ cbn [fst snd app]. split; [repeat constructor|]. split; [apply Hhd|].
      intros _ c. apply (routers_cupd m (x, y) cs1 cs c Hc Hs1). }
  destruct (mem_write cs1 (le_value bb) data) as [cs2|] eqn:Hw.
  2:{ cbn [fst snd app]. split; [repeat constructor|]. split; [apply Hhd|].
      intros _ c. apply (routers_cupd m (x, y) cs1 cs c Hc Hs1). }
  assert (Hs2 : cs_slots cs2 = cs_slots cs) by (rewrite (mem_write_slots _ _ _ _ Hw); exact Hs1).
  destruct (scp_exec cs2 lrte_load_p lrte_load_cmd _ _ _) as [[cs3 rr]|].
  - cbn [fst snd app]. split; [repeat constructor|]. split; [apply Hhd|].
    intros H. exfalso. apply H. reflexivity.
  - cbn [fst snd app]. split; [repeat constructor|]. split; [apply Hhd|].
    intros _ c. apply (routers_cupd m (x, y) cs2 cs c Hc Hs2).
Qed.

Lemma read_step : forall m x y, Forall (item_at x y) (snd (get_routing_table_entries m x y)).
Proof.
  intros m x y. unfold get_routing_table_entries.
  destruct (cassoc (x, y) m) as [cs|]; [|constructor].
  destruct (mem_read cs sv_rtr_copy_addr sv_field_size) as [ab|]; [|constructor].
  destruct (mem_read cs (le_value ab) (grte_read_len rte_size)) as [bs|]; cbn [snd app]; repeat constructor.
Qed.

Theorem run_history_ok : forall ops m, history_ok m ops (fst (run_history m ops)).
Proof.
  induction ops as [|op ops IH]; intros m; [exact I|].
  destruct op as [x y a es|x y]; cbn [run_history fst snd history_ok].
  - destruct (load_step m es x y a) as [H1 [H2 H3]].
    split; [reflexivity|]. split; [reflexivity|]. split; [exact H1|]. split; [exact H2|].
    split; [exact H3|apply IH].
  - unfold readback_digest at 1. cbn [fst snd].
    split; [reflexivity|]. split; [apply read_step|apply IH].
Qed.
