(* Executable model of rig.place_and_route.allocate.greedy.allocate.
   Definitions only; the proofs are in Proofs/Alloc.v.  [align] and [slices_overlap] are NOT written
   here: they are regenerated from /repo on every run (Generated/GenAlloc.v). *)
From Coq Require Import ZArith List Bool.
Require Import Rig.Generated.GenAlloc Rig.Model.Base.
Import ListNotations.
Open Scope Z_scope.

Definition res := Z.
Definition vertex := Z.
Definition slice := (Z * Z)%type.

(* the constraint objects the allocator looks at; everything else is [COther] *)
Inductive constr :=
| CReserve (r : res) (s : slice) (loc : option chip)
| CAlign (r : res) (a : Z)
| COther.

Record machine := {
  m_width : Z; m_height : Z;
  m_res : list (res * Z);                    (* chip_resources, in dict order *)
  m_exc : list (chip * list (res * Z));      (* chip_resource_exceptions *)
  m_dead : list chip }.

Definition in_machine (m : machine) (c : chip) : bool :=
  (0 <=? fst c) && (fst c <? m_width m) && (0 <=? snd c) && (snd c <? m_height m)
  && negb (chip_mem c (m_dead m)).

(* machine[xy] : IndexError when the chip is dead or outside *)
Definition chip_resources (m : machine) (c : chip) : option (list (res * Z)) :=
  if in_machine m c then
    Some (match cassoc c (m_exc m) with Some r => r | None => m_res m end)
  else None.

(* globally_reserved[resource]: the reservations without location, in constraint order *)
Fixpoint global_reserved (r : res) (cs : list constr) : list slice :=
  match cs with
  | [] => []
  | CReserve r' s None :: cs' => if r =? r' then s :: global_reserved r cs' else global_reserved r cs'
  | _ :: cs' => global_reserved r cs'
  end.

Fixpoint local_reserved (c : chip) (r : res) (cs : list constr) : list slice :=
  match cs with
  | [] => []
  | CReserve r' s (Some c') :: cs' =>
      if (r =? r') && chip_eqb c c' then s :: local_reserved c r cs' else local_reserved c r cs'
  | _ :: cs' => local_reserved c r cs'
  end.

(* alignments[resource]: the last AlignResourceConstraint for it wins, default 1 *)
Fixpoint alignment_acc (r : res) (cs : list constr) (acc : Z) : Z :=
  match cs with
  | [] => acc
  | CAlign r' a :: cs' => alignment_acc r cs' (if r =? r' then a else acc)
  | _ :: cs' => alignment_acc r cs' acc
  end.
Definition alignment (r : res) (cs : list constr) : Z := alignment_acc r cs 1.

(* one pass of the two `for reservation in ...` loops: the pointer ends up at the stop of the LAST
   overlapping reservation (None: nothing overlapped) *)
Fixpoint last_overlap (prop : slice) (rs : list slice) (acc : option Z) : option Z :=
  match rs with
  | [] => acc
  | r :: rs' => last_overlap prop rs' (if slices_overlap prop r then Some (snd r) else acc)
  end.

(* the `while proposal_overlaps` loop; fuel is an upper bound on its iterations *)
Fixpoint find_slot (fuel : nat) (ptr al req cap : Z) (gres lres : list slice) : result slice :=
  match fuel with
  | O => OutOfFuel
  | S f =>
      let start := align ptr al in
      let prop := (start, start + req) in
      if snd prop >? cap then Failed 0 (* InsufficientResourceError *)
      else match last_overlap prop lres (last_overlap prop gres None) with
           | None => Ok prop
           | Some p' => find_slot f p' al req cap gres lres
           end
  end.

Definition slot_fuel (gres lres : list slice) : nat := S (length gres + length lres).

(* `for resource, requirement in iteritems(vertices_resources[vertex])` on one chip *)
Fixpoint alloc_vertex (m : machine) (cs : list constr) (xy : chip)
         (ptrs : list (res * Z)) (reqs : list (res * Z))
  : result (list (res * slice) * list (res * Z)) :=
  match reqs with
  | [] => Ok ([], ptrs)
  | (r, req) :: reqs' =>
      match zassoc r ptrs with
      | None => OtherError                              (* KeyError: resource_pointers[resource] *)
      | Some ptr =>
          let al := alignment r cs in
          if al =? 0 then OtherError                    (* ZeroDivisionError in align *)
          else match chip_resources m xy with
               | None => OtherError                     (* IndexError: machine[xy] *)
               | Some caps =>
                   match zassoc r caps with
                   | None => OtherError                 (* KeyError: machine[xy][resource] *)
                   | Some cap =>
                       let gres := global_reserved r cs in
                       let lres := local_reserved xy r cs in
                       bind (find_slot (slot_fuel gres lres) ptr al req cap gres lres) (fun sl =>
                       bind (alloc_vertex m cs xy (zupdate r (snd sl) ptrs) reqs') (fun rest =>
                       Ok ((r, sl) :: fst rest, snd rest)))
                   end
               end
      end
  end.

(* `for vertex in chip_vertices` *)
Fixpoint alloc_chip (m : machine) (cs : list constr) (vres : list (vertex * list (res * Z)))
         (xy : chip) (ptrs : list (res * Z)) (vs : list vertex)
  : result (list (vertex * list (res * slice))) :=
  match vs with
  | [] => Ok []
  | v :: vs' =>
      match zassoc v vres with
      | None => OtherError                              (* KeyError: vertices_resources[vertex] *)
      | Some reqs =>
          bind (alloc_vertex m cs xy ptrs reqs) (fun a =>
          bind (alloc_chip m cs vres xy (snd a) vs') (fun rest =>
          Ok ((v, fst a) :: rest)))
      end
  end.

(* chip_contents: chips in order of first appearance in `placements`, each with its vertices in order *)
Fixpoint chips_in_order (seen : list chip) (pl : list (vertex * chip)) : list chip :=
  match pl with
  | [] => []
  | (_, c) :: pl' => if chip_mem c seen then chips_in_order seen pl'
                     else c :: chips_in_order (c :: seen) pl'
  end.

Definition vertices_on (c : chip) (pl : list (vertex * chip)) : list vertex :=
  map fst (filter (fun p => chip_eqb (snd p) c) pl).

Fixpoint alloc_chips (m : machine) (cs : list constr) (vres : list (vertex * list (res * Z)))
         (pl : list (vertex * chip)) (chips : list chip)
  : result (list (vertex * list (res * slice))) :=
  match chips with
  | [] => Ok []
  | xy :: chips' =>
      bind (alloc_chip m cs vres xy (map (fun rc => (fst rc, 0)) (m_res m)) (vertices_on xy pl)) (fun a =>
      bind (alloc_chips m cs vres pl chips') (fun rest => Ok (a ++ rest)))
  end.

Definition allocate (vres : list (vertex * list (res * Z))) (m : machine) (cs : list constr)
           (pl : list (vertex * chip)) : result (list (vertex * list (res * slice))) :=
  alloc_chips m cs vres pl (chips_in_order [] pl).
