(* Proofs about Spec/Place.v: basic facts on association lists and resources, and the soundness of the
   executable feasibility checker (verified validator V of C02, reused by C01/C17). *)
From Coq Require Import ZArith List Bool Lia.
Require Import Rig.Model.Base Rig.Model.Place Rig.Spec.Place.
Import ListNotations.
Open Scope Z_scope.

(* ---------------------------------------------------------------------------------------------- *)
(* Basics                                                                                           *)
(* ---------------------------------------------------------------------------------------------- *)
Lemma chip_eqb_eq : forall a b : chip, chip_eqb a b = true <-> a = b.
Proof.
  intros [a1 a2] [b1 b2]. unfold chip_eqb. cbn [fst snd].
  rewrite andb_true_iff, !Z.eqb_eq. split.
  - intros [H1 H2]. subst. reflexivity.
  - intros H. inversion H. split; reflexivity.
Qed.

Lemma chip_eqb_refl : forall a : chip, chip_eqb a a = true.
Proof. intros a. apply chip_eqb_eq. reflexivity. Qed.

Lemma chip_eqb_neq : forall a b : chip, chip_eqb a b = false <-> a <> b.
Proof.
  intros a b. split.
  - intros H E. apply chip_eqb_eq in E. congruence.
  - intros H. destruct (chip_eqb a b) eqn:E; [|reflexivity]. apply chip_eqb_eq in E. contradiction.
Qed.

Lemma chip_eqb_sym : forall a b : chip, chip_eqb a b = chip_eqb b a.
Proof.
  intros a b. destruct (chip_eqb a b) eqn:E.
  - apply chip_eqb_eq in E. subst. symmetry. apply chip_eqb_refl.
  - symmetry. apply chip_eqb_neq. apply chip_eqb_neq in E. congruence.
Qed.

Lemma zmem_In : forall x l, zmem x l = true <-> In x l.
Proof.
  intros x l. unfold zmem. rewrite existsb_exists. split.
  - intros [y [Hy E]]. apply Z.eqb_eq in E. subst. exact Hy.
  - intros H. exists x. split; [exact H | apply Z.eqb_refl].
Qed.

Lemma zmem_false : forall x l, zmem x l = false <-> ~ In x l.
Proof.
  intros x l. split.
  - intros H Hin. apply zmem_In in Hin. congruence.
  - intros H. destruct (zmem x l) eqn:E; [|reflexivity]. apply zmem_In in E. contradiction.
Qed.

Lemma chip_mem_In : forall c l, chip_mem c l = true <-> In c l.
Proof.
  intros c l. unfold chip_mem. rewrite existsb_exists. split.
  - intros [y [Hy E]]. apply chip_eqb_eq in E. subst. exact Hy.
  - intros H. exists c. split; [exact H | apply chip_eqb_refl].
Qed.

Lemma nodupb_NoDup : forall l, nodupb l = true -> NoDup l.
Proof.
  induction l as [|x t IH]; intros H.
  - constructor.
  - cbn [nodupb] in H. apply andb_true_iff in H. destruct H as [H1 H2].
    constructor.
    + apply negb_true_iff in H1. apply zmem_false in H1. exact H1.
    + apply IH. exact H2.
Qed.

Lemma zassoc_In : forall {A} k (l : list (Z * A)) v, zassoc k l = Some v -> In (k, v) l.
Proof.
  intros A k l. induction l as [|[k' v'] t IH]; intros v H; cbn [zassoc] in H.
  - discriminate.
  - destruct (k =? k') eqn:E.
    + apply Z.eqb_eq in E. inversion H. subst. left. reflexivity.
    + right. apply IH. exact H.
Qed.

Lemma zassoc_None : forall {A} k (l : list (Z * A)), zassoc k l = None <-> ~ In k (map fst l).
Proof.
  intros A k l. induction l as [|[k' v'] t IH]; cbn [zassoc map fst].
  - split; [intros _ H; exact H | reflexivity].
  - destruct (k =? k') eqn:E.
    + apply Z.eqb_eq in E. subst. split; [discriminate | intros H; exfalso; apply H; left; reflexivity].
    + apply Z.eqb_neq in E. rewrite IH. split.
      * intros H [H1 | H1]; [congruence | contradiction].
      * intros H H1. apply H. right. exact H1.
Qed.

Lemma zassoc_Some_key : forall {A} k (l : list (Z * A)) v, zassoc k l = Some v -> In k (map fst l).
Proof.
  intros A k l v H. apply zassoc_In in H. apply in_map_iff. exists (k, v). split; [reflexivity | exact H].
Qed.

Lemma zassoc_key_Some : forall {A} k (l : list (Z * A)), In k (map fst l) -> exists v, zassoc k l = Some v.
Proof.
  intros A k l H. destruct (zassoc k l) eqn:E.
  - exists a. reflexivity.
  - apply zassoc_None in E. contradiction.
Qed.

Lemma zassoc_NoDup_In : forall {A} k v (l : list (Z * A)),
  NoDup (map fst l) -> In (k, v) l -> zassoc k l = Some v.
Proof.
  intros A k v l. induction l as [|[k' v'] t IH]; intros Hnd Hin.
  - destruct Hin.
  - cbn [zassoc]. cbn [map fst] in Hnd. inversion Hnd as [|? ? Hni Hnd']. subst.
    destruct Hin as [Hin | Hin].
    + inversion Hin. subst. rewrite Z.eqb_refl. reflexivity.
    + destruct (k =? k') eqn:E.
      * apply Z.eqb_eq in E. subst. exfalso. apply Hni. apply in_map_iff. exists (k', v). split; [reflexivity | exact Hin].
      * apply IH; assumption.
Qed.

Lemma rget_notin : forall r d, ~ In r (map fst d) -> rget r d = 0.
Proof. intros r d H. unfold rget. apply zassoc_None in H. rewrite H. reflexivity. Qed.

Lemma cassoc_In : forall {A} k (l : list (chip * A)) v, cassoc k l = Some v -> In (k, v) l.
Proof.
  intros A k l. induction l as [|[k' v'] t IH]; intros v H; cbn [cassoc] in H.
  - discriminate.
  - destruct (chip_eqb k k') eqn:E.
    + apply chip_eqb_eq in E. inversion H. subst. left. reflexivity.
    + right. apply IH. exact H.
Qed.

(* ---------------------------------------------------------------------------------------------- *)
(* raster enumerates the working chips                                                              *)
(* ---------------------------------------------------------------------------------------------- *)
Lemma zrange_In : forall n x, In x (zrange n) <-> 0 <= x < n.
Proof.
  intros n x. unfold zrange. rewrite in_map_iff. split.
  - intros [k [Hk Hin]]. apply in_seq in Hin. lia.
  - intros H. exists (Z.to_nat x). split; [lia|]. apply in_seq. lia.
Qed.

Lemma live_bounds : forall m c, live m c = true ->
  0 <= fst c < pm_width m /\ 0 <= snd c < pm_height m /\ ~ In c (pm_dead m).
Proof.
  intros m [x y] H. unfold live, Rig.Generated.GenPlaceShape.gen_machine_contains in H. cbn [fst snd] in *.
  rewrite !andb_true_iff in H.
  destruct H as [[[[H1 H2] H3] H4] H5].
  apply Z.leb_le in H1. apply Z.ltb_lt in H2. apply Z.leb_le in H3. apply Z.ltb_lt in H4.
  apply negb_true_iff in H5.
  repeat split; try lia.
  intros Hin. apply chip_mem_In in Hin. congruence.
Qed.

Lemma raster_In : forall m c, In c (raster m) <-> live m c = true.
Proof.
  intros m c. unfold raster. rewrite filter_In. split.
  - intros [_ H]. exact H.
  - intros H. split; [|exact H]. apply live_bounds in H. destruct H as [Hx [Hy _]].
    apply in_flat_map. exists (fst c). split.
    + apply zrange_In. exact Hx.
    + apply in_map_iff. exists (snd c). split; [destruct c; reflexivity|]. apply zrange_In. exact Hy.
Qed.

(* ---------------------------------------------------------------------------------------------- *)
(* Resources nothing mentions                                                                        *)
(* ---------------------------------------------------------------------------------------------- *)
Lemma load_unmentioned : forall vr pl c r,
  (forall vd, In vd vr -> ~ In r (map fst (snd vd))) -> load vr pl c r = 0.
Proof.
  intros vr pl c r. unfold load. induction vr as [|vd t IH]; intros H; cbn [map fold_right]; cbn beta.
  - reflexivity.
  - rewrite IH by (intros vd' Hin; apply H; right; exact Hin).
    rewrite Z.add_0_r. pose proof (H vd (or_introl eq_refl)) as Hvd.
    destruct vd as [v d]. cbn [fst snd] in *. destruct (on_chip pl v c); [|reflexivity].
    apply rget_notin. exact Hvd.
Qed.

Lemma reserved_unmentioned : forall cs c r, ~ In r (reserve_resources cs) -> reserved cs c r = 0.
Proof.
  intros cs c r. induction cs as [|k t IH]; intros H; cbn [reserved].
  - reflexivity.
  - destruct k as [v l | vs | r' s e loc | ]; cbn [reserve_resources] in H; try (apply IH; exact H).
    rewrite IH by (intros Hin; apply H; right; exact Hin).
    unfold reserve_applies. destruct (r =? r') eqn:E.
    + apply Z.eqb_eq in E. subst. exfalso. apply H. left. reflexivity.
    + reflexivity.
Qed.

Lemma capacity_unmentioned : forall m c r,
  ~ In r (map fst (pm_res m)) ->
  ~ In r (flat_map (fun e => map fst (snd e)) (pm_exc m)) ->
  capacity m c r = 0.
Proof.
  intros m c r H1 H2. unfold capacity, chip_res. destruct (cassoc c (pm_exc m)) eqn:E.
  - apply rget_notin. intros Hin. apply H2. apply in_flat_map. exists (c, r0). split.
    + apply cassoc_In. exact E.
    + exact Hin.
  - apply rget_notin. exact H1.
Qed.

(* ---------------------------------------------------------------------------------------------- *)
(* Soundness of the checker                                                                         *)
(* ---------------------------------------------------------------------------------------------- *)
Lemma on_chip_true : forall pl v c, on_chip pl v c = true <-> zassoc v pl = Some c.
Proof.
  intros pl v c. unfold on_chip. destruct (zassoc v pl) as [c'|].
  - rewrite chip_eqb_eq. split; intros H; [subst; reflexivity | inversion H; reflexivity].
  - split; discriminate.
Qed.

Lemma check_constraint_sound : forall pl k, check_constraint pl k = true ->
  match k with
  | PCLocation v c => zassoc v pl = Some c
  | PCSameChip vs => exists c, forall v, In v vs -> zassoc v pl = Some c
  | _ => True
  end.
Proof.
  intros pl k H. destruct k as [v c | vs | r s e loc | ]; try exact I.
  - apply on_chip_true. exact H.
  - destruct vs as [|v0 vs].
    + exists (0, 0). intros v [].
    + cbn [check_constraint] in H. destruct (zassoc v0 pl) as [c|] eqn:E; [|discriminate].
      exists c. intros v [Hv | Hv].
      * subst. exact E.
      * rewrite forallb_forall in H. apply on_chip_true. apply H. exact Hv.
Qed.

Theorem check_placement_sound : forall vr m cs pl,
  check_placement vr m cs pl = true -> Feasible vr m cs pl.
Proof.
  intros vr m cs pl H. unfold check_placement in H. rewrite !andb_true_iff in H.
  destruct H as [[[[[Hnd Hsub1] Hsub2] Hlive] Hcap] Hcs].
  rewrite forallb_forall in Hsub1, Hsub2, Hlive, Hcap, Hcs.
  constructor.
  - apply nodupb_NoDup. exact Hnd.
  - intros v. split; intros Hin.
    + apply zmem_In. apply Hsub1. exact Hin.
    + apply zmem_In. apply Hsub2. exact Hin.
  - intros v c Hz. apply zassoc_In in Hz. apply (Hlive (v, c)). exact Hz.
  - intros c r Hl. apply raster_In in Hl. specialize (Hcap c Hl). rewrite forallb_forall in Hcap.
    destruct (in_dec Z.eq_dec r (all_resources vr m cs)) as [Hin | Hni].
    + apply Z.leb_le. apply Hcap. exact Hin.
    + unfold all_resources in Hni. rewrite !in_app_iff in Hni.
      rewrite load_unmentioned.
      * rewrite capacity_unmentioned, reserved_unmentioned; [lia | tauto | tauto | tauto].
      * intros vd Hvd Hr. apply Hni. right. right. left. apply in_flat_map. exists vd. split; assumption.
  - intros v c Hin. apply (check_constraint_sound pl (PCLocation v c)). apply Hcs. exact Hin.
  - intros vs Hin. apply (check_constraint_sound pl (PCSameChip vs)). apply Hcs. exact Hin.
Qed.
