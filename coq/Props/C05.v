(* C05 -- Allocated resource ranges are exact, in range, disjoint and unreserved.
   This file holds the property theorems only; each is closed by `exact` of a lemma of
   Proofs/Alloc.v.  The model (Model/Alloc.v) calls the generated kernels of Generated/GenAlloc.v,
   so these theorems are re-checked against the current text of align / slices_overlap. *)
From Coq Require Import ZArith List Bool Permutation.
Require Import Rig.Generated.GenAlloc Rig.Generated.GenWrapper Rig.Model.Base Rig.Model.Alloc Rig.Model.AllocWrapper
        Rig.Spec.Alloc Rig.Proofs.Alloc Rig.Proofs.AllocWrapper Rig.Proofs.AllocMeaning.
Import ListNotations.
Open Scope Z_scope.

(* Soundness, for every input of the model: whatever allocate returns satisfies every clause. *)
Theorem C05_allocate_sound :
  forall vres m cs pl alloc,
    aligns_positive cs -> requests_nonneg vres -> NoDup (map fst pl) ->
    allocate vres m cs pl = Ok alloc ->
    allocation_sound vres m cs pl alloc.
Proof. exact allocate_sound. Qed.

(* The retry loop's bound is never reached: the model's fuel is not a hidden restriction, and the
   loop of the code terminates (each retry moves the pointer strictly upward to a reservation's end). *)
Theorem C05_allocate_terminates :
  forall vres m cs pl, aligns_positive cs -> allocate vres m cs pl <> OutOfFuel.
Proof. exact allocate_terminates. Qed.

(* Its only failure is the documented insufficient-resource error. *)
Theorem C05_allocate_only_error :
  forall vres m cs pl, well_formed vres m cs pl ->
    (exists alloc, allocate vres m cs pl = Ok alloc) \/ allocate vres m cs pl = Failed 0.
Proof. exact allocate_only_error. Qed.

(* Completeness: no alignment constraints, reservations only at the ends, feasible placement. *)
Theorem C05_allocate_complete :
  forall vres m cs pl,
    well_formed vres m cs pl -> no_alignment cs -> requests_nonneg vres ->
    feasible_ends vres m cs pl ->
    exists alloc, allocate vres m cs pl = Ok alloc.
Proof. exact allocate_complete. Qed.

(* The allocator reached through wrapper(): the constraint list handed over is the caller's followed by the monitor
   reservation and the SDRAM alignment (shape and constants regenerated from wrapper.py: Generated/GenWrapper.v).
   Everything above holds for that list ... *)
Theorem C05_wrapper_sound :
  forall vres m user rm al rc rs pl alloc,
    aligns_positive user -> requests_nonneg vres -> NoDup (map fst pl) ->
    wrapper_allocate vres m user rm al rc rs pl = Ok alloc ->
    allocation_sound vres m (wrapper_constraints user rm al rc rs) pl alloc.
Proof. exact wrapper_allocate_sound. Qed.

(* ... so with reserve_monitor no vertex's core range meets the reserved slice (core 0) ... *)
Theorem C05_wrapper_monitor_core_free :
  forall vres m user al rc rs pl alloc v ra sl,
    aligns_positive user -> requests_nonneg vres -> NoDup (map fst pl) ->
    wrapper_allocate vres m user true al rc rs pl = Ok alloc ->
    In (v, ra) alloc -> In (rc, sl) ra ->
    slices_overlap sl wrapper_monitor_slice = false.
Proof. exact wrapper_monitor_free. Qed.

(* ... and with align_sdram every SDRAM range starts on the wrapper's alignment, whatever alignments of this or
   other resources the caller supplied (the wrapper's constraint comes last, and the last one wins). *)
Theorem C05_wrapper_sdram_aligned :
  forall vres m user rm rc rs pl alloc v ra sl,
    aligns_positive user -> requests_nonneg vres -> NoDup (map fst pl) ->
    wrapper_allocate vres m user rm true rc rs pl = Ok alloc ->
    In (v, ra) alloc -> In (rs, sl) ra ->
    fst sl mod wrapper_sdram_alignment = 0.
Proof. exact wrapper_sdram_aligned. Qed.

Example C05_wrapper_hypotheses_satisfiable :
  wrapper_allocate exw_vres exw_machine exw_user true true 0 1 exw_pl
  = Ok [(1, [(0, (1, 2)); (1, (4, 9)); (2, (0, 3))]); (2, [(0, (2, 4)); (1, (12, 18)); (2, (8, 11))])]
  /\ aligns_positive exw_user /\ requests_nonneg exw_vres /\ NoDup (map fst exw_pl).
Proof. exact exw_instance. Qed.

(* What the specification's borrowed notions mean, without reference to the code: two ranges "overlap" (the
   regenerated slices_overlap) exactly when some unit belongs to both, and the reservations that bind on a chip are
   exactly the global ones and that chip's own. *)
Theorem C05_overlap_meaning :
  forall a b : slice,
    slices_overlap a b = true <-> exists x, fst a <= x < snd a /\ fst b <= x < snd b.
Proof. exact overlap_meaning. Qed.

Theorem C05_reservations_meaning :
  forall r xy s cs,
    In s (reservations r xy cs) <-> In (CReserve r s None) cs \/ In (CReserve r s (Some xy)) cs.
Proof. exact reservations_meaning. Qed.

(* zero-size requests next to a reservation, with the pointer at the end of the free part: empty ranges *)
Example C05_zero_size_instance :
  allocate [(1, [(0, 4)]); (2, [(0, 0)]); (3, [(0, 0)])] exz_machine [CReserve 0 (4, 6) None]
           [(1, (0, 0)); (2, (0, 0)); (3, (0, 0))]
  = Ok [(1, [(0, (0, 4))]); (2, [(0, (4, 4))]); (3, [(0, (4, 4))])].
Proof. exact exz_instance. Qed.

(* Non-vacuity: a chip with interleaved reservations and alignment 4 meets the hypotheses and the
   allocator succeeds on it; a prefix+suffix reservation instance meets the completeness guard. *)
Example C05_hypotheses_satisfiable :
  exists alloc, allocate ex_vres ex_machine ex_constraints ex_placements = Ok alloc
                /\ aligns_positive ex_constraints /\ requests_nonneg ex_vres
                /\ NoDup (map fst ex_placements) /\ alloc <> [].
Proof. exact ex_sound_instance. Qed.

Example C05_complete_guard_satisfiable :
  well_formed ex_vres ex_machine ex2_constraints ex_placements /\ no_alignment ex2_constraints
  /\ requests_nonneg ex_vres /\ feasible_ends ex_vres ex_machine ex2_constraints ex_placements.
Proof. exact ex_complete_instance. Qed.
