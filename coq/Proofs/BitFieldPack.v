(* Completeness of assign_fields for hierarchies without the fragmentation pattern: when the children
   of every node have pairwise contradictory requirements, the leaf-first pass packs every subtree
   into the low bits, so the layout succeeds whenever the widest chain of scopes fits. *)
From Coq Require Import ZArith List Bool Lia.
Require Import Rig.Generated.GenBitField Rig.Model.Base Rig.Model.BitField Rig.Spec.BitField.
Require Import Rig.Proofs.BitFieldBits Rig.Proofs.BitFieldTree Rig.Proofs.BitFieldAssign
               Rig.Proofs.BitFieldAdd Rig.Proofs.BitFieldComplete.
Import ListNotations.
Open Scope Z_scope.

(* bits needed by a subtree: its own fields plus the most demanding child *)
Fixpoint hb (s : list field) (c : tree) : Z :=
  match c with
  | Node fs cs => sumw s fs + fold_right (fun rc m => Z.max (match rc with (_, cc) => hb s cc end) m) 0 cs
  end.

Definition maxhb (s : list field) (cs : list (fvals * tree)) : Z :=
  fold_right (fun rc m => Z.max (match rc with (_, cc) => hb s cc end) m) 0 cs.

Lemma hb_node s fs cs : hb s (Node fs cs) = sumw s fs + maxhb s cs.
Proof. reflexivity. Qed.

Lemma maxhb_nonneg s cs : 0 <= maxhb s cs.
Proof. induction cs as [|[r c] cs IH]; simpl; lia. Qed.

Lemma maxhb_ge s cs r c : In (r, c) cs -> hb s c <= maxhb s cs.
Proof.
  induction cs as [|[r' c'] cs IH]; simpl; [tauto|]. intros [H|H].
  - inversion H; subst. lia.
  - specialize (IH H). lia.
Qed.

Lemma sumw_nonneg s l : (forall i f, In (i, f) l -> 0 < width_of s f) -> 0 <= sumw s l.
Proof.
  unfold sumw. induction l as [|[i f] l IH]; simpl; intros H; [lia|].
  pose proof (H i f (or_introl eq_refl)).
  assert (0 <= fold_right Z.add 0 (map (fun p => width_of s (snd p)) l)) by (apply IH; intros; eapply H; right; eauto).
  lia.
Qed.

Lemma sumw_ext s s' l : (forall g, width_of s' g = width_of s g) -> sumw s' l = sumw s l.
Proof. intros H. unfold sumw. f_equal. apply map_ext. intros p. apply H. Qed.

Lemma hb_ext s s' : (forall g, width_of s' g = width_of s g) -> forall c, hb s' c = hb s c.
Proof.
  intros H. induction c as [fs cs IH] using tree_ind'. rewrite !hb_node. rewrite (sumw_ext _ _ _ H). f_equal.
  induction cs as [|[r c] cs IHcs]; simpl; [reflexivity|].
  inversion IH as [|? ? Hc Hcs]; subst. simpl in Hc. rewrite Hc, (IHcs Hcs). reflexivity.
Qed.

(* ------------------------------------------------------------------ one node, packing version *)
Lemma width_of_set_pos s f b g : (f < length s)%nat ->
  width_of (sset s f (set_pos (sget s f) (width_of s f) b)) g = width_of s g.
Proof.
  intros Hb. unfold width_of at 1. rewrite sget_sset.
  destruct (Nat.eqb f g && Nat.ltb f (length s))%bool eqn:E.
  - apply andb_true_iff in E. destruct E as [E _]. apply Nat.eqb_eq in E. subst g. simpl. reflexivity.
  - reflexivity.
Qed.

Lemma assign_idents_pack L t fv : forall ids a s h,
  0 <= h -> (forall k, Z.testbit a k = true -> k < h) ->
  h + sumw s ids <= L ->
  NoDup (map snd ids) ->
  (forall i f, In (i, f) ids -> get_field t i fv = Some f /\ (f < length s)%nat
                                /\ f_start (sget s f) = None /\ 0 < width_of s f) ->
  exists s', assign_idents L false true t fv ids a s = (s', None)
    /\ (forall i f, In (i, f) ids -> exists st l, frange s' f = Some (st, l) /\ 0 <= st /\ st + l <= h + sumw s ids)
    /\ (forall g, ~ In g (map snd ids) -> sget s' g = sget s g)
    /\ (forall g, width_of s' g = width_of s g).
Proof.
  induction ids as [|[i f] ids IH]; intros a s h Hh Ha Hsum Hnd Hids; simpl.
  - exists s. split; [reflexivity|]. split; [intros ? ? []|]. split; auto.
  - destruct (Hids i f (or_introl eq_refl)) as [Hg [Hb [Hs Hw]]]. rewrite Hg, Hs.
    assert (Hsum' : sumw s ((i, f) :: ids) = width_of s f + sumw s ids) by reflexivity.
    assert (Hsumpos : 0 <= sumw s ids).
    { apply sumw_nonneg. intros i0 f0 Hin. apply (Hids i0 f0). now right. }
    assert (Hstep : exists a' b, assign_field L false a (sget s f) = Ok (a', set_pos (sget s f) (width_of s f) b)
                                 /\ 0 <= b <= h /\ (forall k, Z.testbit a' k = true -> k < h + width_of s f)).
    { unfold assign_field. rewrite Hs. fold (width_of s f).
      destruct (first_fit_succeeds a (width_of s f) h L Hh Hw ltac:(lia) Ha) as [b [Hf Hb01]].
      rewrite Hf. destruct (b + width_of s f <=? L) eqn:E; [|apply Z.leb_gt in E; lia].
      eexists. exists b. split; [reflexivity|]. split; [lia|].
      intros k Hk. rewrite Z.lor_spec in Hk. apply orb_true_iff in Hk. destruct Hk as [Hk|Hk].
      - apply Ha in Hk. lia.
      - rewrite scan_mask in Hk by lia. apply range_mask_bit in Hk; lia. }
    destruct Hstep as [a' [b [Ea [Hb0 Ha']]]].
    set (s1 := sset s f (set_pos (sget s f) (width_of s f) b)) in *.
    inversion Hnd as [|? ? Hnot Hnd']; subst.
    assert (Hw1 : forall g, width_of s1 g = width_of s g) by (intros g; subst s1; now apply width_of_set_pos).
    destruct (IH a' s1 (h + width_of s f)) as [s' [Hs' [Hpl [Hoth Hws]]]]; auto; try lia.
    + rewrite (sumw_ext _ _ _ Hw1). lia.
    + intros i0 f0 Hin. destruct (Hids i0 f0 (or_intror Hin)) as [G1 [G2 [G3 G4]]].
      assert (f <> f0). { intros ->. apply Hnot. apply in_map_iff. exists (i0, f0). auto. }
      subst s1. rewrite length_sset, Hw1. rewrite sget_sset_other by assumption. auto.
    + exists s'. split; [|split; [|split]].
      * destruct (f_len (sget s f)); simpl; rewrite Ea; exact Hs'.
      * intros i0 f0 [Heq|Hin].
        -- inversion Heq; subst i0 f0. exists b, (width_of s f). split; [|lia].
           unfold frange. rewrite (Hoth f Hnot). subst s1. rewrite sget_sset_same by exact Hb. reflexivity.
        -- destruct (Hpl i0 f0 Hin) as [st [l [R1 [R2 R3]]]]. exists st, l. split; [exact R1|].
           rewrite (sumw_ext _ _ _ Hw1) in R3. lia.
      * intros g Hng. simpl in Hng. rewrite Hoth by tauto. subst s1. apply sget_sset_other. tauto.
      * intros g. now rewrite Hws, Hw1.
Qed.

(* ------------------------------------------------------------------ potential_bits, tightly *)
Lemma potential_bits_tight s : forall pf acc a,
  (forall i g st l, In (i, g) pf -> frange s g = Some (st, l) -> 0 <= l) ->
  potential_bits s pf acc = Ok a ->
  forall k, Z.testbit a k = true ->
    Z.testbit acc k = true \/ exists i g st l, In (i, g) pf /\ frange s g = Some (st, l) /\ st <= k < st + l.
Proof.
  induction pf as [|[i0 g0] pf IH]; intros acc a Hl H k Hk; simpl in H.
  - inversion H; subst. now left.
  - assert (Hl' : forall i g st l, In (i, g) pf -> frange s g = Some (st, l) -> 0 <= l).
    { intros i g st l Hin Hr. apply (Hl i g st l); [now right|exact Hr]. }
    unfold frange in Hl. specialize (Hl i0 g0).
    destruct (f_len (sget s g0)) as [l0|] eqn:El; destruct (f_start (sget s g0)) as [st0|] eqn:Es.
    + destruct (st0 <? 0) eqn:E0; [discriminate|]. apply Z.ltb_ge in E0.
      assert (0 <= l0) by (apply (Hl st0 l0); [now left|reflexivity]).
      destruct (IH _ _ Hl' H k Hk) as [Hacc|[i [g [st [l [Hin [Hr Hk']]]]]]].
      * rewrite Z.lor_spec in Hacc. apply orb_true_iff in Hacc. destruct Hacc as [Hacc|Hm]; [now left|].
        right. exists i0, g0, st0, l0. split; [now left|]. split; [unfold frange; now rewrite Es, El|].
        rewrite fmask_range in Hm by lia. apply range_mask_bit in Hm; lia.
      * right. exists i, g, st, l. split; [now right|auto].
    + destruct (IH _ _ Hl' H k Hk) as [Hacc|[i [g [st [l [Hin [Hr Hk']]]]]]]; [now left|].
      right. exists i, g, st, l. split; [now right|auto].
    + destruct (IH _ _ Hl' H k Hk) as [Hacc|[i [g [st [l [Hin [Hr Hk']]]]]]]; [now left|].
      right. exists i, g, st, l. split; [now right|auto].
    + destruct (IH _ _ Hl' H k Hk) as [Hacc|[i [g [st [l [Hin [Hr Hk']]]]]]]; [now left|].
      right. exists i, g, st, l. split; [now right|auto].
Qed.

Lemma potential_bits_ok s : forall pf acc,
  (forall i g st l, In (i, g) pf -> frange s g = Some (st, l) -> 0 <= st) ->
  exists a, potential_bits s pf acc = Ok a.
Proof.
  induction pf as [|[i0 g0] pf IH]; intros acc H; simpl; [eauto|].
  assert (H' : forall i g st l, In (i, g) pf -> frange s g = Some (st, l) -> 0 <= st).
  { intros i g st l Hin Hr. apply (H i g st l); [now right|exact Hr]. }
  unfold frange in H. specialize (H i0 g0).
  destruct (f_len (sget s g0)) as [l0|]; destruct (f_start (sget s g0)) as [st0|]; try (apply IH; exact H').
  assert (0 <= st0) by (apply (H st0 l0); [now left|reflexivity]).
  destruct (Z.ltb_spec st0 0); [lia|]. apply IH; exact H'.
Qed.

Lemma assign_nodes_app L orig pos t : forall l1 l2 s,
  assign_nodes L orig pos t s (l1 ++ l2) =
  match assign_nodes L orig pos t s l1 with
  | (s1, None) => assign_nodes L orig pos t s1 l2
  | r => r
  end.
Proof.
  induction l1 as [|nd l1 IH]; intros l2 s; simpl; [reflexivity|].
  destruct (assign_node L orig pos t s nd) as [s1 [k|]]; [reflexivity|apply IH].
Qed.

(* ------------------------------------------------------------------ list helpers *)
Lemma nodup_map_app_disjoint {A B} (f : A -> B) l1 l2 :
  NoDup (map f (l1 ++ l2)) -> forall a b, In a l1 -> In b l2 -> f a <> f b.
Proof.
  induction l1 as [|x l1 IH]; simpl; intros H a b Ha Hb; [destruct Ha|].
  inversion H as [|? ? Hnot Hnd]; subst. destruct Ha as [<-|Ha].
  - intros E. apply Hnot. rewrite E. apply in_map. apply in_or_app. now right.
  - now apply IH.
Qed.

Lemma nodup_map_app_r {A B} (f : A -> B) l1 l2 : NoDup (map f (l1 ++ l2)) -> NoDup (map f l2).
Proof. induction l1 as [|x l1 IH]; simpl; intros H; [exact H|]. inversion H; subst. now apply IH. Qed.

Lemma nodup_map_app_l {A B} (f : A -> B) l1 l2 : NoDup (map f (l1 ++ l2)) -> NoDup (map f l1).
Proof.
  induction l1 as [|x l1 IH]; simpl; intros H; [constructor|]. inversion H as [|? ? Hnot Hnd]; subst.
  constructor; [|now apply IH]. intros Hin. apply Hnot. rewrite map_app. apply in_or_app. now left.
Qed.

Lemma pairwiseb_app {A} (r : A -> A -> bool) l1 x l2 :
  pairwiseb r (l1 ++ x :: l2) = true ->
  (forall y, In y l1 -> r y x = true) /\ (forall y, In y l2 -> r x y = true).
Proof.
  induction l1 as [|z l1 IH]; simpl; intros H.
  - apply andb_true_iff in H. destruct H as [H _]. rewrite forallb_forall in H. split; [intros ? []|exact H].
  - apply andb_true_iff in H. destruct H as [H1 H2]. destruct (IH H2) as [A1 A2]. split; [|exact A2].
    intros y [<-|Hy]; [|now apply A1]. rewrite forallb_forall in H1. apply H1. apply in_or_app. right. now left.
Qed.

Lemma conflict_compat_false a b : conflictb a b = true -> compat a b -> False.
Proof.
  unfold conflictb. intros H Hc. apply negb_true_iff in H. apply compatb_spec in Hc. congruence.
Qed.

Lemma compat_app_mid p a s1 b s2 : compat (p ++ a ++ s1) (p ++ b ++ s2) -> compat a b.
Proof.
  intros H i v1 v2 H1 H2. apply (H i v1 v2); apply in_or_app; right; apply in_or_app; now left.
Qed.

Lemma compat_prefix p a q : compat (p ++ a) q -> compat p q.
Proof. intros H i v1 v2 H1 H2. apply (H i v1 v2); [apply in_or_app; now left|exact H2]. Qed.

Lemma entry_eq_dec : forall a b : fvals * (ident * nat), {a = b} + {a <> b}.
Proof.
  intros [p1 [i1 f1]] [p2 [i2 f2]].
  destruct (list_eq_dec (fun x y : ident * Z => ltac:(decide equality; apply Z.eq_dec)) p1 p2) as [->|N];
    [|right; congruence].
  destruct (Z.eq_dec i1 i2) as [->|N]; [|right; congruence].
  destruct (Nat.eq_dec f1 f2) as [->|N]; [left; reflexivity|right; congruence].
Qed.

Definition unplaced (s : list field) (es : list (fvals * (ident * nat))) : Prop :=
  forall e, In e es -> f_start (sget s (e_fid e)) = None.

Definition below (s : list field) (es : list (fvals * (ident * nat))) (h : Z) : Prop :=
  forall e, In e es -> exists st l, frange s (e_fid e) = Some (st, l) /\ 0 <= st /\ st + l <= h.

Definition post_ok (L : Z) (t : tree) (n : nat) (c : tree) : Prop :=
  forall p s,
    (forall e, In e (flat c p) -> In e (entries t)) ->
    NoDup (map e_fid (flat c p)) ->
    exclusive_children c = true ->
    length s = n -> LInv L t s ->
    unplaced s (flat c p) ->
    (forall e, In e (entries t) -> ~ In e (flat c p) -> compat p (e_path e) ->
               f_start (sget s (e_fid e)) = None) ->
    hb s c <= L ->
    exists s', assign_nodes L false true t s (nodes_post c p) = (s', None)
      /\ length s' = n /\ LInv L t s'
      /\ below s' (flat c p) (hb s c)
      /\ (forall g, (forall e, In e (flat c p) -> e_fid e <> g) -> sget s' g = sget s g)
      /\ (forall g, width_of s' g = width_of s g).

Definition kid_flat (p : fvals) (rc : fvals * tree) := flat (snd rc) (p ++ fst rc).

Lemma flat_node p fs cs :
  flat (Node fs cs) p = map (fun x => (p, x)) fs ++ flat_map (kid_flat p) cs.
Proof.
  cbn [flat]. f_equal. apply flat_map_ext. intros [req c]. reflexivity.
Qed.

Lemma nodes_post_node p fs cs :
  nodes_post (Node fs cs) p = flat_map (fun rc => nodes_post (snd rc) (p ++ fst rc)) cs ++ [(p, fs)].
Proof. cbn [nodes_post]. f_equal. apply flat_map_ext. intros [req c]. reflexivity. Qed.

(* the children of a node, one after the other *)
Lemma kids_pass L t n p fs cs s :
  wf_tree t n ->
  (forall e, In e (flat (Node fs cs) p) -> In e (entries t)) ->
  NoDup (map e_fid (flat (Node fs cs) p)) ->
  pairwiseb (fun a b => conflictb (fst a) (fst b)) cs = true ->
  forallb (fun rc => exclusive_children (snd rc)) cs = true ->
  maxhb s cs <= L ->
  Forall (fun rc => post_ok L t n (snd rc)) cs ->
  (forall e, In e (entries t) -> ~ In e (flat (Node fs cs) p) -> compat p (e_path e) ->
             f_start (sget s (e_fid e)) = None) ->
  forall todo done s1,
    cs = done ++ todo ->
    length s1 = n -> LInv L t s1 ->
    (forall g, width_of s1 g = width_of s g) ->
    (forall rc, In rc done -> below s1 (kid_flat p rc) (maxhb s cs)) ->
    (forall rc, In rc todo -> unplaced s1 (kid_flat p rc)) ->
    unplaced s1 (map (fun x => (p, x)) fs) ->
    (forall g, (forall e, In e (flat (Node fs cs) p) -> e_fid e <> g) -> sget s1 g = sget s g) ->
    exists s2, assign_nodes L false true t s1
                 (flat_map (fun rc => nodes_post (snd rc) (p ++ fst rc)) todo) = (s2, None)
      /\ length s2 = n /\ LInv L t s2
      /\ (forall g, width_of s2 g = width_of s g)
      /\ (forall rc, In rc cs -> below s2 (kid_flat p rc) (maxhb s cs))
      /\ unplaced s2 (map (fun x => (p, x)) fs)
      /\ (forall g, (forall e, In e (flat (Node fs cs) p) -> e_fid e <> g) -> sget s2 g = sget s g).
Proof.
  intros W Hsub Hnd Hex Hexc HLe IHc Hout.
  induction todo as [|[req cc] todo IH]; intros done s1 Hcs Hn HI Hw Hdone Htodo Hfs Hunch.
  - exists s1. simpl.
    split; [reflexivity|split; [exact Hn|split; [exact HI|split; [exact Hw|split; [|split; [exact Hfs|exact Hunch]]]]]].
    intros rc Hrc. apply Hdone. rewrite Hcs, app_nil_r in Hrc. exact Hrc.
  - assert (Hcc : In (req, cc) cs) by (rewrite Hcs; apply in_or_app; right; now left).
    rewrite flat_node in Hnd, Hsub.
    assert (Hkid_sub : forall rc e, In rc cs -> In e (kid_flat p rc) -> In e (entries t)).
    { intros rc e Hrc He. apply Hsub. apply in_or_app. right. apply in_flat_map. eauto. }
    (* entries of different parts have different field objects *)
    assert (Hsplit : flat_map (kid_flat p) cs =
                     flat_map (kid_flat p) done ++ kid_flat p (req, cc) ++ flat_map (kid_flat p) todo).
    { rewrite Hcs, flat_map_app. reflexivity. }
    assert (Hdisj_other : forall rc e e2, In rc done \/ In rc todo -> In e (kid_flat p rc) ->
                            In e2 (kid_flat p (req, cc)) -> e_fid e2 <> e_fid e).
    { intros rc e e2 Hrc He He2. pose proof (nodup_map_app_r _ _ _ Hnd) as Hnd2. rewrite Hsplit in Hnd2.
      destruct Hrc as [Hrc|Hrc].
      - intros E. apply (nodup_map_app_disjoint e_fid _ _ Hnd2 e e2); auto.
        + apply in_flat_map. eauto.
        + apply in_or_app. now left.
      - pose proof (nodup_map_app_r _ _ _ Hnd2) as Hnd3.
        apply (nodup_map_app_disjoint e_fid _ _ Hnd3 e2 e); auto. apply in_flat_map. eauto. }
    assert (Hdisj_fs : forall x e2, In x fs -> In e2 (kid_flat p (req, cc)) -> e_fid e2 <> e_fid (p, x)).
    { intros x e2 Hx He2 E. apply (nodup_map_app_disjoint e_fid _ _ Hnd (p, x) e2); auto.
      - apply in_map_iff. eauto.
      - apply in_flat_map. eauto. }
    rewrite Forall_forall in IHc. pose proof (IHc _ Hcc) as IHcc. simpl in IHcc.
    rewrite forallb_forall in Hexc. pose proof (Hexc _ Hcc) as Hexcc. simpl in Hexcc.
    destruct (pairwiseb_app _ _ _ _ (eq_ind _ (fun l => pairwiseb _ l = true) Hex _ Hcs)) as [Pd Pt].
    destruct (IHcc (p ++ req) s1) as [s2 [E2 [N2 [I2 [B2 [U2 W2]]]]]]; auto.
    + intros e He. apply (Hkid_sub (req, cc)); auto.
    + pose proof (nodup_map_app_r _ _ _ Hnd) as Hnd2. rewrite Hsplit in Hnd2.
      apply nodup_map_app_r in Hnd2. now apply nodup_map_app_l in Hnd2.
    + intros e He. apply (Htodo (req, cc)); [now left|exact He].
    + (* what is compatible with the child's scope and outside it is not placed *)
      intros e He Hnot Hc.
      destruct (in_dec entry_eq_dec e (map (fun x => (p, x)) fs ++ flat_map (kid_flat p) cs)) as [Hin|Hnin].
      * apply in_app_or in Hin. destruct Hin as [Hin|Hin]; [now apply Hfs|].
        apply in_flat_map in Hin. destruct Hin as [rc [Hrc Hin]].
        rewrite Hcs in Hrc. apply in_app_or in Hrc.
        assert (Hconf : forall rc', (In rc' done \/ In rc' todo) -> In e (kid_flat p rc') -> False).
        { intros [req' cc'] Hrc' Hin'. unfold kid_flat in Hin'. simpl in Hin'.
          destruct (flat_prefix _ _ _ Hin') as [suf Hs]. unfold e_path in Hc. rewrite Hs in Hc.
          rewrite <- app_assoc in Hc.
          assert (Hc' : compat (p ++ req ++ []) (p ++ req' ++ suf)) by (now rewrite app_nil_r).
          apply compat_app_mid in Hc'.
          destruct Hrc' as [Hd|Ht].
          - apply (conflict_compat_false req' req); [apply (Pd _ Hd)|now apply compat_sym].
          - apply (conflict_compat_false req req'); [apply (Pt _ Ht)|exact Hc']. }
        destruct Hrc as [Hrc|[<-|Hrc]].
        -- exfalso. eapply Hconf; eauto.
        -- exfalso. now apply Hnot.
        -- exfalso. eapply Hconf; eauto.
      * assert (E : sget s1 (e_fid e) = sget s (e_fid e)).
        { apply Hunch. intros e2 He2 Efid. apply Hnin. rewrite <- flat_node.
          assert (e2 = e) by (eapply wf_same_fid; eauto; apply Hsub; now rewrite <- flat_node).
          subst e2. exact He2. }
        rewrite E. apply Hout; auto.
        -- now rewrite flat_node.
        -- eapply compat_prefix; eauto.
    + rewrite (hb_ext _ _ Hw). pose proof (maxhb_ge s cs req cc Hcc). lia.
    + (* continue with the remaining children *)
      assert (Hw2 : forall g, width_of s2 g = width_of s g) by (intros g; now rewrite W2, Hw).
      destruct (IH (done ++ [(req, cc)]) s2) as [s3 [E3 R3]]; auto.
      * rewrite Hcs, <- app_assoc. reflexivity.
      * intros rc Hrc. apply in_app_or in Hrc. destruct Hrc as [Hrc|[<-|[]]].
        -- intros e He. destruct (Hdone rc Hrc e He) as [st [l [R1 R2]]]. exists st, l. split; [|exact R2].
           unfold frange. rewrite U2; [exact R1|]. intros e2 He2. eapply Hdisj_other; eauto.
        -- intros e He. destruct (B2 e He) as [st [l [R1 [R2 R3']]]]. exists st, l. split; [exact R1|].
           split; [exact R2|]. rewrite (hb_ext _ _ Hw) in R3'. pose proof (maxhb_ge s cs req cc Hcc). lia.
      * intros rc Hrc e He. rewrite U2; [apply (Htodo rc (or_intror Hrc) e He)|].
        intros e2 He2. eapply Hdisj_other; eauto.
      * intros e He. apply in_map_iff in He. destruct He as [x [<- Hx]].
        rewrite U2; [apply Hfs; apply in_map_iff; eauto|]. intros e2 He2. now apply Hdisj_fs.
      * intros g Hg. rewrite U2; [now apply Hunch|]. intros e2 He2. apply Hg. rewrite flat_node.
        apply in_or_app. right. apply in_flat_map. eauto.
      * exists s3. split; [|exact R3]. cbn [flat_map]. rewrite assign_nodes_app. cbn [snd fst]. rewrite E2. exact E3.
Qed.

Lemma own_get_field t n p i f :
  wf_tree t n -> In (p, (i, f)) (entries t) -> get_field t i p = Some f.
Proof.
  intros W Hin. pose proof (wf_self _ _ W _ Hin) as Hs. unfold e_path in Hs. simpl in Hs.
  assert (Hen : In (i, f) (enabled_fields t p)).
  { apply enabled_flat0. exists p. split; [exact Hin|now apply self_enabled]. }
  destruct (enabled_get_field _ _ _ _ Hen) as [f' Hf']. rewrite Hf'. f_equal.
  eapply wf_get_field; eauto.
Qed.

Lemma frange_start s g st l : frange s g = Some (st, l) -> f_start (sget s g) = Some st /\ f_len (sget s g) = Some l.
Proof.
  unfold frange. destruct (f_start (sget s g)); [|discriminate]. destruct (f_len (sget s g)); [|discriminate].
  intros H; inversion H; auto.
Qed.

Lemma post_pass L t n : wf_tree t n -> forall c, post_ok L t n c.
Proof.
  intros W. induction c as [fs cs IH] using tree_ind'.
  intros p s Hsub Hnd Hex Hn HI Hun Hout Hhb.
  cbn [exclusive_children] in Hex. apply andb_true_iff in Hex. destruct Hex as [Hex1 Hex2].
  assert (Hex2' : forallb (fun rc => exclusive_children (snd rc)) cs = true).
  { rewrite <- Hex2. clear. induction cs as [|[r c] cs IHcs]; simpl; [reflexivity|now rewrite IHcs]. }
  rewrite hb_node in Hhb.
  assert (Hfs_ent : forall x, In x fs -> In (p, x) (entries t)).
  { intros x Hx. apply Hsub. rewrite flat_node. apply in_or_app. left. apply in_map_iff. eauto. }
  assert (Hsumpos : 0 <= sumw s fs).
  { apply sumw_nonneg. intros i f Hin. destruct HI as [_ [_ HM]]. apply (width_of_pos t s (p, (i, f)) HM). now apply Hfs_ent. }
  pose proof (maxhb_nonneg s cs) as Hmaxpos.
  destruct (kids_pass L t n p fs cs s W Hsub Hnd Hex1 Hex2' ltac:(lia) IH Hout cs [] s eq_refl Hn HI)
    as [s2 [E2 [N2 [I2 [W2 [B2 [F2 U2]]]]]]]; auto.
  { intros rc []. }
  { intros rc Hrc e He. apply Hun. rewrite flat_node. apply in_or_app. right. apply in_flat_map. eauto. }
  { intros e He. apply Hun. rewrite flat_node. apply in_or_app. now left. }
  assert (Hnodes_ok : forall nd x, In nd (nodes_post (Node fs cs) p) -> In x (snd nd) -> In (fst nd, x) (entries t)).
  { intros [fv ids] x Hnd' Hx. apply Hsub. eapply nodes_post_flat; eauto. }
  (* the bits seen by the node lie below the children's bound *)
  destruct (potential_bits_ok s2 (potential_fields t p) 0) as [a Ea].
  { intros i g st l Hin Hr. apply potential_flat0 in Hin. destruct Hin as [q [Hq _]].
    destruct I2 as [_ [HR _]]. apply (HR _ _ _ Hq Hr). }
  assert (Hfinish : forall s3,
            assign_idents L false true t p fs a s2 = (s3, None) ->
            (forall i f, In (i, f) fs -> exists st l, frange s3 f = Some (st, l) /\ 0 <= st
                                                      /\ st + l <= maxhb s cs + sumw s fs) ->
            (forall g, ~ In g (map snd fs) -> sget s3 g = sget s2 g) ->
            (forall g, width_of s3 g = width_of s2 g) ->
            exists s', assign_nodes L false true t s (nodes_post (Node fs cs) p) = (s', None)
              /\ length s' = n /\ LInv L t s'
              /\ below s' (flat (Node fs cs) p) (sumw s fs + maxhb s cs)
              /\ (forall g, (forall e, In e (flat (Node fs cs) p) -> e_fid e <> g) -> sget s' g = sget s g)
              /\ (forall g, width_of s' g = width_of s g)).
  { intros s3 E3 P3 O3 W3.
    assert (Eall : assign_nodes L false true t s (nodes_post (Node fs cs) p) = (s3, None)).
    { rewrite nodes_post_node, assign_nodes_app, E2. cbn [assign_nodes]. unfold assign_node. cbn [fst snd].
      rewrite Ea, E3. reflexivity. }
    destruct (assign_nodes_inv L false true t n W _ _ _ _ Hnodes_ok Hn HI Eall) as [N3 [I3 _]].
    exists s3. split; [exact Eall|split; [exact N3|split; [exact I3|split; [|split]]]].
    - rewrite flat_node. intros e He. apply in_app_or in He. destruct He as [He|He].
      + apply in_map_iff in He. destruct He as [[i f] [<- Hx]].
        destruct (P3 i f Hx) as [st [l [R1 [R2 R3]]]]. exists st, l. split; [exact R1|]. split; [exact R2|lia].
      + apply in_flat_map in He. destruct He as [rc [Hrc He]].
        destruct (B2 rc Hrc e He) as [st [l [R1 [R2 R3]]]]. exists st, l. split; [|split; [exact R2|lia]].
        unfold frange. rewrite O3; [exact R1|]. intros Hin. apply in_map_iff in Hin. destruct Hin as [x [Ex Hx]].
        rewrite flat_node in Hnd.
        apply (nodup_map_app_disjoint e_fid _ _ Hnd (p, x) e); auto.
        * apply in_map_iff. eauto.
        * apply in_flat_map. eauto.
    - intros g Hg. rewrite O3; [now apply U2|]. intros Hin. apply in_map_iff in Hin. destruct Hin as [x [Ex Hx]].
      apply (Hg (p, x)); [|exact Ex]. rewrite flat_node. apply in_or_app. left. apply in_map_iff. eauto.
    - intros g. now rewrite W3, W2. }
  rewrite hb_node.
  destruct fs as [|x0 fs'].
  - apply (Hfinish s2); auto. intros i f [].
  - set (fs := x0 :: fs') in *.
    assert (Hpp : compat p p).
    { pose proof (wf_self _ _ W _ (Hfs_ent x0 (or_introl eq_refl))) as Hs. exact Hs. }
    assert (Htight : forall k, Z.testbit a k = true -> k < maxhb s cs).
    { intros k Hk.
      destruct (potential_bits_tight s2 (potential_fields t p) 0 a) with (k := k) as [H0|[i [g [st [l [Hin [Hr Hkr]]]]]]]; auto.
      { intros i g st l Hin Hr. apply potential_flat0 in Hin. destruct Hin as [q [Hq _]].
        destruct I2 as [_ [_ HM]]. apply frange_start in Hr. destruct Hr as [_ Hl].
        destruct (HM _ Hq) as [_ M2]. destruct (M2 _ Hl). lia. }
      { rewrite Z.testbit_0_l in H0. discriminate. }
      apply potential_flat0 in Hin. destruct Hin as [q [Hq Hpot]].
      assert (Hc : compat p q).
      { intros k' v1 v2 K1 K2. rewrite req_potential_spec in Hpot.
        destruct (In_zassoc _ _ _ K1) as [v' Hv']. pose proof (zassoc_In _ _ _ Hv') as K3.
        assert (v' = v1) by (eapply Hpp; eauto). subst v'. symmetry. eapply Hpot; eauto. }
      destruct (frange_start _ _ _ _ Hr) as [Hst _].
      destruct (in_dec entry_eq_dec (q, (i, g)) (flat (Node fs cs) p)) as [Hin|Hnin].
      - rewrite flat_node in Hin. apply in_app_or in Hin. destruct Hin as [Hin|Hin].
        + pose proof (F2 _ Hin) as Hn0. unfold e_fid in Hn0. simpl in Hn0. rewrite Hn0 in Hst. discriminate.
        + apply in_flat_map in Hin. destruct Hin as [rc [Hrc Hin]].
          destruct (B2 rc Hrc _ Hin) as [st' [l' [R1 [R2 R3]]]]. unfold e_fid in R1. simpl in R1.
          assert (st' = st /\ l' = l) by (split; congruence). lia.
      - assert (E : sget s2 g = sget s g).
        { apply U2. intros e2 He2 Efid. apply Hnin.
          assert (e2 = (q, (i, g))) by (eapply wf_same_fid; eauto). now subst e2. }
        rewrite E in Hst. pose proof (Hout (q, (i, g)) Hq Hnin Hc) as Hn0. unfold e_fid in Hn0. simpl in Hn0.
        rewrite Hn0 in Hst. discriminate. }
    destruct (assign_idents_pack L t p fs a s2 (maxhb s cs)) as [s3 [E3 [P3 [O3 W3]]]]; auto.
    + rewrite (sumw_ext _ _ _ W2). lia.
    + rewrite flat_node in Hnd. apply nodup_map_app_l in Hnd. rewrite map_map in Hnd.
      rewrite (map_ext _ snd) in Hnd; [exact Hnd|]. intros [i f]. reflexivity.
    + intros i f Hin. split; [eapply own_get_field; eauto|]. split; [rewrite N2; apply (wf_bound _ _ W _ (Hfs_ent _ Hin))|].
      split.
      * apply (F2 (p, (i, f))). apply in_map_iff. eauto.
      * destruct I2 as [_ [_ HM]]. apply (width_of_pos t s2 (p, (i, f)) HM). now apply Hfs_ent.
    + apply (Hfinish s3); auto.
      intros i f Hin. destruct (P3 i f Hin) as [st [l [R1 [R2 R3]]]]. exists st, l. split; [exact R1|].
      split; [exact R2|]. rewrite (sumw_ext _ _ _ W2) in R3. exact R3.
Qed.

(* ------------------------------------------------------------------ the widest chain is a set of co-present fields *)
Lemma sumw_app s a b : sumw s (a ++ b) = sumw s a + sumw s b.
Proof. unfold sumw. rewrite map_app. induction (map (fun p => width_of s (snd p)) a); simpl; lia. Qed.

Lemma maxhb_attained s cs : 0 < maxhb s cs -> exists r c, In (r, c) cs /\ hb s c = maxhb s cs.
Proof.
  induction cs as [|[r c] cs IH]; simpl; intros H; [lia|].
  destruct (Z_le_gt_dec (maxhb s cs) (hb s c)) as [Hle|Hgt].
  - exists r, c. split; [now left|]. fold (maxhb s cs). lia.
  - fold (maxhb s cs) in *. destruct IH as [r' [c' [Hin E]]]; [lia|].
    exists r', c'. split; [now right|]. lia.
Qed.

Lemma hb_pos_entry s c : forall p, 0 < hb s c -> exists e, In e (flat c p).
Proof.
  induction c as [fs cs IH] using tree_ind'. intros p H. rewrite hb_node in H.
  destruct fs as [|x fs].
  - unfold sumw in H. simpl in H. destruct (maxhb_attained s cs ltac:(lia)) as [r [c [Hin E]]].
    rewrite Forall_forall in IH. destruct (IH _ Hin (p ++ r)) as [e He]; [simpl; lia|].
    exists e. rewrite flat_node. apply in_or_app. right. apply in_flat_map. exists (r, c). auto.
  - exists (p, x). rewrite flat_node. apply in_or_app. left. now left.
Qed.

Lemma compat_sub p q : incl p q -> compat q q -> compat p p.
Proof. intros Hi Hc i v1 v2 H1 H2. eapply Hc; apply Hi; eauto. Qed.

Lemma hb_le_enabled s : forall c p,
  (forall e, In e (flat c p) -> compat (e_path e) (e_path e) /\ 0 < width_of s (e_fid e)) ->
  compat p p ->
  exists suf, compat (p ++ suf) (p ++ suf) /\ hb s c <= sumw s (enabled_fields c (p ++ suf)).
Proof.
  induction c as [fs cs IH] using tree_ind'. intros p Hent Hpp.
  assert (Hen_pos : forall fv, forall cc r, In (r, cc) cs -> 0 <= sumw s (enabled_fields cc fv)).
  { intros fv cc r Hin. apply sumw_nonneg. intros i f Hif.
    apply (enabled_in_flat cc fv (p ++ r)) in Hif. destruct Hif as [suf [Hf _]].
    apply (Hent (p ++ r ++ suf, (i, f))). rewrite flat_node. apply in_or_app. right.
    apply in_flat_map. exists (r, cc). split; [exact Hin|]. unfold kid_flat. simpl. now rewrite <- app_assoc in Hf. }
  assert (Hfs_pos : 0 <= sumw s fs).
  { apply sumw_nonneg. intros i f Hin. apply (Hent (p, (i, f))). rewrite flat_node. apply in_or_app. left.
    apply in_map_iff. eauto. }
  assert (Hrest_pos : forall fv l, incl l cs ->
            0 <= sumw s (flat_map (fun rc => match rc with (req, c) => if req_enabled fv req then enabled_fields c fv else [] end) l)).
  { intros fv l. induction l as [|[r c] l IHl]; intros Hl; simpl; [unfold sumw; simpl; lia|].
    rewrite sumw_app. assert (0 <= sumw s (if req_enabled fv r then enabled_fields c fv else [])).
    { destruct (req_enabled fv r); [apply (Hen_pos fv c r); apply Hl; now left|unfold sumw; simpl; lia]. }
    assert (0 <= sumw s (flat_map (fun rc => match rc with (req, c0) => if req_enabled fv req then enabled_fields c0 fv else [] end) l)).
    { apply IHl. intros x Hx. apply Hl. now right. }
    lia. }
  rewrite hb_node.
  destruct (Z_le_gt_dec (maxhb s cs) 0) as [Hz|Hpos].
  - exists []. rewrite app_nil_r. split; [exact Hpp|]. cbn [enabled_fields]. rewrite sumw_app.
    pose proof (Hrest_pos p cs (incl_refl _)). pose proof (maxhb_nonneg s cs). lia.
  - destruct (maxhb_attained s cs ltac:(lia)) as [r [c [Hin E]]].
    destruct (hb_pos_entry s c (p ++ r) ltac:(lia)) as [e He].
    assert (Hpr : compat (p ++ r) (p ++ r)).
    { destruct (flat_prefix _ _ _ He) as [suf Hs].
      assert (Hee : compat (e_path e) (e_path e)).
      { apply Hent. rewrite flat_node. apply in_or_app. right. apply in_flat_map. exists (r, c). auto. }
      unfold e_path in Hee. rewrite Hs in Hee. eapply compat_sub; [|exact Hee]. apply incl_appl. apply incl_refl. }
    rewrite Forall_forall in IH. destruct (IH _ Hin (p ++ r)) as [suf [Hc Hle]]; auto.
    { intros e' He'. apply Hent. rewrite flat_node. apply in_or_app. right. apply in_flat_map. exists (r, c). auto. }
    exists (r ++ suf). rewrite app_assoc. split; [exact Hc|].
    cbn [enabled_fields]. rewrite sumw_app.
    set (fv := (p ++ r) ++ suf) in *.
    assert (Hreq : req_enabled fv r = true).
    { pose proof (self_enabled _ Hc) as Hse. subst fv. rewrite !req_enabled_app in Hse.
      apply andb_true_iff in Hse. destruct Hse as [Hse _]. apply andb_true_iff in Hse. tauto. }
    (* the chosen child's contribution is part of the sum *)
    assert (Hpart : forall l, incl l cs -> In (r, c) l ->
              sumw s (enabled_fields c fv) <=
              sumw s (flat_map (fun rc => match rc with (req, c0) => if req_enabled fv req then enabled_fields c0 fv else [] end) l)).
    { induction l as [|[r' c'] l IHl]; intros Hl Hrc; [destruct Hrc|]. simpl. rewrite sumw_app.
      assert (Hl' : incl l cs) by (intros x Hx; apply Hl; now right).
      destruct Hrc as [Heq|Hrc].
      - inversion Heq; subst r' c'. rewrite Hreq. pose proof (Hrest_pos fv l Hl'). lia.
      - specialize (IHl Hl' Hrc).
        assert (0 <= sumw s (if req_enabled fv r' then enabled_fields c' fv else [])).
        { destruct (req_enabled fv r'); [apply (Hen_pos fv c' r'); apply Hl; now left|unfold sumw; simpl; lia]. }
        lia. }
    pose proof (Hpart cs (incl_refl _) Hin). simpl snd in Hle. lia.
Qed.

Lemma widths_fit_hb L t n s :
  wf_tree t n -> LenMax t s -> widths_fit L t s -> hb s t <= L.
Proof.
  intros W HM HW. destruct (hb_le_enabled s t []) as [suf [_ Hle]].
  - intros e He. split; [apply (wf_self _ _ W _ He)|apply (width_of_pos t s e HM He)].
  - intros i v1 v2 [].
  - specialize (HW ([] ++ suf)). unfold sumw in Hle. lia.
Qed.

(* ------------------------------------------------------------------ the first pass does nothing *)
Lemma first_pass_noop L orig t n s : wf_tree t n -> unpositioned t s ->
  forall nodes, (forall nd x, In nd nodes -> In x (snd nd) -> In (fst nd, x) (entries t)) ->
  assign_nodes L orig false t s nodes = (s, None).
Proof.
  intros W HU. induction nodes as [|[fv ids] nodes IH]; intros Hn; simpl; [reflexivity|].
  unfold assign_node. cbn [fst snd].
  rewrite potential_bits_unpositioned.
  2:{ intros i f Hin. apply (HU i f). apply potential_flat0 in Hin. destruct Hin as [q [Hq _]].
      apply all_fields_flat. eauto. }
  rewrite assign_idents_nopos.
  - apply IH. intros nd x H1 H2. apply Hn; [now right|exact H2].
  - intros i f Hin. pose proof (Hn (fv, ids) (i, f) (or_introl eq_refl) Hin) as He. simpl in He. split.
    + eapply own_get_field; eauto.
    + apply (HU i f). apply all_fields_flat. eauto.
Qed.

(* ------------------------------------------------------------------ completeness without the fragmentation pattern *)
Lemma assign_complete_exclusive st :
  Inv st -> exclusive_children (s_tree st) = true ->
  unpositioned (s_tree st) (s_store st) ->
  widths_fit (s_len st) (s_tree st) (s_store st) ->
  exists st', assign_fields st = (st', None).
Proof.
  intros [W HI] Hex HU HW. unfold assign_fields, gen_scan_orig, assign_fields_gen.
  rewrite (first_pass_noop _ _ _ _ _ W HU _ (bfs_nodes_ok _)).
  destruct (post_pass (s_len st) (s_tree st) _ W (s_tree st) [] (s_store st)) as [s' [E _]]; auto.
  - apply (wf_nodup _ _ W).
  - intros e He. apply (HU (e_name e) (e_fid e)). apply all_fields_flat. exists (e_path e).
    destruct e as [q [i f]]. exact He.
  - intros e He Hnot. exfalso. now apply Hnot.
  - destruct HI as [_ [_ HM]]. eapply widths_fit_hb; eauto.
  - rewrite E. eauto.
Qed.
