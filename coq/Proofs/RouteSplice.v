(* C03 -- one repair step of avoid_dead_links in full generality: the A* detour may run over new chips and
   through nodes of the orphaned subtree itself (which are cut from their parent and re-attached along the
   detour).  The forest keeps "no chip twice" and "every edge a working link", loses exactly one tree (the
   orphan becomes a subtree) and keeps the roots of all other trees. *)
From Coq Require Import ZArith List Bool Lia Relations.
Require Import Rig.Model.Base Rig.Model.Geometry Rig.Model.Route Rig.Spec.Route Rig.Proofs.Route
        Rig.Proofs.RouteTree Rig.Proofs.RouteNer Rig.Proofs.RouteCopy Rig.Proofs.RouteRepair
        Rig.Proofs.RouteSever.
Import ListNotations.
Open Scope Z_scope.

Lemma root_is_iff : forall c t, root_is c t = true <-> root_chip t = Some c.
Proof.
  intros c [c0 ks|v]; cbn [root_is root_chip].
  - rewrite rt_chip_eqb_eq. split; intros H; [subst; reflexivity | inversion H; reflexivity].
  - split; discriminate.
Qed.

Lemma root_is_by_root : forall c t t', root_chip t = root_chip t' -> root_is c t = root_is c t'.
Proof.
  intros c t t' H. destruct (root_is c t) eqn:E.
  - apply root_is_iff in E. rewrite H in E. apply root_is_iff in E. symmetry. exact E.
  - destruct (root_is c t') eqn:E'; [|reflexivity]. apply root_is_iff in E'. rewrite <- H in E'.
    apply root_is_iff in E'. congruence.
Qed.

Lemma roots_attach : forall p k f, map root_chip (forest_attach p k f) = map root_chip f.
Proof.
  intros p k f. unfold forest_attach. rewrite map_map. apply map_ext. intros t. apply root_chip_attach.
Qed.

Lemma take_root_by_roots : forall child f1 f ct f',
    map root_chip f1 = map root_chip f -> take_root child f = Some (ct, f') ->
    exists ct1 f1', take_root child f1 = Some (ct1, f1') /\ root_chip ct1 = root_chip ct /\
                    map root_chip f1' = map root_chip f'.
Proof.
  intros child. induction f1 as [|t1 f1 IH]; intros f ct f' Hm Ht.
  - destruct f; [discriminate | discriminate].
  - destruct f as [|t f]; [discriminate|]. cbn [map] in Hm. inversion Hm as [[Hr Hm']].
    cbn [take_root] in *. rewrite (root_is_by_root child t1 t Hr).
    destruct (root_is child t).
    + inversion Ht; subst. exists t1, f1. split; [reflexivity|]. split; assumption.
    + destruct (take_root child f) as [[r0 f0]|] eqn:E; [|discriminate]. inversion Ht; subst.
      destruct (IH f ct f0 Hm' E) as [ct1 [f1' [E1 [R1 M1]]]]. rewrite E1.
      exists ct1, (t1 :: f1'). split; [reflexivity|]. split; [exact R1|]. cbn [map]. rewrite Hr, M1. reflexivity.
Qed.

Lemma fhops_attach : forall p d c ks f e,
    In e (fhops (forest_attach p (Some d, RNode c ks) f)) ->
    In e (fhops f) \/ e = (p, Some d, c) \/ In e (tree_hops (RNode c ks)).
Proof.
  intros p d c ks f e H. apply in_fhops in H. destruct H as [t [Ht He]].
  unfold forest_attach in Ht. apply in_map_iff in Ht. destruct Ht as [t0 [Heq Ht0]]. subst t.
  apply hops_attach_subtree in He. destruct He as [He|[He|He]].
  - left. apply in_fhops. exists t0. split; assumption.
  - right. left. exact He.
  - right. right. exact He.
Qed.

Lemma fhops_in_chips : forall f p r x, In (p, r, x) (fhops f) -> In p (forest_chips f) /\ In x (forest_chips f).
Proof.
  intros f p r x H. apply in_fhops in H. destruct H as [t [Ht He]]. apply hops_in_chips in He.
  unfold forest_chips. split; apply in_flat_map; exists t; tauto.
Qed.

Lemma forest_hops_ok_fhops : forall m f,
    forest_hops_ok m f <-> (forall p r c, In (p, r, c) (fhops f) -> exists l, r = Some l /\ hop_ok m p l c).
Proof.
  intros m f. split.
  - intros H p r c He. apply in_fhops in He. destruct He as [t [Ht He]]. eapply H; eauto.
  - intros H t p r c Ht He. apply H. apply in_fhops. exists t. split; assumption.
Qed.

(* the state of the loop `for direction, (x, y) in path[1:]` *)
Theorem splice_ok : forall m child cc path last ld f A,
    (forall x, (cnt x (forest_chips f) <= 1)%nat) ->
    forest_hops_ok m f ->
    (exists ct f', take_root child f = Some (ct, f') /\ root_chip ct = Some child) ->
    In last (forest_chips f) ->
    (* A holds every ancestor of the node the detour has reached *)
    (forall x, Hstar (fhops f) x last -> In x A) ->
    (forall a, In a A -> a <> child /\ ~ In a (map snd path)) ->
    In child cc ->
    NoDup (map snd path) ->
    (* a chip of the detour is new, or a node of the orphaned subtree other than its root *)
    (forall q, In q (map snd path) ->
               (~ In q (forest_chips f) /\ ~ In q cc) \/ (In q cc /\ In q (forest_chips f) /\ q <> child)) ->
    (forall t r, In t f -> root_chip t = Some r -> In r cc -> r = child) ->
    detour_ok m last ld path child ->
    exists f2,
      splice_gen sever_now child cc last ld path f = Ok f2
      /\ (forall x, (cnt x (forest_chips f2) <= 1)%nat)
      /\ forest_hops_ok m f2
      /\ (forall x, In x (forest_chips f2) <-> In x (forest_chips f) \/ In x (map snd path))
      /\ S (length f2) = length f
      /\ (forall ct f', take_root child f = Some (ct, f') -> map root_chip f2 = map root_chip f').
Proof.
  intros m child cc path. induction path as [|[d c] rest IH];
    intros last ld f A Hnd Hh [ct [f' [Htr Hroot]]] Hlast HA HAd Hchild Hpnd Hq Hroots Hdet.
  - (* the orphaned tree is attached below the end of the detour *)
    cbn [splice_gen]. rewrite Htr. cbn [detour_ok] in Hdet.
    destruct ct as [c0 ks|v]; [|discriminate]. cbn [root_chip] in Hroot. inversion Hroot; subst c0.
    assert (Hsplit : forall x, cnt x (forest_chips f) = (occ x (RNode child ks) + cnt x (forest_chips f'))%nat).
    { intros x. apply (take_root_cnt child f (RNode child ks) f' x Htr). }
    destruct (take_root_cnt child f (RNode child ks) f' last Htr) as [_ [Hlen Hmem]].
    assert (Hnotin : ~ In last (chips (RNode child ks))).
    { intros Hin. pose proof (tree_connected (RNode child ks) child last eq_refl Hin) as Hc.
      apply (hstar_mono _ (fhops f)) in Hc.
      - destruct (HAd child (HA child Hc)) as [Hne _]. congruence.
      - intros e He. apply in_fhops. exists (RNode child ks). split; [apply Hmem; left; reflexivity | exact He]. }
    assert (Hl1 : cnt last (forest_chips f') = 1%nat).
    { apply cnt_in in Hlast. pose proof (Hnd last) as Hn. rewrite Hsplit in Hlast, Hn.
      destruct (occ last (RNode child ks)) eqn:Eo; [lia|]. exfalso. apply Hnotin. apply occ_in. lia. }
    exists (forest_attach last (Some ld, RNode child ks) f'). split; [reflexivity|].
    assert (Hcnt : forall x, cnt x (forest_chips (forest_attach last (Some ld, RNode child ks) f')) =
                             cnt x (forest_chips f)).
    { intros x. rewrite cnt_forest_attach, Hl1, Hsplit. cbn [snd]. lia. }
    split; [intros x; rewrite Hcnt; apply Hnd|]. split; [|split; [|split]].
    + apply forest_hops_attach_tree.
      * intros t p r c1 Hin He. eapply Hh; [apply Hmem; right; exact Hin | exact He].
      * intros t p r c1 [Hin|[]] He. subst t. eapply Hh; [apply Hmem; left; reflexivity | exact He].
      * exact Hdet.
    + intros x. cbn [map]. split.
      * intros Hx. left. apply cnt_in. rewrite <- Hcnt. apply cnt_in. exact Hx.
      * intros [Hx|[]]. apply cnt_in. rewrite Hcnt. apply cnt_in. exact Hx.
    + rewrite forest_attach_length. lia.
    + intros ct0 f0 Ht0. inversion Ht0; subst. apply roots_attach.
  - (* one more chip of the detour *)
    cbn [map snd] in Hpnd, Hq, HAd. cbn [detour_ok] in Hdet. destruct Hdet as [Hhop Hdet].
    apply NoDup_cons_iff in Hpnd. destruct Hpnd as [Hcr Hpnd].
    assert (HcA : ~ In c A) by (intros Hin; destruct (HAd c Hin) as [_ Hn]; apply Hn; left; reflexivity).
    assert (Hnostar : ~ Hstar (fhops f) c last) by (intros Hs; exact (HcA (HA c Hs))).
    assert (Hl1 : cnt last (forest_chips f) = 1%nat).
    { pose proof (proj1 (cnt_in _ _) Hlast). pose proof (Hnd last). lia. }
    (* the forest before the attachment and the subtree that is attached *)
    assert (Hstep : exists fpre sub ks,
               sub = RNode c ks /\
               (if negb (chip_mem c cc)
                then (if chip_mem c (forest_chips f) then OtherError
                      else splice_gen sever_now child cc c d rest (forest_attach last (Some ld, RNode c []) f))
                else match forest_find c f with
                     | None => OtherError
                     | Some sub0 => splice_gen sever_now child cc c d rest
                                               (forest_attach last (Some ld, sub0) (sever_now child c f))
                     end)
               = splice_gen sever_now child cc c d rest (forest_attach last (Some ld, sub) fpre) /\
               map root_chip fpre = map root_chip f /\
               (forall x, (cnt x (forest_chips fpre) + occ x sub)%nat =
                          (cnt x (forest_chips f) + (if chip_mem c cc then 0 else if chip_eq_dec c x then 1 else 0))%nat) /\
               (forall e, In e (fhops fpre) -> In e (fhops f)) /\
               (forall e, In e (tree_hops sub) -> In e (fhops f)) /\
               (chip_mem c cc = true -> In c (forest_chips f)) /\
               (chip_mem c cc = false -> ~ In c (forest_chips f))).
    { destruct (Hq c (or_introl eq_refl)) as [[Hcf Hcc]|[Hcc [Hcf Hcne]]].
      - assert (E1 : chip_mem c cc = false) by (apply rt_chip_mem_false; exact Hcc).
        assert (E2 : chip_mem c (forest_chips f) = false) by (apply rt_chip_mem_false; exact Hcf).
        exists f, (RNode c []), []. rewrite E1, E2. cbn [negb]. split; [reflexivity|]. split; [reflexivity|].
        split; [reflexivity|]. split; [intros x; rewrite occ_single; reflexivity|]. split; [auto|].
        split; [intros e []|]. split; [discriminate | intros _; exact Hcf].
      - assert (E1 : chip_mem c cc = true) by (apply rt_chip_mem_In; exact Hcc).
        assert (Hc1 : cnt c (forest_chips f) = 1%nat).
        { pose proof (proj1 (cnt_in _ _) Hcf). pose proof (Hnd c). lia. }
        assert (Hnr : forall t, In t f -> root_chip t <> Some c).
        { intros t Ht Hr. apply Hcne. apply (Hroots t c Ht Hr Hcc). }
        destruct (forest_cut c f Hc1 Hnr) as [s [G1 [G2 [G3 [G4 [G5 G6]]]]]].
        destruct s as [c1 ks|v]; [|discriminate]. cbn [root_chip] in G2. inversion G2; subst c1.
        exists (forest_sever_any c f), (RNode c ks), ks. rewrite E1, G1. cbn [negb]. unfold sever_now.
        split; [reflexivity|]. split; [reflexivity|]. split; [exact G3|].
        split; [intros x; rewrite (G4 x); lia|]. split; [exact G5|]. split; [exact G6|].
        split; [intros _; exact Hcf | discriminate]. }
    destruct Hstep as [fpre [sub [ks [Hsub [Hmodel [Hrootsp [Hcount [Hpre_h [Hsub_h [Hin_cc Hnotin_cc]]]]]]]]]].
    cbn [splice_gen]. rewrite Hmodel. clear Hmodel. subst sub.
    set (f1 := forest_attach last (Some ld, RNode c ks) fpre).
    (* the end of the detour so far is not inside the subtree being moved *)
    assert (Hlast_sub : occ last (RNode c ks) = 0%nat).
    { destruct (occ last (RNode c ks)) eqn:Eo; [reflexivity|]. exfalso. apply Hnostar.
      apply (hstar_mono (tree_hops (RNode c ks))); [exact Hsub_h|].
      apply tree_connected; [reflexivity | apply occ_in; lia]. }
    assert (Hc_ne_last : c <> last).
    { intros E. subst c. rewrite occ_node' in Hlast_sub. destruct (chip_eq_dec last last); [lia | congruence]. }
    assert (Hlpre : cnt last (forest_chips fpre) = 1%nat).
    { pose proof (Hcount last) as Hc'. rewrite Hlast_sub, Hl1 in Hc'.
      destruct (chip_mem c cc); [lia|]. destruct (chip_eq_dec c last); [congruence | lia]. }
    assert (Hcnt1 : forall x, cnt x (forest_chips f1) = (cnt x (forest_chips fpre) + occ x (RNode c ks))%nat).
    { intros x. subst f1. rewrite cnt_forest_attach, Hlpre. cbn [snd]. lia. }
    assert (Hmem1 : forall x, In x (forest_chips f1) <-> In x (forest_chips f) \/ x = c).
    { intros x. rewrite !cnt_in, Hcnt1, Hcount. destruct (chip_mem c cc) eqn:Ecc.
      - split; [intros H0; left; lia|]. intros [H0|H0]; [lia|]. subst x.
        pose proof (proj1 (cnt_in _ _) (Hin_cc eq_refl)). lia.
      - destruct (chip_eq_dec c x) as [E|E]; split; intros H0.
        + right. symmetry. exact E.
        + lia.
        + left. lia.
        + destruct H0 as [H0|H0]; [lia | congruence]. }
    assert (Hnd1 : forall x, (cnt x (forest_chips f1) <= 1)%nat).
    { intros x. rewrite Hcnt1, Hcount. pose proof (Hnd x) as Hx. destruct (chip_mem c cc) eqn:Ecc; [lia|].
      destruct (chip_eq_dec c x) as [E|E]; [|lia]. subst x.
      assert (cnt c (forest_chips f) = 0%nat).
      { destruct (cnt c (forest_chips f)) eqn:Ez; [reflexivity|]. exfalso. apply (Hnotin_cc eq_refl). apply cnt_in. lia. }
      lia. }
    assert (Hh1 : forest_hops_ok m f1).
    { subst f1. apply forest_hops_attach_tree.
      - apply forest_hops_ok_fhops. intros p r x He. apply (proj1 (forest_hops_ok_fhops m f) Hh). apply Hpre_h. exact He.
      - intros t p r x [Ht|[]] He. subst t. apply (proj1 (forest_hops_ok_fhops m f) Hh). apply Hsub_h. exact He.
      - exact Hhop. }
    assert (Hroots1 : map root_chip f1 = map root_chip f).
    { subst f1. rewrite roots_attach. exact Hrootsp. }
    destruct (take_root_by_roots child f1 f ct f' Hroots1 Htr) as [ct1 [f1' [Htr1 [Hr1 Hm1]]]].
    (* the edges of the new forest *)
    assert (Hup : forall p x, Hrel (fhops f1) p x -> Hrel (fhops f) p x \/ (p = last /\ x = c)).
    { intros p x [r He]. subst f1. apply fhops_attach in He. destruct He as [He|[He|He]].
      - left. exists r. apply Hpre_h. exact He.
      - right. inversion He. split; reflexivity.
      - left. exists r. apply Hsub_h. exact He. }
    assert (Hinto : forall p, Hrel (fhops f1) p c -> p = last).
    { intros p [r He]. subst f1. apply fhops_attach in He. destruct He as [He|[He|He]].
      - exfalso. apply fhops_in_chips in He. destruct He as [_ Hc']. apply cnt_in in Hc'.
        pose proof (root_occ c (RNode c ks) eq_refl). pose proof (Hnd1 c) as Hn. rewrite Hcnt1 in Hn. lia.
      - inversion He. reflexivity.
      - exfalso. pose proof (hop_child_nonroot (RNode c ks) p r c He eq_refl).
        pose proof (Hnd1 c) as Hn. rewrite Hcnt1 in Hn. lia. }
    destruct (IH c d f1 (A ++ [c])) as [f2 [E [G1 [G2 [G3 [G4 G5]]]]]].
    + exact Hnd1.
    + exact Hh1.
    + exists ct1, f1'. split; [exact Htr1 | rewrite Hr1; exact Hroot].
    + apply Hmem1. right. reflexivity.
    + intros x Hx. apply in_or_app. destruct (hstar_into (fhops f1) c last x Hinto Hx) as [Hxc|Hxl].
      * right. left. symmetry. exact Hxc.
      * left. apply HA. apply (hstar_upper (fhops f) (fhops f1) last c last Hup Hnostar). exact Hxl.
    + intros a Ha. apply in_app_or in Ha. destruct Ha as [Ha|[Ha|[]]].
      * destruct (HAd a Ha) as [H1 H2]. split; [exact H1|]. intros Hin. apply H2. right. exact Hin.
      * subst a. split; [|exact Hcr]. destruct (Hq c (or_introl eq_refl)) as [[_ Hcc]|[_ [_ Hne]]]; [|exact Hne].
        intros E. subst c. exact (Hcc Hchild).
    + exact Hchild.
    + exact Hpnd.
    + intros q Hqin. assert (Hqc : q <> c) by (intros E; subst; exact (Hcr Hqin)).
      destruct (Hq q (or_intror Hqin)) as [[Q1 Q2]|[Q1 [Q2 Q3]]].
      * left. split; [|exact Q2]. intros Hin. apply Hmem1 in Hin. destruct Hin as [Hin|Hin]; [exact (Q1 Hin) | exact (Hqc Hin)].
      * right. split; [exact Q1|]. split; [apply Hmem1; left; exact Q2 | exact Q3].
    + intros t r Ht Hr Hrc.
      assert (Hex : In (Some r) (map root_chip f)).
      { rewrite <- Hroots1. apply in_map_iff. exists t. split; assumption. }
      apply in_map_iff in Hex. destruct Hex as [t0 [Hr0 Ht0]]. apply (Hroots t0 r Ht0 Hr0 Hrc).
    + exact Hdet.
    + exists f2. split; [exact E|]. split; [exact G1|]. split; [exact G2|]. split; [|split].
      * intros x. rewrite G3, Hmem1. cbn [map snd]. split.
        -- intros [[H0|H0]|H0]; [left; exact H0 | right; left; symmetry; exact H0 | right; right; exact H0].
        -- intros [H0|[H0|H0]]; [left; left; exact H0 | left; right; symmetry; exact H0 | right; exact H0].
      * rewrite G4. subst f1. rewrite forest_attach_length.
        rewrite <- (map_length root_chip fpre), Hrootsp, map_length. reflexivity.
      * intros ct0 f0 Ht0. rewrite Htr in Ht0. inversion Ht0; subst. rewrite (G5 ct1 f1' Htr1). exact Hm1.
Qed.

(* ---- the repair creates no vertex leaf *)
Lemma find_sub_root : forall c t s, find_sub c t = Some s -> root_chip s = Some c.
Proof.
  intros c. induction t as [v|p kids IH] using rtree_ind2; intros s H; [discriminate|].
  rewrite find_sub_node in H. destruct (chip_eqb c p) eqn:E.
  - inversion H; subst. apply rt_chip_eqb_eq in E. subst. reflexivity.
  - rewrite Forall_forall in IH. clear E.
    assert (G : forall ks, (forall k, In k ks -> In k kids) -> find_kids c ks = Some s -> root_chip s = Some c).
    { induction ks as [|k ks IHk]; intros Hsub Hf; [discriminate|]. cbn [find_kids] in Hf.
      destruct (find_sub c (snd k)) as [s0|] eqn:E0.
      - inversion Hf; subst. apply (IH k (Hsub k (or_introl eq_refl))). exact E0.
      - apply IHk; [intros k0 H0; apply Hsub; right; exact H0 | exact Hf]. }
    apply (G kids); [auto | exact H].
Qed.

Lemma forest_find_root : forall c f s, forest_find c f = Some s -> root_chip s = Some c.
Proof.
  intros c. induction f as [|t f IH]; intros s H; [discriminate|]. cbn [forest_find] in H.
  destruct (find_sub c t) as [s0|] eqn:E; [inversion H; subst; apply (find_sub_root c t); exact E | apply IH; exact H].
Qed.

Lemma take_root_in : forall c f ct f', take_root c f = Some (ct, f') ->
                                       In ct f /\ root_chip ct = Some c /\ forall t, In t f' -> In t f.
Proof.
  intros c. induction f as [|t f IH]; intros ct f' H; [discriminate|]. cbn [take_root] in H.
  destruct (root_is c t) eqn:E.
  - inversion H; subst. split; [left; reflexivity|]. split; [apply root_is_iff; exact E|]. intros t0 H0. right. exact H0.
  - destruct (take_root c f) as [[r0 f0]|] eqn:E0; [|discriminate]. inversion H; subst.
    destruct (IH ct f0 eq_refl) as [H1 [H2 H3]]. split; [right; exact H1|]. split; [exact H2|].
    intros t0 [H0|H0]; [left; exact H0 | right; apply H3; exact H0].
Qed.

Lemma splice_leafless : forall child cc path last ld f f2,
    fleafless f -> splice_gen sever_now child cc last ld path f = Ok f2 -> fleafless f2.
Proof.
  intros child cc. induction path as [|[d c] rest IH]; intros last ld f f2 Hl H; cbn [splice_gen] in H.
  - destruct (take_root child f) as [[ct f']|] eqn:E.
    + inversion H; subst. destruct (take_root_in child f ct f' E) as [H1 [H2 H3]].
      apply forest_attach_leafless; [intros t Ht; apply Hl; apply H3; exact Ht | apply Hl; exact H1 | rewrite H2; discriminate].
    + destruct (forest_find child f) as [ct|] eqn:E1; [|discriminate]. inversion H; subst.
      apply forest_attach_leafless; [exact Hl | apply (forest_find_leafless child f); assumption|].
      rewrite (forest_find_root child f ct E1). discriminate.
  - destruct (negb (chip_mem c cc)).
    + destruct (chip_mem c (forest_chips f)); [discriminate|].
      refine (IH c d _ f2 _ H). apply forest_attach_leafless; [exact Hl | intros e [] | discriminate].
    + destruct (forest_find c f) as [sub|] eqn:E; [|discriminate].
      refine (IH c d _ f2 _ H). apply forest_attach_leafless.
      * unfold sever_now. apply forest_sever_any_leafless. exact Hl.
      * apply (forest_find_leafless c f); assumption.
      * rewrite (forest_find_root c f sub E). discriminate.
Qed.
