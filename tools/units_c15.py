UNITS = {
    # struct format strings, flag constants, the header value expressions (masks, shifts, order of the
    # coordinates), the decode expressions and the guards of the argument unpacking, read with `ast`
    # from rig/machine_control/packets.py (never imported) by tools/dump_c15.py; fails closed when a
    # function no longer has the shape the hand-written model follows.
    "GenPackets": dict(props=["C15"], dumper="dump_c15.py", args=[]),
}
