(* Executable model of the SpiNN-5 board geometry functions of rig/geometry.py (property C19).
   Definitions only.  The two kernels that index SPINN5_ETH_OFFSET are translated from the source
   (Generated/GenBoard.v) and the tables are dumped from the live module (Generated/GenBoardTables.v);
   this file adds what the translator does not cover: Python's error branches, the dictionary
   lookup of spinn5_fpga_link, the generator spinn5_eth_coords and the loop of
   standard_system_dimensions. *)
From Coq Require Import ZArith List Bool.
Require Import Rig.Generated.GenBoardTables Rig.Generated.GenBoard Rig.Model.Base.
Import ListNotations.
Open Scope Z_scope.

(* ---- spinn5_local_eth_coord(x, y, w, h, root_x=0, root_y=0)
   dx, dy = SPINN5_ETH_OFFSET[(y - root_y) % 12][(x - root_x) % 12]
   return ((x + int(dx)) % w), ((y + int(dy)) % h)
   `% 0` raises ZeroDivisionError (the first component is evaluated first; both are the same class). *)
Definition spinn5_local_eth_coord (x y w h root_x root_y : Z) : result (Z * Z) :=
  if (w =? 0) || (h =? 0) then OtherError
  else Ok (spinn5_local_eth_coord_k x y w h root_x root_y).

(* ---- spinn5_chip_coord(x, y, root_x=0, root_y=0): no failing branch for integers *)
Definition spinn5_chip_coord (x y root_x root_y : Z) : result (Z * Z) :=
  Ok (spinn5_chip_coord_k x y root_x root_y).

(* ---- dict.get((x, y, link)) on SPINN5_FPGA_LINKS: first (only) entry with an equal key, else None.
   Links members are IntEnum values, so a key compares equal to the triple of integers. *)
Definition key3_eqb (a b : Z * Z * Z) : bool :=
  let '(a1, a2, a3) := a in let '(b1, b2, b3) := b in (a1 =? b1) && (a2 =? b2) && (a3 =? b3).

Fixpoint fpga_get (k : Z * Z * Z) (l : list ((Z * Z * Z) * (Z * Z))) : option (Z * Z) :=
  match l with
  | [] => None
  | (k', v) :: l' => if key3_eqb k k' then Some v else fpga_get k l'
  end.

(* ---- spinn5_fpga_link(x, y, link, root_x=0, root_y=0)
   x, y = spinn5_chip_coord(x, y, root_x, root_y)
   return SPINN5_FPGA_LINKS.get((x, y, link)) *)
Definition spinn5_fpga_link (x y link root_x root_y : Z) : result (option (Z * Z)) :=
  bind (spinn5_chip_coord x y root_x root_y)
       (fun b => Ok (fpga_get (fst b, snd b, link) SPINN5_FPGA_LINKS)).

(* ---- spinn5_eth_coords(width, height, root_x=0, root_y=0): the generator, as the list it yields.
   range(0, stop, 12) for any integer stop. *)
Definition range12 (stop : Z) : list Z :=
  map (fun i => 12 * Z.of_nat i) (seq 0 (Z.to_nat ((stop + 11) / 12))).

(* the literal ((0, 0), (4, 8), (8, 4)) of the innermost loop *)
Definition eth_loop_offsets : list (Z * Z) := [(0, 0); (4, 8); (8, 4)].

Definition spinn5_eth_coords (width height root_x root_y : Z) : list (Z * Z) :=
  let root_x := root_x mod 12 in
  let root_x := root_x mod 12 in          (* written twice in the source; root_y is not reduced *)
  let w := ((width + 11) / 12) * 12 in
  let h := ((height + 11) / 12) * 12 in
  flat_map (fun x =>
    flat_map (fun y =>
      flat_map (fun d =>
        let nx := (x + fst d + root_x) mod w in
        let ny := (y + snd d + root_y) mod h in
        if (nx <? width) && (ny <? height) then [(nx, ny)] else [])
      eth_loop_offsets)
    (range12 h))
  (range12 w).
(* No error branch: `% w` is only reached inside the loops, which are empty when w <= 0 or h <= 0. *)

(* ---- standard_system_dimensions(num_boards)
   int(sqrt(k)) with a float square root: equal to Z.sqrt k on the range stated in the check
   (k < 2^52, where the correctly rounded double square root cannot round up across an integer);
   the correspondence run compares it with the code. *)
Definition float_isqrt (k : Z) : Z := Z.sqrt k.

(* for h in reversed(range(1, s + 1)): if k % h == 0: break  -- h counts s, s-1, ..., 1 *)
Fixpoint first_factor_down (k : Z) (s : nat) : option Z :=
  match s with
  | O => None
  | S s' => if k mod (Z.of_nat s) =? 0 then Some (Z.of_nat s) else first_factor_down k s'
  end.

Definition standard_system_dimensions (num_boards : Z) : result (Z * Z) :=
  if num_boards =? 0 then Ok (0, 0)
  else if num_boards =? 1 then Ok (8, 8)
  else if negb (num_boards mod 3 =? 0) then Failed 0             (* the documented ValueError *)
  else
    let k := num_boards / 3 in
    if k <? 0 then Failed 0                (* sqrt of a negative number: ValueError (math domain error) *)
    else match first_factor_down k (Z.to_nat (float_isqrt k)) with
         | None => OtherError              (* empty loop: `h` unbound (cannot happen for k >= 1) *)
         | Some h => let w := k / h in Ok (w * 12, h * 12)
         end.

(* ---- the same loop with an integer counter and a step budget, so that it can be evaluated for board
   counts whose square root is far too large for a unary counter.  [None] = budget exhausted.
   Proofs/Board.v: whenever it answers, the answer is that of first_factor_down. *)
Fixpoint first_factor_down_gas (k s : Z) (gas : nat) : option (option Z) :=
  match gas with
  | O => None
  | S g => if s <=? 0 then Some None
           else if k mod s =? 0 then Some (Some s) else first_factor_down_gas k (s - 1) g
  end.

Definition standard_system_dimensions_gas (gas : nat) (num_boards : Z) : result (Z * Z) :=
  if num_boards =? 0 then Ok (0, 0)
  else if num_boards =? 1 then Ok (8, 8)
  else if negb (num_boards mod 3 =? 0) then Failed 0
  else
    let k := num_boards / 3 in
    if k <? 0 then Failed 0
    else match first_factor_down_gas k (float_isqrt k) gas with
         | None => OutOfFuel
         | Some None => OtherError
         | Some (Some h) => let w := k / h in Ok (w * 12, h * 12)
         end.

(* ---- what a caller sees of the generator spinn5_eth_coords when it does not run it to the end:
   next() n times / a loop left with break after n results: the first n results; `c in generator`. *)
Definition eth_coords_take (n : nat) (width height root_x root_y : Z) : list (Z * Z) :=
  firstn n (spinn5_eth_coords width height root_x root_y).

Definition eth_coords_contains (c : Z * Z) (width height root_x root_y : Z) : bool :=
  chip_mem c (spinn5_eth_coords width height root_x root_y).

(* ---- helpers of the correspondence run: every output of the four chip functions over a whole
   machine, flattened to integers, and the position of the first difference with the
   implementation's list. *)
Definition enc_fpga (r : result (option (Z * Z))) : Z :=
  match r with
  | Ok None => -1
  | Ok (Some (f, n)) => f * 65536 + n
  | _ => -2
  end.

Definition enc_pair (r : result (Z * Z)) : list Z :=
  match r with Ok (a, b) => [a; b] | _ => [] end.

Definition zseq (n : Z) : list Z := map Z.of_nat (seq 0 (Z.to_nat n)).

Definition machine_outputs (w h root_x root_y : Z) : list Z :=
  flat_map (fun x => flat_map (fun y =>
      enc_pair (spinn5_local_eth_coord x y w h root_x root_y)
      ++ enc_pair (spinn5_chip_coord x y root_x root_y)
      ++ map (fun l => enc_fpga (spinn5_fpga_link x y l root_x root_y)) (zseq 6))
    (zseq h)) (zseq w).

Fixpoint first_diff (a b : list Z) (i : nat) : option nat :=
  match a, b with
  | [], [] => None
  | x :: a', y :: b' => if x =? y then first_diff a' b' (S i) else Some i
  | _, _ => Some i
  end.

(* digest of a list of outputs: position-weighted sum and a quadratic sum (cheap under vm_compute: no
   division); the harness computes the same function on the implementation's list *)
Definition digest (l : list Z) : Z * Z :=
  let '(a, b, _) := fold_left (fun '(a, b, i) v => (a + i * (v + 7), b + (v + 7) * (v + i), i + 1)) l (0, 0, 1)
  in (a, b).
