(* C11 -- the property's predicates, stated on inputs and outputs only (definitions only).
   Nothing here mentions the code's formulas: the hexagonal mesh / torus is given as a graph (six link
   vectors) and "distance" is the least length of a walk in that graph. *)
From Coq Require Import ZArith List Bool.
Require Import Rig.Model.Base.
Import ListNotations.
Open Scope Z_scope.

(* The six links of a SpiNNaker chip and the step each makes in (x, y) chip coordinates. *)
Inductive hexlink := East | NorthEast | North | West | SouthWest | South.

Definition link_vec (l : hexlink) : Z * Z :=
  match l with
  | East => (1, 0) | NorthEast => (1, 1) | North => (0, 1)
  | West => (-1, 0) | SouthWest => (-1, -1) | South => (0, -1)
  end.

(* the number the library (and the hardware) gives to each link *)
Definition link_num (l : hexlink) : Z :=
  match l with
  | East => 0 | NorthEast => 1 | North => 2 | West => 3 | SouthWest => 4 | South => 5
  end.

Definition link_opp (l : hexlink) : hexlink :=
  match l with
  | East => West | NorthEast => SouthWest | North => South
  | West => East | SouthWest => NorthEast | South => North
  end.

Definition all_links : list hexlink := [East; NorthEast; North; West; SouthWest; South].

(* ---- the mesh: chips are Z^2, a step follows one link *)
Definition mesh_step (p : chip) (l : hexlink) : chip :=
  (fst p + fst (link_vec l), snd p + snd (link_vec l)).
Definition mesh_walk (p : chip) (ls : list hexlink) : chip := fold_left mesh_step ls p.

(* ---- the torus of width w and height h: chips are [0,w) x [0,h), links wrap around *)
Definition wrap (w h : Z) (p : chip) : chip := (fst p mod w, snd p mod h).
Definition torus_step (w h : Z) (p : chip) (l : hexlink) : chip := wrap w h (mesh_step p l).
Definition torus_walk (w h : Z) (p : chip) (ls : list hexlink) : chip := fold_left (torus_step w h) ls p.

Definition len (ls : list hexlink) : Z := Z.of_nat (length ls).

(* n is the graph distance from a to b: some walk of n links leads from a to b and no walk is shorter *)
Definition is_mesh_distance (a b : chip) (n : Z) : Prop :=
  (exists ls, mesh_walk a ls = b /\ len ls = n) /\
  (forall ls, mesh_walk a ls = b -> n <= len ls).

Definition is_torus_distance (w h : Z) (a b : chip) (n : Z) : Prop :=
  (exists ls, torus_walk w h a ls = b /\ len ls = n) /\
  (forall ls, torus_walk w h a ls = b -> n <= len ls).

(* ---- three-axis coordinates: (x, y, z) denotes the chip (x - z, y - z); a vector (x, y, z) is
   x hops East, y hops North, z hops South-West (negative: the opposite link) *)
Definition to2d (v : Z * Z * Z) : chip := let '(x, y, z) := v in (x - z, y - z).
Definition hops (v : Z * Z * Z) : Z := let '(x, y, z) := v in Z.abs x + Z.abs y + Z.abs z.
Definition chip_add (p q : chip) : chip := (fst p + fst q, snd p + snd q).

(* ---- a labelled walk as returned by longest_dimension_first: [(link number, chip reached)] *)
Definition wrap_opt (m : option Z) (x : Z) : Z := match m with None => x | Some w => x mod w end.
Definition wrap_opt2 (width height : option Z) (p : chip) : chip :=
  (wrap_opt width (fst p), wrap_opt height (snd p)).

(* every step goes from the previous chip over exactly the labelled link (wrapping where a size is given) *)
Fixpoint labelled_walk (width height : option Z) (p : chip) (out : list (Z * chip)) : Prop :=
  match out with
  | [] => True
  | (n, q) :: out' =>
      (exists l, link_num l = n /\ q = wrap_opt2 width height (mesh_step p l)) /\
      labelled_walk width height q out'
  end.

Definition walk_end (p : chip) (out : list (Z * chip)) : chip := last (map snd out) p.

Definition ldf_spec (v : Z * Z * Z) (start : chip) (width height : option Z) (out : list (Z * chip)) : Prop :=
  labelled_walk width height start out /\
  wrap_opt2 width height (walk_end start out) = wrap_opt2 width height (chip_add start (to2d v)) /\
  Z.of_nat (length out) = hops v.

(* ---- concentric hexagons *)
(* distance on the mesh as a relation, for stating "within the given distance" without any formula *)
Definition within (start p : chip) (R : Z) : Prop :=
  exists ls, mesh_walk start ls = p /\ len ls <= R.

Fixpoint nondecreasing_by (d : chip -> Z -> Prop) (l : list chip) : Prop :=
  match l with
  | [] => True
  | p :: l' => (forall q, In q l' -> forall n m, d p n -> d q m -> n <= m) /\ nondecreasing_by d l'
  end.

Definition hexagons_spec (R : Z) (start : chip) (out : list chip) : Prop :=
  NoDup out /\
  (forall p, In p out <-> within start p R) /\
  nondecreasing_by (is_mesh_distance start) out.

(* ---- the contract of random.randint(lo, hi) *)
Definition randint_contract (rint : Z -> Z -> Z) : Prop :=
  forall lo hi, lo <= hi -> lo <= rint lo hi <= hi.

(* width / height arguments of longest_dimension_first: None (no wrapping) or a positive size *)
Definition size_ok (m : option Z) : Prop := match m with None => True | Some w => 1 <= w end.

(* ---- used in the statements of Props/C11.v *)
Definition chip_sub (p q : chip) : chip := (fst p - fst q, snd p - snd q).

(* c hops along one axis: the link `pos` if c >= 0, `neg` otherwise *)
Definition axis_walk (pos neg : hexlink) (c : Z) : list hexlink :=
  if c <? 0 then repeat neg (Z.to_nat (- c)) else repeat pos (Z.to_nat c).

(* a three-axis vector is a walk of [hops v] links to the chip it denotes *)
Definition vector_walk (v : Z * Z * Z) : list hexlink :=
  let '(x, y, z) := v in
  axis_walk East West x ++ axis_walk North South y ++ axis_walk SouthWest NorthEast z.

