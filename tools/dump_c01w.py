"""Shape of the two top-level wrappers as far as the PIPELINE is concerned (ast of rig/place_and_route/wrapper.py;
nothing is imported): from `placements = place(...)` to the return statement the statements must be exactly the
ones below -- the composition that Props/C01.v's end-to-end theorems are about (trees from route(), tables from
routing_tree_to_tables(routes, net_keys), minimise_tables(tables, target_lengths, methods) resp. the deprecated
build_routing_tables(routes, net_keys)).  Fail closed: anything else is Unsupported."""
import ast
import os
import sys

sys.path.insert(0, os.path.dirname(os.path.abspath(__file__)))
import dumplib as D  # noqa: E402

REPO = os.environ.get("PYTHONPATH", "/repo").split(os.pathsep)[0]

COMMON = """
placements = place(vertices_resources, nets, machine, constraints, **place_kwargs)
allocations = allocate(vertices_resources, nets, machine, constraints, placements, **allocate_kwargs)
routes = route(vertices_resources, nets, machine, constraints, placements, allocations, core_resource, **route_kwargs)
application_map = build_application_map(vertices_applications, placements, allocations, core_resource)
"""
PNR = COMMON + """
routing_tables = routing_tree_to_tables(routes, net_keys)
target_lengths = build_routing_table_target_lengths(system_info)
routing_tables = minimise_tables(routing_tables, target_lengths, minimise_tables_methods)
return placements, allocations, application_map, routing_tables
"""
OLD = COMMON + """
from rig.place_and_route.utils import build_routing_tables
routing_tables = build_routing_tables(routes, net_keys)
return placements, allocations, application_map, routing_tables
"""


class Unsupported(Exception):
    pass


def tail(tree, name):
    for n in tree.body:
        if isinstance(n, ast.FunctionDef) and n.name == name:
            for i, s in enumerate(n.body):
                if isinstance(s, ast.Assign) and isinstance(s.value, ast.Call) and isinstance(s.value.func, ast.Name) \
                        and s.value.func.id == "place":
                    return n, n.body[i:]
            raise Unsupported("%s: no `placements = place(...)` statement" % name)
    raise Unsupported("function %s not found" % name)


def same(stmts, text, name):
    want = ast.parse("def f():\n" + "".join("    " + l + "\n" for l in text.strip().splitlines())).body[0].body
    got = [ast.dump(s) for s in stmts]
    exp = [ast.dump(s) for s in want]
    if got != exp:
        for i, (g, e) in enumerate(zip(got, exp)):
            if g != e:
                raise Unsupported("%s: pipeline statement %d is `%s`, expected `%s`"
                                  % (name, i + 1, ast.unparse(stmts[i]), ast.unparse(want[i])))
        raise Unsupported("%s: %d pipeline statements, expected %d" % (name, len(got), len(exp)))


def default_names(f, arg):
    names = [a.arg for a in f.args.args]
    d = dict(zip(names[len(names) - len(f.args.defaults):], f.args.defaults))
    return ast.unparse(d[arg]) if arg in d else None


def main():
    tree = ast.parse(open(os.path.join(REPO, "rig/place_and_route/wrapper.py")).read())
    f1, t1 = tail(tree, "place_and_route_wrapper")
    same(t1, PNR, "place_and_route_wrapper")
    f2, t2 = tail(tree, "wrapper")
    same(t2, OLD, "wrapper")
    # which functions the default stage names are bound to (module-level imports)
    binds = {}
    for n in tree.body:
        if isinstance(n, ast.ImportFrom):
            for a in n.names:
                binds[a.asname or a.name] = "%s.%s" % (n.module, a.name)
    want = {"default_place": "rig.place_and_route.place", "default_allocate": "rig.place_and_route.allocate",
            "default_route": "rig.place_and_route.route",
            "routing_tree_to_tables": "rig.routing_table.routing_tree_to_tables",
            "minimise_tables": "rig.routing_table.minimise_tables",
            "build_routing_table_target_lengths": "rig.routing_table.build_routing_table_target_lengths",
            "remove_default_entries": "rig.routing_table.remove_default_routes.minimise",
            "ordered_covering": "rig.routing_table.ordered_covering.minimise",
            "build_application_map": "rig.place_and_route.utils.build_application_map"}
    for k, v in want.items():
        if binds.get(k) != v:
            raise Unsupported("wrapper.py binds %s to %s, expected %s" % (k, binds.get(k), v))
    for f in (f1, f2):
        for arg, dflt in (("place", "default_place"), ("allocate", "default_allocate"), ("route", "default_route")):
            if default_names(f, arg) != dflt:
                raise Unsupported("%s: default of %s is %s" % (f.name, arg, default_names(f, arg)))
    if default_names(f1, "minimise_tables_methods") != "(remove_default_entries, ordered_covering)":
        raise Unsupported("place_and_route_wrapper: default minimise_tables_methods is %s" % default_names(f1, "minimise_tables_methods"))
    print(D.HEADER % "dump_c01w.py")
    stages = ["place", "allocate", "route", "build_application_map", "routing_tree_to_tables",
              "build_routing_table_target_lengths", "minimise_tables"]
    print(D.definition("pnr_wrapper_pipeline", "list string", D.lst(D.string(s) for s in stages)))
    print(D.definition("old_wrapper_pipeline", "list string",
                       D.lst(D.string(s) for s in stages[:4] + ["build_routing_tables"])))
    print(D.definition("pnr_wrapper_default_methods", "list string",
                       D.lst([D.string("remove_default_routes.minimise"), D.string("ordered_covering.minimise")])))


if __name__ == "__main__":
    try:
        main()
    except Unsupported as e:
        sys.stderr.write("Unsupported: %s\n" % e)
        sys.exit(2)
