(* C10, second half -- executable model of
     MachineController.load_routing_tables / load_routing_table_entries / get_routing_table_entries and
     unpack_routing_table_entry (rig/machine_control/machine_controller.py)
   together with the machine they talk to (the environment): one router per chip with 1024 multicast
   entries, the SARK allocator of router entries, the staging buffer in system SDRAM, the copy of the
   router table that is read back.  Definitions only; proofs are in Proofs/Router.v.

   The controller side uses, for every integer expression of the code, the definition regenerated from
   the source text on every run (Generated/GenRouter.v: lrte_*, grte_*, urte_*, RTE_PACK_STRING's field
   sizes, the sv addresses of the struct file).  The machine side is written from the SC&MP / SARK
   documentation with literal numbers (command 28 = alloc/free with operation 3 = allocate router
   entries, command 29 = router with operation 2 = load, sv at 0xf5007f00 with sdram_sys at +0xc8 and
   rtr_copy at +0xd4, records of 2+2+4+4+4 bytes little endian), independently of rig's consts.py, so
   that a change of either side shows up as a disagreement.  The same machine is implemented in Python
   (harness/sim_router_c10.py) and the two are compared command by command on every run.

   The controller talks to the machine through its connection object: send_scp (one command, one
   reply), read and write (whole byte strings; the division into packets is property C07's). *)
From Coq Require Import ZArith List Bool.
Require Import Rig.Model.Base Rig.Generated.GenRouter Rig.Model.Tables.
Import ListNotations.
Open Scope Z_scope.

Definition len {A} (l : list A) : Z := Z.of_nat (length l).

(* ------------------------------------------------------------------------------------------------ *)
(** * Bytes *)

Fixpoint le_bytes (n : nat) (v : Z) : list Z :=
  match n with
  | O => []
  | S n' => Z.land v 255 :: le_bytes n' (Z.shiftr v 8)      (* v mod 256, v / 256 *)
  end.

Fixpoint le_value (bs : list Z) : Z :=
  match bs with
  | [] => 0
  | b :: r => b + 256 * le_value r
  end.

Definition fits (size v : Z) : bool := (0 <=? v) && (v <? 2 ^ (8 * size)).

(* struct.pack of unsigned little-endian fields; None = struct.error (value out of range, wrong number
   of values) *)
Fixpoint pack_fields (sizes vals : list Z) : option (list Z) :=
  match sizes, vals with
  | [], [] => Some []
  | s :: ss, v :: vs =>
      if fits s v
      then match pack_fields ss vs with
           | Some r => Some (le_bytes (Z.to_nat s) v ++ r)
           | None => None
           end
      else None
  | _, _ => None
  end.

Fixpoint unpack_fields (sizes : list Z) (bs : list Z) : list Z :=
  match sizes with
  | [] => []
  | s :: ss => le_value (firstn (Z.to_nat s) bs) :: unpack_fields ss (skipn (Z.to_nat s) bs)
  end.

(* struct.pack_into(buffer, offset): None = struct.error (does not fit) *)
Definition write_at (off : Z) (bs data : list Z) : option (list Z) :=
  if (0 <=? off) && (off + len bs <=? len data)
  then Some (firstn (Z.to_nat off) data ++ bs ++ skipn (Z.to_nat (off + len bs)) data)
  else None.

(* summary of a byte string in the command trace: running sum and sum of the running sums (no modulus) *)
Definition cksum (bs : list Z) : Z :=
  let r := fold_left (fun (st : Z * Z) b => let a := fst st + b + 1 in (a, snd st + a)) bs (0, 0) in
  snd r * 4294967296 + fst r.

(* ------------------------------------------------------------------------------------------------ *)
(** * The machine (environment) *)

(* one record of the router copy: next, free, route, key, mask.  An entry whose route has the top byte
   0xff is not in use. *)
Record rslot := mkSlot { sl_next : Z; sl_free : Z; sl_route : Z; sl_key : Z; sl_mask : Z }.

Record chipstate := mkChip {
  cs_slots : list rslot;            (* the router: RTR entries *)
  cs_free : list (Z * Z);           (* free list of the allocator: (first entry, number of entries) *)
  cs_zero_ok : bool;                (* does a request for 0 entries succeed? *)
  cs_buf : Z;                       (* sv->sdram_sys: address of the staging buffer *)
  cs_bufmem : list Z;               (* its bytes *)
  cs_rtr_copy : Z                   (* sv->rtr_copy: address of the copy of the router table *)
}.

Definition machine := list (chip * chipstate).

Definition set_slots (cs : chipstate) (s : list rslot) : chipstate :=
  mkChip s (cs_free cs) (cs_zero_ok cs) (cs_buf cs) (cs_bufmem cs) (cs_rtr_copy cs).
Definition set_free (cs : chipstate) (f : list (Z * Z)) : chipstate :=
  mkChip (cs_slots cs) f (cs_zero_ok cs) (cs_buf cs) (cs_bufmem cs) (cs_rtr_copy cs).
Definition set_bufmem (cs : chipstate) (b : list Z) : chipstate :=
  mkChip (cs_slots cs) (cs_free cs) (cs_zero_ok cs) (cs_buf cs) b (cs_rtr_copy cs).

Definition N_SLOTS : Z := 1024.
Definition SLOT_BYTES : Z := 16.
Definition SV_SDRAM_SYS : Z := 4110450432 + 200.     (* 0xf5007f00 + 0xc8 *)
Definition SV_RTR_COPY : Z := 4110450432 + 212.      (* 0xf5007f00 + 0xd4 *)

(* best fit: the smallest free block that is large enough, the first of several equally small ones *)
Fixpoint best_fit (count : Z) (fl : list (Z * Z)) (best : option (Z * Z)) : option (Z * Z) :=
  match fl with
  | [] => best
  | (b, s) :: fl' =>
      let better := match best with
                    | None => count <=? s
                    | Some (_, s0) => (count <=? s) && (s <? s0)
                    end in
      best_fit count fl' (if better then Some (b, s) else best)
  end.

Fixpoint take_block (b count : Z) (fl : list (Z * Z)) : list (Z * Z) :=
  match fl with
  | [] => []
  | (b', s) :: fl' =>
      if b' =? b
      then (if count <? s then (b + count, s - count) :: fl' else fl')
      else (b', s) :: take_block b count fl'
  end.

(* rtr_alloc_id(count, app_id): first entry of the block, 0 = no block *)
Definition rtr_alloc (cs : chipstate) (count : Z) : chipstate * Z :=
  if (count <? 0) || ((count =? 0) && negb (cs_zero_ok cs)) then (cs, 0)
  else match best_fit count (cs_free cs) None with
       | None => (cs, 0)
       | Some (b, _) => (set_free cs (take_block b count (cs_free cs)), b)
       end.

Fixpoint set_nth {A} (n : nat) (x : A) (l : list A) {struct l} : list A :=
  match l with
  | [] => []
  | y :: l' => match n with O => x :: l' | S n' => y :: set_nth n' x l' end
  end.

Definition region_read (base : Z) (mem : list Z) (addr n : Z) : option (list Z) :=
  if (base <=? addr) && (0 <=? n) && (addr + n <=? base + len mem)
  then Some (firstn (Z.to_nat n) (skipn (Z.to_nat (addr - base)) mem))
  else None.

(* rtr_mc_load(table, count, offset, app_id): every record names its entry relative to the offset in
   its first field; None = the command is refused *)
Fixpoint load_records (recs : list (list Z)) (base app_id : Z) (slots : list rslot) : option (list rslot) :=
  match recs with
  | [] => Some slots
  | r :: recs' =>
      match r with
      | [nx; _; route; key; mask] =>
          let idx := nx + base in
          if (1 <=? idx) && (idx <? N_SLOTS)
          then load_records recs' base app_id (set_nth (Z.to_nat idx) (mkSlot 0 app_id route key mask) slots)
          else None
      | _ => None
      end
  end.

Fixpoint chunks (fuel : nat) (n : nat) (bs : list Z) : list (list Z) :=
  match fuel with
  | O => []
  | S f => match bs with
           | [] => []
           | _ => firstn n bs :: chunks f n (skipn n bs)
           end
  end.

Definition rtr_load (cs : chipstate) (count app_id buf base : Z) : option chipstate :=
  match region_read (cs_buf cs) (cs_bufmem cs) buf (SLOT_BYTES * count) with
  | None => None
  | Some bs =>
      let recs := map (unpack_fields [2; 2; 4; 4; 4]) (chunks (length bs) 16 bs) in
      match load_records recs base app_id (cs_slots cs) with
      | Some s => Some (set_slots cs s)
      | None => None
      end
  end.

(* one SCP command: new state and arg1 of the reply; None = error return code (the connection raises) *)
Definition scp_exec (cs : chipstate) (p cmd a1 a2 a3 : Z) : option (chipstate * Z) :=
  if negb (p =? 0) then None
  else if (cmd =? 28) && (Z.land a1 255 =? 3)
  then Some (rtr_alloc cs a2)
  else if (cmd =? 29) && (Z.land a1 255 =? 2)
  then match rtr_load cs (Z.shiftr a1 16) (Z.land (Z.shiftr a1 8) 255) a2 a3 with
       | Some cs' => Some (cs', 0)
       | None => None
       end
  else None.

Definition render_slot (s : rslot) : list Z :=
  le_bytes 2 (sl_next s) ++ le_bytes 2 (sl_free s) ++ le_bytes 4 (sl_route s)
  ++ le_bytes 4 (sl_key s) ++ le_bytes 4 (sl_mask s).

Definition render_slots (l : list rslot) : list Z := flat_map render_slot l.

(* memory as the read command sees it: the two sv fields, the staging buffer, the router copy *)
Definition mem_read (cs : chipstate) (addr n : Z) : option (list Z) :=
  if (addr =? SV_SDRAM_SYS) && (n =? 4) then Some (le_bytes 4 (cs_buf cs))
  else if (addr =? SV_RTR_COPY) && (n =? 4) then Some (le_bytes 4 (cs_rtr_copy cs))
  else match region_read (cs_buf cs) (cs_bufmem cs) addr n with
       | Some bs => Some bs
       | None => region_read (cs_rtr_copy cs) (render_slots (cs_slots cs)) addr n
       end.

(* writes are accepted into the staging buffer only *)
Definition mem_write (cs : chipstate) (addr : Z) (data : list Z) : option chipstate :=
  if (cs_buf cs <=? addr) && (addr + len data <=? cs_buf cs + len (cs_bufmem cs))
  then match write_at (addr - cs_buf cs) data (cs_bufmem cs) with
       | Some b => Some (set_bufmem cs b)
       | None => None
       end
  else None.

(* ------------------------------------------------------------------------------------------------ *)
(** * The controller *)

(* what the connection was asked to do, in order: SCP command with the reply's arg1; read / write with
   length and checksum of the bytes *)
Inductive titem :=
| TScp (x y p cmd a1 a2 a3 reply : Z)
| TRead (x y p addr n sum : Z)
| TWrite (x y p addr n sum : Z).

Inductive lres := LOk | LRouterError (count x y : Z) | LOther.

Fixpoint cupd (c : chip) (v : chipstate) (m : machine) : machine :=
  match m with
  | [] => []
  | (c', v') :: m' => if chip_eqb c c' then (c, v) :: m' else (c', v') :: cupd c v m'
  end.

(* the route word: `for r in entry.route: route |= 1 << r` (a negative r makes the shift raise) *)
Definition route_word (rs : list Z) : Z := fold_left lrte_route_step rs lrte_route_init.

(* the loop filling `data`; None = an exception (negative shift count, struct.error) *)
Fixpoint pack_loop (i : Z) (es : list entry) (data : list Z) : option (list Z) :=
  match es with
  | [] => Some data
  | e :: es' =>
      if existsb (fun r => r <? 0) (e_route e) then None
      else match pack_fields rte_field_sizes
                             (lrte_rec_values i (route_word (e_route e)) (e_key e) (e_mask e)) with
           | None => None
           | Some bs =>
               match write_at (lrte_rec_offset i) bs data with
               | None => None
               | Some data' => pack_loop (i + 1) es' data'
               end
           end
  end.

Definition pack_entries (es : list entry) : option (list Z) :=
  pack_loop 0 es (repeat 0 (Z.to_nat (lrte_data_len (len es)))).

Definition load_routing_table_entries (m : machine) (es : list entry) (x y app_id : Z)
  : lres * machine * list titem :=
  let count := len es in
  match cassoc (x, y) m with
  | None => (LOther, m, [])
  | Some cs =>
      let a1 := lrte_alloc_arg1 app_id count in
      let a2 := lrte_alloc_arg2 app_id count in
      match scp_exec cs lrte_alloc_p lrte_alloc_cmd a1 a2 0 with
      | None => (LOther, m, [])
      | Some (cs1, base) =>
          let m1 := cupd (x, y) cs1 m in
          let t1 := [TScp x y lrte_alloc_p lrte_alloc_cmd a1 a2 0 base] in
          if lrte_alloc_failed base then (LRouterError count x y, m1, t1)
          else
            match mem_read cs1 sv_sdram_sys_addr sv_field_size with
            | None => (LOther, m1, t1)
            | Some bb =>
                let buf := le_value bb in
                let t2 := t1 ++ [TRead x y 0 sv_sdram_sys_addr sv_field_size (cksum bb)] in
                match pack_entries es with
                | None => (LOther, m1, t2)
                | Some data =>
                    match mem_write cs1 buf data with
                    | None => (LOther, m1, t2)
                    | Some cs2 =>
                        let m2 := cupd (x, y) cs2 m in
                        let t3 := t2 ++ [TWrite x y 0 buf (len data) (cksum data)] in
                        let b1 := lrte_load_arg1 count app_id buf base in
                        let b2 := lrte_load_arg2 count app_id buf base in
                        let b3 := lrte_load_arg3 count app_id buf base in
                        match scp_exec cs2 lrte_load_p lrte_load_cmd b1 b2 b3 with
                        | None => (LOther, m2, t3)
                        | Some (cs3, r) =>
                            (LOk, cupd (x, y) cs3 m,
                             t3 ++ [TScp x y lrte_load_p lrte_load_cmd b1 b2 b3 r])
                        end
                    end
                end
            end
      end
  end.

(* load_routing_tables: one chip after the other in the order of the dictionary; the first exception
   ends the loop (chips loaded before it stay loaded) *)
Fixpoint load_routing_tables (m : machine) (tables : list (chip * list entry)) (app_id : Z)
  : lres * machine * list titem :=
  match tables with
  | [] => (LOk, m, [])
  | (c, es) :: rest =>
      match load_routing_table_entries m es (fst c) (snd c) app_id with
      | (LOk, m', t) =>
          match load_routing_tables m' rest app_id with
          | (r, m'', t') => (r, m'', t ++ t')
          end
      | other => other
      end
  end.

(* unpack_routing_table_entry: OtherError = struct.error (wrong length) *)
Definition unpack_entry (bs : list Z) : result (option (entry * Z * Z)) :=
  if negb (len bs =? rte_size) then OtherError
  else
    let vals := unpack_fields rte_field_sizes bs in
    let free := nth urte_pos_free vals 0 in
    let route := nth urte_pos_route vals 0 in
    let key := nth urte_pos_key vals 0 in
    let mask := nth urte_pos_mask vals 0 in
    if urte_unused route then Ok None
    else Ok (Some (mkEntry (filter (urte_has_route route) Routes_values) key mask [none_dir],
                   urte_app_id free, urte_core free)).

Fixpoint unpack_all (cs : list (list Z)) : result (list (option (entry * Z * Z))) :=
  match cs with
  | [] => Ok []
  | c :: cs' =>
      match unpack_entry c with
      | Ok v => match unpack_all cs' with Ok r => Ok (v :: r) | e => e end
      | Failed k => Failed k
      | OtherError => OtherError
      | OutOfFuel => OutOfFuel
      end
  end.

Definition get_routing_table_entries (m : machine) (x y : Z)
  : result (list (option (entry * Z * Z))) * list titem :=
  match cassoc (x, y) m with
  | None => (OtherError, [])
  | Some cs =>
      match mem_read cs sv_rtr_copy_addr sv_field_size with
      | None => (OtherError, [])
      | Some ab =>
          let addr := le_value ab in
          let t1 := [TRead x y 0 sv_rtr_copy_addr sv_field_size (cksum ab)] in
          let n := grte_read_len rte_size in
          match mem_read cs addr n with
          | None => (OtherError, t1)
          | Some bs =>
              (unpack_all (chunks (length bs) (Z.to_nat rte_size) bs),
               t1 ++ [TRead x y 0 addr n (cksum bs)])
          end
      end
  end.

(* ------------------------------------------------------------------------------------------------ *)
(** * Building machine states for the correspondence run *)

Definition free_slot (route_low key mask nx fr : Z) : rslot :=
  mkSlot nx fr (Z.lor 4278190080 route_low) key mask.

Fixpoint put_slots (l : list (Z * rslot)) (slots : list rslot) : list rslot :=
  match l with
  | [] => slots
  | (i, s) :: l' => put_slots l' (set_nth (Z.to_nat i) s slots)
  end.

(* a chip whose router holds [dflt] everywhere except for the listed entries *)
Definition mk_chip (dflt : rslot) (listed : list (Z * rslot)) (free : list (Z * Z)) (zero_ok : bool)
                   (buf bufsize fill rtr_copy : Z) : chipstate :=
  mkChip (put_slots listed (repeat dflt (Z.to_nat N_SLOTS))) free zero_ok buf
         (repeat fill (Z.to_nat bufsize)) rtr_copy.

(* what the comparison looks at: the entries in use (index, fields), the free list, a checksum of the
   staging buffer (the unused entries are compared through the checksum of the read-back) *)
Fixpoint used_slots (i : Z) (l : list rslot) : list (Z * (Z * Z * Z * Z * Z)) :=
  match l with
  | [] => []
  | s :: l' =>
      let rest := used_slots (i + 1) l' in
      if Z.land (sl_route s) 4278190080 =? 4278190080 then rest
      else (i, (sl_next s, sl_free s, sl_route s, sl_key s, sl_mask s)) :: rest
  end.

Definition chip_digest (cs : chipstate) :=
  (used_slots 0 (cs_slots cs), cs_free cs, cksum (cs_bufmem cs)).

Definition machine_digest (m : machine) := map (fun kv => (fst kv, chip_digest (snd kv))) m.

Fixpoint some_entries (i : Z) (l : list (option (entry * Z * Z)))
  : list (Z * (list Z * Z * Z * list Z) * Z * Z) :=
  match l with
  | [] => []
  | None :: l' => some_entries (i + 1) l'
  | Some (e, a, c) :: l' => (i, entry_tuple e, a, c) :: some_entries (i + 1) l'
  end.

Definition readback_digest (r : result (list (option (entry * Z * Z))) * list titem) :=
  (match fst r with
   | Ok l => Ok (len l, some_entries 0 l)
   | Failed k => Failed k
   | OtherError => OtherError
   | OutOfFuel => OutOfFuel
   end, snd r).

(* the whole of one correspondence case: load, then read every chip back *)
Definition load_case (m : machine) (tables : list (chip * list entry)) (app_id : Z) (single : bool) :=
  let r := if single
           then match tables with
                | [(c, es)] => load_routing_table_entries m es (fst c) (snd c) app_id
                | _ => (LOther, m, [])
                end
           else load_routing_tables m tables app_id in
  let m' := snd (fst r) in
  (fst (fst r), snd r, machine_digest m',
   map (fun kv => readback_digest (get_routing_table_entries m' (fst (fst kv)) (snd (fst kv)))) m').

(* ------------------------------------------------------------------------------------------------ *)
(** * Histories: several loads and read-backs on one controller *)

(* The chip and application id of each call are explicit here: which chip a call addresses when x, y
   and app_id come from `with controller(x=..., y=..., app_id=...)` blocks is the lexical rule of
   property C18; the harness resolves it (innermost enclosing block that names the argument, also after
   a block was left by an exception) and the implementation is judged against that. *)
Inductive hop := HLoad (x y app_id : Z) (es : list entry) | HRead (x y : Z).

Fixpoint run_history (m : machine) (ops : list hop) :=
  match ops with
  | [] => ([], m)
  | HLoad x y a es :: rest =>
      let r := load_routing_table_entries m es x y a in
      let rr := run_history (snd (fst r)) rest in
      (inl (fst (fst r), snd r) :: fst rr, snd rr)
  | HRead x y :: rest =>
      let rr := run_history m rest in
      (inr (readback_digest (get_routing_table_entries m x y)) :: fst rr, snd rr)
  end.

Definition history_case (m : machine) (ops : list hop) :=
  let r := run_history m ops in (fst r, machine_digest (snd r)).
