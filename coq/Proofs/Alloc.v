(* Proofs about the executable allocator model (Model/Alloc.v) against Spec/Alloc.v.
   Every lemma used by Props/C05.v is proved here without axioms. *)
From Coq Require Import ZArith List Bool Permutation Lia.
Require Import Rig.Generated.GenAlloc Rig.Model.Base Rig.Model.Alloc Rig.Spec.Alloc.
Import ListNotations.
Open Scope Z_scope.

(* ------------------------------------------------------------------------------------------ *)
(* The generated kernels                                                                        *)
(* ------------------------------------------------------------------------------------------ *)

Lemma overlap_true : forall a b : Z * Z,
  slices_overlap a b = true <-> Z.max (fst a) (fst b) < Z.min (snd a) (snd b).
Proof. intros a b. unfold slices_overlap. apply Z.ltb_lt. Qed.

Lemma overlap_false : forall a b : Z * Z,
  slices_overlap a b = false <-> Z.min (snd a) (snd b) <= Z.max (fst a) (fst b).
Proof. intros a b. unfold slices_overlap. apply Z.ltb_ge. Qed.

Lemma overlap_sym : forall a b : Z * Z, slices_overlap a b = slices_overlap b a.
Proof. intros a b. unfold slices_overlap. rewrite Z.max_comm, Z.min_comm. reflexivity. Qed.

Lemma align_bounds : forall v a, 0 < a -> v <= align v a < v + a.
Proof.
  intros v a Ha. unfold align.
  assert (Hne : a <> 0) by lia.
  pose proof (Z.div_mod (v + a - 1) a Hne) as Hdm.
  pose proof (Z.mod_pos_bound (v + a - 1) a Ha) as Hmb.
  lia.
Qed.

Lemma align_mod : forall v a, a <> 0 -> (align v a) mod a = 0.
Proof. intros v a Ha. unfold align. apply Z.mod_mul. exact Ha. Qed.

Lemma align_one : forall v, align v 1 = v.
Proof. intros v. unfold align. rewrite Z.div_1_r, Z.mul_1_r. lia. Qed.

(* ------------------------------------------------------------------------------------------ *)
(* alignment                                                                                    *)
(* ------------------------------------------------------------------------------------------ *)

Lemma alignment_acc_pos : forall r cs acc,
  aligns_positive cs -> 0 < acc -> 0 < alignment_acc r cs acc.
Proof.
  intros r cs. induction cs as [|c cs IH]; intros acc Hp Hacc; cbn [alignment_acc].
  - exact Hacc.
  - assert (Hp' : aligns_positive cs).
    { intros r' a' Hin. apply (Hp r' a'). right. exact Hin. }
    destruct c as [r' s loc | r' a | ].
    + apply IH; assumption.
    + apply IH; [assumption|]. destruct (r =? r') eqn:E; [|assumption].
      apply (Hp r' a). left. reflexivity.
    + apply IH; assumption.
Qed.

Lemma alignment_pos : forall r cs, aligns_positive cs -> 0 < alignment r cs.
Proof. intros r cs Hp. unfold alignment. apply alignment_acc_pos; [exact Hp | lia]. Qed.

Lemma alignment_acc_none : forall r cs acc, no_alignment cs -> alignment_acc r cs acc = acc.
Proof.
  intros r cs. induction cs as [|c cs IH]; intros acc Hn; cbn [alignment_acc].
  - reflexivity.
  - assert (Hn' : no_alignment cs).
    { intros r' a' Hin. apply (Hn r' a'). right. exact Hin. }
    destruct c as [r' s loc | r' a | ].
    + apply IH; assumption.
    + exfalso. apply (Hn r' a). left. reflexivity.
    + apply IH; assumption.
Qed.

Lemma alignment_none : forall r cs, no_alignment cs -> alignment r cs = 1.
Proof. intros r cs Hn. unfold alignment. apply alignment_acc_none. exact Hn. Qed.

Lemma no_alignment_positive : forall cs, no_alignment cs -> aligns_positive cs.
Proof. intros cs Hn r a Hin. exfalso. exact (Hn r a Hin). Qed.

(* ------------------------------------------------------------------------------------------ *)
(* last_overlap                                                                                 *)
(* ------------------------------------------------------------------------------------------ *)

Lemma last_overlap_app : forall p g l acc,
  last_overlap p (g ++ l) acc = last_overlap p l (last_overlap p g acc).
Proof.
  intros p g. induction g as [|x g IH]; intros l acc; cbn [last_overlap app].
  - reflexivity.
  - apply IH.
Qed.

Lemma last_overlap_none : forall p rs acc,
  last_overlap p rs acc = None ->
  acc = None /\ forall r, In r rs -> slices_overlap p r = false.
Proof.
  intros p rs. induction rs as [|x rs IH]; intros acc H; cbn [last_overlap] in H.
  - split; [exact H|]. intros r Hin. destruct Hin.
  - apply IH in H. destruct H as [Hacc Hall].
    destruct (slices_overlap p x) eqn:E; [discriminate Hacc|].
    split; [exact Hacc|]. intros r Hin. destruct Hin as [Hr|Hr].
    + subst r. exact E.
    + apply Hall. exact Hr.
Qed.

Lemma last_overlap_some : forall p rs acc x,
  last_overlap p rs acc = Some x ->
  acc = Some x \/ exists r, In r rs /\ slices_overlap p r = true /\ snd r = x.
Proof.
  intros p rs. induction rs as [|y rs IH]; intros acc x H; cbn [last_overlap] in H.
  - left. exact H.
  - apply IH in H. destruct H as [Hacc | [r [Hin [Hov Hs]]]].
    + destruct (slices_overlap p y) eqn:E.
      * right. exists y. split; [left; reflexivity|]. split; [exact E|].
        injection Hacc as Hacc. exact Hacc.
      * left. exact Hacc.
    + right. exists r. split; [right; exact Hin|]. split; assumption.
Qed.

(* ------------------------------------------------------------------------------------------ *)
(* find_slot                                                                                    *)
(* ------------------------------------------------------------------------------------------ *)

Lemma find_slot_S : forall f ptr al req cap g l,
  find_slot (S f) ptr al req cap g l =
  if align ptr al + req >? cap then Failed 0
  else match last_overlap (align ptr al, align ptr al + req) (g ++ l) None with
       | None => Ok (align ptr al, align ptr al + req)
       | Some p' => find_slot f p' al req cap g l
       end.
Proof.
  intros f ptr al req cap g l. cbn [find_slot snd]. rewrite last_overlap_app. reflexivity.
Qed.

Lemma find_slot_ok : forall fuel ptr al req cap g l sl, 0 < al ->
  find_slot fuel ptr al req cap g l = Ok sl ->
  snd sl = fst sl + req /\ ptr <= fst sl /\ fst sl mod al = 0 /\ snd sl <= cap /\
  forall r, In r (g ++ l) -> slices_overlap sl r = false.
Proof.
  intros fuel. induction fuel as [|f IH]; intros ptr al req cap g l sl Hal H.
  - cbn [find_slot] in H. discriminate H.
  - rewrite find_slot_S in H.
    pose proof (align_bounds ptr al Hal) as Hb.
    destruct (align ptr al + req >? cap) eqn:Ecap; [discriminate H|].
    rewrite Z.gtb_ltb in Ecap. apply Z.ltb_ge in Ecap.
    destruct (last_overlap (align ptr al, align ptr al + req) (g ++ l) None) as [p'|] eqn:Elo.
    + apply last_overlap_some in Elo. destruct Elo as [Habs | [r [Hin [Hov Hsnd]]]]; [discriminate Habs|].
      apply overlap_true in Hov. cbn [fst snd] in Hov.
      apply IH in H; [|exact Hal]. destruct H as (H1 & H2 & H3 & H4 & H5).
      refine (conj H1 (conj _ (conj H3 (conj H4 H5)))). lia.
    + injection H as H. subst sl. apply last_overlap_none in Elo. destruct Elo as [_ Hall].
      cbn [fst snd].
      refine (conj eq_refl (conj _ (conj _ (conj Ecap Hall)))).
      * lia.
      * apply align_mod. lia.
Qed.

Lemma find_slot_not_other : forall fuel ptr al req cap g l,
  find_slot fuel ptr al req cap g l <> OtherError.
Proof.
  intros fuel. induction fuel as [|f IH]; intros ptr al req cap g l.
  - cbn [find_slot]. discriminate.
  - rewrite find_slot_S.
    destruct (align ptr al + req >? cap); [discriminate|].
    destruct (last_overlap (align ptr al, align ptr al + req) (g ++ l) None) as [p'|].
    + apply IH.
    + discriminate.
Qed.

Lemma find_slot_failed : forall fuel ptr al req cap g l k,
  find_slot fuel ptr al req cap g l = Failed k -> k = 0.
Proof.
  intros fuel. induction fuel as [|f IH]; intros ptr al req cap g l k H.
  - cbn [find_slot] in H. discriminate H.
  - rewrite find_slot_S in H.
    destruct (align ptr al + req >? cap).
    + injection H as H. symmetry. exact H.
    + destruct (last_overlap (align ptr al, align ptr al + req) (g ++ l) None) as [p'|].
      * apply IH in H. exact H.
      * discriminate H.
Qed.

(* the termination measure: reservations whose end lies strictly above the pointer *)
Definition meas (p : Z) (rs : list slice) : nat :=
  length (filter (fun r : slice => p <? snd r) rs).

Lemma meas_cons : forall p x rs,
  meas p (x :: rs) = if p <? snd x then S (meas p rs) else meas p rs.
Proof.
  intros p x rs. unfold meas. cbn [filter]. destruct (p <? snd x); reflexivity.
Qed.

Lemma meas_le_length : forall p rs, (meas p rs <= length rs)%nat.
Proof.
  intros p rs. induction rs as [|x rs IH].
  - unfold meas. cbn [filter length]. lia.
  - rewrite meas_cons. cbn [length]. destruct (p <? snd x); lia.
Qed.

Lemma meas_le : forall p p' rs, p <= p' -> (meas p' rs <= meas p rs)%nat.
Proof.
  intros p p' rs Hle. induction rs as [|x rs IH].
  - unfold meas. cbn [filter length]. lia.
  - rewrite !meas_cons.
    destruct (p' <? snd x) eqn:E1; destruct (p <? snd x) eqn:E2;
      try apply Z.ltb_lt in E1; try apply Z.ltb_ge in E1;
      try apply Z.ltb_lt in E2; try apply Z.ltb_ge in E2; lia.
Qed.

Lemma meas_lt : forall p p' rs r,
  p <= p' -> In r rs -> p < snd r -> snd r <= p' -> (meas p' rs < meas p rs)%nat.
Proof.
  intros p p' rs r Hle. induction rs as [|x rs IH]; intros Hin H1 H2.
  - destruct Hin.
  - rewrite !meas_cons. destruct Hin as [Hx|Hin].
    + subst x. pose proof (meas_le p p' rs Hle) as Hm.
      destruct (p' <? snd r) eqn:E1.
      * apply Z.ltb_lt in E1. lia.
      * destruct (p <? snd r) eqn:E2; [lia|]. apply Z.ltb_ge in E2. lia.
    + specialize (IH Hin H1 H2).
      destruct (p' <? snd x) eqn:E1; destruct (p <? snd x) eqn:E2;
        try apply Z.ltb_lt in E1; try apply Z.ltb_ge in E1;
        try apply Z.ltb_lt in E2; try apply Z.ltb_ge in E2; lia.
Qed.

Lemma find_slot_fuel : forall fuel ptr al req cap g l, 0 < al ->
  (meas ptr (g ++ l) < fuel)%nat -> find_slot fuel ptr al req cap g l <> OutOfFuel.
Proof.
  intros fuel. induction fuel as [|f IH]; intros ptr al req cap g l Hal Hm.
  - lia.
  - rewrite find_slot_S.
    destruct (align ptr al + req >? cap); [discriminate|].
    destruct (last_overlap (align ptr al, align ptr al + req) (g ++ l) None) as [p'|] eqn:Elo.
    + apply IH; [exact Hal|].
      apply last_overlap_some in Elo. destruct Elo as [Habs | [r [Hin [Hov Hsnd]]]]; [discriminate Habs|].
      apply overlap_true in Hov. cbn [fst snd] in Hov.
      pose proof (align_bounds ptr al Hal) as Hb.
      assert (Hlt : (meas p' (g ++ l) < meas ptr (g ++ l))%nat).
      { apply meas_lt with (r := r); [lia | exact Hin | lia | lia]. }
      lia.
    + discriminate.
Qed.

Lemma find_slot_terminates : forall ptr al req cap g l, 0 < al ->
  find_slot (slot_fuel g l) ptr al req cap g l <> OutOfFuel.
Proof.
  intros ptr al req cap g l Hal. apply find_slot_fuel; [exact Hal|].
  unfold slot_fuel. pose proof (meas_le_length ptr (g ++ l)) as Hm.
  rewrite app_length in Hm. lia.
Qed.

(* ------------------------------------------------------------------------------------------ *)
(* association lists, chips                                                                     *)
(* ------------------------------------------------------------------------------------------ *)

Lemma zassoc_zupdate_same : forall (A : Type) r (v : A) l, zassoc r (zupdate r v l) = Some v.
Proof.
  intros A r v l. induction l as [|[k w] l IH]; cbn [zupdate zassoc].
  - rewrite Z.eqb_refl. reflexivity.
  - destruct (r =? k) eqn:E; cbn [zassoc].
    + rewrite Z.eqb_refl. reflexivity.
    + rewrite E. exact IH.
Qed.

Lemma zassoc_zupdate_other : forall (A : Type) r r' (v : A) l,
  r' <> r -> zassoc r' (zupdate r v l) = zassoc r' l.
Proof.
  intros A r r' v l Hne. induction l as [|[k w] l IH]; cbn [zupdate zassoc].
  - destruct (r' =? r) eqn:E; [apply Z.eqb_eq in E; contradiction | reflexivity].
  - destruct (r =? k) eqn:E; cbn [zassoc].
    + apply Z.eqb_eq in E. subst k.
      destruct (r' =? r) eqn:E2; [apply Z.eqb_eq in E2; contradiction | reflexivity].
    + destruct (r' =? k); [reflexivity | exact IH].
Qed.

Lemma zassoc_In : forall (A : Type) k (v : A) l, zassoc k l = Some v -> In (k, v) l.
Proof.
  intros A k v l. induction l as [|[k' w] l IH]; cbn [zassoc]; intros H.
  - discriminate H.
  - destruct (k =? k') eqn:E.
    + apply Z.eqb_eq in E. subst k'. injection H as H. subst w. left. reflexivity.
    + right. apply IH. exact H.
Qed.

Lemma zassoc_zero_map : forall r (l : list (res * Z)) p,
  zassoc r (map (fun rc : res * Z => (fst rc, 0)) l) = Some p -> p = 0.
Proof.
  intros r l p. induction l as [|[k w] l IH]; cbn [map zassoc fst]; intros H.
  - discriminate H.
  - destruct (r =? k).
    + injection H as H. symmetry. exact H.
    + apply IH. exact H.
Qed.

Lemma zassoc_zero_map_none : forall r (l : list (res * Z)),
  zassoc r l <> None -> zassoc r (map (fun rc : res * Z => (fst rc, 0)) l) <> None.
Proof.
  intros r l. induction l as [|[k w] l IH]; cbn [map zassoc fst]; intros H.
  - exact H.
  - destruct (r =? k).
    + discriminate.
    + apply IH. exact H.
Qed.

Lemma chip_eqb_eq : forall a b : chip, chip_eqb a b = true <-> a = b.
Proof.
  intros [a1 a2] [b1 b2]. unfold chip_eqb. cbn [fst snd].
  rewrite andb_true_iff, !Z.eqb_eq. split.
  - intros [H1 H2]. subst. reflexivity.
  - intros H. injection H as H1 H2. split; assumption.
Qed.

Lemma chip_eqb_refl : forall a : chip, chip_eqb a a = true.
Proof. intros a. apply chip_eqb_eq. reflexivity. Qed.

Lemma chip_mem_In : forall c l, chip_mem c l = true <-> In c l.
Proof.
  intros c l. unfold chip_mem. rewrite existsb_exists. split.
  - intros [x [Hin Heq]]. apply chip_eqb_eq in Heq. subst x. exact Hin.
  - intros Hin. exists c. split; [exact Hin | apply chip_eqb_refl].
Qed.

Lemma chip_mem_false : forall c l, chip_mem c l = false <-> ~ In c l.
Proof.
  intros c l. rewrite <- chip_mem_In. destruct (chip_mem c l); split; intros H.
  - discriminate H.
  - exfalso. apply H. reflexivity.
  - intros H'. discriminate H'.
  - reflexivity.
Qed.

Lemma vertices_on_In : forall v c pl, In v (vertices_on c pl) <-> In (v, c) pl.
Proof.
  intros v c pl. unfold vertices_on. rewrite in_map_iff. split.
  - intros [[v' c'] [Hv Hin]]. cbn [fst] in Hv. subst v'.
    apply filter_In in Hin. destruct Hin as [Hin Heq]. cbn [snd] in Heq.
    apply chip_eqb_eq in Heq. subst c'. exact Hin.
  - intros Hin. exists (v, c). split; [reflexivity|].
    apply filter_In. split; [exact Hin|]. cbn [snd]. apply chip_eqb_refl.
Qed.

(* ------------------------------------------------------------------------------------------ *)
(* pointers only grow                                                                           *)
(* ------------------------------------------------------------------------------------------ *)

Definition ole (a b : option Z) : Prop :=
  match a, b with
  | Some p, Some p' => p <= p'
  | None, None => True
  | _, _ => False
  end.

Definition ptrs_le (l l' : list (res * Z)) : Prop := forall r, ole (zassoc r l) (zassoc r l').

Definition ptrs_nonneg (l : list (res * Z)) : Prop := forall r p, zassoc r l = Some p -> 0 <= p.

Lemma ole_refl : forall a, ole a a.
Proof. intros [p|]; cbn [ole]; [lia | exact I]. Qed.

Lemma ole_trans : forall a b c, ole a b -> ole b c -> ole a c.
Proof.
  intros [p|] [q|] [s|]; cbn [ole]; intros H1 H2; try contradiction; try exact I. lia.
Qed.

Lemma ptrs_le_refl : forall l, ptrs_le l l.
Proof. intros l r. apply ole_refl. Qed.

Lemma ptrs_le_trans : forall a b c, ptrs_le a b -> ptrs_le b c -> ptrs_le a c.
Proof. intros a b c H1 H2 r. apply ole_trans with (b := zassoc r b); [apply H1 | apply H2]. Qed.

Lemma ptrs_le_update : forall r p v l,
  zassoc r l = Some p -> p <= v -> ptrs_le l (zupdate r v l).
Proof.
  intros r p v l Hp Hle r'. destruct (Z.eq_dec r' r) as [Heq|Hne].
  - subst r'. rewrite zassoc_zupdate_same, Hp. cbn [ole]. exact Hle.
  - rewrite zassoc_zupdate_other by exact Hne. apply ole_refl.
Qed.

Lemma ptrs_nonneg_le : forall l l', ptrs_nonneg l -> ptrs_le l l' -> ptrs_nonneg l'.
Proof.
  intros l l' Hnn Hle r p' Hp'. specialize (Hle r). rewrite Hp' in Hle.
  destruct (zassoc r l) as [p|] eqn:Ep; cbn [ole] in Hle; [|contradiction].
  specialize (Hnn r p Ep). lia.
Qed.

Lemma ptrs_le_some_r : forall l l' r p',
  ptrs_le l l' -> zassoc r l' = Some p' -> exists p, zassoc r l = Some p /\ p <= p'.
Proof.
  intros l l' r p' Hle Hp'. specialize (Hle r). rewrite Hp' in Hle.
  destruct (zassoc r l) as [p|]; cbn [ole] in Hle; [|contradiction].
  exists p. split; [reflexivity | exact Hle].
Qed.

Lemma ptrs_le_some_l : forall l l' r p,
  ptrs_le l l' -> zassoc r l = Some p -> exists p', zassoc r l' = Some p' /\ p <= p'.
Proof.
  intros l l' r p Hle Hp. specialize (Hle r). rewrite Hp in Hle.
  destruct (zassoc r l') as [p'|]; cbn [ole] in Hle; [|contradiction].
  exists p'. split; [reflexivity | exact Hle].
Qed.

(* ------------------------------------------------------------------------------------------ *)
(* one vertex                                                                                   *)
(* ------------------------------------------------------------------------------------------ *)

Definition item_ok (m : machine) (cs : list constr) (xy : chip)
           (rq : res * Z) (it : res * slice) : Prop :=
  fst it = fst rq /\ range_ok m cs xy (fst rq) (snd rq) (snd it).

Lemma alloc_vertex_cons : forall m cs xy ptrs r req reqs,
  alloc_vertex m cs xy ptrs ((r, req) :: reqs) =
  match zassoc r ptrs with
  | None => OtherError
  | Some ptr =>
      if alignment r cs =? 0 then OtherError
      else match chip_resources m xy with
           | None => OtherError
           | Some caps =>
               match zassoc r caps with
               | None => OtherError
               | Some cap =>
                   bind (find_slot (slot_fuel (global_reserved r cs) (local_reserved xy r cs))
                                   ptr (alignment r cs) req cap
                                   (global_reserved r cs) (local_reserved xy r cs)) (fun sl =>
                   bind (alloc_vertex m cs xy (zupdate r (snd sl) ptrs) reqs) (fun rest =>
                   Ok ((r, sl) :: fst rest, snd rest)))
               end
           end
  end.
Proof. intros. reflexivity. Qed.

Lemma alloc_vertex_sound : forall m cs xy reqs ptrs ra ptrs',
  aligns_positive cs -> (forall r q, In (r, q) reqs -> 0 <= q) -> ptrs_nonneg ptrs ->
  alloc_vertex m cs xy ptrs reqs = Ok (ra, ptrs') ->
  Forall2 (item_ok m cs xy) reqs ra /\ ptrs_le ptrs ptrs' /\
  (forall r sl, In (r, sl) ra ->
     exists p p', zassoc r ptrs = Some p /\ zassoc r ptrs' = Some p' /\ p <= fst sl /\ snd sl <= p').
Proof.
  intros m cs xy reqs. induction reqs as [|[r req] reqs IH]; intros ptrs ra ptrs' Hal Hq Hnn H.
  - cbn [alloc_vertex] in H. injection H as H1 H2. subst ra ptrs'.
    split; [constructor|]. split; [apply ptrs_le_refl|]. intros r sl Hin. destruct Hin.
  - rewrite alloc_vertex_cons in H.
    destruct (zassoc r ptrs) as [ptr|] eqn:Eptr; [|discriminate H].
    destruct (alignment r cs =? 0) eqn:Eal0; [discriminate H|].
    destruct (chip_resources m xy) as [caps|] eqn:Ecaps; [|discriminate H].
    destruct (zassoc r caps) as [cap|] eqn:Ecap; [|discriminate H].
    destruct (find_slot (slot_fuel (global_reserved r cs) (local_reserved xy r cs)) ptr
                (alignment r cs) req cap (global_reserved r cs) (local_reserved xy r cs))
      as [sl|k| |] eqn:Efs; cbn [bind] in H; try discriminate H.
    destruct (alloc_vertex m cs xy (zupdate r (snd sl) ptrs) reqs)
      as [[ra' ptrs1]|k| |] eqn:Erec; cbn [bind] in H; try discriminate H.
    cbn [fst snd] in H. injection H as H1 H2. subst ra ptrs'.
    pose proof (alignment_pos r cs Hal) as Hpos.
    apply find_slot_ok in Efs; [|exact Hpos]. destruct Efs as (F1 & F2 & F3 & F4 & F5).
    assert (Hptr0 : 0 <= ptr) by (apply (Hnn r); exact Eptr).
    assert (Hreq0 : 0 <= req) by (apply (Hq r); left; reflexivity).
    assert (Hle1 : ptrs_le ptrs (zupdate r (snd sl) ptrs)).
    { apply ptrs_le_update with (p := ptr); [exact Eptr | lia]. }
    assert (Hq' : forall r0 q0, In (r0, q0) reqs -> 0 <= q0).
    { intros r0 q0 Hin. apply (Hq r0). right. exact Hin. }
    assert (Hnn1 : ptrs_nonneg (zupdate r (snd sl) ptrs)).
    { apply ptrs_nonneg_le with (l := ptrs); assumption. }
    destruct (IH _ _ _ Hal Hq' Hnn1 Erec) as (I1 & I2 & I3).
    split; [|split].
    + constructor; [|exact I1]. unfold item_ok, range_ok. cbn [fst snd].
      split; [reflexivity|]. split; [lia|]. split; [lia|].
      split; [exists caps, cap; split; [exact Ecaps|split; [exact Ecap|exact F4]]|].
      split; [exact F3|]. unfold reservations. exact F5.
    + apply ptrs_le_trans with (b := zupdate r (snd sl) ptrs); assumption.
    + intros r0 sl0 Hin. destruct Hin as [Heq|Hin].
      * injection Heq as Hr Hs. subst r0 sl0.
        destruct (ptrs_le_some_l _ _ r (snd sl) I2 (zassoc_zupdate_same _ r (snd sl) ptrs))
          as [p' [Hp' Hle']].
        exists ptr, p'. split; [exact Eptr|]. split; [exact Hp'|]. split; [exact F2 | exact Hle'].
      * destruct (I3 r0 sl0 Hin) as (p & p' & A & B & C & D).
        destruct (ptrs_le_some_r _ _ r0 p Hle1 A) as [p0 [Hp0 Hle0]].
        exists p0, p'. split; [exact Hp0|]. split; [exact B|]. split; [lia | exact D].
Qed.

(* ------------------------------------------------------------------------------------------ *)
(* one chip                                                                                     *)
(* ------------------------------------------------------------------------------------------ *)

Definition before (x y : vertex * list (res * slice)) : Prop :=
  forall r sl1 sl2, In (r, sl1) (snd x) -> In (r, sl2) (snd y) -> snd sl1 <= fst sl2.

Lemma alloc_chip_sound : forall m cs vres xy vs ptrs out,
  aligns_positive cs -> requests_nonneg vres -> ptrs_nonneg ptrs ->
  alloc_chip m cs vres xy ptrs vs = Ok out ->
  map fst out = vs /\
  (forall v ra, In (v, ra) out ->
     exists reqs, zassoc v vres = Some reqs /\ Forall2 (item_ok m cs xy) reqs ra) /\
  (forall v ra r sl, In (v, ra) out -> In (r, sl) ra ->
     exists p, zassoc r ptrs = Some p /\ p <= fst sl) /\
  ForallOrdPairs before out.
Proof.
  intros m cs vres xy vs. induction vs as [|v vs IH]; intros ptrs out Hal Hq Hnn H.
  - cbn [alloc_chip] in H. injection H as H. subst out.
    split; [reflexivity|]. split; [intros v ra Hin; destruct Hin|].
    split; [intros v ra r sl Hin; destruct Hin|]. constructor.
  - cbn [alloc_chip] in H.
    destruct (zassoc v vres) as [reqs|] eqn:Ereqs; [|discriminate H].
    destruct (alloc_vertex m cs xy ptrs reqs) as [[ra ptrs1]|k| |] eqn:Ev;
      cbn [bind] in H; try discriminate H.
    cbn [snd fst] in H.
    destruct (alloc_chip m cs vres xy ptrs1 vs) as [rest|k| |] eqn:Erest;
      cbn [bind] in H; try discriminate H.
    injection H as H. subst out.
    assert (Hq' : forall r q, In (r, q) reqs -> 0 <= q).
    { intros r q Hin. apply (Hq v reqs r q); [|exact Hin]. apply zassoc_In. exact Ereqs. }
    destruct (alloc_vertex_sound _ _ _ _ _ _ _ Hal Hq' Hnn Ev) as (V1 & V2 & V3).
    assert (Hnn1 : ptrs_nonneg ptrs1) by (apply ptrs_nonneg_le with (l := ptrs); assumption).
    destruct (IH _ _ Hal Hq Hnn1 Erest) as (C1 & C2 & C3 & C4).
    split; [|split; [|split]].
    + cbn [map fst]. rewrite C1. reflexivity.
    + intros v0 ra0 Hin. destruct Hin as [Heq|Hin].
      * injection Heq as Hv Hr. subst v0 ra0. exists reqs. split; assumption.
      * apply C2. exact Hin.
    + intros v0 ra0 r sl Hin Hin2. destruct Hin as [Heq|Hin].
      * injection Heq as Hv Hr. subst v0 ra0.
        destruct (V3 r sl Hin2) as (p & p' & A & B & C & D). exists p. split; assumption.
      * destruct (C3 v0 ra0 r sl Hin Hin2) as (p1 & A & B).
        destruct (ptrs_le_some_r _ _ r p1 V2 A) as [p0 [Hp0 Hle0]].
        exists p0. split; [exact Hp0 | lia].
    + constructor; [|exact C4]. apply Forall_forall. intros [v2 ra2] Hin r sl1 sl2 H1 H2.
      cbn [snd] in H1, H2.
      destruct (V3 r sl1 H1) as (p & p' & A & B & C & D).
      destruct (C3 v2 ra2 r sl2 Hin H2) as (p1 & A1 & B1).
      rewrite B in A1. injection A1 as A1. lia.
Qed.

Lemma before_no_overlap : forall x y r sl1 sl2,
  before x y -> In (r, sl1) (snd x) -> In (r, sl2) (snd y) -> slices_overlap sl1 sl2 = false.
Proof.
  intros x y r sl1 sl2 Hb H1 H2. specialize (Hb r sl1 sl2 H1 H2). apply overlap_false. lia.
Qed.

(* ------------------------------------------------------------------------------------------ *)
(* all chips                                                                                    *)
(* ------------------------------------------------------------------------------------------ *)

Definition ptrs0 (m : machine) : list (res * Z) := map (fun rc : res * Z => (fst rc, 0)) (m_res m).

Lemma ptrs0_nonneg : forall m, ptrs_nonneg (ptrs0 m).
Proof. intros m r p H. apply zassoc_zero_map in H. lia. Qed.

Lemma alloc_chips_chunks : forall m cs vres pl chips alloc,
  alloc_chips m cs vres pl chips = Ok alloc ->
  exists chunks, alloc = concat chunks /\
    Forall2 (fun xy chunk => alloc_chip m cs vres xy (ptrs0 m) (vertices_on xy pl) = Ok chunk)
            chips chunks.
Proof.
  intros m cs vres pl chips. induction chips as [|xy chips IH]; intros alloc H.
  - cbn [alloc_chips] in H. injection H as H. subst alloc. exists []. split; [reflexivity|constructor].
  - cbn [alloc_chips] in H. fold (ptrs0 m) in H.
    destruct (alloc_chip m cs vres xy (ptrs0 m) (vertices_on xy pl)) as [a|k| |] eqn:Ea;
      cbn [bind] in H; try discriminate H.
    destruct (alloc_chips m cs vres pl chips) as [rest|k| |] eqn:Erest;
      cbn [bind] in H; try discriminate H.
    injection H as H. subst alloc.
    destruct (IH rest eq_refl) as [chunks [Hc Hf]].
    exists (a :: chunks). split.
    + cbn [concat]. rewrite Hc. reflexivity.
    + constructor; assumption.
Qed.

Lemma Forall2_In_l : forall (A B : Type) (R : A -> B -> Prop) l l' x,
  Forall2 R l l' -> In x l -> exists y, In y l' /\ R x y.
Proof.
  intros A B R l l' x HF. induction HF as [|a b l l' Hab HF IH]; intros Hin.
  - destruct Hin.
  - destruct Hin as [Heq|Hin].
    + subst a. exists b. split; [left; reflexivity | exact Hab].
    + destruct (IH Hin) as [y [Hy HR]]. exists y. split; [right; exact Hy | exact HR].
Qed.

Lemma Forall2_In_r : forall (A B : Type) (R : A -> B -> Prop) l l' y,
  Forall2 R l l' -> In y l' -> exists x, In x l /\ R x y.
Proof.
  intros A B R l l' y HF. induction HF as [|a b l l' Hab HF IH]; intros Hin.
  - destruct Hin.
  - destruct Hin as [Heq|Hin].
    + subst b. exists a. split; [left; reflexivity | exact Hab].
    + destruct (IH Hin) as [x [Hx HR]]. exists x. split; [right; exact Hx | exact HR].
Qed.

(* chips_in_order lists every chip of the placement exactly once *)
Lemma chips_in_order_In : forall pl seen c,
  In c (chips_in_order seen pl) <-> (~ In c seen /\ exists v, In (v, c) pl).
Proof.
  intros pl. induction pl as [|[v0 c0] pl IH]; intros seen c; cbn [chips_in_order].
  - split; [intros H; destruct H | intros [_ [v H]]; destruct H].
  - destruct (chip_mem c0 seen) eqn:Em.
    + apply chip_mem_In in Em. rewrite IH. split.
      * intros [Hn [v Hv]]. split; [exact Hn|]. exists v. right. exact Hv.
      * intros [Hn [v Hv]]. split; [exact Hn|]. destruct Hv as [Heq|Hv].
        -- injection Heq as Hv Hc. subst c0. contradiction.
        -- exists v. exact Hv.
    + apply chip_mem_false in Em. cbn [In]. rewrite IH. cbn [In]. split.
      * intros [Heq | [Hn [v Hv]]].
        -- subst c0. split; [exact Em|]. exists v0. left. reflexivity.
        -- split; [intros Hs; apply Hn; right; exact Hs|]. exists v. right. exact Hv.
      * intros [Hn [v Hv]].
        destruct (chip_eqb c0 c) eqn:Ec.
        -- apply chip_eqb_eq in Ec. left. exact Ec.
        -- right. split.
           ++ intros [Heq|Hs]; [|contradiction]. subst c0. rewrite chip_eqb_refl in Ec. discriminate Ec.
           ++ destruct Hv as [Heq|Hv].
              ** injection Heq as Hv Hc. subst c0. rewrite chip_eqb_refl in Ec. discriminate Ec.
              ** exists v. exact Hv.
Qed.

Lemma chips_in_order_NoDup : forall pl seen, NoDup (chips_in_order seen pl).
Proof.
  intros pl. induction pl as [|[v0 c0] pl IH]; intros seen; cbn [chips_in_order].
  - constructor.
  - destruct (chip_mem c0 seen).
    + apply IH.
    + constructor; [|apply IH]. intros Hin. apply chips_in_order_In in Hin.
      destruct Hin as [Hn _]. apply Hn. left. reflexivity.
Qed.

Lemma perm_filter_or : forall (A : Type) (f g : A -> bool) l,
  (forall x, In x l -> f x = true -> g x = false) ->
  Permutation (filter f l ++ filter g l) (filter (fun x => f x || g x) l).
Proof.
  intros A f g l. induction l as [|x l IH]; intros Hd.
  - cbn [filter app]. constructor.
  - assert (Hd' : forall y, In y l -> f y = true -> g y = false).
    { intros y Hy. apply Hd. right. exact Hy. }
    specialize (IH Hd'). cbn [filter].
    destruct (f x) eqn:Ef.
    + rewrite (Hd x (or_introl eq_refl) Ef). cbn [orb app]. apply perm_skip. exact IH.
    + destruct (g x) eqn:Eg; cbn [orb].
      * apply Permutation_sym. apply Permutation_cons_app. apply Permutation_sym. exact IH.
      * exact IH.
Qed.

Lemma filter_all : forall (A : Type) (f : A -> bool) l,
  (forall x, In x l -> f x = true) -> filter f l = l.
Proof.
  intros A f l. induction l as [|x l IH]; intros H.
  - reflexivity.
  - cbn [filter]. rewrite (H x (or_introl eq_refl)). f_equal. apply IH.
    intros y Hy. apply H. right. exact Hy.
Qed.

Lemma chunks_perm : forall (pl : list (vertex * chip)) chips, NoDup chips ->
  Permutation (concat (map (fun c => vertices_on c pl) chips))
              (map fst (filter (fun p : vertex * chip => chip_mem (snd p) chips) pl)).
Proof.
  intros pl chips. induction chips as [|c chips IH]; intros Hnd.
  - cbn [map concat]. unfold chip_mem. cbn [existsb].
    assert (Hnil : filter (fun _ : vertex * chip => false) pl = []).
    { induction pl as [|x pl IHpl]; [reflexivity | cbn [filter]; exact IHpl]. }
    rewrite Hnil. constructor.
  - inversion Hnd as [|c' chips' Hnotin Hnd' Heq]. subst c' chips'.
    cbn [map concat]. unfold vertices_on at 1.
    eapply Permutation_trans.
    + apply Permutation_app_head. apply IH. exact Hnd'.
    + rewrite <- map_app. apply Permutation_map.
      unfold chip_mem at 2. cbn [existsb]. fold (chip_mem).
      apply (perm_filter_or _ (fun p : vertex * chip => chip_eqb (snd p) c)
                              (fun p : vertex * chip => chip_mem (snd p) chips)).
      intros x Hx Hf. apply chip_eqb_eq in Hf. apply chip_mem_false. rewrite Hf. exact Hnotin.
Qed.

Lemma chunks_perm_all : forall pl : list (vertex * chip),
  Permutation (concat (map (fun c => vertices_on c pl) (chips_in_order [] pl))) (map fst pl).
Proof.
  intros pl. eapply Permutation_trans.
  - apply chunks_perm. apply chips_in_order_NoDup.
  - rewrite filter_all; [apply Permutation_refl|].
    intros [v c] Hin. cbn [snd]. apply chip_mem_In. apply chips_in_order_In.
    split; [intros H; destruct H|]. exists v. exact Hin.
Qed.

Lemma chunks_map_fst : forall m cs vres (pl : list (vertex * chip)) chips chunks,
  aligns_positive cs -> requests_nonneg vres ->
  Forall2 (fun xy chunk => alloc_chip m cs vres xy (ptrs0 m) (vertices_on xy pl) = Ok chunk)
          chips chunks ->
  map fst (concat chunks) = concat (map (fun c => vertices_on c pl) chips).
Proof.
  intros m cs vres pl chips chunks Hal Hq HF. induction HF as [|xy chunk chips chunks Hc HF IH].
  - reflexivity.
  - cbn [concat map]. rewrite map_app, IH. f_equal.
    destruct (alloc_chip_sound _ _ _ _ _ _ _ Hal Hq (ptrs0_nonneg m) Hc) as (C1 & _).
    exact C1.
Qed.

Lemma NoDup_map_fst_inj : forall (A B : Type) (l : list (A * B)) a b b',
  NoDup (map fst l) -> In (a, b) l -> In (a, b') l -> b = b'.
Proof.
  intros A B l a b b'. induction l as [|[x y] l IH]; intros Hnd H1 H2.
  - destruct H1.
  - cbn [map fst] in Hnd. inversion Hnd as [|x' l' Hnotin Hnd' Heq]. subst x' l'.
    destruct H1 as [E1|H1]; destruct H2 as [E2|H2].
    + injection E1 as Ea Eb. injection E2 as Ea' Eb'. subst. reflexivity.
    + injection E1 as Ea Eb. subst x y. exfalso. apply Hnotin.
      apply in_map_iff. exists (a, b'). split; [reflexivity | exact H2].
    + injection E2 as Ea Eb. subst x y. exfalso. apply Hnotin.
      apply in_map_iff. exists (a, b). split; [reflexivity | exact H1].
    + apply IH; assumption.
Qed.

(* ------------------------------------------------------------------------------------------ *)
(* Soundness                                                                                    *)
(* ------------------------------------------------------------------------------------------ *)

Lemma allocate_sound :
  forall vres m cs pl alloc,
    aligns_positive cs -> requests_nonneg vres -> NoDup (map fst pl) ->
    allocate vres m cs pl = Ok alloc ->
    allocation_sound vres m cs pl alloc.
Proof.
  intros vres m cs pl alloc Hal Hq Hnd H. unfold allocate in H.
  apply alloc_chips_chunks in H. destruct H as [chunks [Halloc HF]].
  assert (Hperm : Permutation (map fst alloc) (map fst pl)).
  { subst alloc. rewrite (chunks_map_fst _ _ _ _ _ _ Hal Hq HF). apply chunks_perm_all. }
  assert (Hnd_alloc : NoDup (map fst alloc)).
  { apply Permutation_NoDup with (l := map fst pl); [apply Permutation_sym; exact Hperm | exact Hnd]. }
  unfold allocation_sound. split; [exact Hperm|]. split.
  - intros v ra Hin. subst alloc. apply in_concat in Hin. destruct Hin as [chunk [Hchunk Hin]].
    destruct (Forall2_In_r _ _ _ _ _ chunk HF Hchunk) as [xy [Hxy Hc]].
    destruct (alloc_chip_sound _ _ _ _ _ _ _ Hal Hq (ptrs0_nonneg m) Hc) as (C1 & C2 & _).
    destruct (C2 v ra Hin) as [reqs [Hreqs Hf2]].
    exists xy, reqs. split; [|split; [exact Hreqs | exact Hf2]].
    apply vertices_on_In. rewrite <- C1. apply in_map_iff. exists (v, ra).
    split; [reflexivity | exact Hin].
  - intros v1 v2 xy ra1 ra2 r sl1 sl2 Hne Hp1 Hp2 Ha1 Ha2 Hr1 Hr2.
    assert (Hxy : In xy (chips_in_order [] pl)).
    { apply chips_in_order_In. split; [intros Hx; destruct Hx|]. exists v1. exact Hp1. }
    destruct (Forall2_In_l _ _ _ _ _ xy HF Hxy) as [chunk [Hchunk Hc]].
    destruct (alloc_chip_sound _ _ _ _ _ _ _ Hal Hq (ptrs0_nonneg m) Hc) as (C1 & _ & _ & C4).
    assert (Hsub : forall x, In x chunk -> In x alloc).
    { intros x Hx. subst alloc. apply in_concat. exists chunk. split; assumption. }
    assert (Hloc : forall v ra, In (v, xy) pl -> In (v, ra) alloc -> In (v, ra) chunk).
    { intros v ra Hp Ha. apply vertices_on_In in Hp. rewrite <- C1 in Hp.
      apply in_map_iff in Hp. destruct Hp as [[v' ra'] [Hv Hin']]. cbn [fst] in Hv. subst v'.
      assert (Heq : ra = ra').
      { apply (NoDup_map_fst_inj _ _ alloc v ra ra' Hnd_alloc Ha). apply Hsub. exact Hin'. }
      subst ra'. exact Hin'. }
    pose proof (Hloc v1 ra1 Hp1 Ha1) as Hc1. pose proof (Hloc v2 ra2 Hp2 Ha2) as Hc2.
    destruct (ForallOrdPairs_In C4 _ _ Hc1 Hc2) as [Heq | [Hb | Hb]].
    + injection Heq as Hv _. contradiction.
    + apply (before_no_overlap _ _ r sl1 sl2 Hb); assumption.
    + rewrite overlap_sym. apply (before_no_overlap _ _ r sl2 sl1 Hb); assumption.
Qed.

(* ------------------------------------------------------------------------------------------ *)
(* Termination: the fuel is never exhausted                                                     *)
(* ------------------------------------------------------------------------------------------ *)

Lemma alloc_vertex_fuel : forall m cs xy reqs ptrs,
  aligns_positive cs -> alloc_vertex m cs xy ptrs reqs <> OutOfFuel.
Proof.
  intros m cs xy reqs. induction reqs as [|[r req] reqs IH]; intros ptrs Hal.
  - cbn [alloc_vertex]. discriminate.
  - rewrite alloc_vertex_cons.
    destruct (zassoc r ptrs) as [ptr|]; [|discriminate].
    destruct (alignment r cs =? 0); [discriminate|].
    destruct (chip_resources m xy) as [caps|]; [|discriminate].
    destruct (zassoc r caps) as [cap|]; [|discriminate].
    pose proof (find_slot_terminates ptr (alignment r cs) req cap (global_reserved r cs)
                  (local_reserved xy r cs) (alignment_pos r cs Hal)) as Hfs.
    destruct (find_slot (slot_fuel (global_reserved r cs) (local_reserved xy r cs)) ptr
                (alignment r cs) req cap (global_reserved r cs) (local_reserved xy r cs))
      as [sl|k| |]; cbn [bind]; try discriminate.
    + specialize (IH (zupdate r (snd sl) ptrs) Hal).
      destruct (alloc_vertex m cs xy (zupdate r (snd sl) ptrs) reqs) as [rest|k| |];
        cbn [bind]; try discriminate. exact IH.
    + intros _. apply Hfs. reflexivity.
Qed.

Lemma alloc_chip_fuel : forall m cs vres xy vs ptrs,
  aligns_positive cs -> alloc_chip m cs vres xy ptrs vs <> OutOfFuel.
Proof.
  intros m cs vres xy vs. induction vs as [|v vs IH]; intros ptrs Hal.
  - cbn [alloc_chip]. discriminate.
  - cbn [alloc_chip].
    destruct (zassoc v vres) as [reqs|]; [|discriminate].
    pose proof (alloc_vertex_fuel m cs xy reqs ptrs Hal) as Hv.
    destruct (alloc_vertex m cs xy ptrs reqs) as [a|k| |]; cbn [bind]; try discriminate.
    + specialize (IH (snd a) Hal).
      destruct (alloc_chip m cs vres xy (snd a) vs) as [rest|k| |]; cbn [bind]; try discriminate.
      exact IH.
    + intros _. apply Hv. reflexivity.
Qed.

Lemma alloc_chips_fuel : forall m cs vres pl chips,
  aligns_positive cs -> alloc_chips m cs vres pl chips <> OutOfFuel.
Proof.
  intros m cs vres pl chips Hal. induction chips as [|xy chips IH].
  - cbn [alloc_chips]. discriminate.
  - cbn [alloc_chips].
    pose proof (alloc_chip_fuel m cs vres xy (vertices_on xy pl)
                  (map (fun rc : res * Z => (fst rc, 0)) (m_res m)) Hal) as Hc.
    destruct (alloc_chip m cs vres xy (map (fun rc : res * Z => (fst rc, 0)) (m_res m))
                (vertices_on xy pl)) as [a|k| |]; cbn [bind]; try discriminate.
    + destruct (alloc_chips m cs vres pl chips) as [rest|k| |]; cbn [bind]; try discriminate.
      exact IH.
    + intros _. apply Hc. reflexivity.
Qed.

Lemma allocate_terminates :
  forall vres m cs pl, aligns_positive cs -> allocate vres m cs pl <> OutOfFuel.
Proof. intros vres m cs pl Hal. unfold allocate. apply alloc_chips_fuel. exact Hal. Qed.

(* ------------------------------------------------------------------------------------------ *)
(* The only failure is InsufficientResourceError                                                *)
(* ------------------------------------------------------------------------------------------ *)

Definition okf {A : Type} (r : result A) : Prop :=
  match r with
  | Ok _ => True
  | Failed k => k = 0
  | _ => False
  end.

Lemma okf_bind : forall (A B : Type) (r : result A) (f : A -> result B),
  okf r -> (forall a, r = Ok a -> okf (f a)) -> okf (bind r f).
Proof.
  intros A B r f Hr Hf. destruct r as [a|k| |]; cbn [bind okf] in *.
  - apply Hf. reflexivity.
  - exact Hr.
  - exact Hr.
  - exact Hr.
Qed.

Lemma zupdate_keeps_keys : forall r v (l : list (res * Z)) r0,
  zassoc r0 l <> None -> zassoc r0 (zupdate r v l) <> None.
Proof.
  intros r v l r0 H. destruct (Z.eq_dec r0 r) as [Heq|Hne].
  - subst r0. rewrite zassoc_zupdate_same. discriminate.
  - rewrite zassoc_zupdate_other by exact Hne. exact H.
Qed.

Lemma alloc_vertex_keys : forall m cs xy reqs ptrs ra ptrs',
  alloc_vertex m cs xy ptrs reqs = Ok (ra, ptrs') ->
  forall r0, zassoc r0 ptrs <> None -> zassoc r0 ptrs' <> None.
Proof.
  intros m cs xy reqs. induction reqs as [|[r req] reqs IH]; intros ptrs ra ptrs' H r0 Hk.
  - cbn [alloc_vertex] in H. injection H as H1 H2. subst ptrs'. exact Hk.
  - rewrite alloc_vertex_cons in H.
    destruct (zassoc r ptrs) as [ptr|]; [|discriminate H].
    destruct (alignment r cs =? 0); [discriminate H|].
    destruct (chip_resources m xy) as [caps|]; [|discriminate H].
    destruct (zassoc r caps) as [cap|]; [|discriminate H].
    destruct (find_slot (slot_fuel (global_reserved r cs) (local_reserved xy r cs)) ptr
                (alignment r cs) req cap (global_reserved r cs) (local_reserved xy r cs))
      as [sl|k| |]; cbn [bind] in H; try discriminate H.
    destruct (alloc_vertex m cs xy (zupdate r (snd sl) ptrs) reqs)
      as [[ra' ptrs1]|k| |] eqn:Erec; cbn [bind] in H; try discriminate H.
    cbn [fst snd] in H. injection H as H1 H2. subst ptrs'.
    apply (IH _ _ _ Erec). apply zupdate_keeps_keys. exact Hk.
Qed.

Lemma alloc_vertex_okf : forall m cs xy reqs ptrs,
  aligns_positive cs ->
  (exists caps, chip_resources m xy = Some caps /\
     forall r q, In (r, q) reqs -> zassoc r ptrs <> None /\ zassoc r caps <> None) ->
  okf (alloc_vertex m cs xy ptrs reqs).
Proof.
  intros m cs xy reqs. induction reqs as [|[r req] reqs IH]; intros ptrs Hal [caps [Hcaps Hk]].
  - cbn [alloc_vertex okf]. exact I.
  - rewrite alloc_vertex_cons.
    destruct (Hk r req (or_introl eq_refl)) as [Hk1 Hk2].
    destruct (zassoc r ptrs) as [ptr|]; [|contradiction].
    pose proof (alignment_pos r cs Hal) as Hpos.
    destruct (alignment r cs =? 0) eqn:E0; [apply Z.eqb_eq in E0; lia|].
    rewrite Hcaps.
    destruct (zassoc r caps) as [cap|]; [|contradiction].
    apply okf_bind.
    + pose proof (find_slot_terminates ptr (alignment r cs) req cap (global_reserved r cs)
                    (local_reserved xy r cs) Hpos) as Hfs.
      pose proof (find_slot_not_other (slot_fuel (global_reserved r cs) (local_reserved xy r cs))
                    ptr (alignment r cs) req cap (global_reserved r cs)
                    (local_reserved xy r cs)) as Hno.
      pose proof (find_slot_failed (slot_fuel (global_reserved r cs) (local_reserved xy r cs))
                    ptr (alignment r cs) req cap (global_reserved r cs)
                    (local_reserved xy r cs)) as Hfa.
      destruct (find_slot (slot_fuel (global_reserved r cs) (local_reserved xy r cs)) ptr
                  (alignment r cs) req cap (global_reserved r cs) (local_reserved xy r cs))
        as [sl|k| |]; cbn [okf].
      * exact I.
      * apply (Hfa k). reflexivity.
      * apply Hno. reflexivity.
      * apply Hfs. reflexivity.
    + intros sl _. apply okf_bind.
      * apply IH; [exact Hal|]. exists caps. split; [exact Hcaps|].
        intros r0 q0 Hin. destruct (Hk r0 q0 (or_intror Hin)) as [A B].
        split; [apply zupdate_keeps_keys; exact A | exact B].
      * intros rest _. cbn [okf]. exact I.
Qed.

Definition vertex_wf (vres : list (vertex * list (res * Z))) (m : machine) (xy : chip) (v : vertex) : Prop :=
  exists reqs caps, zassoc v vres = Some reqs /\ chip_resources m xy = Some caps /\
    forall r q, In (r, q) reqs -> zassoc r (m_res m) <> None /\ zassoc r caps <> None.

Lemma alloc_chip_okf : forall m cs vres xy vs ptrs,
  aligns_positive cs ->
  (forall v, In v vs -> vertex_wf vres m xy v) ->
  (forall r, zassoc r (m_res m) <> None -> zassoc r ptrs <> None) ->
  okf (alloc_chip m cs vres xy ptrs vs).
Proof.
  intros m cs vres xy vs. induction vs as [|v vs IH]; intros ptrs Hal Hwf Hkeys.
  - cbn [alloc_chip okf]. exact I.
  - cbn [alloc_chip].
    destruct (Hwf v (or_introl eq_refl)) as (reqs & caps & Hreqs & Hcaps & Hk).
    rewrite Hreqs. apply okf_bind.
    + apply alloc_vertex_okf; [exact Hal|]. exists caps. split; [exact Hcaps|].
      intros r q Hin. destruct (Hk r q Hin) as [A B]. split; [apply Hkeys; exact A | exact B].
    + intros [ra ptrs1] Hv. cbn [snd fst]. apply okf_bind.
      * apply IH; [exact Hal | |].
        -- intros v' Hin. apply Hwf. right. exact Hin.
        -- intros r Hr. apply (alloc_vertex_keys _ _ _ _ _ _ _ Hv). apply Hkeys. exact Hr.
      * intros rest _. cbn [okf]. exact I.
Qed.

Lemma ptrs0_keys : forall m r, zassoc r (m_res m) <> None -> zassoc r (ptrs0 m) <> None.
Proof. intros m r H. unfold ptrs0. apply zassoc_zero_map_none. exact H. Qed.

Lemma well_formed_vertex_wf : forall vres m cs pl xy v,
  well_formed vres m cs pl -> In v (vertices_on xy pl) -> vertex_wf vres m xy v.
Proof.
  intros vres m cs pl xy v [_ Hwf] Hin. apply vertices_on_In in Hin. exact (Hwf v xy Hin).
Qed.

Lemma alloc_chips_okf : forall m cs vres pl chips,
  well_formed vres m cs pl -> okf (alloc_chips m cs vres pl chips).
Proof.
  intros m cs vres pl chips Hwf. induction chips as [|xy chips IH].
  - cbn [alloc_chips okf]. exact I.
  - cbn [alloc_chips]. fold (ptrs0 m). apply okf_bind.
    + apply alloc_chip_okf.
      * destruct Hwf as [Hal _]. exact Hal.
      * intros v Hin. apply (well_formed_vertex_wf vres m cs pl xy v Hwf Hin).
      * apply ptrs0_keys.
    + intros a _. apply okf_bind; [exact IH|]. intros rest _. cbn [okf]. exact I.
Qed.

Lemma allocate_only_error :
  forall vres m cs pl, well_formed vres m cs pl ->
    (exists alloc, allocate vres m cs pl = Ok alloc) \/ allocate vres m cs pl = Failed 0.
Proof.
  intros vres m cs pl Hwf. unfold allocate.
  pose proof (alloc_chips_okf m cs vres pl (chips_in_order [] pl) Hwf) as H.
  destruct (alloc_chips m cs vres pl (chips_in_order [] pl)) as [a|k| |]; cbn [okf] in H.
  - left. exists a. reflexivity.
  - right. subst k. reflexivity.
  - contradiction.
  - contradiction.
Qed.

(* ------------------------------------------------------------------------------------------ *)
(* Completeness: no alignment, reservations at the two ends, feasible placement                 *)
(* ------------------------------------------------------------------------------------------ *)

(* With alignment 1 and reservations covering [0,a) and lying otherwise in [b,cap), a request that
   fits (max ptr a + req <= b) is granted, and max(pointer, a) advances by exactly req. *)
Lemma find_slot_complete : forall fuel ptr req cap g l a b,
  ends_only (g ++ l) cap a b -> 0 <= req -> 0 <= ptr -> Z.max ptr a + req <= b ->
  match find_slot fuel ptr 1 req cap g l with
  | Ok sl => 0 <= snd sl /\ Z.max (snd sl) a = Z.max ptr a + req
  | OutOfFuel => True
  | _ => False
  end.
Proof.
  intros fuel. induction fuel as [|f IH]; intros ptr req cap g l a b He Hreq Hptr Hfit.
  - cbn [find_slot]. exact I.
  - rewrite find_slot_S. rewrite align_one.
    destruct He as (Ha0 & Hab & Hbc & Hends & Hcover).
    destruct (ptr + req >? cap) eqn:Ecap.
    + rewrite Z.gtb_ltb in Ecap. apply Z.ltb_lt in Ecap. lia.
    + destruct (last_overlap (ptr, ptr + req) (g ++ l) None) as [p'|] eqn:Elo.
      * apply last_overlap_some in Elo.
        destruct Elo as [Habs | [r [Hin [Hov Hsnd]]]]; [discriminate Habs|].
        apply overlap_true in Hov. cbn [fst snd] in Hov.
        destruct (Hends r Hin) as [Hr1 Hr2].
        assert (Hp' : ptr < p' /\ p' <= a) by lia.
        assert (He' : ends_only (g ++ l) cap a b).
        { unfold ends_only. refine (conj Ha0 (conj Hab (conj Hbc (conj Hends Hcover)))). }
        assert (Hptr' : 0 <= p') by lia.
        assert (Hfit' : Z.max p' a + req <= b) by lia.
        specialize (IH p' req cap g l a b He' Hreq Hptr' Hfit').
        destruct (find_slot f p' 1 req cap g l) as [sl|k| |]; try exact IH.
        destruct IH as [I1 I2]. split; [exact I1 | lia].
      * apply last_overlap_none in Elo. destruct Elo as [_ Hall]. cbn [fst snd].
        split; [lia|].
        destruct (Z_lt_le_dec ptr a) as [Hlt|Hge]; [|lia].
        destruct (Z.eq_dec req 0) as [Hz|Hnz]; [lia|].
        exfalso.
        destruct (Hcover ptr (conj Hptr Hlt)) as [r [Hin Hr]].
        specialize (Hall r Hin). apply overlap_false in Hall. cbn [fst snd] in Hall. lia.
Qed.

Lemma request_of_nil : forall r, request_of r [] = 0.
Proof. intros r. reflexivity. Qed.

Lemma request_of_cons : forall r r' q reqs,
  request_of r ((r', q) :: reqs) = if r' =? r then q + request_of r reqs else request_of r reqs.
Proof.
  intros r r' q reqs. unfold request_of. cbn [filter fst].
  destruct (r' =? r); cbn [map fold_right snd]; reflexivity.
Qed.

Lemma request_of_nonneg : forall r reqs,
  (forall r0 q, In (r0, q) reqs -> 0 <= q) -> 0 <= request_of r reqs.
Proof.
  intros r reqs. induction reqs as [|[r' q] reqs IH]; intros Hq.
  - rewrite request_of_nil. lia.
  - rewrite request_of_cons.
    assert (H0 : 0 <= q) by (apply (Hq r'); left; reflexivity).
    assert (H1 : 0 <= request_of r reqs).
    { apply IH. intros r0 q0 Hin. apply (Hq r0). right. exact Hin. }
    destruct (r' =? r); lia.
Qed.

Definition vreq (vres : list (vertex * list (res * Z))) (r : res) (v : vertex) : Z :=
  match zassoc v vres with Some reqs => request_of r reqs | None => 0 end.

Definition vsum (vres : list (vertex * list (res * Z))) (r : res) (vs : list vertex) : Z :=
  fold_right Z.add 0 (map (vreq vres r) vs).

Lemma total_request_vsum : forall vres pl xy r,
  total_request vres pl xy r = vsum vres r (vertices_on xy pl).
Proof. intros. reflexivity. Qed.

Lemma vsum_cons : forall vres r v vs, vsum vres r (v :: vs) = vreq vres r v + vsum vres r vs.
Proof. intros. reflexivity. Qed.

Lemma vreq_nonneg : forall vres r v, requests_nonneg vres -> 0 <= vreq vres r v.
Proof.
  intros vres r v Hq. unfold vreq. destruct (zassoc v vres) as [reqs|] eqn:E; [|lia].
  apply request_of_nonneg. intros r0 q Hin. apply (Hq v reqs r0 q); [|exact Hin].
  apply zassoc_In. exact E.
Qed.

Lemma vsum_nonneg : forall vres r vs, requests_nonneg vres -> 0 <= vsum vres r vs.
Proof.
  intros vres r vs Hq. induction vs as [|v vs IH].
  - unfold vsum. cbn [map fold_right]. lia.
  - rewrite vsum_cons. pose proof (vreq_nonneg vres r v Hq) as H. lia.
Qed.

(* the invariant of one chip: for every resource, what is still to be requested fits *)
Definition cinv (cs : list constr) (xy : chip) (caps ptrs : list (res * Z)) (F : res -> Z) : Prop :=
  forall r cap p, zassoc r caps = Some cap -> zassoc r ptrs = Some p ->
    exists a b, ends_only (reservations r xy cs) cap a b /\ 0 <= p /\ Z.max p a + F r <= b.

Lemma cinv_ext : forall cs xy caps ptrs F G,
  (forall r, G r <= F r) -> cinv cs xy caps ptrs F -> cinv cs xy caps ptrs G.
Proof.
  intros cs xy caps ptrs F G Hle H r cap p Hc Hp.
  destruct (H r cap p Hc Hp) as (a & b & He & H0 & Hfit).
  exists a, b. split; [exact He|]. split; [exact H0|]. specialize (Hle r). lia.
Qed.

Lemma alloc_vertex_complete : forall m cs xy caps reqs ptrs K,
  no_alignment cs -> chip_resources m xy = Some caps ->
  (forall r q, In (r, q) reqs -> 0 <= q /\ zassoc r ptrs <> None /\ zassoc r caps <> None) ->
  (forall r, 0 <= K r) ->
  cinv cs xy caps ptrs (fun r => request_of r reqs + K r) ->
  exists ra ptrs', alloc_vertex m cs xy ptrs reqs = Ok (ra, ptrs') /\ cinv cs xy caps ptrs' K.
Proof.
  intros m cs xy caps reqs. induction reqs as [|[r req] reqs IH]; intros ptrs K Hna Hcaps Hk HK Hinv.
  - exists [], ptrs. split; [reflexivity|].
    apply cinv_ext with (F := fun r => request_of r [] + K r); [|exact Hinv].
    intros r. rewrite request_of_nil. lia.
  - rewrite alloc_vertex_cons.
    destruct (Hk r req (or_introl eq_refl)) as (Hreq & Hk1 & Hk2).
    destruct (zassoc r ptrs) as [ptr|] eqn:Eptr; [|contradiction].
    rewrite (alignment_none r cs Hna). change (1 =? 0) with false. cbv iota.
    rewrite Hcaps.
    destruct (zassoc r caps) as [cap|] eqn:Ecap; [|contradiction].
    assert (Hk' : forall r0 q0, In (r0, q0) reqs -> 0 <= q0).
    { intros r0 q0 Hin. destruct (Hk r0 q0 (or_intror Hin)) as [A _]. exact A. }
    pose proof (request_of_nonneg r reqs Hk') as Hrest.
    destruct (Hinv r cap ptr Ecap Eptr) as (a & b & He & Hptr & Hfit).
    rewrite request_of_cons, Z.eqb_refl in Hfit. specialize (HK r) as HKr.
    unfold reservations in He.
    assert (Hfit' : Z.max ptr a + req <= b) by lia.
    pose proof (find_slot_complete (slot_fuel (global_reserved r cs) (local_reserved xy r cs))
                  ptr req cap (global_reserved r cs) (local_reserved xy r cs) a b
                  He Hreq Hptr Hfit') as Hfc.
    assert (Hone : 0 < 1) by lia.
    pose proof (find_slot_terminates ptr 1 req cap (global_reserved r cs)
                  (local_reserved xy r cs) Hone) as Hft.
    destruct (find_slot (slot_fuel (global_reserved r cs) (local_reserved xy r cs)) ptr 1 req cap
                (global_reserved r cs) (local_reserved xy r cs)) as [sl|k| |];
      [ | exfalso; exact Hfc | exfalso; exact Hfc | exfalso; apply Hft; reflexivity ].
    destruct Hfc as [Hsl0 Hslmax]. cbn [bind].
    destruct (IH (zupdate r (snd sl) ptrs) K Hna Hcaps) as (ra' & ptrs' & Hrec & Hinv').
    + intros r0 q0 Hin. destruct (Hk r0 q0 (or_intror Hin)) as (A & B & C).
      split; [exact A|]. split; [apply zupdate_keeps_keys; exact B | exact C].
    + exact HK.
    + intros r0 cap0 p0 Hc0 Hp0. destruct (Z.eq_dec r0 r) as [Heq|Hne].
      * subst r0. rewrite zassoc_zupdate_same in Hp0. injection Hp0 as Hp0. subst p0.
        rewrite Ecap in Hc0. injection Hc0 as Hc0. subst cap0.
        exists a, b. split; [unfold reservations; exact He|]. split; [exact Hsl0 | lia].
      * rewrite zassoc_zupdate_other in Hp0 by exact Hne.
        destruct (Hinv r0 cap0 p0 Hc0 Hp0) as (a0 & b0 & He0 & Hp00 & Hfit0).
        rewrite request_of_cons in Hfit0.
        destruct (r =? r0) eqn:E; [apply Z.eqb_eq in E; subst r0; contradiction|].
        exists a0, b0. split; [exact He0|]. split; [exact Hp00 | exact Hfit0].
    + exists ((r, sl) :: ra'), ptrs'. split; [|exact Hinv'].
      rewrite Hrec. cbn [bind fst snd]. reflexivity.
Qed.

Lemma alloc_chip_complete : forall m cs vres xy caps vs ptrs,
  no_alignment cs -> requests_nonneg vres -> chip_resources m xy = Some caps ->
  (forall v, In v vs -> vertex_wf vres m xy v) ->
  (forall r, zassoc r (m_res m) <> None -> zassoc r ptrs <> None) ->
  cinv cs xy caps ptrs (fun r => vsum vres r vs) ->
  exists out, alloc_chip m cs vres xy ptrs vs = Ok out.
Proof.
  intros m cs vres xy caps vs. induction vs as [|v vs IH]; intros ptrs Hna Hq Hcaps Hwf Hkeys Hinv.
  - exists []. reflexivity.
  - cbn [alloc_chip].
    destruct (Hwf v (or_introl eq_refl)) as (reqs & caps' & Hreqs & Hcaps' & Hk).
    rewrite Hcaps in Hcaps'. injection Hcaps' as Hcaps'. subst caps'.
    rewrite Hreqs.
    destruct (alloc_vertex_complete m cs xy caps reqs ptrs (fun r => vsum vres r vs) Hna Hcaps)
      as (ra & ptrs1 & Hv & Hinv1).
    + intros r q Hin. destruct (Hk r q Hin) as [A B].
      split; [|split; [apply Hkeys; exact A | exact B]].
      apply (Hq v reqs r q); [|exact Hin]. apply zassoc_In. exact Hreqs.
    + intros r. apply vsum_nonneg. exact Hq.
    + apply cinv_ext with (F := fun r => vsum vres r (v :: vs)); [|exact Hinv].
      intros r. rewrite vsum_cons. unfold vreq. rewrite Hreqs. lia.
    + rewrite Hv. cbn [bind snd fst].
      destruct (IH ptrs1 Hna Hq Hcaps) as [rest Hrest].
      * intros v' Hin. apply Hwf. right. exact Hin.
      * intros r Hr. apply (alloc_vertex_keys _ _ _ _ _ _ _ Hv). apply Hkeys. exact Hr.
      * exact Hinv1.
      * rewrite Hrest. cbn [bind]. exists ((v, ra) :: rest). reflexivity.
Qed.

Lemma alloc_chips_complete : forall m cs vres pl chips,
  well_formed vres m cs pl -> no_alignment cs -> requests_nonneg vres ->
  feasible_ends vres m cs pl ->
  (forall xy, In xy chips -> exists v, In (v, xy) pl) ->
  exists alloc, alloc_chips m cs vres pl chips = Ok alloc.
Proof.
  intros m cs vres pl chips Hwf Hna Hq Hfe. induction chips as [|xy chips IH]; intros Hch.
  - exists []. reflexivity.
  - cbn [alloc_chips]. fold (ptrs0 m).
    destruct (Hch xy (or_introl eq_refl)) as [v Hv].
    destruct Hwf as [Hal Hwf'].
    destruct (Hwf' v xy Hv) as (reqs & caps & Hreqs & Hcaps & Hk).
    destruct (alloc_chip_complete m cs vres xy caps (vertices_on xy pl) (ptrs0 m) Hna Hq Hcaps)
      as [a Ha].
    + intros v' Hin. apply (well_formed_vertex_wf vres m cs pl xy v' (conj Hal Hwf') Hin).
    + apply ptrs0_keys.
    + intros r cap p Hc Hp. unfold ptrs0 in Hp. apply zassoc_zero_map in Hp. subst p.
      destruct (Hfe v xy Hv caps r cap Hcaps Hc) as (a & b & He & Hfit).
      exists a, b. split; [exact He|]. split; [lia|].
      rewrite total_request_vsum in Hfit.
      destruct He as (Ha0 & _). lia.
    + rewrite Ha. cbn [bind].
      destruct IH as [rest Hrest].
      * intros xy' Hin. apply Hch. right. exact Hin.
      * rewrite Hrest. cbn [bind]. exists (a ++ rest). reflexivity.
Qed.

Lemma allocate_complete :
  forall vres m cs pl,
    well_formed vres m cs pl -> no_alignment cs -> requests_nonneg vres ->
    feasible_ends vres m cs pl ->
    exists alloc, allocate vres m cs pl = Ok alloc.
Proof.
  intros vres m cs pl Hwf Hna Hq Hfe. unfold allocate.
  apply alloc_chips_complete; try assumption.
  intros xy Hin. apply chips_in_order_In in Hin. destruct Hin as [_ Hex]. exact Hex.
Qed.

(* ------------------------------------------------------------------------------------------ *)
(* Concrete instances (non-vacuity of the hypotheses)                                           *)
(* ------------------------------------------------------------------------------------------ *)

(* three vertices; 10 and 11 share chip (0,0), 12 sits on the chip with resource exceptions *)
Definition ex_vres : list (vertex * list (res * Z)) :=
  [ (10, [(0, 5); (1, 3)]); (11, [(0, 6); (1, 2)]); (12, [(0, 4)]) ].

(* 2x2 machine, two resources, chip (1,1) has less of resource 0 *)
Definition ex_machine : machine :=
  {| m_width := 2; m_height := 2;
     m_res := [(0, 64); (1, 32)];
     m_exc := [((1, 1), [(0, 40); (1, 32)])];
     m_dead := [] |}.

(* resource 0: global [0,4) and [24,28), chip (0,0) also [12,16), with gaps between; alignment 4.
   resource 1: chip (0,0) reserves [2,4). *)
Definition ex_constraints : list constr :=
  [ CReserve 0 (0, 4) None; CReserve 0 (12, 16) (Some (0, 0)); CReserve 0 (24, 28) None;
    CReserve 1 (2, 4) (Some (0, 0)); CAlign 0 4; COther ].

(* no alignment; reservations only at the two ends *)
Definition ex2_constraints : list constr :=
  [ CReserve 0 (0, 4) None; CReserve 0 (60, 64) (Some (0, 0)); CReserve 1 (28, 32) None; COther ].

Definition ex_placements : list (vertex * chip) :=
  [ (10, (0, 0)); (12, (1, 1)); (11, (0, 0)) ].

Lemma ex_sound_instance :
  exists alloc, allocate ex_vres ex_machine ex_constraints ex_placements = Ok alloc
                /\ aligns_positive ex_constraints /\ requests_nonneg ex_vres
                /\ NoDup (map fst ex_placements) /\ alloc <> [].
Proof.
  eexists. split; [vm_compute; reflexivity|]. split; [|split; [|split]].
  - intros r a Hin. unfold ex_constraints in Hin. cbn [In] in Hin.
    destruct Hin as [H|[H|[H|[H|[H|[H|H]]]]]]; try discriminate H; try contradiction.
    injection H as Hr Ha. lia.
  - intros v reqs r q Hin Hin2. unfold ex_vres in Hin. cbn [In] in Hin.
    destruct Hin as [H|[H|[H|H]]]; try contradiction;
      injection H as Hv Hr; subst v reqs; cbn [In] in Hin2.
    + destruct Hin2 as [H|[H|H]]; try contradiction; injection H as H1 H2; lia.
    + destruct Hin2 as [H|[H|H]]; try contradiction; injection H as H1 H2; lia.
    + destruct Hin2 as [H|H]; try contradiction; injection H as H1 H2; lia.
  - unfold ex_placements. cbn [map fst].
    constructor; [cbn [In]; lia|]. constructor; [cbn [In]; lia|].
    constructor; [cbn [In]; lia|]. constructor.
  - discriminate.
Qed.

Lemma ex2_no_alignment : no_alignment ex2_constraints.
Proof.
  intros r a Hin. unfold ex2_constraints in Hin. cbn [In] in Hin.
  destruct Hin as [H|[H|[H|[H|H]]]]; try discriminate H; contradiction.
Qed.

Lemma ex_requests_nonneg : requests_nonneg ex_vres.
Proof.
  destruct ex_sound_instance as [alloc (_ & _ & H & _)]. exact H.
Qed.

Lemma ex2_well_formed : well_formed ex_vres ex_machine ex2_constraints ex_placements.
Proof.
  split; [apply no_alignment_positive; exact ex2_no_alignment|].
  intros v xy Hin. unfold ex_placements in Hin. cbn [In] in Hin.
  destruct Hin as [H|[H|[H|H]]]; try contradiction; injection H as Hv Hxy; subst v xy.
  - exists [(0, 5); (1, 3)], [(0, 64); (1, 32)].
    split; [reflexivity|]. split; [reflexivity|].
    intros r q Hin. cbn [In] in Hin.
    destruct Hin as [H|[H|H]]; try contradiction; injection H as Hr Hq; subst r q;
      split; vm_compute; discriminate.
  - exists [(0, 4)], [(0, 40); (1, 32)].
    split; [reflexivity|]. split; [reflexivity|].
    intros r q Hin. cbn [In] in Hin.
    destruct Hin as [H|H]; try contradiction; injection H as Hr Hq; subst r q;
      split; vm_compute; discriminate.
  - exists [(0, 6); (1, 2)], [(0, 64); (1, 32)].
    split; [reflexivity|]. split; [reflexivity|].
    intros r q Hin. cbn [In] in Hin.
    destruct Hin as [H|[H|H]]; try contradiction; injection H as Hr Hq; subst r q;
      split; vm_compute; discriminate.
Qed.

(* shapes of ends_only used below *)
Lemma ends_only_prefix_suffix : forall cap a b,
  0 < a -> a <= b -> b < cap -> ends_only [(0, a); (b, cap)] cap a b.
Proof.
  intros cap a b H1 H2 H3. unfold ends_only.
  split; [lia|]. split; [lia|]. split; [lia|]. split.
  - intros r Hin. cbn [In] in Hin. destruct Hin as [H|[H|H]]; try contradiction;
      subst r; cbn [fst snd]; lia.
  - intros x Hx. exists (0, a). split; [left; reflexivity|]. cbn [fst snd]. lia.
Qed.

Lemma ends_only_prefix : forall cap a, 0 < a -> a <= cap -> ends_only [(0, a)] cap a cap.
Proof.
  intros cap a H1 H2. unfold ends_only.
  split; [lia|]. split; [lia|]. split; [lia|]. split.
  - intros r Hin. cbn [In] in Hin. destruct Hin as [H|H]; try contradiction.
    subst r. cbn [fst snd]. lia.
  - intros x Hx. exists (0, a). split; [left; reflexivity|]. cbn [fst snd]. lia.
Qed.

Lemma ends_only_suffix : forall cap b, 0 <= b -> b < cap -> ends_only [(b, cap)] cap 0 b.
Proof.
  intros cap b H1 H2. unfold ends_only.
  split; [lia|]. split; [lia|]. split; [lia|]. split.
  - intros r Hin. cbn [In] in Hin. destruct Hin as [H|H]; try contradiction.
    subst r. cbn [fst snd]. lia.
  - intros x Hx. lia.
Qed.

Lemma ex2_feasible : feasible_ends ex_vres ex_machine ex2_constraints ex_placements.
Proof.
  assert (Hchip00 : forall caps r cap,
            chip_resources ex_machine (0, 0) = Some caps -> zassoc r caps = Some cap ->
            exists a b, ends_only (reservations r (0, 0) ex2_constraints) cap a b /\
                        total_request ex_vres ex_placements (0, 0) r <= b - a).
  { intros caps r cap Hcaps Hc.
    change (chip_resources ex_machine (0, 0)) with (Some [(0, 64); (1, 32)]) in Hcaps.
    injection Hcaps as Hcaps. subst caps. cbn [zassoc] in Hc.
    destruct (r =? 0) eqn:E0.
    - apply Z.eqb_eq in E0. subst r. injection Hc as Hc. subst cap.
      exists 4, 60. split.
      + change (reservations 0 (0, 0) ex2_constraints) with [(0, 4); (60, 64)].
        apply ends_only_prefix_suffix; lia.
      + change (total_request ex_vres ex_placements (0, 0) 0) with 11. lia.
    - destruct (r =? 1) eqn:E1; [|discriminate Hc].
      apply Z.eqb_eq in E1. subst r. injection Hc as Hc. subst cap.
      exists 0, 28. split.
      + change (reservations 1 (0, 0) ex2_constraints) with [(28, 32)].
        apply ends_only_suffix; lia.
      + change (total_request ex_vres ex_placements (0, 0) 1) with 5. lia. }
  intros v xy Hin caps r cap Hcaps Hc. unfold ex_placements in Hin. cbn [In] in Hin.
  destruct Hin as [H|[H|[H|H]]]; try contradiction; injection H as Hv Hxy; subst v xy.
  - apply (Hchip00 caps r cap Hcaps Hc).
  - change (chip_resources ex_machine (1, 1)) with (Some [(0, 40); (1, 32)]) in Hcaps.
    injection Hcaps as Hcaps. subst caps. cbn [zassoc] in Hc.
    destruct (r =? 0) eqn:E0.
    + apply Z.eqb_eq in E0. subst r. injection Hc as Hc. subst cap.
      exists 4, 40. split.
      * change (reservations 0 (1, 1) ex2_constraints) with [(0, 4)].
        apply ends_only_prefix; lia.
      * change (total_request ex_vres ex_placements (1, 1) 0) with 4. lia.
    + destruct (r =? 1) eqn:E1; [|discriminate Hc].
      apply Z.eqb_eq in E1. subst r. injection Hc as Hc. subst cap.
      exists 0, 28. split.
      * change (reservations 1 (1, 1) ex2_constraints) with [(28, 32)].
        apply ends_only_suffix; lia.
      * change (total_request ex_vres ex_placements (1, 1) 1) with 0. lia.
  - apply (Hchip00 caps r cap Hcaps Hc).
Qed.

Lemma ex_complete_instance :
  well_formed ex_vres ex_machine ex2_constraints ex_placements /\ no_alignment ex2_constraints
  /\ requests_nonneg ex_vres /\ feasible_ends ex_vres ex_machine ex2_constraints ex_placements.
Proof.
  split; [exact ex2_well_formed|]. split; [exact ex2_no_alignment|].
  split; [exact ex_requests_nonneg | exact ex2_feasible].
Qed.
