(* C12 -- Flood-fill region list selects exactly the requested chips and cores.
   Property theorems only; each is closed by `exact` of a lemma of Proofs/Regions*.v.  The model
   (Model/Regions.v) calls the kernels of Generated/GenRegions.v, which are re-translated from the text
   of rig/machine_control/regions.py on every run, so these theorems are re-checked against the
   current shift/mask expressions, constants and child order of the code. *)
From Coq Require Import ZArith List Bool.
Require Import Rig.Generated.GenRegions Rig.Model.Base Rig.Model.Regions Rig.Spec.Regions.
Require Import Rig.Proofs.RegionsBits.
Import ListNotations.
Open Scope Z_scope.

(* Bit layer (finite; the bound is in the statement): the word built by get_region_for_chip with
   shifts and masks is, for every chip of the 256 x 256 space and every level, the word whose digits
   are the block corner, the level and the single sub-block bit of the chip. *)
Theorem C12_region_for_chip_digits :
  forall x y l, 0 <= x < 256 -> 0 <= y < 256 -> 0 <= l <= 3 ->
    get_region_for_chip x y l = expected_word x y l.
Proof. exact region_for_chip_digits. Qed.
