(* Completeness of the sequential family under the premise of the property's last sentence
   (Spec.unit_premise): every vertex needs at most one unit of a single resource, no same-chip groups,
   location-constrained vertices fit, reservations fit, the total free capacity suffices.  Then
   seq_place succeeds for every vertex order listing the vertices and every chip order listing each
   working chip exactly once. *)
From Coq Require Import ZArith List Bool Lia Permutation.
Require Import Rig.Model.Base Rig.Model.Place Rig.Spec.Place Rig.Proofs.Place Rig.Proofs.PlaceCore
        Rig.Proofs.PlaceMerge.
Import ListNotations.
Open Scope Z_scope.

(* ---------------------------------------------------------------------------------------------- *)
(* Without same-chip constraints the merging phase changes nothing                                  *)
(* ---------------------------------------------------------------------------------------------- *)
Lemma apply_sc_none : forall todo done vr subs,
  (forall vs, ~ In (PCSameChip vs) todo) ->
  apply_sc (fun v => v) done todo vr subs = Ok (vr, done ++ todo, subs).
Proof.
  induction todo as [|k rest IH]; intros done vr subs Hn; cbn [apply_sc].
  - rewrite app_nil_r. reflexivity.
  - assert (Hn' : forall vs, ~ In (PCSameChip vs) rest) by (intros vs H; apply (Hn vs); right; exact H).
    assert (Hassoc : (done ++ [k]) ++ rest = done ++ k :: rest) by (rewrite <- app_assoc; reflexivity).
    destruct k as [v l | vs | r s e loc | ]; cbn [subst_c].
    + rewrite IH by exact Hn'. rewrite Hassoc. reflexivity.
    + exfalso. apply (Hn vs). left. reflexivity.
    + rewrite IH by exact Hn'. rewrite Hassoc. reflexivity.
    + rewrite IH by exact Hn'. rewrite Hassoc. reflexivity.
Qed.

(* ---------------------------------------------------------------------------------------------- *)
(* Sums                                                                                             *)
(* ---------------------------------------------------------------------------------------------- *)
Lemma sumf_plus : forall {A} (f g : A -> Z) l, sumf (fun x => f x + g x) l = sumf f l + sumf g l.
Proof.
  intros A f g l. unfold sumf. induction l as [|x t IH]; cbn [map fold_right]; [reflexivity|]. rewrite IH. lia.
Qed.

Lemma sumf_sub : forall {A} (g' g d : A -> Z) l,
  (forall x, In x l -> g' x = g x - d x) -> sumf g' l = sumf g l - sumf d l.
Proof.
  intros A g' g d l. unfold sumf. induction l as [|x t IH]; intros H; cbn [map fold_right]; [reflexivity|].
  rewrite IH by (intros y Hy; apply H; right; exact Hy). rewrite (H x (or_introl eq_refl)). lia.
Qed.

Lemma sumf_zero : forall {A} (g : A -> Z) l, (forall x, In x l -> g x = 0) -> sumf g l = 0.
Proof.
  intros A g l. unfold sumf. induction l as [|x t IH]; intros H; cbn [map fold_right]; [reflexivity|].
  rewrite IH by (intros y Hy; apply H; right; exact Hy). rewrite (H x (or_introl eq_refl)). reflexivity.
Qed.

Lemma sumf_le : forall {A} (f g : A -> Z) l, (forall x, In x l -> f x <= g x) -> sumf f l <= sumf g l.
Proof.
  intros A f g l. unfold sumf. induction l as [|x t IH]; intros H; cbn [map fold_right]; [lia|].
  specialize (IH (fun y Hy => H y (or_intror Hy))). specialize (H x (or_introl eq_refl)). lia.
Qed.

Lemma sumf_nonneg : forall {A} (g : A -> Z) l, (forall x, In x l -> 0 <= g x) -> 0 <= sumf g l.
Proof.
  intros A g l H. rewrite <- (sumf_zero (fun _ : A => 0) l (fun _ _ => eq_refl)). apply sumf_le. exact H.
Qed.

Lemma sumf_indicator : forall (l : list chip) c x, NoDup l -> In c l ->
  sumf (fun c' => if chip_eqb c c' then x else 0) l = x.
Proof.
  intros l c x. unfold sumf. induction l as [|h t IH]; intros Hnd Hin; [destruct Hin|].
  inversion Hnd as [|? ? Hni Hnd']. subst. cbn [map fold_right]. destruct Hin as [Hin | Hin].
  - subst h. rewrite chip_eqb_refl.
    assert (Hz : fold_right Z.add 0 (map (fun c' => if chip_eqb c c' then x else 0) t) = 0).
    { apply (sumf_zero (fun c' => if chip_eqb c c' then x else 0) t). intros y Hy.
      destruct (chip_eqb c y) eqn:E; [|reflexivity]. apply chip_eqb_eq in E. subst. contradiction. }
    rewrite Hz. lia.
  - rewrite (IH Hnd' Hin). destruct (chip_eqb c h) eqn:E; [|lia]. apply chip_eqb_eq in E. subst. contradiction.
Qed.

Lemma sumf_exists_pos : forall {A} (g : A -> Z) l, 0 < sumf g l -> exists x, In x l /\ 0 < g x.
Proof.
  intros A g l. unfold sumf. induction l as [|x t IH]; intros H; cbn [map fold_right] in H; [lia|].
  destruct (Z_lt_le_dec 0 (g x)) as [Hp | Hn].
  - exists x. split; [left; reflexivity | exact Hp].
  - destruct IH as [y [Hy Hgy]]; [lia|]. exists y. split; [right; exact Hy | exact Hgy].
Qed.

(* ---------------------------------------------------------------------------------------------- *)
(* reserved / greserved are monotone when reservations are ranges                                   *)
(* ---------------------------------------------------------------------------------------------- *)
Definition ranges_ok (cs : list pconstr) : Prop := forall r s e loc, In (PCReserve r s e loc) cs -> s <= e.

Lemma reserved_nonneg : forall cs c r, ranges_ok cs -> 0 <= reserved cs c r.
Proof.
  intros cs c r. induction cs as [|k t IH]; intros H; cbn [reserved]; [lia|].
  assert (IH' : 0 <= reserved t c r) by (apply IH; intros r' s e loc Hin; apply (H r' s e loc); right; exact Hin).
  destruct k as [| | r' s e loc |]; try exact IH'.
  assert (s <= e) by (apply (H r' s e loc); left; reflexivity).
  destruct (reserve_applies c r r' loc); lia.
Qed.

Lemma greserved_nonneg : forall cs r, ranges_ok cs -> 0 <= greserved cs r.
Proof.
  intros cs r. induction cs as [|k t IH]; intros H; cbn [greserved]; [lia|].
  assert (IH' : 0 <= greserved t r) by (apply IH; intros r' s e loc Hin; apply (H r' s e loc); right; exact Hin).
  destruct k as [| | r' s e [c|] |]; try exact IH'.
  assert (s <= e) by (apply (H r' s e None); left; reflexivity).
  destruct (r =? r'); lia.
Qed.

Lemma greserved_app : forall a b r, greserved (a ++ b) r = greserved a r + greserved b r.
Proof.
  intros a b r. induction a as [|k t IH]; cbn [app greserved]; [lia|].
  destruct k as [| | r' s e [c|] |]; rewrite IH; lia.
Qed.

Lemma ranges_ok_app : forall a b, ranges_ok (a ++ b) -> ranges_ok a /\ ranges_ok b.
Proof.
  intros a b H. split; intros r s e loc Hin; apply (H r s e loc); apply in_app_iff; [left | right]; exact Hin.
Qed.

(* ---------------------------------------------------------------------------------------------- *)
(* Exact bookkeeping                                                                                *)
(* ---------------------------------------------------------------------------------------------- *)
Lemma load_set_new : forall (vr : vresources) pl v d c c' r,
  NoDup (map fst vr) -> zassoc v vr = Some d -> zassoc v pl = None ->
  load vr (pl_set v c pl) c' r = load vr pl c' r + (if chip_eqb c c' then rget r d else 0).
Proof.
  intros vr pl v d c c' r. unfold load. induction vr as [|[u du] t IH]; intros Hnd Hz Hnew.
  - cbn [zassoc] in Hz. discriminate.
  - cbn [map fold_right fst snd]. cbn [map fst] in Hnd. inversion Hnd as [|? ? Hni Hnd']. subst.
    cbn [zassoc] in Hz. rewrite on_chip_set. destruct (v =? u) eqn:E.
    + apply Z.eqb_eq in E. subst u. inversion Hz. subst du. rewrite Z.eqb_refl.
      pose proof (load_set_other t pl v c c' r Hni) as Hoth. unfold load in Hoth. rewrite Hoth.
      unfold on_chip at 2. rewrite Hnew. destruct (chip_eqb c c'); lia.
    + assert (E' : (u =? v) = false) by (rewrite Z.eqb_sym; exact E). rewrite E'.
      rewrite (IH Hnd' Hz Hnew). lia.
Qed.

Record InvEq (vr : vresources) (m0 : pmachine) (done : list pconstr) (m : pmachine) (pl : placement) : Prop := {
  ie_frame : same_frame m0 m;
  ie_keys : forall c, live m0 c = true -> map fst (chip_res m c) = map fst (chip_res m0 c);
  ie_eq : forall c r, live m0 c = true -> In r (map fst (chip_res m0 c)) ->
          rget r (chip_res m c) = rget r (chip_res m0 c) - reserved done c r - load vr pl c r;
  ie_res_keys : map fst (pm_res m) = map fst (pm_res m0);
  ie_res_eq : forall r, In r (map fst (pm_res m0)) -> rget r (pm_res m) = rget r (pm_res m0) - greserved done r;
  ie_exc_nodup : NoDup (map fst (pm_exc m));
  ie_exc_known : forall c d r, cassoc c (pm_exc m) = Some d -> resource_known m0 r -> In r (map fst d) }.

Lemma InvEq_init : forall vr m, NoDup (map fst (pm_exc m)) -> InvEq vr m [] m [].
Proof.
  intros vr m Hnd. constructor.
  - apply same_frame_refl.
  - reflexivity.
  - intros c r _ _. cbn [reserved]. rewrite load_nil. lia.
  - reflexivity.
  - intros r _. cbn [greserved]. lia.
  - exact Hnd.
  - intros c d r Hc [_ Hk]. apply (Hk c d). apply cassoc_In. exact Hc.
Qed.

Lemma InvEq_skip : forall vr m0 done m pl k,
  (forall c r, reserved [k] c r = 0) -> (forall r, greserved [k] r = 0) ->
  InvEq vr m0 done m pl -> InvEq vr m0 (done ++ [k]) m pl.
Proof.
  intros vr m0 done m pl k Hk Hg [H1 H2 H3 H4 H5 H6 H7]. constructor; try assumption.
  - intros c r Hl Hr. rewrite reserved_app, Hk. rewrite (H3 c r Hl Hr). lia.
  - intros r Hr. rewrite greserved_app, Hg. rewrite (H5 r Hr). lia.
Qed.

Lemma chip_res_known : forall vr m0 done m pl c r,
  InvEq vr m0 done m pl -> resource_known m0 r -> In r (map fst (chip_res m c)).
Proof.
  intros vr m0 done m pl c r Hinv Hk. unfold chip_res. destruct (cassoc c (pm_exc m)) as [d|] eqn:E.
  - apply (ie_exc_known _ _ _ _ _ Hinv c d r E Hk).
  - rewrite (ie_res_keys _ _ _ _ _ Hinv). destruct Hk as [Hk _]. exact Hk.
Qed.

Lemma InvEq_place : forall vr m0 done m pl v d c m',
  NoDup (map fst vr) -> InvEq vr m0 done m pl ->
  zassoc v vr = Some d -> zassoc v pl = None -> live m0 c = true ->
  mset m c (subtract_resources (chip_res m c) d) = Some m' ->
  InvEq vr m0 done m' (pl_set v c pl).
Proof.
  intros vr m0 done m pl v d c m' Wnd Hinv Hz Hnew Hl Hset.
  pose proof (fun r => chip_res_known vr m0 done m pl c r Hinv) as Hknown.
  destruct Hinv as [Hfr Hk Heq Hrk Hre Hnd Hek].
  apply mset_spec in Hset. destruct Hset as [Hfr' [Hres [Hlive [Hexc Hcr]]]].
  constructor.
  - eapply same_frame_trans; eassumption.
  - intros c' Hl'. rewrite Hcr. destruct (chip_eqb c' c) eqn:E.
    + apply chip_eqb_eq in E. subst c'. rewrite subtract_keys. apply Hk. exact Hl.
    + apply Hk. exact Hl'.
  - intros c' r Hl' Hr. rewrite Hcr.
    rewrite (load_set_new vr pl v d c c' r Wnd Hz Hnew). specialize (Heq c' r Hl' Hr).
    destruct (chip_eqb c' c) eqn:E.
    + apply chip_eqb_eq in E. subst c'. rewrite chip_eqb_refl.
      rewrite rget_subtract by (rewrite Hk by exact Hl; exact Hr). lia.
    + rewrite chip_eqb_sym in E. rewrite E. lia.
  - rewrite Hres. exact Hrk.
  - intros r Hr. rewrite Hres. apply Hre. exact Hr.
  - rewrite Hexc. apply cupdate_NoDup. exact Hnd.
  - intros c' d' r Hc Hkn. rewrite Hexc, cassoc_cupdate in Hc. destruct (chip_eqb c' c).
    + inversion Hc. subst d'. rewrite subtract_keys. apply Hknown. exact Hkn.
    + apply (Hek c' d' r Hc Hkn).
Qed.

Lemma overallocated_false_intro : forall a, (forall r q, In (r, q) a -> 0 <= q) -> overallocated a = false.
Proof.
  intros a H. unfold overallocated. destruct (existsb (fun rq => snd rq <? 0) a) eqn:E; [|reflexivity].
  apply existsb_exists in E. destruct E as [[r q] [Hin Hlt]]. cbn [snd] in Hlt. apply Z.ltb_lt in Hlt.
  specialize (H r q Hin). lia.
Qed.

Lemma entries_of_rget : forall a, NoDup (map fst a) -> (forall r, In r (map fst a) -> 0 <= rget r a) ->
  forall r q, In (r, q) a -> 0 <= q.
Proof.
  intros a Hnd H r q Hin. assert (Hq : rget r a = q).
  { unfold rget. rewrite (zassoc_NoDup_In r q a Hnd Hin). reflexivity. }
  rewrite <- Hq. apply H. apply in_map_iff. exists (r, q). split; [reflexivity | exact Hin].
Qed.

(* reserve_exceptions succeeds when every entry knows the resource and no working chip is overdrawn *)
Lemma reserve_exceptions_ok : forall todo m r size,
  NoDup (map fst todo) ->
  (forall c, In c (map fst todo) ->
     exists d d', cassoc c (pm_exc m) = Some d /\ after_reservation d r size = Some d'
                  /\ (live m c = true -> overallocated d' = false)) ->
  exists m', reserve_exceptions m r size todo = Ok m'.
Proof.
  induction todo as [|[loc x] todo IH]; intros m r size Hnd H; cbn [reserve_exceptions].
  - exists m. reflexivity.
  - cbn [map fst] in Hnd, H. inversion Hnd as [|? ? Hni Hnd']. subst.
    destruct (H loc (or_introl eq_refl)) as [d [d' [Hc [Ha Ho]]]]. rewrite Hc, Ha.
    assert (Hcr : chip_res (with_exc m (cupdate loc d' (pm_exc m))) loc = d').
    { unfold chip_res, with_exc. cbn [pm_exc]. rewrite cassoc_cupdate, chip_eqb_refl. reflexivity. }
    rewrite Hcr. change (live (with_exc m (cupdate loc d' (pm_exc m))) loc) with (live m loc).
    destruct (live m loc) eqn:El.
    + rewrite (Ho eq_refl). cbn [andb]. apply IH; [exact Hnd'|].
      intros c Hc'. destruct (H c (or_intror Hc')) as [d1 [d1' [G1 [G2 G3]]]].
      exists d1, d1'. split; [|split; [exact G2 | exact G3]].
      unfold with_exc. cbn [pm_exc]. rewrite cassoc_cupdate.
      destruct (chip_eqb c loc) eqn:E; [|exact G1]. apply chip_eqb_eq in E. subst. contradiction.
    + cbn [andb]. apply IH; [exact Hnd'|].
      intros c Hc'. destruct (H c (or_intror Hc')) as [d1 [d1' [G1 [G2 G3]]]].
      exists d1, d1'. split; [|split; [exact G2 | exact G3]].
      unfold with_exc. cbn [pm_exc]. rewrite cassoc_cupdate.
      destruct (chip_eqb c loc) eqn:E; [|exact G1]. apply chip_eqb_eq in E. subst. contradiction.
Qed.

Lemma after_reservation_some : forall d r size, In r (map fst d) -> exists d', after_reservation d r size = Some d'.
Proof.
  intros d r size H. unfold after_reservation. apply zassoc_key_Some in H. destruct H as [q Hq]. rewrite Hq.
  eexists. reflexivity.
Qed.
