(* C09, the controller side, part 1: what the primitive operations of the controller model (send,
   scp_data_length, read, the struct reads) send and return, as facts about the machine. *)
From Coq Require Import ZArith List Bool Lia Sorted.
Require Import Rig.Generated.GenLoad Rig.Model.Base Rig.Model.Regions Rig.Spec.Regions Rig.Model.Load Rig.Spec.Load.
Require Import Rig.Proofs.LoadBits Rig.Proofs.LoadMachine.
Import ListNotations.
Open Scope Z_scope.

Ltac Zify.zify_post_hook ::= Z.to_euclidean_division_equations.

(* ---------------------------------------------------------------- send *)
(* w' is w after sending exactly qs *)
Definition extends (w w' : world) (qs : list pkt) : Prop :=
  sent w' = sent w ++ qs /\ w_m w' = fst (replay (w_m w) qs).

Lemma extends_refl : forall w, extends w w [].
Proof. intros w. split; [rewrite app_nil_r; reflexivity|reflexivity]. Qed.

Lemma extends_trans : forall w1 w2 w3 a b, extends w1 w2 a -> extends w2 w3 b -> extends w1 w3 (a ++ b).
Proof.
  intros w1 w2 w3 a b [Hs1 Hm1] [Hs2 Hm2]. split.
  - rewrite Hs2, Hs1, app_assoc. reflexivity.
  - rewrite Hm2, Hm1, replay_app. reflexivity.
Qed.

Lemma send_inv : forall w q w' r, send w q = Ok (w', r) ->
  extends w w' [q] /\ r = snd (mstep (w_m w) q) /\ r <> RError /\ w_m w' = fst (mstep (w_m w) q).
Proof.
  intros w q w' r H. unfold send in H. destruct (packable q); [|discriminate].
  destruct (mstep (w_m w) q) as [m1 r1] eqn:E.
  assert (Hr : r1 <> RError -> Ok (mkWorld m1 ((q, r1) :: w_log w), r1) = Ok (w', r) ->
               extends w w' [q] /\ r = r1 /\ r <> RError /\ w_m w' = m1).
  { intros Hne Heq. inversion Heq; subst. repeat split; try assumption.
    - unfold sent. cbn [w_log map rev fst]. reflexivity.
    - cbn [w_m replay]. rewrite E. reflexivity. }
  cbn [fst snd]. destruct r1; try discriminate; apply Hr; try exact H; discriminate.
Qed.

Lemma send__inv : forall w q w', send_ w q = Ok w' ->
  extends w w' [q] /\ w_m w' = fst (mstep (w_m w) q) /\ snd (mstep (w_m w) q) <> RError.
Proof.
  intros w q w' H. unfold send_ in H. apply bind_ok in H. destruct H as [[w1 r] [Hs Heq]].
  cbn [fst] in Heq. inversion Heq; subst. apply send_inv in Hs. destruct Hs as (He & Hr & Hne & Hm).
  repeat split; try apply He; try exact Hm. rewrite <- Hr. exact Hne.
Qed.

(* a reply other than RError means that the destination exists *)
Lemma mstep_dest : forall m q, snd (mstep m q) <> RError -> dest_chip m (q_x q) (q_y q) <> None.
Proof. intros m q H E. unfold mstep in H. rewrite E in H. apply H. reflexivity. Qed.

(* ---------------------------------------------------------------- sver / scp_data_length *)
Definition sver_pkt : pkt := mkPkt 255 255 0 SCPCommands_sver 0 0 0 [].

Lemma mstep_sver : forall m, mstep m sver_pkt =
  match hd_error (m_chips m) with Some _ => (m, RSver (m_buffer m)) | None => (m, RError) end.
Proof.
  intros m. unfold mstep, sver_pkt. cbn [q_x q_y q_cmd]. unfold dest_chip. cbn [Z.eqb Pos.eqb andb].
  destruct (hd_error (m_chips m)) as [[xy c]|]; reflexivity.
Qed.

Lemma get_buffer_inv : forall c w c1 w1 b,
  ctrl_wf c (w_m w) -> get_buffer c w = Ok (c1, w1, b) ->
  b = m_buffer (w_m w) /\ c_buffer c1 = Some b /\ c_nn c1 = c_nn c /\ w_m w1 = w_m w
  /\ (extends w w1 [] \/ extends w w1 [sver_pkt]).
Proof.
  intros c w c1 w1 b [Hnn Hb] H. unfold get_buffer in H. destruct (c_buffer c) as [b0|] eqn:Ec.
  - inversion H; subst. destruct Hb as [Hb|Hb]; [discriminate|]. inversion Hb; subst.
    repeat split; try assumption; try reflexivity. left. apply extends_refl.
  - apply bind_ok in H. destruct H as [[w2 r] [Hs H]]. fold sver_pkt in Hs.
    apply send_inv in Hs. destruct Hs as (He & Hr & Hne & Hm).
    rewrite mstep_sver in Hr, Hm. destruct (hd_error (m_chips (w_m w))); cbn [fst snd] in *; [|congruence].
    subst r. inversion H; subst. repeat split; try reflexivity; try assumption. right. exact He.
Qed.

Lemma ctrl_wf_buffer : forall c m b, ctrl_wf c m -> b = m_buffer m -> forall n, 0 <= n <= 126 ->
  ctrl_wf (mkCtrl n (Some b)) m.
Proof. intros c m b _ -> n Hn. split; [exact Hn|right; reflexivity]. Qed.

(* ---------------------------------------------------------------- read *)
Lemma mstep_read : forall m x y p a l dt,
  mstep m (mkPkt x y p SCPCommands_read a l dt []) =
  match dest_chip m x y with
  | None => (m, RError)
  | Some (xy, ch) => if l >? m_buffer m then (m, RError) else (m, RData (mread m (ch_cores ch) a l))
  end.
Proof. intros. unfold mstep. cbn [q_x q_y q_cmd q_a1 q_a2]. destruct (dest_chip m x y) as [[xy ch]|]; reflexivity. Qed.

Lemma mread_length : forall m cs a l, zlen (mread m cs a l) = Z.max 0 l.
Proof. intros. unfold mread, zlen. rewrite map_length, seq_length. lia. Qed.

Lemma mread_app : forall m cs a l1 l2, 0 <= l1 -> 0 <= l2 ->
  mread m cs a (l1 + l2) = mread m cs a l1 ++ mread m cs (a + l1) l2.
Proof.
  intros m cs a l1 l2 H1 H2. unfold mread. rewrite Z2Nat.inj_add by assumption.
  rewrite seq_app, map_app. f_equal. cbn [Nat.add].
  rewrite <- (seq_shift_by (Z.to_nat l1)) || idtac.
  replace (seq (Z.to_nat l1) (Z.to_nat l2)) with (map (fun i => (Z.to_nat l1 + i)%nat) (seq 0 (Z.to_nat l2))).
  - rewrite map_map. apply map_ext. intros i. f_equal. lia.
  - clear. generalize (Z.to_nat l1) as k. intros k. generalize 0%nat as s. induction (Z.to_nat l2) as [|n IH]; intros s.
    + reflexivity.
    + cbn [seq map]. rewrite IH. f_equal. lia.
Qed.
