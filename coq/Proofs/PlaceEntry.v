(* (1) What the placer proofs assume of the class Machine, as lemmas about its model (whose membership test is
       regenerated from machine.py on every run): membership = in bounds and not listed dead (dead chips listed
       outside the bounds change nothing), item assignment / lookup, iteration.
   (2) The other entry points (breadth_first.place, hilbert.place, rcm.place) as corollaries of the theorems on
       seq_place.
   (3) Soundness of the one-pass checker used on large placements. *)
From Coq Require Import ZArith List Bool Lia.
Require Import Rig.Generated.GenPlaceShape Rig.Model.Base Rig.Model.Place Rig.Spec.Place Rig.Proofs.Place
        Rig.Proofs.PlaceCore Rig.Proofs.PlaceMerge Rig.Proofs.PlaceSeq Rig.Proofs.PlaceComplete Rig.Proofs.PlaceErrors
        Rig.Proofs.PlaceHilbert.
Import ListNotations.
Open Scope Z_scope.

(* ---------------------------------------------------------------------------------------------- *)
(* Machine                                                                                          *)
(* ---------------------------------------------------------------------------------------------- *)
Lemma machine_contains_iff : forall m x y,
  live m (x, y) = true <-> 0 <= x < pm_width m /\ 0 <= y < pm_height m /\ ~ In (x, y) (pm_dead m).
Proof.
  intros m x y. split.
  - intros H. apply live_bounds in H. exact H.
  - intros [Hx [Hy Hd]]. unfold live, gen_machine_contains. cbn [fst snd].
    rewrite !andb_true_iff, !Z.leb_le, !Z.ltb_lt, negb_true_iff. repeat split; try lia.
    destruct (chip_mem (x, y) (pm_dead m)) eqn:E; [|reflexivity]. apply chip_mem_In in E. contradiction.
Qed.

(* dead chips listed outside the bounds (a window cut from a larger system) are immaterial *)
Lemma machine_dead_outside_irrelevant : forall m extra,
  (forall c, In c extra -> ~ (0 <= fst c < pm_width m /\ 0 <= snd c < pm_height m)) ->
  forall c, live {| pm_width := pm_width m; pm_height := pm_height m; pm_res := pm_res m; pm_exc := pm_exc m;
                    pm_dead := pm_dead m ++ extra |} c = live m c.
Proof.
  intros m extra Hout [x y]. apply Bool.eq_true_iff_eq. rewrite !machine_contains_iff.
  cbn [pm_width pm_height pm_dead]. rewrite in_app_iff. split.
  - intros [Hx [Hy Hd]]. split; [exact Hx|]. split; [exact Hy|]. intros H. apply Hd. left. exact H.
  - intros [Hx [Hy Hd]]. split; [exact Hx|]. split; [exact Hy|]. intros [H | H]; [contradiction|].
    apply (Hout (x, y) H). cbn [fst snd]. tauto.
Qed.

(* machine[xy] = r; then machine[xy] is r, every other chip and the frame are untouched; the original value is
   not affected (copy() hands out an independent machine: in the model every update returns a new value) *)
Lemma machine_setitem_getitem : forall m c r m',
  mset m c r = Some m' ->
  mget m' c = Some r
  /\ (forall c', c' <> c -> mget m' c' = mget m c')
  /\ (forall c', live m' c' = live m c')
  /\ live m c = true.
Proof.
  intros m c r m' H. destruct (mset_spec m c r m' H) as [F [_ [L [_ Hcr]]]].
  assert (Hl : forall c', live m' c' = live m c') by (intros c'; apply live_frame; exact F).
  split; [unfold mget; rewrite Hl, L, Hcr, chip_eqb_refl; reflexivity|]. split; [|split; [exact Hl | exact L]].
  intros c' Hne. unfold mget. rewrite Hl, Hcr. apply chip_eqb_neq in Hne. rewrite Hne. reflexivity.
Qed.

Lemma machine_setitem_dead : forall m c r, live m c = false -> mset m c r = None /\ mget m c = None.
Proof. intros m c r H. unfold mset, mget. rewrite H. split; reflexivity. Qed.

(* iter(machine) lists exactly the chips in the machine, each once *)
Lemma machine_iter : forall m, NoDup (raster m) /\ forall c, In c (raster m) <-> live m c = true.
Proof. intros m. split; [apply raster_NoDup | apply raster_In]. Qed.

(* ---------------------------------------------------------------------------------------------- *)
(* Entry points                                                                                     *)
(* ---------------------------------------------------------------------------------------------- *)
Theorem entry_points_sound : forall vr m cs,
  wf_problem vr m cs -> consistent cs ->
  (forall vo co pl, (forall v, In v (map fst vr) -> In v vo) -> bf_place vr m cs vo co = Ok pl -> Feasible vr m cs pl)
  /\ (forall vo pl, (forall o, vo = Some o -> forall v, In v (map fst vr) -> In v o) ->
                    hilbert_place vr m cs vo = Ok pl -> Feasible vr m cs pl)
  /\ (forall vo co pl, (forall v, In v (map fst vr) -> In v vo) -> rcm_place vr m cs vo co = Ok pl -> Feasible vr m cs pl).
Proof.
  intros vr m cs W Hc. unfold bf_place, hilbert_place, rcm_place. split; [|split].
  - intros vo co pl Hvo H. apply (seq_place_sound vr m cs (Some vo) co pl W Hc); [|exact H].
    intros o E. inversion E. subst. exact Hvo.
  - intros vo pl Hvo H. apply (seq_place_sound vr m cs vo _ pl W Hc Hvo H).
  - intros vo co pl Hvo H. apply (seq_place_sound vr m cs (Some vo) (Some co) pl W Hc); [|exact H].
    intros o E. inversion E. subst. exact Hvo.
Qed.

Theorem entry_points_complete : forall vr m cs r0,
  wf_problem vr m cs -> unit_premise vr m cs r0 ->
  (forall vo co, vertex_order_ok vr vo -> (forall o, co = Some o -> chip_order_ok m o) ->
                 exists pl, bf_place vr m cs vo co = Ok pl)
  /\ (forall vo, (forall o, vo = Some o -> vertex_order_ok vr o) -> exists pl, hilbert_place vr m cs vo = Ok pl)
  /\ (forall vo co, vertex_order_ok vr vo -> chip_order_ok m co -> exists pl, rcm_place vr m cs vo co = Ok pl).
Proof.
  intros vr m cs r0 W U. unfold bf_place, hilbert_place, rcm_place. split; [|split].
  - intros vo co Hvo Hco. apply (seq_place_complete vr m cs r0 (Some vo) co W U); [|exact Hco].
    intros o E. inversion E. subst. exact Hvo.
  - intros vo Hvo. apply (hilbert_place_complete vr m cs r0 vo W U Hvo).
  - intros vo co Hvo Hco. apply (seq_place_complete vr m cs r0 (Some vo) (Some co) W U).
    + intros o E. inversion E. subst. exact Hvo.
    + intros o E. inversion E. subst. exact Hco.
Qed.


Theorem entry_points_documented_errors : forall vr m cs,
  wf_problem vr m cs -> consistent cs ->
  (forall vo co, NoDup vo -> vertex_order_ok vr vo -> documented_outcome (bf_place vr m cs vo co))
  /\ (forall vo, (forall o, vo = Some o -> NoDup o /\ vertex_order_ok vr o) -> documented_outcome (hilbert_place vr m cs vo))
  /\ (forall vo co, NoDup vo -> vertex_order_ok vr vo -> documented_outcome (rcm_place vr m cs vo co)).
Proof.
  intros vr m cs W Hc. unfold bf_place, hilbert_place, rcm_place, documented_outcome. split; [|split].
  - intros vo co Hn Hvo. apply (seq_place_documented_errors vr m cs (Some vo) co W Hc).
    intros o E. inversion E. subst. split; assumption.
  - intros vo Hvo. apply (seq_place_documented_errors vr m cs vo _ W Hc Hvo).
  - intros vo co Hn Hvo. apply (seq_place_documented_errors vr m cs (Some vo) (Some co) W Hc).
    intros o E. inversion E. subst. split; assumption.
Qed.

(* ---------------------------------------------------------------------------------------------- *)
(* The one-pass checker                                                                             *)
(* ---------------------------------------------------------------------------------------------- *)
Definition getc (c : chip) (l : list (chip * Z)) : Z := match cassoc c l with Some q => q | None => 0 end.

Lemma getc_cadd : forall c x l c', getc c' (cadd c x l) = getc c' l + (if chip_eqb c' c then x else 0).
Proof.
  intros c x l c'. unfold getc. induction l as [|[c1 v1] t IH]; cbn [cadd cassoc].
  - destruct (chip_eqb c' c); lia.
  - destruct (chip_eqb c c1) eqn:E1; cbn [cassoc].
    + apply chip_eqb_eq in E1. subst c1. destruct (chip_eqb c' c); lia.
    + destruct (chip_eqb c' c1) eqn:E2.
      * apply chip_eqb_eq in E2. subst c1. rewrite chip_eqb_sym, E1. lia.
      * exact IH.
Qed.

Lemma chip_loads_spec : forall (vr : vresources) pl r c, getc c (chip_loads vr pl r) = load vr pl c r.
Proof.
  intros vr pl r c. unfold chip_loads.
  assert (H : forall acc, getc c (fold_left (fun acc vd => match zassoc (fst vd) pl with
                                                           | Some c0 => cadd c0 (rget r (snd vd)) acc
                                                           | None => acc end) vr acc)
                          = getc c acc + load vr pl c r).
  { unfold load. induction vr as [|[v d] t IH]; intros acc; cbn [fold_left map fold_right fst snd]; [lia|].
    rewrite IH. unfold on_chip. destruct (zassoc v pl) as [c0|]; [|lia].
    rewrite getc_cadd. rewrite (chip_eqb_sym c c0). destruct (chip_eqb c0 c); lia. }
  rewrite H. unfold getc. cbn [cassoc]. lia.
Qed.

Theorem check_placement_fast_sound : forall vr m cs pl,
  check_placement_fast vr m cs pl = true -> Feasible vr m cs pl.
Proof.
  intros vr m cs pl H. unfold check_placement_fast in H. rewrite !andb_true_iff in H.
  destruct H as [[[[[Hnd Hsub1] Hsub2] Hlive] Hcap] Hcs].
  rewrite forallb_forall in Hsub1, Hsub2, Hlive, Hcap, Hcs.
  constructor.
  - apply nodupb_NoDup. exact Hnd.
  - intros v. split; intros Hin; apply zmem_In; [apply Hsub1 | apply Hsub2]; exact Hin.
  - intros v c Hz. apply zassoc_In in Hz. apply (Hlive (v, c)). exact Hz.
  - intros c r Hl.
    destruct (in_dec Z.eq_dec r (all_resources vr m cs)) as [Hin | Hni].
    + assert (Hd : In r (dedup (all_resources vr m cs))) by (apply dedup_In; exact Hin).
      specialize (Hcap r Hd). rewrite forallb_forall in Hcap.
      rewrite <- (chip_loads_spec vr pl r c). unfold getc.
      destruct (cassoc c (chip_loads vr pl r)) as [q|] eqn:E; [|lia].
      apply cassoc_In in E. specialize (Hcap (c, q) E). cbn [fst snd] in Hcap. rewrite Hl in Hcap. cbn [negb orb] in Hcap.
      apply Z.leb_le. exact Hcap.
    + unfold all_resources in Hni. rewrite !in_app_iff in Hni.
      rewrite load_unmentioned.
      * rewrite capacity_unmentioned, reserved_unmentioned; [lia | tauto | tauto | tauto].
      * intros vd Hvd Hr. apply Hni. right. right. left. apply in_flat_map. exists vd. split; assumption.
  - intros v c Hin. apply (check_constraint_sound pl (PCLocation v c)). apply Hcs. exact Hin.
  - intros vs Hin. apply (check_constraint_sound pl (PCSameChip vs)). apply Hcs. exact Hin.
Qed.
