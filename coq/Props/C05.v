(* C05 -- Allocated resource ranges are exact, in range, disjoint and unreserved.
   This file holds the property theorems only; each is closed by `exact` of a lemma of
   Proofs/Alloc.v.  The model (Model/Alloc.v) calls the generated kernels of Generated/GenAlloc.v,
   so these theorems are re-checked against the current text of align / slices_overlap. *)
From Coq Require Import ZArith List Bool Permutation.
Require Import Rig.Generated.GenAlloc Rig.Model.Base Rig.Model.Alloc Rig.Spec.Alloc Rig.Proofs.Alloc.
Import ListNotations.
Open Scope Z_scope.

(* Soundness, for every input of the model: whatever allocate returns satisfies every clause. *)
Theorem C05_allocate_sound :
  forall vres m cs pl alloc,
    aligns_positive cs -> requests_nonneg vres -> NoDup (map fst pl) ->
    allocate vres m cs pl = Ok alloc ->
    allocation_sound vres m cs pl alloc.
Proof. exact allocate_sound. Qed.

(* The retry loop's bound is never reached: the model's fuel is not a hidden restriction, and the
   loop of the code terminates (each retry moves the pointer strictly upward to a reservation's end). *)
Theorem C05_allocate_terminates :
  forall vres m cs pl, aligns_positive cs -> allocate vres m cs pl <> OutOfFuel.
Proof. exact allocate_terminates. Qed.

(* Its only failure is the documented insufficient-resource error. *)
Theorem C05_allocate_only_error :
  forall vres m cs pl, well_formed vres m cs pl ->
    (exists alloc, allocate vres m cs pl = Ok alloc) \/ allocate vres m cs pl = Failed 0.
Proof. exact allocate_only_error. Qed.

(* Completeness: no alignment constraints, reservations only at the ends, feasible placement. *)
Theorem C05_allocate_complete :
  forall vres m cs pl,
    well_formed vres m cs pl -> no_alignment cs -> requests_nonneg vres ->
    feasible_ends vres m cs pl ->
    exists alloc, allocate vres m cs pl = Ok alloc.
Proof. exact allocate_complete. Qed.

(* Non-vacuity: a chip with interleaved reservations and alignment 4 meets the hypotheses and the
   allocator succeeds on it; a prefix+suffix reservation instance meets the completeness guard. *)
Example C05_hypotheses_satisfiable :
  exists alloc, allocate ex_vres ex_machine ex_constraints ex_placements = Ok alloc
                /\ aligns_positive ex_constraints /\ requests_nonneg ex_vres
                /\ NoDup (map fst ex_placements) /\ alloc <> [].
Proof. exact ex_sound_instance. Qed.

Example C05_complete_guard_satisfiable :
  well_formed ex_vres ex_machine ex2_constraints ex_placements /\ no_alignment ex2_constraints
  /\ requests_nonneg ex_vres /\ feasible_ends ex_vres ex_machine ex2_constraints ex_placements.
Proof. exact ex_complete_instance. Qed.
