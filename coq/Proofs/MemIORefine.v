(* C13 -- the memory views refine ONE fixed-length file seen through windows (Spec/MemIO.v):
   every method call on a view, in any state that represents a file, shows what the file operation
   shows (value, error, truncation warning) and leaves a state that represents the file afterwards.
   No axioms. *)
From Coq Require Import ZArith List Bool Lia.
Require Import Rig.Generated.GenMemIO Rig.Model.Base Rig.Model.MemIO Rig.Spec.MemIO Rig.Proofs.MemIO.
Import ListNotations.
Open Scope Z_scope.

(* ------------------------------------------------------------------------------------------ *)
(* lists and memory                                                                             *)
(* ------------------------------------------------------------------------------------------ *)
Lemma nth_firstn_lt : forall A (l : list A) k i d, (i < k)%nat -> nth i (firstn k l) d = nth i l d.
Proof.
  intros A l. induction l as [|a l IH]; intros k i d H.
  - rewrite firstn_nil. reflexivity.
  - destruct k as [|k]; [lia|]. destruct i as [|i]; cbn [firstn nth]; [reflexivity|]. apply IH. lia.
Qed.

Lemma nth_skipn_add : forall A p (l : list A) i d, nth i (skipn p l) d = nth (p + i) l d.
Proof.
  intros A p. induction p as [|p IH]; intros l i d.
  - reflexivity.
  - destruct l as [|a l]; cbn [skipn Nat.add nth].
    + destruct i; reflexivity.
    + apply IH.
Qed.

Lemma nth_mem_read : forall m a n i, (i < Z.to_nat n)%nat -> nth i (mem_read m a n) 0 = m (a + Z.of_nat i).
Proof.
  intros m a n i H. unfold mem_read. apply nth_error_nth.
  apply (map_nth_error (fun j => m (a + Z.of_nat j)) i (seq 0 (Z.to_nat n)) (d := i)).
  rewrite (nth_error_nth' _ 0%nat) by (rewrite seq_length; exact H).
  rewrite seq_nth by exact H. reflexivity.
Qed.

Lemma to_nat_zlen : forall A (l : list A), Z.to_nat (zlen l) = length l.
Proof. intros A l. unfold zlen. apply Nat2Z.id. Qed.

Definition agree (m : mem) (base : Z) (d : list Z) : Prop :=
  forall i, (i < length d)%nat -> m (base + Z.of_nat i) = nth i d 0.

Lemma mem_read_agree : forall m base d, mem_read m base (zlen d) = d <-> agree m base d.
Proof.
  intros m base d. split.
  - intros H i Hi. transitivity (nth i (mem_read m base (zlen d)) 0); [|rewrite H; reflexivity].
    symmetry. apply nth_mem_read. rewrite to_nat_zlen. exact Hi.
  - intros H. apply (nth_ext _ _ 0 0).
    + unfold mem_read. rewrite map_length, seq_length. apply to_nat_zlen.
    + intros i Hi. unfold mem_read in Hi. rewrite map_length, seq_length, to_nat_zlen in Hi.
      rewrite nth_mem_read by (rewrite to_nat_zlen; exact Hi). apply H. exact Hi.
Qed.

Lemma mem_read_zero : forall m a, mem_read m a 0 = [].
Proof. reflexivity. Qed.

Lemma sub_zero : forall d p, sub d p 0 = [].
Proof. reflexivity. Qed.

Lemma read_is_sub : forall m base d p k,
  agree m base d -> 0 <= p -> 0 <= k -> p + k <= zlen d ->
  mem_read m (base + p) k = sub d p k.
Proof.
  intros m base d p k Hag Hp Hk Hle. unfold zlen in Hle.
  apply (nth_ext _ _ 0 0).
  - unfold mem_read, sub. rewrite map_length, seq_length, firstn_length, skipn_length. lia.
  - intros i Hi. unfold mem_read in Hi. rewrite map_length, seq_length in Hi.
    rewrite nth_mem_read by exact Hi. unfold sub.
    rewrite nth_firstn_lt by exact Hi. rewrite nth_skipn_add.
    rewrite <- Hag by lia. f_equal. lia.
Qed.

Lemma splice_length : forall d p bs,
  0 <= p -> p + zlen bs <= zlen d -> length (splice d p bs) = length d.
Proof.
  intros d p bs Hp Hle. unfold zlen in Hle. unfold splice.
  rewrite !app_length, firstn_length, skipn_length. lia.
Qed.

Lemma write_is_splice : forall m base d p bs,
  agree m base d -> 0 <= p -> p + zlen bs <= zlen d ->
  agree (mem_write m (base + p) bs) base (splice d p bs).
Proof.
  intros m base d p bs Hag Hp Hle i Hi.
  rewrite splice_length in Hi by assumption.
  unfold zlen in Hle. unfold mem_write, splice, zlen.
  assert (Hfl : length (firstn (Z.to_nat p) d) = Z.to_nat p) by (rewrite firstn_length; lia).
  destruct (Z.leb_spec (base + p) (base + Z.of_nat i)) as [H1|H1];
    [destruct (Z.ltb_spec (base + Z.of_nat i) (base + p + Z.of_nat (length bs))) as [H2|H2]|]; cbn [andb].
  - rewrite app_nth2 by lia. rewrite app_nth1 by lia. f_equal. lia.
  - rewrite app_nth2 by lia. rewrite app_nth2 by lia. rewrite nth_skipn_add.
    rewrite Hag by exact Hi. f_equal. lia.
  - rewrite app_nth1 by lia. rewrite nth_firstn_lt by lia. apply Hag. exact Hi.
Qed.

(* ------------------------------------------------------------------------------------------ *)
(* Forall2 plumbing                                                                             *)
(* ------------------------------------------------------------------------------------------ *)
Lemma Forall2_nth_error : forall A B (R : A -> B -> Prop) l1 l2 i,
  Forall2 R l1 l2 ->
  match nth_error l1 i, nth_error l2 i with
  | Some x, Some y => R x y
  | None, None => True
  | _, _ => False
  end.
Proof.
  intros A B R l1 l2 i H. revert i. induction H as [|x y l1 l2 Hxy H IH]; intros i.
  - destruct i; exact I.
  - destruct i as [|i]; cbn [nth_error]; [exact Hxy | apply IH].
Qed.

Lemma Forall2_set_nth : forall A B (R : A -> B -> Prop) l1 l2 i x y,
  Forall2 R l1 l2 -> R x y -> Forall2 R (set_nth i x l1) (set_nth i y l2).
Proof.
  intros A B R l1 l2 i x y H Hxy. revert i. induction H as [|a b l1 l2 Hab H IH]; intros i.
  - destruct i; constructor.
  - destruct i as [|i]; cbn [set_nth]; constructor; try assumption. apply IH.
Qed.

(* ------------------------------------------------------------------------------------------ *)
(* one method call against one file operation                                                   *)
(* ------------------------------------------------------------------------------------------ *)
Definition win_ok (n : Z) (w : window) : Prop := 0 <= w_lo w /\ w_lo w <= w_hi w /\ w_hi w <= n.

Definition new_is (base n : Z) (x : option view) (y : option window) : Prop :=
  match x, y with
  | Some v, Some w => view_is base v w /\ win_ok n w
  | None, None => True
  | _, _ => False
  end.

Lemma view_is_dead : forall base v w fr, view_is base v w -> dead fr v = (w_closed w || fr).
Proof. intros base v w fr (_ & _ & _ & Hc). unfold dead. rewrite Hc. reflexivity. Qed.

Lemma view_is_len : forall base v w, view_is base v w -> vlen v = wlen w.
Proof. intros base v w (Hs & He & _ & _). unfold vlen, gen_len, wlen. lia. Qed.

Lemma view_is_set_off : forall base v w p, view_is base v w -> view_is base (set_off v p) (set_pos w p).
Proof. intros base v w p (Hs & He & Ho & Hc). unfold view_is, set_off, set_pos. cbn. repeat split; assumption. Qed.

Lemma read_refines : forall base m d v w n v1 r,
  view_is base v w -> win_ok (zlen d) w -> agree m base d -> read m v n = (v1, r) ->
  let req := if n <? 0 then wlen w - w_pos w else n in
  let k := transfer (w_pos w) req (wlen w) in
  view_is base v1 (set_pos w (w_pos w + k))
  /\ output_is base r (Ok (VBytes (sub d (w_lo w + w_pos w) k)), warned (w_pos w) req (wlen w))
  /\ o_calls r = (if 0 <? k then [CRead (address v) k] else [])
  /\ agree (apply_calls m (o_calls r)) base d.
Proof.
  intros base m d v w n v1 r Hvw Hok Hag Hr.
  pose proof (view_is_len _ _ _ Hvw) as Hlen.
  pose proof Hvw as Hvw0. destruct Hvw0 as (Hs & He & Ho & Hc).
  destruct (read_transfers _ _ _ _ _ Hr) as (Hres & Hv' & Hw & Hcalls). cbv zeta in *.
  assert (Hreq : read_req v n = (if n <? 0 then wlen w - w_pos w else n)).
  { unfold read_req. rewrite Hlen, Ho. reflexivity. }
  rewrite Hreq, Hlen, Ho in *.
  set (k := transfer (w_pos w) (if n <? 0 then wlen w - w_pos w else n) (wlen w)) in *.
  assert (Haddr : address v = base + (w_lo w + w_pos w)) by (unfold address, gen_address; lia).
  split; [subst v1; apply view_is_set_off; exact Hvw|].
  split; [|split; [exact Hcalls|rewrite Hcalls; destruct (0 <? k); exact Hag]].
  split; [|exact Hw]. cbn [fst]. rewrite Hres. cbn [result_is value_is].
  rewrite Haddr. f_equal.
  destruct (Z.ltb_spec 0 k) as [Hk|Hk].
  - destruct (transfer_bounds _ _ _ Hk) as (Hp0 & Hpk). fold k in Hpk. unfold wlen, win_ok in *.
    apply (read_is_sub _ _ _ _ _ Hag); lia.
  - assert (Hk0 : k = 0) by (unfold k, transfer in *; zcases; lia).
    rewrite Hk0. reflexivity.
Qed.

Lemma write_refines : forall base m d v w bs v1 r,
  view_is base v w -> win_ok (zlen d) w -> agree m base d -> write v bs = (v1, r) ->
  let k := transfer (w_pos w) (zlen bs) (wlen w) in
  let d' := if 0 <? k then splice d (w_lo w + w_pos w) (firstn (Z.to_nat k) bs) else d in
  view_is base v1 (set_pos w (w_pos w + k))
  /\ output_is base r (Ok (VInt k), warned (w_pos w) (zlen bs) (wlen w))
  /\ o_calls r = (if 0 <? k then [CWrite (address v) (firstn (Z.to_nat k) bs)] else [])
  /\ length d' = length d
  /\ agree (apply_calls m (o_calls r)) base d'.
Proof.
  intros base m d v w bs v1 r Hvw Hok Hag Hr.
  pose proof (view_is_len _ _ _ Hvw) as Hlen.
  pose proof Hvw as Hvw0. destruct Hvw0 as (Hs & He & Ho & Hc).
  destruct (write_transfers _ _ _ _ Hr) as (Hres & Hv' & Hw & Hcalls). cbv zeta in *.
  rewrite Hlen, Ho in *.
  set (k := transfer (w_pos w) (zlen bs) (wlen w)) in *.
  assert (Haddr : address v = base + (w_lo w + w_pos w)) by (unfold address, gen_address; lia).
  assert (Hfit : 0 < k -> 0 <= w_lo w + w_pos w /\
                          w_lo w + w_pos w + zlen (firstn (Z.to_nat k) bs) <= zlen d).
  { intros Hk. destruct (transfer_bounds _ _ _ Hk) as (Hp0 & Hpk). fold k in Hpk.
    rewrite zlen_firstn by lia. unfold wlen, win_ok in *. lia. }
  split; [subst v1; apply view_is_set_off; exact Hvw|].
  split; [split; [cbn [fst]; rewrite Hres; reflexivity | exact Hw]|].
  split; [exact Hcalls|].
  split.
  - destruct (Z.ltb_spec 0 k) as [Hk|Hk]; [|reflexivity]. apply splice_length; apply Hfit; exact Hk.
  - rewrite Hcalls. destruct (Z.ltb_spec 0 k) as [Hk|Hk]; [|exact Hag].
    cbn [apply_calls fold_left apply_call]. rewrite Haddr.
    apply write_is_splice; [exact Hag| |]; apply Hfit; exact Hk.
Qed.

Lemma vstep_refines : forall base fr m d v w vo v' nw out,
  view_is base v w -> win_ok (zlen d) w -> agree m base d ->
  vstep fr m v vo = (v', nw, out) ->
  exists w' nwin d' aout,
    wstep fr d w (abs_vop vo) = (w', nwin, d', aout)
    /\ view_is base v' w' /\ win_ok (zlen d') w'
    /\ length d' = length d
    /\ new_is base (zlen d') nw nwin
    /\ output_is base out aout
    /\ agree (apply_calls m (o_calls out)) base d'.
Proof.
  intros base fr m d v w vo v' nw out Hvw Hok Hag Hstep.
  pose proof (view_is_dead _ _ _ fr Hvw) as Hdead.
  pose proof (view_is_len _ _ _ Hvw) as Hlen.
  pose proof Hvw as Hvw0. destruct Hvw0 as (Hs & He & Ho & Hc).
  (* the shape of every branch that changes neither the file nor the list of views *)
  assert (Hquiet : forall (w1 : window) (r : result value) (ar : result value) (v1 : view),
            view_is base v1 w1 -> w_lo w1 = w_lo w -> w_hi w1 = w_hi w -> result_is base r ar ->
            (v', nw, out) = (v1, @None view, mkOut r 0 []) ->
            exists w' nwin d' aout,
              (w1, @None window, d, (ar, false)) = (w', nwin, d', aout)
              /\ view_is base v' w' /\ win_ok (zlen d') w' /\ length d' = length d
              /\ new_is base (zlen d') nw nwin /\ output_is base out aout
              /\ agree (apply_calls m (o_calls out)) base d').
  { intros w1 r ar v1 Hv1 Hlo Hhi Hr Heq. inversion Heq; subst v' nw out.
    exists w1, None, d, (ar, false). split; [reflexivity|]. split; [exact Hv1|].
    split; [unfold win_ok in *; rewrite Hlo, Hhi; exact Hok|]. split; [reflexivity|].
    split; [exact I|]. split; [split; [exact Hr|reflexivity]|]. exact Hag. }
  (* the same with warnings given before the failure *)
  assert (Hquiet2 : forall (r : Z) (wn : Z) (b : bool),
            (0 <? wn) = b ->
            (v', nw, out) = (v, @None view, mkOut (Failed r) wn []) ->
            exists w' nwin d' aout,
              (w, @None window, d, (Failed r, b)) = (w', nwin, d', aout)
              /\ view_is base v' w' /\ win_ok (zlen d') w' /\ length d' = length d
              /\ new_is base (zlen d') nw nwin /\ output_is base out aout
              /\ agree (apply_calls m (o_calls out)) base d').
  { intros r wn b Hb Heq. inversion Heq; subst v' nw out.
    exists w, None, d, (Failed r, b). split; [reflexivity|]. split; [exact Hvw|].
    split; [exact Hok|]. split; [reflexivity|].
    split; [exact I|]. split; [split; [reflexivity|exact Hb]|]. exact Hag. }
  destruct vo as [n wh|n|bs|a b step| | | | | |n|bs|n|bs| | ]; cbn [vstep abs_vop] in Hstep |- *.
  - (* seek *)
    destruct (dead fr v) eqn:Ed.
    { assert (Hw : wstep fr d w (if wh =? 0 then FSeekSet n else if wh =? 1 then FSeekCur n
                                             else if wh =? 2 then FSeekEnd (- n) else FSeekBad)
                            = (w, None, d, (Failed 0, false))).
      { destruct (wh =? 0); [|destruct (wh =? 1); [|destruct (wh =? 2)]];
          cbn [wstep]; rewrite <- Hdead; reflexivity. }
      rewrite Hw. symmetry in Hstep.
      apply (Hquiet w (Failed 0) (Failed 0) v Hvw eq_refl eq_refl eq_refl Hstep). }
    unfold seek, gen_seek in Hstep.
    destruct (wh =? 0); [|destruct (wh =? 1); [|destruct (wh =? 2)]];
      cbn [wstep]; rewrite <- Hdead; cbn in Hstep; symmetry in Hstep.
    + apply (Hquiet (set_pos w n) (Ok VNone) (Ok VNone) (set_off v n)
               (view_is_set_off _ _ _ _ Hvw) eq_refl eq_refl I Hstep).
    + rewrite <- Ho.
      apply (Hquiet (set_pos w (v_off v + n)) (Ok VNone) (Ok VNone) (set_off v (v_off v + n))
               (view_is_set_off _ _ _ _ Hvw) eq_refl eq_refl I Hstep).
    + replace (wlen w + - n) with (v_end v - v_start v - n) by (unfold wlen; lia).
      apply (Hquiet (set_pos w (v_end v - v_start v - n)) (Ok VNone) (Ok VNone)
               (set_off v (v_end v - v_start v - n))
               (view_is_set_off _ _ _ _ Hvw) eq_refl eq_refl I Hstep).
    + apply (Hquiet w (Failed 1) (Failed 1) v Hvw eq_refl eq_refl eq_refl Hstep).
  - (* read *)
    cbn [wstep]. rewrite <- Hdead.
    destruct (dead fr v) eqn:Ed.
    { symmetry in Hstep. apply (Hquiet w (Failed 0) (Failed 0) v Hvw eq_refl eq_refl eq_refl Hstep). }
    destruct (read m v n) as [v1 r] eqn:Hr. inversion Hstep; subst v1 nw r; clear Hstep.
    destruct (read_transfers _ _ _ _ _ Hr) as (Hres & Hv' & Hw & Hcalls). cbv zeta in *.
    assert (Hreq : read_req v n = (if n <? 0 then wlen w - w_pos w else n)).
    { unfold read_req. rewrite Hlen, Ho. reflexivity. }
    rewrite Hreq, Hlen, Ho in *.
    set (k := transfer (w_pos w) (if n <? 0 then wlen w - w_pos w else n) (wlen w)) in *.
    eexists _, None, d, _. split; [reflexivity|].
    split; [try subst v'; apply view_is_set_off; exact Hvw|].
    split; [exact Hok|]. split; [reflexivity|]. split; [exact I|].
    assert (Haddr : address v = base + (w_lo w + w_pos w)) by (unfold address, gen_address; lia).
    split.
    + split; [|exact Hw]. cbn [fst]. rewrite Hres. cbn [result_is value_is].
      rewrite Haddr. f_equal.
      destruct (Z.ltb_spec 0 k) as [Hk|Hk].
      * destruct (transfer_bounds _ _ _ Hk) as (Hp0 & Hpk). fold k in Hpk. unfold wlen, win_ok in *.
        apply (read_is_sub _ _ _ _ _ Hag); lia.
      * assert (Hk0 : k = 0).
        { unfold k, transfer in *. zcases; lia. }
        rewrite Hk0. reflexivity.
    + rewrite Hcalls. destruct (0 <? k); exact Hag.
  - (* write *)
    cbn [wstep]. rewrite <- Hdead.
    destruct (dead fr v) eqn:Ed.
    { symmetry in Hstep. apply (Hquiet w (Failed 0) (Failed 0) v Hvw eq_refl eq_refl eq_refl Hstep). }
    destruct (write v bs) as [v1 r] eqn:Hr. inversion Hstep; subst v1 nw r; clear Hstep.
    destruct (write_transfers _ _ _ _ Hr) as (Hres & Hv' & Hw & Hcalls). cbv zeta in *.
    rewrite Hlen, Ho in *.
    set (k := transfer (w_pos w) (zlen bs) (wlen w)) in *.
    assert (Haddr : address v = base + (w_lo w + w_pos w)) by (unfold address, gen_address; lia).
    assert (Hk_nonneg : 0 <= k) by (unfold k, transfer; zcases; lia).
    assert (Hfit : 0 < k -> 0 <= w_lo w + w_pos w /\
                            w_lo w + w_pos w + zlen (firstn (Z.to_nat k) bs) <= zlen d).
    { intros Hk. destruct (transfer_bounds _ _ _ Hk) as (Hp0 & Hpk). fold k in Hpk.
      rewrite zlen_firstn by lia. unfold wlen, win_ok in *. lia. }
    eexists _, None, _, _. split; [reflexivity|].
    split; [try subst v'; apply view_is_set_off; exact Hvw|].
    assert (Hlen' : length (if 0 <? k then splice d (w_lo w + w_pos w) (firstn (Z.to_nat k) bs) else d)
                    = length d).
    { destruct (Z.ltb_spec 0 k) as [Hk|Hk]; [|reflexivity]. apply splice_length; apply Hfit; exact Hk. }
    assert (Hzlen' : zlen (if 0 <? k then splice d (w_lo w + w_pos w) (firstn (Z.to_nat k) bs) else d)
                     = zlen d) by (unfold zlen; rewrite Hlen'; reflexivity).
    split; [rewrite Hzlen'; exact Hok|]. split; [exact Hlen'|]. split; [exact I|].
    split.
    + split; [|exact Hw]. cbn [fst]. rewrite Hres. cbn [result_is value_is]. reflexivity.
    + rewrite Hcalls. destruct (Z.ltb_spec 0 k) as [Hk|Hk]; [|exact Hag].
      cbn [apply_calls fold_left apply_call]. rewrite Haddr.
      apply write_is_splice; [exact Hag| |]; apply Hfit; exact Hk.
  - (* slice *)
    cbn [wstep].
    destruct (dead fr v) eqn:Ed.
    { assert (Hw : wstep fr d w (FSlice a b step) = (w, None, d, (Failed 0, false))).
      { cbn [wstep]. rewrite <- Hdead. destruct (contiguous step); reflexivity. }
      cbn [wstep] in Hw. rewrite Hw. symmetry in Hstep.
      apply (Hquiet w (Failed 0) (Failed 0) v Hvw eq_refl eq_refl eq_refl Hstep). }
    rewrite <- Hdead.
    destruct (contiguous step).
    2:{ symmetry in Hstep. apply (Hquiet w (Failed 1) (Failed 1) v Hvw eq_refl eq_refl eq_refl Hstep). }
    inversion Hstep; subst v' nw out; clear Hstep.
    assert (Hwf : v_start v <= v_end v) by (unfold win_ok in Hok; lia).
    destruct (slice_view_clip v a b Hwf) as (Hcs & Hce). cbv zeta in Hcs, Hce.
    destruct (slice_view_nested v a b Hwf) as (Hn1 & Hn2 & Hn3). cbv zeta in Hn1, Hn2, Hn3.
    rewrite Hlen in Hcs, Hce.
    eexists w, (Some _), d, _. split; [reflexivity|].
    split; [exact Hvw|]. split; [exact Hok|]. split; [reflexivity|].
    assert (Hnv : view_is base (slice_view v a b)
                    (mkWindow (w_lo w + clip_start (wlen w) a)
                              (w_lo w + Z.max (clip_start (wlen w) a) (clip_stop (wlen w) b)) 0 false)).
    { unfold view_is. cbn [w_lo w_hi w_pos w_closed]. rewrite Hcs, Hce.
      repeat split; try reflexivity; lia. }
    split.
    + split; [exact Hnv|]. unfold win_ok in *. cbn [w_lo w_hi]. lia.
    + split; [|exact Hag]. split; [|reflexivity]. cbn [fst o_res ok result_is value_is w_lo w_hi].
      split.
      * change (v_start (slice_view v a b) = base + (w_lo w + clip_start (wlen w) a)). lia.
      * change (v_end (slice_view v a b)
                = base + (w_lo w + Z.max (clip_start (wlen w) a) (clip_stop (wlen w) b))). lia.
  - (* tell *)
    cbn [wstep]. rewrite <- Hdead. symmetry in Hstep.
    destruct (dead fr v) eqn:Ed.
    + apply (Hquiet w (Failed 0) (Failed 0) v Hvw eq_refl eq_refl eq_refl Hstep).
    + apply (Hquiet w (Ok (VInt (v_off v))) (Ok (VInt (w_pos w))) v Hvw eq_refl eq_refl Ho Hstep).
  - (* len *)
    cbn [wstep]. symmetry in Hstep.
    apply (Hquiet w (Ok (VInt (vlen v))) (Ok (VInt (wlen w))) v Hvw eq_refl eq_refl Hlen Hstep).
  - (* address *)
    cbn [wstep]. rewrite <- Hdead. symmetry in Hstep.
    destruct (dead fr v) eqn:Ed.
    + apply (Hquiet w (Failed 0) (Failed 0) v Hvw eq_refl eq_refl eq_refl Hstep).
    + apply (Hquiet w (Ok (VAddr (address v))) (Ok (VAddr (w_lo w + w_pos w))) v Hvw eq_refl eq_refl);
        [|exact Hstep]. cbn [result_is value_is]. unfold address, gen_address. lia.
  - (* flush *)
    cbn [wstep]. rewrite <- Hdead. symmetry in Hstep.
    destruct (dead fr v) eqn:Ed.
    + apply (Hquiet w (Failed 0) (Failed 0) v Hvw eq_refl eq_refl eq_refl Hstep).
    + apply (Hquiet w (Ok VNone) (Ok VNone) v Hvw eq_refl eq_refl I Hstep).
  - (* close *)
    cbn [wstep]. rewrite <- Hc. unfold close_step in Hstep. symmetry in Hstep.
    destruct (v_closed v) eqn:Ecl.
    + apply (Hquiet w (Ok VNone) (Ok VNone) v Hvw eq_refl eq_refl I Hstep).
    + destruct fr.
      * apply (Hquiet w (Failed 0) (Failed 0) v Hvw eq_refl eq_refl eq_refl Hstep).
      * apply (Hquiet (mkWindow (w_lo w) (w_hi w) (w_pos w) true) (Ok VNone) (Ok VNone) (set_closed v));
          try reflexivity; try exact Hstep; try exact I.
        unfold view_is, set_closed. cbn. repeat split; assumption.
  - (* read, the controller raising during the transfer *)
    cbn [wstep]. rewrite <- Hdead.
    destruct (dead fr v) eqn:Ed.
    { symmetry in Hstep. apply (Hquiet w (Failed 0) (Failed 0) v Hvw eq_refl eq_refl eq_refl Hstep). }
    destruct (read m v n) as [v1 r] eqn:Hr.
    destruct (read_refines _ _ _ _ _ _ _ _ Hvw Hok Hag Hr) as (Hv1 & Hout & Hcalls & Hag'). cbv zeta in *.
    unfold faulted in Hstep. cbn [fst snd] in Hstep. rewrite Hcalls in Hstep.
    destruct (0 <? transfer (w_pos w) (if n <? 0 then wlen w - w_pos w else n) (wlen w)) eqn:Ek.
    + symmetry in Hstep. apply (Hquiet2 2 (o_warns r) _ (proj2 Hout) Hstep).
    + inversion Hstep; subst v' nw out; clear Hstep.
      eexists _, None, d, _. split; [reflexivity|]. split; [exact Hv1|]. split; [exact Hok|].
      split; [reflexivity|]. split; [exact I|]. split; [exact Hout|exact Hag'].
  - (* write, the controller raising during the transfer *)
    cbn [wstep]. rewrite <- Hdead.
    destruct (dead fr v) eqn:Ed.
    { symmetry in Hstep. apply (Hquiet w (Failed 0) (Failed 0) v Hvw eq_refl eq_refl eq_refl Hstep). }
    destruct (write v bs) as [v1 r] eqn:Hr.
    destruct (write_refines _ _ _ _ _ _ _ _ Hvw Hok Hag Hr) as (Hv1 & Hout & Hcalls & Hlen' & Hag').
    cbv zeta in *.
    unfold faulted in Hstep. cbn [fst snd] in Hstep. rewrite Hcalls in Hstep.
    destruct (0 <? transfer (w_pos w) (zlen bs) (wlen w)) eqn:Ek.
    + symmetry in Hstep. apply (Hquiet2 2 (o_warns r) _ (proj2 Hout) Hstep).
    + inversion Hstep; subst v' nw out; clear Hstep.
      eexists _, None, d, _. split; [reflexivity|]. split; [exact Hv1|]. split; [exact Hok|].
      split; [reflexivity|]. split; [exact I|]. split; [exact Hout|exact Hag'].
  - (* read, TruncationWarning raised as an exception *)
    cbn [wstep]. rewrite <- Hdead.
    destruct (dead fr v) eqn:Ed.
    { symmetry in Hstep. apply (Hquiet w (Failed 0) (Failed 0) v Hvw eq_refl eq_refl eq_refl Hstep). }
    destruct (read m v n) as [v1 r] eqn:Hr.
    destruct (read_refines _ _ _ _ _ _ _ _ Hvw Hok Hag Hr) as (Hv1 & Hout & Hcalls & Hag'). cbv zeta in *.
    unfold strict in Hstep. cbn [fst snd] in Hstep. destruct Hout as (Hout1 & Hout2). cbn [snd] in Hout2.
    rewrite <- Hout2.
    destruct (0 <? o_warns r) eqn:Ew.
    + symmetry in Hstep. apply (Hquiet2 3 0 false eq_refl Hstep).
    + inversion Hstep; subst v' nw out; clear Hstep.
      eexists _, None, d, _. split; [reflexivity|]. split; [exact Hv1|]. split; [exact Hok|].
      split; [reflexivity|]. split; [exact I|]. split; [split; [exact Hout1|exact Ew]|exact Hag'].
  - (* write, TruncationWarning raised as an exception *)
    cbn [wstep]. rewrite <- Hdead.
    destruct (dead fr v) eqn:Ed.
    { symmetry in Hstep. apply (Hquiet w (Failed 0) (Failed 0) v Hvw eq_refl eq_refl eq_refl Hstep). }
    destruct (write v bs) as [v1 r] eqn:Hr.
    destruct (write_refines _ _ _ _ _ _ _ _ Hvw Hok Hag Hr) as (Hv1 & Hout & Hcalls & Hlen' & Hag').
    cbv zeta in *.
    unfold strict in Hstep. cbn [fst snd] in Hstep. destruct Hout as (Hout1 & Hout2). cbn [snd] in Hout2.
    rewrite <- Hout2.
    destruct (0 <? o_warns r) eqn:Ew.
    + symmetry in Hstep. apply (Hquiet2 3 0 false eq_refl Hstep).
    + inversion Hstep; subst v' nw out; clear Hstep.
      eexists _, None, _, _. split; [reflexivity|]. split; [exact Hv1|].
      assert (Hok' : forall (dd : list Z) p, length dd = length d -> win_ok (zlen dd) (set_pos w p)).
      { intros dd p Hdd. unfold zlen. rewrite Hdd. exact Hok. }
      split; [exact (Hok' _ _ Hlen')|]. split; [exact Hlen'|]. split; [exact I|].
      split; [split; [exact Hout1|exact Ew]|exact Hag'].
  - (* __enter__ *)
    cbn [wstep]. symmetry in Hstep.
    apply (Hquiet w (Ok VNone) (Ok VNone) v Hvw eq_refl eq_refl I Hstep).
  - (* __exit__ = close *)
    cbn [wstep]. rewrite <- Hc. unfold close_step in Hstep. symmetry in Hstep.
    destruct (v_closed v) eqn:Ecl.
    + apply (Hquiet w (Ok VNone) (Ok VNone) v Hvw eq_refl eq_refl I Hstep).
    + destruct fr.
      * apply (Hquiet w (Failed 0) (Failed 0) v Hvw eq_refl eq_refl eq_refl Hstep).
      * apply (Hquiet (mkWindow (w_lo w) (w_hi w) (w_pos w) true) (Ok VNone) (Ok VNone) (set_closed v));
          try reflexivity; try exact Hstep; try exact I.
        unfold view_is, set_closed. cbn. repeat split; assumption.
Qed.

(* ------------------------------------------------------------------------------------------ *)
(* states and histories                                                                         *)
(* ------------------------------------------------------------------------------------------ *)
Lemma represents_unfold : forall base st f,
  represents base st f <->
  Forall2 (view_is base) (st_views st) (a_wins f) /\ st_freed st = a_freed f
  /\ agree (st_mem st) base (a_data f) /\ Forall (win_ok (zlen (a_data f))) (a_wins f).
Proof.
  intros base st f. unfold represents. rewrite mem_read_agree. unfold win_ok. tauto.
Qed.

Lemma step_refines : forall base st f o,
  represents base st f ->
  represents base (fst (step st o)) (fst (astep f (abs_op o)))
  /\ output_is base (snd (step st o)) (snd (astep f (abs_op o))).
Proof.
  intros base st f o Hrep. apply represents_unfold in Hrep. destruct Hrep as (Hviews & Hfr & Hag & Hok).
  destruct o as [i vo| |]; unfold step, step_with, astep; cbn [abs_op].
  3:{ (* free() with sdram_free raising: both sides stay as they are *)
      assert (Hsame : represents base st f) by (apply represents_unfold; repeat split; assumption).
      inversion Hviews as [Hl1 Hl2 | x y l1 l2 Hxy Hrest Hl1 Hl2].
      - cbn [fst snd]. split; [exact Hsame|]. split; [exact I|reflexivity].
      - rewrite <- Hfr. destruct (st_freed st); cbn [fst snd]; (split; [exact Hsame|]);
          (split; [reflexivity|reflexivity]). }
  - pose proof (Forall2_nth_error _ _ _ _ _ i Hviews) as Hi.
    destruct (nth_error (st_views st) i) as [v|] eqn:Hv; destruct (nth_error (a_wins f) i) as [w|] eqn:Hw;
      try contradiction.
    2:{ cbn [fst snd]. split; [apply represents_unfold; repeat split; assumption|].
        split; [exact I | reflexivity]. }
    destruct (vstep (st_freed st) (st_mem st) v vo) as [[v' nw] out] eqn:Hstep.
    assert (Hokw : win_ok (zlen (a_data f)) w) by (eapply nth_error_Forall; eassumption).
    destruct (vstep_refines _ _ _ _ _ _ _ _ _ _ Hi Hokw Hag Hstep)
      as (w' & nwin & d' & aout & Hwstep & Hv'w' & Hokw' & Hlen & Hnew & Hout & Hag').
    rewrite <- Hfr. rewrite Hwstep. cbn [fst snd].
    assert (Hz : zlen d' = zlen (a_data f)) by (unfold zlen; rewrite Hlen; reflexivity).
    split; [|exact Hout].
    apply represents_unfold. cbn [st_views st_freed st_mem a_wins a_freed a_data].
    split; [|split; [reflexivity|split; [exact Hag'|]]].
    + apply Forall2_app; [apply Forall2_set_nth; assumption|].
      destruct nw as [x|]; destruct nwin as [y|]; cbn [new_is opt_list] in *; try contradiction.
      * constructor; [apply Hnew | constructor].
      * constructor.
    + rewrite Hz in *. apply Forall_app. split; [apply Forall_set_nth; assumption|].
      destruct nw as [x|]; destruct nwin as [y|]; cbn [new_is opt_list] in *; try contradiction.
      * constructor; [apply Hnew | constructor].
      * constructor.
  - inversion Hviews as [Hl1 Hl2 | x y l1 l2 Hxy Hrest Hl1 Hl2].
    + cbn [fst snd]. split; [|split; [exact I|reflexivity]].
      apply represents_unfold. rewrite <- Hl1, <- Hl2. repeat split; try assumption; constructor.
    + rewrite <- Hfr. destruct (st_freed st) eqn:Ef; cbn [fst snd].
      * split; [|split; [reflexivity|reflexivity]].
        apply represents_unfold. rewrite <- Hl1, <- Hl2, Ef. repeat split; try assumption.
        -- constructor; assumption.
        -- rewrite Hl2. exact Hok.
      * split; [|split; [exact I|reflexivity]].
        apply represents_unfold. cbn [st_views st_freed st_mem a_wins a_freed a_data].
        repeat split; try assumption.
        -- constructor; assumption.
        -- rewrite Hl2. exact Hok.
Qed.

Lemma atrace_cons : forall f o rest,
  atrace f (o :: rest) = snd (astep f o) :: atrace (fst (astep f o)) rest.
Proof. intros f o rest. cbn [atrace]. destruct (astep f o); reflexivity. Qed.

(* the refinement, for every history *)
Theorem refines_file : forall ops base st f,
  represents base st f ->
  Forall2 (output_is base) (map snd (trace st ops)) (atrace f (map abs_op ops))
  /\ represents base (run st ops) (arun f (map abs_op ops)).
Proof.
  induction ops as [|o rest IH]; intros base st f Hrep.
  - split; [constructor | exact Hrep].
  - rewrite trace_cons, run_cons. cbn [map]. rewrite atrace_cons. cbn [arun snd].
    destruct (step_refines base st f o Hrep) as (Hrep' & Hout).
    destruct (IH base _ _ Hrep') as (Hall & Hfin).
    split; [constructor; assumption | exact Hfin].
Qed.

(* a MemoryIO over any memory represents the file holding the bytes of its range *)
Lemma init_represents : forall s e m,
  represents s (init s e m) (afile_init (mem_read m s (Z.max s e - s))).
Proof.
  intros s e m. apply represents_unfold. unfold init, afile_init.
  cbn [st_views st_freed st_mem a_wins a_freed a_data].
  assert (Hz : zlen (mem_read m s (Z.max s e - s)) = Z.max s e - s) by (apply mem_read_length; lia).
  repeat split.
  - constructor; [|constructor]. unfold view_is, new_view, gen_init_end.
    cbn [v_start v_end v_off v_closed w_lo w_hi w_pos w_closed]. rewrite Hz. repeat split; lia.
  - apply mem_read_agree. rewrite Hz. reflexivity.
  - constructor; [|constructor]. unfold win_ok. cbn [w_lo w_hi]. rewrite Hz. lia.
Qed.

(* reads return the bytes last written: a write followed by a read of the same positions through the
   same view (stated on the model directly, for any memory and any live view) *)
Theorem read_after_write : forall m v bs,
  0 <= v_off v -> v_off v + zlen bs <= vlen v -> 0 < zlen bs ->
  let '(v1, o1) := write v bs in
  let m1 := apply_calls m (o_calls o1) in
  let '(v2, o2) := read m1 (set_off v1 (v_off v)) (zlen bs) in
  o_res o1 = Ok (VInt (zlen bs)) /\ o_warns o1 = 0
  /\ o_res o2 = Ok (VBytes bs) /\ o_warns o2 = 0 /\ v_off v2 = v_off v + zlen bs.
Proof.
  intros m v bs Hoff Hfit Hpos.
  destruct (write v bs) as [v1 o1] eqn:Hw. cbv zeta.
  destruct (write_transfers _ _ _ _ Hw) as (Hres1 & Hv1 & Hwarn1 & Hcalls1). cbv zeta in *.
  assert (Hk : transfer (v_off v) (zlen bs) (vlen v) = zlen bs) by (unfold transfer; zcases; lia).
  rewrite Hk in *.
  assert (Hlt : (0 <? zlen bs) = true) by (apply Z.ltb_lt; exact Hpos). rewrite Hlt in Hcalls1.
  rewrite to_nat_zlen, firstn_all in Hcalls1.
  assert (Hw0 : warned (v_off v) (zlen bs) (vlen v) = false) by (unfold warned; zcases; cbn; lia).
  destruct (read (apply_calls m (o_calls o1)) (set_off v1 (v_off v)) (zlen bs)) as [v2 o2] eqn:Hr.
  destruct (read_transfers _ _ _ _ _ Hr) as (Hres2 & Hv2 & Hwarn2 & _). cbv zeta in *.
  assert (Hsame : set_off v1 (v_off v) = v) by (subst v1; destruct v; reflexivity).
  rewrite Hsame in *.
  assert (Hreq : read_req v (zlen bs) = zlen bs) by (unfold read_req; zcases; lia).
  rewrite Hreq, Hk in *.
  pose proof (o_warns_nonneg_write v bs) as Hnn1. rewrite Hw in Hnn1. cbn [snd] in Hnn1.
  pose proof (o_warns_nonneg_read (apply_calls m (o_calls o1)) v (zlen bs)) as Hnn2.
  rewrite Hr in Hnn2. cbn [snd] in Hnn2.
  rewrite Hw0 in *.
  split; [exact Hres1|]. split; [destruct (Z.ltb_spec 0 (o_warns o1)); [discriminate|lia]|].
  split; [|split; [destruct (Z.ltb_spec 0 (o_warns o2)); [discriminate|lia]|subst v2; reflexivity]].
  rewrite Hres2. do 2 f_equal. rewrite Hcalls1. cbn [apply_calls fold_left apply_call].
  apply (nth_ext _ _ 0 0).
  - unfold mem_read. rewrite map_length, seq_length. apply to_nat_zlen.
  - intros i Hi. unfold mem_read in Hi. rewrite map_length, seq_length, to_nat_zlen in Hi.
    rewrite nth_mem_read by (rewrite to_nat_zlen; exact Hi).
    unfold mem_write, zlen.
    destruct (Z.leb_spec (address v) (address v + Z.of_nat i)); [|lia].
    destruct (Z.ltb_spec (address v + Z.of_nat i) (address v + Z.of_nat (length bs))); [|lia].
    cbn [andb]. f_equal. lia.
Qed.

(* ------------------------------------------------------------------------------------------ *)
(* seek(n, 2) is NOT a file's seek(n, 2)                                                         *)
(* ------------------------------------------------------------------------------------------ *)
Definition hist_seek_end : list op := [OView 0 (Seek (-1) 2); OView 0 Tell].

(* MemoryIO of 10 bytes: seek(-1, 2); tell() gives 11; the file's seek(-1, 2); tell() gives 9 *)
Lemma seek_end_literal_fails : forall m,
  map (fun e => o_res (snd e)) (trace (init 100 110 m) hist_seek_end) = [Ok VNone; Ok (VInt 11)]
  /\ map fst (atrace (afile_init (mem_read m 100 10)) (map abs_op_literal hist_seek_end))
     = [Ok VNone; Ok (VInt 9)]
  /\ ~ Forall2 (output_is 100) (map snd (trace (init 100 110 m) hist_seek_end))
                (atrace (afile_init (mem_read m 100 10)) (map abs_op_literal hist_seek_end)).
Proof.
  intros m. split; [reflexivity|]. split; [reflexivity|].
  intros H. inversion H as [|x1 y1 l1 l1' _ H1]; subst. inversion H1 as [|x2 y2 l2 l2' H2 _]; subst.
  destruct H2 as (H2 & _). vm_compute in H2. discriminate.
Qed.

(* under the abstraction seek(n, 2) |-> seek_end(-n) the same history does refine the file *)
Lemma seek_end_mapped_holds : forall m,
  Forall2 (output_is 100) (map snd (trace (init 100 110 m) hist_seek_end))
          (atrace (afile_init (mem_read m 100 (Z.max 100 110 - 100))) (map abs_op hist_seek_end)).
Proof. intros m. apply refines_file. apply init_represents. Qed.

(* ------------------------------------------------------------------------------------------ *)
(* the refinement for a fresh MemoryIO, in one statement                                         *)
(* ------------------------------------------------------------------------------------------ *)
Theorem refines_file_init : forall s e m ops,
  let f := afile_init (mem_read m s (Z.max s e - s)) in
  Forall2 (output_is s) (map snd (trace (init s e m) ops)) (atrace f (map abs_op ops))
  /\ represents s (run (init s e m) ops) (arun f (map abs_op ops)).
Proof. intros s e m ops. cbv zeta. apply refines_file. apply init_represents. Qed.

(* the same for the view sdram_alloc_as_filelike(size) makes of a block at `start` *)
Theorem refines_file_filelike : forall start size m ops,
  0 <= size ->
  let f := afile_init (mem_read m start size) in
  Forall2 (output_is start) (map snd (trace (alloc_as_filelike start size m) ops)) (atrace f (map abs_op ops))
  /\ represents start (run (alloc_as_filelike start size m) ops) (arun f (map abs_op ops)).
Proof.
  intros start size m ops Hsize. cbv zeta. unfold alloc_as_filelike, gen_filelike_end.
  pose proof (refines_file_init start (start + size) m ops) as H. cbv zeta in H.
  replace (Z.max start (start + size) - start) with size in H by lia. exact H.
Qed.

(* in the file all windows share the bytes: what is stored at positions [p, p+|bs|) -- through whichever
   window -- is what any window reads back from those positions *)
Lemma sub_splice : forall d p bs,
  0 <= p -> p + zlen bs <= zlen d -> sub (splice d p bs) p (zlen bs) = bs.
Proof.
  intros d p bs Hp Hle. pose proof (splice_length d p bs Hp Hle) as Hlen. unfold zlen in Hle.
  apply (nth_ext _ _ 0 0).
  - unfold sub. rewrite firstn_length, skipn_length, Hlen, to_nat_zlen. lia.
  - intros i Hi. unfold sub in *. rewrite firstn_length, skipn_length, Hlen, to_nat_zlen in Hi.
    rewrite nth_firstn_lt by (rewrite to_nat_zlen; lia). rewrite nth_skipn_add. unfold splice.
    assert (Hfl : length (firstn (Z.to_nat p) d) = Z.to_nat p) by (rewrite firstn_length; lia).
    rewrite app_nth2 by lia. rewrite app_nth1 by lia. f_equal. lia.
Qed.
