"""C08 -- bit-field keys are collision-free.
Theorems (Props/C08.v) + correspondence on histories (model vs rig.bitfield.BitField) + verified checker
evaluated in Coq on the real object's layout + independent brute-force oracle."""
import itertools
import json
import lib
from lib import zlit, vlist, vopt

LEVEL = "proof"
UNITS = ["GenBitField", "GenBitFieldShape"]

HEADER = ("From Coq Require Import ZArith List. Import ListNotations. Open Scope Z_scope.\n"
          "Require Import Rig.Model.Base Rig.Model.BitField.\n")


# ====================================================================== independent flat view
class Flat:
    """What the history defines, seen without any tree: every field is (name, condition, declared
    length/start/tags); a field is present in an instance when its condition is part of the instance's
    values.  Built from the operations and from which of them the implementation accepted."""

    def __init__(self, L):
        self.L = L
        self.fields = []          # dict(k=op index, name, cond, length, start, tags, values=[...])
        self.insts = [dict()]
        self.pos = {}             # op index of the add -> (start, length) last reported

    @staticmethod
    def compatible(c1, c2):
        return all(c2.get(i, v) == v for i, v in c1.items())

    @staticmethod
    def present(f, fv):
        return all(fv.get(i) == v for i, v in f["cond"].items())

    def resolve(self, name, fv):
        return [f for f in self.fields if f["name"] == name and self.present(f, fv)]

    def inst(self, n):
        return self.insts[n] if n < len(self.insts) else self.insts[0]

    def depends_on(self, g, f):
        """g is defined under a condition that names f"""
        return f["name"] in g["cond"] and self.present(f, g["cond"]) and g is not f

    def expected_tags(self, f):
        t = set(f["tags"])
        for g in self.fields:
            if self.depends_on(g, f):
                t |= set(g["tags"])
        return t

    def width(self, f):
        """width the property speaks of: the field's length once known, else what its values need"""
        if f["k"] in self.pos:
            return self.pos[f["k"]][1]
        if f["length"] is not None:
            return f["length"]
        return max([1] + [v.bit_length() for v in f["values"]])

    def maximal_conditions(self):
        """Consistent unions of field conditions; every set of fields that can be present together is the
        set of fields present under one of them."""
        conds = []
        for f in sorted(self.fields, key=lambda f: len(f["cond"])):
            if f["cond"] not in conds:
                conds.append(f["cond"])
        found = []

        def rec(i, cur):
            if i == len(conds):
                found.append(cur)
                return
            c = conds[i]
            if not (self.compatible(c, cur) and self.compatible(cur, c)):
                rec(i + 1, cur)
            elif all(cur.get(a) == b for a, b in c.items()):
                rec(i + 1, cur)
            else:
                new = dict(cur)
                new.update(c)
                rec(i + 1, new)
                rec(i + 1, cur)
        rec(0, {})
        return found

    def max_copresent_width(self):
        w = 0
        for cur in self.maximal_conditions():
            w = max(w, sum(self.width(f) for f in self.fields if self.present(f, cur)))
        return w

    def exclusive_children_shape(self):
        """No fragmentation pattern: any two scopes (conditions) are either contradictory or nested, and a
        nested scope extends the smaller one only by values of fields defined in that smaller scope or deeper
        -- then the fields present together always form one chain of scopes (in the tree: the children of
        every node have pairwise contradictory requirements)."""
        cs = []
        for f in self.fields:
            if f["cond"] not in cs:
                cs.append(f["cond"])
        sub = lambda a, b: all(b.get(i) == v for i, v in a.items())
        for a in cs:
            for b in cs:
                if a is b or not (self.compatible(a, b) and self.compatible(b, a)):
                    continue
                if not (sub(a, b) or sub(b, a)):
                    return False
                if sub(a, b):
                    for i in b:
                        if i not in a:
                            owners = self.resolve(i, b)
                            if not owners or not sub(a, owners[0]["cond"]):
                                return False
        return True


# ====================================================================== generator
def gen_history(rng, style):
    """A history as a list of JSON ops plus the bit-field length."""
    ops = []
    fields = []                      # predicted: dict(name, cond, length, start, max)
    insts = [dict()]
    assigned = [False]

    def inst_of(cond):
        for n, fv in enumerate(insts):
            if fv == cond:
                return n
        return None

    def present(f, fv):
        return all(fv.get(i) == v for i, v in f["cond"].items())

    def compatible(c1, c2):
        return all(c2.get(i, v) == v for i, v in c1.items())

    def call(n, kw):
        """emit a call; predict success"""
        ops.append(["call", n, [[i, v] for i, v in kw.items()]])
        fv = dict(insts[n])
        if any(i in fv for i in kw):
            return None
        new = dict(kw)
        new.update(fv)
        for i, v in new.items():
            fs = [f for f in fields if f["name"] == i and present(f, new)]
            if not fs or v < 0:
                return None
            f = fs[0]
            ln = f["length"] if f["length"] is not None else (f["max"].bit_length() if assigned[0] and f.get("fixed") else None)
            if ln is not None and v >= (1 << ln):
                return None
        for i, v in new.items():
            f = [f for f in fields if f["name"] == i and present(f, new)][0]
            f["max"] = max(f["max"], v)
        insts.append(new)
        return len(insts) - 1

    label = style
    if style == "rejected":
        style = rng.choice(["flat", "chain", "chain"])
    elif style == "collide":
        style = "explicit"
    explicit = style in ("explicit", "mixed")
    pools = {"a": sorted(rng.sample([1, 2, 3], rng.randint(1, 2))), "b": sorted(rng.sample([1, 2, 3], rng.randint(1, 2)))}
    used_pools = set()
    Lpre = rng.choice([16, 24, 32, 34]) if label == "collide" else rng.choice([8, 12, 16, 16, 24, 32, 34]) if explicit else rng.choice([4, 6, 8, 8, 12, 16, 24, 32, 34])
    names = list(range(12))
    tags = [1, 2, 3]
    target = rng.randint(1, 4) if style == "flat" else rng.randint(3, 9 if explicit else 14)

    shadow = dict(fields=[], children={})

    def shadow_add(name, fv, commit):
        """follow _Tree.add_field's descent on a shadow of the tree's shape: False = it would recurse for ever"""
        node = shadow
        fv = dict(fv)
        while fv:
            meet = tuple((i, fv[i]) for i in node["fields"] if i in fv)
            if not meet:
                return False
            child = node["children"].get(meet)
            if child is None:
                if len(meet) != len(fv):
                    return False
                if commit:
                    node["children"][meet] = dict(fields=[name], children={})
                return True
            for i, _ in meet:
                del fv[i]
            node = child
        if commit:
            node["fields"].append(name)
        return True

    def free_names(cond):
        return [x for x in names if not any(f["name"] == x and compatible(f["cond"], cond) and compatible(cond, f["cond"])
                                            for f in fields)]

    def tag_choice():
        """tags and the form in which they are handed over; one set object per pool is reused across calls"""
        r = rng.random()
        if r < 0.3:
            k = rng.choice(["a", "b"])
            used_pools.add(k)
            return list(pools[k]), "shared:" + k
        tg = [t for t in tags if rng.random() < 0.22]
        if not tg and insts[-1] and rng.random() < 0.3:
            tg = [rng.choice(tags)]
        return tg, rng.choice(["list", "str", "none", "tuple", "frozenset", "set", "gen", "map", "iter", "gen"])

    def add(n, name, depthcond):
        if not shadow_add(name, insts[n], False) and rng.random() < 0.93:
            return False
        length = None
        start = None
        r = rng.random()
        if r < 0.55:
            length = rng.choice([1, 1, 2, 2, 3, 4, 5, 8, 9, 10] if not explicit else [1, 1, 1, 2, 2, 3]) \
                if rng.random() < 0.93 else rng.choice([0, 13, 30, 34])
        if explicit and rng.random() < 0.45:
            start = rng.randint(0, max(0, Lpre - 1)) if rng.random() < 0.93 else rng.choice([-1, Lpre, Lpre + 2])
        if explicit and rng.random() < 0.05:
            # fully explicit field at bit 0 as long as, or longer than, the bit field
            start, length = rng.choice([0, 0, None]), rng.choice([Lpre, Lpre + 1, Lpre + 4])
        tg, mode = tag_choice()
        return add_exact(n, name, length, start, tg, mode)

    def add_exact(n, name, length, start, tg, mode="list"):
        ops.append(["add", n, name, length, start, tg, mode])
        cond = dict(insts[n])
        ok = not (length is not None and length <= 0)
        if any(f["name"] == name and compatible(f["cond"], cond) and compatible(cond, f["cond"]) for f in fields):
            ok = False
        if start is not None and ok:
            e = start + (length or 1)
            if not (0 <= start < Lpre) or e > Lpre:
                ok = False
            for f in fields:
                if f["start"] is not None and compatible(f["cond"], cond) and compatible(cond, f["cond"]):
                    if e > f["start"] and f["start"] + (f["length"] or 1) > start:
                        ok = False
        if ok:
            ok = shadow_add(name, cond, True)
        if ok:
            fields.append(dict(name=name, cond=cond, length=length, start=start, max=1, fixed=False))
        return ok

    def define_some(nmax):
        """grow the hierarchy by up to nmax fields"""
        made = 0
        guard = 0
        while made < nmax and guard < 60:
            guard += 1
            if not fields or (rng.random() < 0.25 and style != "chain") or style == "flat":
                n = 0
            else:
                # choose a scope: an existing instance, or a new one made by giving values
                if rng.random() < 0.5 and len(insts) > 1:
                    n = rng.randrange(len(insts))
                else:
                    base = rng.randrange(len(insts))
                    fv = insts[base]
                    cands = [f for f in fields if present(f, fv) and f["name"] not in fv]
                    if style == "chain":
                        # key children by one field per node: the first field of the deepest scope
                        deepest = max((len(f["cond"]) for f in cands), default=0)
                        cands = [f for f in cands if len(f["cond"]) == deepest][:1]
                    if not cands:
                        continue
                    k = 1 if (style == "chain" or rng.random() < 0.7) else 2
                    pick = rng.sample(cands, min(k, len(cands)))
                    kw = {}
                    for f in pick:
                        hi = 1 if f["length"] is None else min(3, (1 << f["length"]) - 1)
                        kw[f["name"]] = rng.randint(0, max(hi, 1)) if f["length"] is None else rng.randint(0, hi)
                        if (f["length"] is None and not f.get("fixed") or (f["length"] or 0) >= 9) and rng.random() < 0.12:
                            kw[f["name"]] = rng.choice([257, 300, 511])      # not a cached small int
                    n = call(base, kw)
                    if n is None:
                        continue
                if len(insts[n]) > 4:
                    continue
            # sibling scopes re-use names: prefer small names
            free = free_names(insts[n])
            if free and rng.random() < 0.9:
                name = rng.choice(free[:4]) if rng.random() < 0.7 else rng.choice(free)
            else:
                name = rng.choice(names)
            if add(n, name, None):
                made += 1
            elif rng.random() < 0.5:
                continue

    def give_values(count):
        for _ in range(count):
            if not fields:
                return
            f = rng.choice(fields)
            n = inst_of(f["cond"])
            if n is None:
                continue
            if f["length"] is not None:
                hi = (1 << f["length"]) - 1
                v = rng.choice([0, hi, rng.randint(0, hi), hi + 1 if rng.random() < 0.1 else hi])
            elif f.get("fixed"):
                hi = (1 << f["max"].bit_length()) - 1
                v = rng.choice([0, hi, rng.randint(0, hi), hi + 1 if rng.random() < 0.2 else hi])
            else:
                v = rng.choice([0, 1, 2, 3, 4, 7, 8, 15, 16, rng.randint(0, 70)])
                if rng.random() < 0.04:
                    v = rng.choice([(1 << 20) + 1, (1 << 33) - 1, -1])
            kw = {f["name"]: v}
            # sometimes give several values at once
            if rng.random() < 0.3:
                others = [g for g in fields if present(g, insts[n]) and g["name"] not in insts[n] and g is not f]
                if others:
                    g = rng.choice(others)
                    kw[g["name"]] = rng.randint(0, 1)
            call(n, kw)

    def queries(count):
        for _ in range(count):
            n = rng.randrange(len(insts))
            r = rng.random()
            fv = insts[n]
            pres = [f for f in fields if present(f, fv)]
            anyname = rng.choice(pres)["name"] if pres and rng.random() < 0.85 else rng.choice(names)
            if r < 0.25:
                ops.append(["value", n, None, None])
            elif r < 0.45:
                ops.append(["mask", n, None, None])
            elif r < 0.55:
                ops.append([rng.choice(["value", "mask"]), n, rng.choice(tags + [9]), None])
            elif r < 0.65:
                ops.append([rng.choice(["value", "mask"]), n, None, anyname])
            elif r < 0.72:
                ops.append(["tags", n, anyname])
            elif r < 0.82:
                ops.append(["loc", n, anyname])
            elif r < 0.88:
                ops.append(["attr", n, anyname])
            elif r < 0.94:
                ops.append(["enabled", n])
            else:
                ops.append(["potential", n])

    def complete_instances(count):
        """give values to every present field of some instances so that keys can be generated"""
        for _ in range(count):
            n = rng.randrange(len(insts))
            if insts[n] and rng.random() < 0.5:
                # the same scope reached again from the original bit field with freshly built values
                n2 = call(0, dict(insts[n]))
                n = n if n2 is None else n2
            for _ in range(6):
                fv = insts[n]
                missing = [f for f in fields if present(f, fv) and f["name"] not in fv]
                if not missing:
                    break
                kw = {}
                for f in missing:
                    ln = f["length"] if f["length"] is not None else f["max"].bit_length()
                    kw[f["name"]] = rng.randint(0, (1 << ln) - 1) if not f.get("fixed") and f["length"] is None \
                        else rng.randint(0, (1 << ln) - 1)
                n2 = call(n, kw)
                if n2 is None:
                    break
                n = n2
            ops.append(["value", n, None, None])
            ops.append(["mask", n, None, None])

    def rejected_calls(count):
        """calls that must be refused although part of what they carry is valid: a large value for an
        automatically sized field together with an out-of-range / negative value or an unknown field, in
        either keyword order; nothing of a refused call may influence the layout"""
        for _ in range(count):
            n = rng.randrange(len(insts))
            fv = insts[n]
            free = [f for f in fields if present(f, fv) and f["name"] not in fv]
            autos = [f for f in free if f["length"] is None]
            if not autos:
                n, fv = 0, insts[0]
                free = [f for f in fields if present(f, fv)]
                autos = [f for f in free if f["length"] is None]
                if not autos:
                    return
            a = rng.choice(autos)
            big = rng.choice([9, 37, 200, 1000])
            fixed = [f for f in free if f["length"] is not None and f is not a]
            r = rng.random()
            if fixed and r < 0.5:
                b = rng.choice(fixed)
                bad = (b["name"], 1 << b["length"])
            elif free and len(free) > 1 and r < 0.75:
                b = rng.choice([f for f in free if f is not a])
                bad = (b["name"], -1)
            else:
                bad = (99, 1)
            kw = {a["name"]: big, bad[0]: bad[1]} if rng.random() < 0.75 else {bad[0]: bad[1], a["name"]: big}
            if rng.random() < 0.3:
                others = [f for f in free if f["name"] not in kw]
                if others:
                    kw[rng.choice(others)["name"]] = 0
            call(n, kw)

    if label == "collide" and rng.random() < 0.4:
        # a scope opened by a selector value that is not a cached small int, entered twice through separately
        # built instances; explicit definitions that overlap (or re-use a name) inside it must be refused
        big = rng.choice([257, 300, 511, 1000])
        add_exact(0, 0, rng.choice([10, None]), Lpre - 10, *tag_choice())
        a = call(0, {0: big})
        if a is not None:
            p0, l0 = rng.randint(0, 3), rng.randint(1, 3)
            add_exact(a, 1, l0, p0, *tag_choice())
            b = call(0, {0: big})
            if b is not None:
                add_exact(b, 2, rng.randint(1, 3), rng.randint(p0, p0 + l0 - 1), *tag_choice())   # overlaps field 1
                if rng.random() < 0.5:
                    add_exact(b, 1, 1, p0 + l0 + 1, [], "list")                                   # name in use
                add_exact(b, 3, rng.choice([1, 2, None]), p0 + l0 + rng.randint(0, 1), *tag_choice())
                call(b, {1: 1})
        target = rng.randint(0, 2)
    elif label == "collide":
        # an automatically sized field anchored at bit 0 that runs into a co-present field only once it is sized
        s0 = rng.randint(1, 5)
        add_exact(0, 0, None, 0, *tag_choice())
        if rng.random() < 0.5:
            add_exact(0, 1, rng.randint(1, 3), s0, *tag_choice())
        else:
            add_exact(0, 2, 1, Lpre - 1, [], "list")
            m = call(0, {2: rng.randint(0, 1)})
            if m is not None:
                add_exact(m, 1, rng.randint(1, 3), s0, *tag_choice())
        call(0, {0: rng.randint(1 << s0, (1 << (s0 + 2)) - 1)})
        target = rng.randint(0, 3)
    define_some(target)
    if rng.random() < 0.3:
        queries(2)
    give_values(rng.randint(0, 8))
    if label == "rejected":
        rejected_calls(rng.randint(1, 3))
        give_values(rng.randint(0, 2))
    elif rng.random() < 0.15:
        rejected_calls(1)
    ops.append(["assign", rng.randrange(len(insts))])
    assigned[0] = True
    for f in fields:
        f["fixed"] = True
    queries(rng.randint(2, 6))
    complete_instances(rng.randint(1, 3))
    if style in ("incremental", "mixed") or rng.random() < 0.15:
        define_some(rng.randint(1, 3))
        give_values(rng.randint(0, 3))
        ops.append(["assign", 0])
        for f in fields:
            f["fixed"] = True
        queries(rng.randint(1, 4))
        complete_instances(1)
    pre = []
    if used_pools and rng.random() < 0.4:
        # another BitField of the same process that uses the same tag-set objects and tags a child differently
        k = sorted(used_pools)[0]
        other = [t for t in [1, 2, 3] if t not in pools[k]]
        pre = [["add", 0, 0, 1, None, list(pools[k]), "shared:" + k], ["call", 0, [[0, 0]]],
               ["add", 1, 1, 1, None, other[:1], "list"]]
    return ops, Lpre, fields, pre


def choose_length(rng, ops, Lpre, style):
    """Bit-field length: for histories without explicit positions mostly an exact fill of what the
    defined fields need (computed from the flat view assuming every add succeeds)."""
    if style in ("explicit", "mixed", "collide"):
        return Lpre
    fl = Flat(0)
    for k, op in enumerate(ops):
        if op[0] == "add":
            cond = fl.inst(op[1])
            if not any(f["name"] == op[2] and fl.compatible(f["cond"], cond) and fl.compatible(cond, f["cond"])
                       for f in fl.fields) and not (op[3] is not None and op[3] <= 0):
                fl.fields.append(dict(k=k, name=op[2], cond=dict(cond), length=op[3], start=None, tags=[], values=[]))
        elif op[0] == "call":
            fv = dict(op[2])
            fv = {i: v for i, v in op[2]}
            base = fl.inst(op[1])
            if any(i in base for i in fv):
                continue
            fv.update(base)
            ok = True
            for i, v in fv.items():
                fs = fl.resolve(i, fv)
                if not fs or v < 0 or (fs[0]["length"] is not None and v >= 1 << fs[0]["length"]):
                    ok = False
            if ok:
                for i, v in fv.items():
                    fl.resolve(i, fv)[0]["values"].append(v)
                fl.insts.append(fv)
        elif op[0] == "assign":
            break
    w = fl.max_copresent_width()
    r = rng.random()
    if style == "rejected":
        r *= 0.6
    if r < 0.5:
        L = w
    elif r < 0.65:
        L = w + 1
    elif r < 0.75:
        L = w - 1
    elif r < 0.85:
        L = w + rng.randint(2, 6)
    else:
        L = rng.randint(1, 34)
    return max(1, min(L, 40))


STYLES = ["flat", "chain", "general", "general", "explicit", "explicit", "mixed", "incremental", "rejected", "collide",
          "twosel", "twosel", "bigval", "earlyroot"]


def gen_bigval(rng):
    """automatically sized fields holding values around 2^48 .. 2^64 in bit fields that fit exactly (a floating-point
    length formula is one bit too wide from 2^48 - 1 upwards)"""
    v = rng.choice([(1 << 48) - 1, (1 << 48) - 2, 1 << 48, (1 << 53) - 1, 1 << 53, (1 << 53) + 1, (1 << 63) - 1, 1 << 63,
                    (1 << 64) - 1, (1 << 64) - 2, (1 << rng.randint(49, 70)) - rng.randint(1, 2)])
    k = rng.choice([0, 0, 1, 3])
    ops = [["add", 0, 0, None, None, [1], "list"]]
    if k:
        ops.append(["add", 0, 1, k, None, [], "list"])
    scoped = rng.random() < 0.4
    if scoped:
        ops += [["add", 0, 2, 1, None, [], "list"], ["call", 0, [[2, 1]]], ["add", 1, 3, None, None, [2], "gen"],
                ["call", 1, [[3, v]]]]
    ops.append(["call", 0, [[0, v]]])
    if rng.random() < 0.5:
        ops.append(["call", 0, [[0, v >> 7]]])
    ops.append(["assign", 0])
    n = 3 + (1 if scoped else 0) + (1 if ops[-2][2][0][1] != v else 0)
    ops += [["loc", 0, 0], ["call", 0, [[0, v]] + ([[1, 0]] if k else []) + ([[2, 0]] if scoped else [])]]
    ops += [["value", n - 1 + (1 if scoped else 0), None, None], ["mask", n - 1 + (1 if scoped else 0), None, None],
            ["mask", 0, 1, None]]
    L = v.bit_length() + k + (1 + v.bit_length() if scoped else 0)
    return dict(L=L + rng.choice([0, 0, 0, 1]), ops=ops, style="bigval")


def gen_twosel(rng):
    """scopes opened by the values of TWO selectors of one level; sibling scopes differ in the first selector and
    agree in the second (or the other way round), re-use field names, and are filled to the last bit"""
    ops = [["add", 0, 0, rng.choice([1, 1, 2]), None, [], "list"], ["add", 0, 1, rng.choice([1, 1, 2]), None, [], "list"]]
    if rng.random() < 0.4:
        ops.append(["add", 0, 2, 1, None, [], "list"])
    combos = [(0, 1), (1, 1)] if rng.random() < 0.6 else [(1, 0), (1, 1)]
    extra = [c for c in [(0, 0), (0, 1), (1, 0), (1, 1)] if c not in combos]
    rng.shuffle(extra)
    combos += extra[:rng.randint(0, 2)]
    if rng.random() < 0.5:
        rng.shuffle(combos)
    n = 0
    distinct = rng.random() < 0.5            # sibling scopes re-use the names, or use their own
    for si, (va, vb) in enumerate(combos):
        kw = [[0, va], [1, vb]] if rng.random() < 0.8 else [[1, vb], [0, va]]
        ops.append(["call", 0, kw])
        n += 1
        for name in ([5] if rng.random() < 0.6 else [5, 6]):
            name = name + 2 * si if distinct else name
            tg = [t for t in (1, 2, 3) if rng.random() < 0.3]
            mode = rng.choice(["list", "gen", "str", "iter", "set"])
            if rng.random() < 0.6:
                ops.append(["add", n, name, rng.randint(1, 4), None, tg, mode])
            else:
                ops.append(["add", n, name, None, None, tg, mode])
                ops.append(["call", n, [[name, rng.choice([1, 3, 5, 9, 14])]]])
                n += 1
    ops.append(["assign", 0])
    ninst = n + 1
    for _ in range(rng.randint(2, 5)):
        k = rng.randrange(ninst)
        ops.append(rng.choice([["mask", k, None, None], ["value", k, None, None], ["mask", k, rng.choice([1, 2, 3]), None],
                               ["tags", k, rng.choice([0, 1, 5])], ["potential", k], ["enabled", k]]))
    return ops


def gen_earlyroot(rng):
    """an instance derived by a value-less call BEFORE the first field exists (generic code doing bf(**defaults) with no
    defaults yet); fields are then defined through both instances -- they describe ONE bit field: overlapping explicit
    definitions are refused whichever instance they come through, automatic fields get disjoint positions, and the same
    assignment made through either instance gives the same key and mask"""
    ops = [["call", 0, []]]                                   # instance 1 = bf()
    first = rng.choice([0, 1])
    ops.append(["add", first, 0, rng.randint(1, 4), rng.choice([0, 0, 2, None]), [], "list"])
    ops.append(["add", 1 - first, 1, rng.randint(1, 4), rng.choice([0, 1, 2, 3, None, None]), [], "list"])
    ops.append(["add", rng.choice([0, 1]), 2, rng.randint(1, 3), None, [rng.choice([1, 2])] if rng.random() < 0.3 else [], "list"])
    ops += [["assign", 0], ["assign", 1]] if rng.random() < 0.7 else [["assign", 1], ["assign", 0]]
    kw = [[0, 1], [1, 1], [2, 1]]
    ops += [["call", 0, kw], ["call", 1, kw]]
    ops += [["value", 2, None, None], ["mask", 2, None, None], ["value", 3, None, None], ["mask", 3, None, None],
            ["mask", 0, None, None], ["mask", 1, None, None], ["loc", 0, 0], ["loc", 1, 0], ["loc", 0, 1], ["loc", 1, 1],
            ["loc", 0, 2], ["loc", 1, 2]]
    return dict(L=rng.choice([6, 8, 10, 12]), ops=ops, style="earlyroot")


def gen_case(rng, idx):
    style = STYLES[idx % len(STYLES)]
    if style == "bigval":
        return gen_bigval(rng)
    if style == "earlyroot":
        return gen_earlyroot(rng)
    if style == "twosel":
        ops = gen_twosel(rng)
        return dict(L=choose_length(rng, ops, 0, "rejected"), ops=ops, style=style)
    ops, Lpre, _, pre = gen_history(rng, style)
    c = dict(L=choose_length(rng, ops, Lpre, style), ops=ops, style=style)
    if pre:
        c["pre_ops"] = pre
    return c


# ====================================================================== Coq literals
def fv_lit(kv):
    return vlist("(%s, %s)" % (zlit(i), zlit(v)) for i, v in kv)


def op_lit(op):
    k = op[0]
    if k == "add":
        return "OpAdd %d %s %s %s %s" % (op[1], zlit(op[2]), vopt(op[3], zlit), vopt(op[4], zlit),
                                         vlist(zlit(t) for t in op[5]))
    if k == "call":
        return "OpCall %d %s" % (op[1], fv_lit(op[2]))
    if k == "assign":
        return "OpAssign %d" % op[1]
    if k in ("value", "mask"):
        return "%s %d %s %s" % ("OpValue" if k == "value" else "OpMask", op[1], vopt(op[2], zlit), vopt(op[3], zlit))
    if k in ("tags", "loc", "attr"):
        return "%s %d %s" % ({"tags": "OpTags", "loc": "OpLoc", "attr": "OpAttr"}[k], op[1], zlit(op[2]))
    return "%s %d" % ({"enabled": "OpEnabled", "potential": "OpPotential"}[k], op[1])


def case_lit(c):
    return "run_history %s %s" % (zlit(c["L"]), vlist(op_lit(o) for o in c["ops"]))


def tree_lit(t):
    fs, cs = t
    return "(Node %s %s)" % (vlist("(%s, %d%%nat)" % (zlit(i), fid) for i, fid in fs),
                             vlist("(%s, %s)" % (fv_lit(req), tree_lit(c)) for req, c in cs))


def store_lit(store):
    return vlist("mkField %s %s %s %s" % (vopt(l, zlit), vopt(s, zlit), vlist(zlit(t) for t in tg), zlit(mx))
                 for l, s, tg, mx in store)


def canon_model(o):
    """model `out` value -> the driver's form"""
    k = o[0]
    if k == "OutNone":
        return ["none"]
    if k == "OutErr":
        return ["other"] if o[1] == -1 else ["err", o[1]]
    if k == "OutZ":
        return ["z", o[1]]
    if k == "OutOptZ":
        return ["opt", None if o[1] is None else o[1][1]]
    if k == "OutPair":
        return ["pair", o[1], o[2]]
    if k == "OutTags":
        return ["tags", sorted(o[1])]
    if k == "OutInst":
        return ["inst", o[1]]
    if k == "OutFields":
        un = lambda x: None if x is None else x[1]
        return ["fields", [[i, un(l), un(s), mx, sorted(tg)] for (i, l, s, mx, tg) in o[1]]]
    return ["?", o]


def canon_impl(r):
    if r[0] == "other":
        return ["other"]
    if r[0] in ("none", "z", "err"):
        return ["none"] if r[0] == "none" else list(r[:2])
    if r[0] == "fields":
        return ["fields", [list(x) for x in r[1]]]
    return list(r)


# ====================================================================== independent oracle
def bits(s, l):
    return ((1 << l) - 1) << s


def oracle(c, res, report):
    """Decide the sentences of C08 on what the implementation returned for history c.
    report(key, what) is called for every violated sentence.  Returns the flat view (for the probes)."""
    L = c["L"]
    fl = Flat(L)
    explicit_pos = False            # has any accepted definition an explicit position?
    prior_layout = False            # has an earlier assign_fields already positioned fields?
    given = {}                      # add index -> values ever given
    byk = {}
    outs = res["outs"]

    def check_layout(snap, where, only=None):
        """positions reported for all fields (snap) -- co-present ones must be disjoint and inside"""
        pos = {}
        for k, s, l, tg in snap:
            if s is not None:
                pos[k] = (s, l)
        fl.pos.update(pos)
        fs = [f for f in fl.fields if f["k"] in pos and (only is None or f in only)]
        for f in fs:
            s, l = pos[f["k"]]
            if f["start"] is not None and s != f["start"]:
                report("explicit-position-moved", "%s: field %d %r was defined with start_at=%d but is reported at bit %d "
                       "(an explicit definition that collides must be refused, not relocated)"
                       % (where, f["name"], f["cond"], f["start"], s))
            if s < 0 or l < 1 or s + l > L:
                report("out-of-range", "%s: field %d %r at [%d,%d) is not inside the %d-bit bit field"
                       % (where, f["name"], f["cond"], s, s + l, L))
            for v in f["values"]:
                if v >= (1 << l):
                    report("too-narrow", "%s: field %d %r is %d bits wide but was given the value %d"
                           % (where, f["name"], f["cond"], l, v))
        for f, g in itertools.combinations(fs, 2):
            if fl.compatible(f["cond"], g["cond"]) and fl.compatible(g["cond"], f["cond"]):
                (s1, l1), (s2, l2) = pos[f["k"]], pos[g["k"]]
                if s1 < s2 + l2 and s2 < s1 + l1:
                    report("overlap", "%s: fields %d %r [%d,%d) and %d %r [%d,%d) can be present together and overlap"
                           % (where, f["name"], f["cond"], s1, s1 + l1, g["name"], g["cond"], s2, s2 + l2))
        return pos

    for k, (op, r) in enumerate(zip(c["ops"], outs)):
        kind = op[0]
        if r[0] == "hang":
            report("hang", "operation %d %r does not terminate" % (k, op))
            break
        if r[0] == "other":
            break
        fv = fl.inst(op[1])
        if kind == "add":
            if r[0] != "none":
                continue
            name, length, start, tg = op[2], op[3], op[4], op[5]
            new = dict(k=k, name=name, cond=dict(fv), length=length, start=start, tags=list(tg), values=[])
            # explicit definitions that overlap or overflow must be rejected
            if start is not None:
                lmin = length or 1            # an explicitly positioned field occupies at least one bit
                if start + lmin > L or start >= L or start < 0:
                    report("explicit-overflow-accepted", "add_field(%d, length=%r, start_at=%r) accepted in a %d-bit bit field"
                           % (name, length, start, L))
                for f in fl.fields:
                    if fl.compatible(f["cond"], fv) and fl.compatible(fv, f["cond"]):
                        p = fl.pos.get(f["k"])
                        if p is None and f["start"] is not None:
                            p = (f["start"], f["length"] or 1)
                        if p is not None and start < p[0] + p[1] and p[0] < start + lmin:
                            report("explicit-overlap-accepted",
                                   "add_field(%d, length=%r, start_at=%d) under %r accepted although field %d %r occupies [%d,%d)"
                                   % (name, length, start, fv, f["name"], f["cond"], p[0], p[0] + p[1]))
            if start is not None:
                explicit_pos = True
            fl.fields.append(new)
            byk[k] = new
        elif kind == "call":
            if r[0] != "inst":
                continue
            nfv = {i: v for i, v in op[2]}
            nfv.update(fv)
            fl.insts.append(nfv)
            for i, v in nfv.items():
                for f in fl.resolve(i, nfv):
                    f["values"].append(v)
                    p = fl.pos.get(f["k"])
                    if p is not None and v >= (1 << p[1]):
                        report("too-narrow", "value %d accepted for field %d %r which is %d bits wide"
                               % (v, i, f["cond"], p[1]))
        elif kind == "assign":
            if r[0] == "none":
                snap = r[1]
                missing = [s for s in snap if s[1] is None]
                if missing:
                    report("unassigned", "assign_fields returned but field of add #%d has no position" % missing[0][0])
                check_layout(snap, "after assign_fields (op %d)" % k)
                prior_layout = True
            elif r[0] == "err" and not explicit_pos:
                # completeness: nothing explicitly positioned, co-present widths fit => must succeed
                w = fl.max_copresent_width()
                if w <= L:
                    if prior_layout:
                        key, why = "firstfit-fragmentation-incremental", \
                            " (positions fixed by an earlier assign_fields leave gaps the new fields do not fit in)"
                    elif not fl.exclusive_children_shape():
                        key, why = "firstfit-fragmentation", \
                            " (first-fit fragmentation: scopes that are compatible without being nested)"
                    else:
                        key, why = "assign-incomplete", ""
                    report(key, "assign_fields raised although no field is explicitly positioned and the fields that "
                           "can be present together need at most %d of the %d bits%s" % (w, L, why))
                for kk, s_, l_, tg_ in (r[2] if len(r) > 2 else []):
                    if s_ is not None:
                        fl.pos[kk] = (s_, l_)
                prior_layout = prior_layout or bool(fl.pos)
        elif kind in ("value", "mask"):
            if r[0] != "z":
                continue
            z, snap = r[1], r[2]
            tag, fld = op[2], op[3]
            pres = [f for f in fl.fields if fl.present(f, fv)]
            if fld is not None:
                sel = [f for f in pres if f["name"] == fld]
            elif tag is not None:
                sel = [f for f in pres if tag in fl.expected_tags(f)]
            else:
                sel = pres
            pos = check_layout(snap, "when %s returned (op %d)" % (kind, k), sel)
            if any(f["k"] not in pos for f in sel):
                report("key-from-unplaced", "%s returned %d although a selected field has no position" % (kind, z))
                continue
            if kind == "mask":
                want = 0
                for f in sel:
                    want |= bits(*pos[f["k"]])
                if z != want:
                    report("mask-not-union", "get_mask(tag=%r, field=%r) of %r is %#x, the selected present fields occupy %#x"
                           % (tag, fld, fv, z, want))
            else:
                for f in sel:
                    s, l = pos[f["k"]]
                    if f["name"] not in fv:
                        report("value-of-unset", "get_value returned although field %d has no value" % f["name"])
                    elif (z >> s) & ((1 << l) - 1) != fv[f["name"]]:
                        report("readback", "get_value(tag=%r, field=%r) of %r is %#x: field %d at [%d,%d) reads %d"
                               % (tag, fld, fv, z, f["name"], s, s + l, (z >> s) & ((1 << l) - 1)))
        elif kind == "tags":
            if r[0] != "tags":
                continue
            fs = fl.resolve(op[2], fv)
            if fs and set(r[1]) != fl.expected_tags(fs[0]):
                report("tags", "get_tags(%d) of %r is %r, expected %r (own tags and those of every field depending on it)"
                       % (op[2], fv, r[1], sorted(fl.expected_tags(fs[0]))))
    return fl


def make_probes(rng, fl, limit):
    """Complete consistent value assignments of the hierarchy (small values), found by brute force on
    the flat view: start from {}, repeatedly give a value to every present field without one."""
    out = []
    seen = set()

    def choices(f):
        w = fl.width(f)
        top = (1 << w) - 1
        vs = {0, top, min(1, top)}
        # the values that open sub-scopes
        vs |= {g["cond"][f["name"]] for g in fl.fields if f["name"] in g["cond"] and fl.depends_on(g, f)
               and 0 <= g["cond"][f["name"]] <= top}
        if w <= 2:
            vs = set(range(top + 1))
        else:
            vs.add(rng.randint(0, top))
        return sorted(vs)

    def rec(fv):
        if len(out) >= limit:
            return
        missing = [f for f in fl.fields if fl.present(f, fv) and f["name"] not in fv]
        if not missing:
            key = tuple(sorted(fv.items()))
            if key not in seen:
                seen.add(key)
                out.append(dict(fv))
            return
        lists = [choices(f) for f in missing]
        combos = list(itertools.product(*lists))
        rng.shuffle(combos)
        for combo in combos[:max(2, limit // 4)]:
            nfv = dict(fv)
            for f, v in zip(missing, combo):
                nfv[f["name"]] = v
            rec(nfv)
    rec({})
    return out


def oracle_probes(c, fl, probes, res, report):
    """keys of different complete assignments never match; readback; mask = union (also per tag)."""
    L = c["L"]
    pos = {}
    for k, s, l, tg in res["snapshot"]:
        if s is not None:
            pos[k] = (s, l)
    got = []
    for fv, pr in zip(probes, res["probes"]):
        if pr[0] != "ok":
            report("probe-rejected", "complete assignment %r rejected: %r" % (fv, pr))
            continue
        value, mask, pertag = pr[1], pr[2], pr[3]
        pres = [f for f in fl.fields if fl.present(f, fv)]
        if any(f["k"] not in pos for f in pres):
            report("key-from-unplaced", "key generated for %r although a present field has no position" % fv)
            continue
        want = 0
        for f in pres:
            s, l = pos[f["k"]]
            want |= bits(s, l)
            if (value >> s) & ((1 << l) - 1) != fv[f["name"]]:
                report("readback", "key %#x of %r: field %d at [%d,%d) reads %d" %
                       (value, fv, f["name"], s, s + l, (value >> s) & ((1 << l) - 1)))
        if mask != want:
            report("mask-not-union", "get_mask() of %r is %#x, the present fields occupy %#x" % (fv, mask, want))
        for t, tr in pertag.items():
            t = int(t)
            sel = [f for f in pres if t in fl.expected_tags(f)]
            wm = 0
            for f in sel:
                wm |= bits(*pos[f["k"]])
            if tr[0] == "z":
                if tr[1] != wm:
                    report("tag-mask", "get_mask(tag=%d) of %r is %#x, the present fields with the tag (and the fields they "
                           "depend on) occupy %#x" % (t, fv, tr[1], wm))
                for f in sel:
                    s, l = pos[f["k"]]
                    if (tr[2] >> s) & ((1 << l) - 1) != fv[f["name"]]:
                        report("tag-readback", "get_value(tag=%d) of %r: field %d reads wrongly" % (t, fv, f["name"]))
                # closure: a tagged field's dependencies are in the tag's mask
                for f in sel:
                    for g in pres:
                        if fl.depends_on(f, g) and (tr[1] & bits(*pos[g["k"]])) != bits(*pos[g["k"]]):
                            report("tag-not-closed", "get_mask(tag=%d) of %r lacks field %d on which tagged field %d depends"
                                   % (t, fv, g["name"], f["name"]))
            elif sel:
                report("tag-mask", "get_mask(tag=%d) of %r raised although present fields carry the tag" % (t, fv))
        got.append((fv, value, mask))
    for (fv1, v1, m1), (fv2, v2, m2) in itertools.combinations(got, 2):
        if fv1 != fv2 and (v1 ^ v2) & m1 & m2 == 0:
            report("keys-collide", "complete assignments %r and %r give key/mask pairs (%#x,%#x) and (%#x,%#x) that match "
                   "a common key" % (fv1, fv2, v1, m1, v2, m2))


def nontrivial(c, res):
    outs = res["outs"]
    nadd = sum(1 for op, r in zip(c["ops"], outs) if op[0] == "add" and r[0] == "none")
    return nadd >= 2 and any(op[0] == "assign" and r[0] == "none" for op, r in zip(c["ops"], outs))


# ====================================================================== auto length
def autolen_values(rng, n_random):
    vs = []
    for k in range(0, 65):
        for d in (-2, -1, 0, 1, 2):
            v = (1 << k) + d
            if v >= 0:
                vs.append(v)
    for _ in range(n_random):
        k = rng.randint(1, 64)
        vs.append(rng.randint(1, 1 << k))
    return vs


# ====================================================================== the check
def process(chk, cases, built, stats):
    """one batch through the whole pipeline: implementation, oracle, probes, model, verified checker"""
    size = 250 if chk.tier == "quick" else 500
    chunks = [cases[i:i + size] for i in range(0, len(cases), size)]
    results = [o for part in chk.impl_parallel("impl_c08.py", chunks) for o in part]
    flats = []
    for c, res in zip(cases, results):
        if res == ["hang"] or res == ["skipped"]:
            if res == ["hang"]:
                chk.fail_input("hang", "history does not terminate", dict(case=c))
            flats.append(None)
            continue
        found = []
        fl = oracle(c, res, lambda key, what: found.append((key, what)))
        flats.append(fl)
        for key, what in found[:3]:
            if stats["reported"].get(key, 0) < 20:
                stats["reported"][key] = stats["reported"].get(key, 0) + 1
                chk.fail_input(key, what, dict(case=c, observed=res["outs"]))
        chk.count("style:" + c.get("style", "corpus"))
        chk.count("L:%d-%d" % (c["L"] // 8 * 8, c["L"] // 8 * 8 + 7))
        nf = sum(1 for op, r in zip(c["ops"], res["outs"]) if op[0] == "add" and r[0] == "none")
        chk.count("fields:%d" % nf)
        for op, r in zip(c["ops"], res["outs"]):
            chk.count("op:%s:%s" % (op[0], r[0] if r[0] != "err" else "err%d" % r[1]))
        if fl.fields:
            chk.count("depth:%d" % max(len(f["cond"]) for f in fl.fields))
            if fl.pos and fl.max_copresent_width() == c["L"]:
                chk.count("exact-fill")
        chk.note_case(c, nontrivial(c, res))
    if cases and len(chk.samples) < 2:
        mid = len(cases) // 2
        chk.sample(dict(case=cases[mid], implementation=[r[:2] for r in results[mid]["outs"]]
                        if isinstance(results[mid], dict) else results[mid]))
    # ---------------------------------------------------------------- brute-force probes
    pcases, pidx = [], []
    for i, (c, res, fl) in enumerate(zip(cases, results, flats)):
        if fl is None or not fl.fields or "layout" not in res:
            continue
        if not all(f["k"] in fl.pos for f in fl.fields):
            continue
        probes = make_probes(chk.rng, fl, 24 if chk.tier == "quick" else 40)
        if not probes:
            continue
        pc = dict(c)
        pc["probes"] = [[[i_, v] for i_, v in fv.items()] for fv in probes]
        pc["tags"] = [1, 2, 3]
        # the first probes also as operations of the history, so that the MODEL answers them too
        ninst = 1 + sum(1 for r in res["outs"] if r[0] == "inst")
        ext = []
        for j, fv in enumerate(probes[:6]):
            ext.append(["call", 0, pc["probes"][j]])
            ext += [["value", ninst + j, None, None], ["mask", ninst + j, None, None]]
            for t in (1, 2, 3):
                ext += [["mask", ninst + j, t, None], ["value", ninst + j, t, None]]
            ext.append(["tags", ninst + j, pc["probes"][j][0][0]])
        pc["ops"] = list(c["ops"]) + ext
        pcases.append(pc)
        pidx.append((i, probes))
    chunks = [pcases[i:i + size] for i in range(0, len(pcases), size)]
    presults = [o for part in chk.impl_parallel("impl_c08.py", chunks) for o in part]
    for (i, probes), pc, pres in zip(pidx, pcases, presults):
        if not isinstance(pres, dict) or "probes" not in pres:
            continue
        found = []
        oracle_probes(cases[i], flats[i], probes, pres, lambda key, what: found.append((key, what)))
        stats["probes"] += len(probes)
        for key, what in found[:3]:
            if stats["reported"].get(key, 0) < 20:
                stats["reported"][key] = stats["reported"].get(key, 0) + 1
                chk.fail_input(key, what, dict(case=cases[i], probes=pc["probes"]))
    # ---------------------------------------------------------------- model
    if not (chk.model_ok and built):
        return
    extended = {i: (pc, pres) for (i, _), pc, pres in zip(pidx, pcases, presults)
                if isinstance(pres, dict) and "outs" in pres}
    good = [extended.get(i, (c, res)) for i, (c, res) in enumerate(zip(cases, results)) if isinstance(res, dict)]
    stats["probe_ops_in_model"] = stats.get("probe_ops_in_model", 0) + sum(
        len(pc["ops"]) - len(cases[i]["ops"]) for i, (pc, _) in extended.items())
    vals = chk.coq_eval(HEADER, [case_lit(c) for c, _ in good], shard=150 if chk.tier == "quick" else 350)
    for (c, res), v in zip(good, vals):
        chk.traces_validated += 1
        stats["histories"] += 1
        m = [canon_model(o) for o in v]
        im = [canon_impl(r) for r in res["outs"]]
        if m != im:
            stats["disagree"] += 1
            if stats["disagree"] <= 3:
                k = next((j for j in range(min(len(m), len(im))) if m[j] != im[j]), min(len(m), len(im)))
                chk.disagree("history: first difference at op %d %r: model %r, implementation %r"
                             % (k, c["ops"][k] if k < len(c["ops"]) else None,
                                m[k] if k < len(m) else None, im[k] if k < len(im) else None),
                             dict(case=c, observed=res["outs"]))
    # verified checker on the real object's layout
    lay = [(c, res) for c, res in good if "layout" in res and
           any(op[0] == "assign" and r[0] == "none" for op, r in zip(c["ops"], res["outs"]))
           and all(s is not None and l is not None for l, s, _, _ in res["layout"][1])]
    hdr = HEADER + "Require Import Rig.Spec.BitField.\n"
    vs = chk.coq_eval(hdr, ["check_bitfield %s %s %s" % (zlit(c["L"]), tree_lit(res["layout"][0]),
                                                         store_lit(res["layout"][1])) for c, res in lay],
                      shard=150 if chk.tier == "quick" else 350, name="layout")
    for (c, res), v in zip(lay, vs):
        stats["layouts"] += 1
        if v is not True:
            stats["layout_bad"] += 1
            if stats["layout_bad"] <= 5:
                chk.fail_input("layout-rejected-by-verified-checker",
                               "check_bitfield = false on the layout of the real object after the history",
                               dict(case=c, layout=res["layout"]))


def run(chk, args):
    chk.trusted += ["CPython dict / OrderedDict iteration order is mirrored by association lists",
                    "Python object identity of _Field objects is mirrored by indices into the model's store"]
    chk.assumptions += [
        "identifiers and tags are strings, lengths/positions/values are Python ints",
        "the automatic length is int(max_value).bit_length() (re-extracted from the source on every run and measured "
        "against the code for values up to 2^64)",
        "a history ends at the first exception that is not ValueError/UnavailableFieldError/UnknownTagError "
        "(_Tree.add_field dies with RecursionError when the adding instance holds values of fields of two different "
        "child scopes; the tree is then left with ()-keyed children)"]
    chk.regenerate(["GenBitField"])
    usable = chk.model_ok
    chk.regenerate(["GenBitFieldShape"])     # not imported by the model: a broken shape obligation must not stop
    chk.model_ok = usable                    # the model from being run against the changed code
    built = chk.prove()
    corpus_path = lib.os.path.join(lib.VERIF, "corpus", "C08.json")
    corpus = json.load(open(corpus_path)) if lib.os.path.exists(corpus_path) else []
    stats = dict(reported={}, probes=0, histories=0, disagree=0, layouts=0, layout_bad=0)
    try:
        if args.replay:
            rp = json.load(open(args.replay))
            cases = [f["replay"]["case"] for f in rp.get("failures", []) + rp.get("no_longer_checks", [])
                     if "case" in f.get("replay", {})]
            process(chk, cases, built, stats)
        elif chk.tier == "quick":
            process(chk, corpus + [gen_case(chk.rng, i) for i in range(1500)], built, stats)
        else:
            process(chk, corpus + exhaustive_small(), built, stats)
            for b in range(5):
                process(chk, [gen_case(chk.rng, b * 4000 + i) for i in range(4000)], built, stats)
    except RuntimeError as e:
        chk.oblige("correspondence:model-evaluates", False, str(e))
    chk.count("probes(complete assignments)", stats["probes"])
    chk.count("probe operations answered by the model too", stats.get("probe_ops_in_model", 0))
    if chk.model_ok and built:
        chk.oblige("correspondence:histories (%d histories, every return value and exception class equal)"
                   % stats["histories"], stats["disagree"] == 0, "%d histories differ" % stats["disagree"])
        chk.oblige("validator:check_bitfield accepts the real object's layout (%d layouts)" % stats["layouts"],
                   stats["layout_bad"] == 0)
    # ---------------------------------------------------------------- auto length formula
    vals = [v for v in autolen_values(chk.rng, 2000 if chk.tier == "quick" else 100000) if v >= 1]
    lens = chk.impl("impl_c08.py", [dict(values=vals)])[0]["lens"]
    differ = 0
    for v, l in zip(vals, lens):
        if l < v.bit_length():
            chk.fail_input("autolen-too-narrow", "a field whose largest value is %d gets %d bits" % (v, l),
                           dict(value=v, length=l))
        elif l != v.bit_length():
            differ += 1
            if differ <= 3:
                chk.oblige("autolen:length == int.bit_length (the model's bitlen)", False,
                           "value %d: code %d bits, bit length %d" % (v, l, v.bit_length()))
    chk.count("autolen:values", len(lens))
    if not differ:
        chk.oblige("autolen:the automatic length equals int.bit_length for %d values (+-2 around every power of two "
                   "up to 2^64, random)" % len(lens), True)
    chk.coverage["rule"] = (
        "random histories of add_field / __call__ / assign_fields / get_value / get_mask(tag|field) / get_tags / "
        "get_location_and_length / attribute / enabled_fields / potential_fields on one BitField and its derived "
        "instances: styles flat, chain (children keyed by one field), general (multi-field scopes), explicit positions, "
        "mixed, incremental (fields added after a layout); <= 14 fields, scope depth <= 5, sibling scopes re-use names, "
        "tags, fixed and automatic lengths/positions, lengths 1..40 with about half exact fills of the widest co-present "
        "set, a few malformed arguments (zero length, negative / too large positions, negative values); then all "
        "complete assignments over small values (capped) probed for key distinctness, readback, mask union, tag "
        "closure; thorough tier adds the exhaustive family of exhaustive_small(); non-trivial = >= 2 accepted fields "
        "and a successful assign_fields; distinct by hash of the whole history")
    if chk.tier == "thorough":
        chk.coverage["exhaustive_family"] = exhaustive_small.__doc__


def exhaustive_small():
    """thorough tier: every hierarchy with root fields a, b (1 bit) and at most one field of 0/1/2 bits in
    each of the scopes a=0, a=1, b=1, (a=0,b=1), (a=1,b=1), in two definition orders, for every bit-field
    length 2..9 (exhaustive for this family; it contains the minimal fragmentation witness)"""
    cases = []
    scopes = [[[0, 0]], [[0, 1]], [[1, 1]], [[0, 0], [1, 1]], [[0, 1], [1, 1]]]
    for widths in itertools.product([0, 1, 2], repeat=5):
        for order in (list(range(5)), [4, 3, 2, 1, 0]):
            ops = [["add", 0, 0, 1, None, []], ["add", 0, 1, 1, None, []]]
            n = 1
            for si in order:
                if widths[si]:
                    ops.append(["call", 0, scopes[si]])
                    ops.append(["add", n, 2 + si, widths[si], None, [1] if si == 3 else []])
                    n += 1
            ops.append(["assign", 0])
            ops.append(["mask", 0, None, None])
            ops.append(["mask", 0, 1, None])
            for L in range(2, 10):
                cases.append(dict(L=L, ops=ops, style="exhaustive"))
    return cases
