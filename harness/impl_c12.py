"""Drive rig.machine_control.regions on JSON-described cases (runs under /venv/bin/python, PYTHONPATH=/repo).

Every case runs in its own forked child of a process that has imported rig but never called it, so a case
(a single call or a "history" of several calls) always starts from the state of a fresh interpreter and a
failing case can be replayed alone; state carried from one call to the next is exercised by the histories.

case kinds
  {"mode": "compress", "targets": [[x, y, [p, ...]], ...], "container": "set" | "list"}
      -> ["ok", order, [[region, coremask], ...]]   order = the cores [x, y, p] in the order in which the two
                                                    loops of compress_flood_fill_regions meet them
         ["fail", 0, order]  (ValueError)  |  ["other", name, order]
  {"mode": "tree", "level": l, "adds": [[x, y, p], ...]}
      -> ["ok", [bool, ...], [[region, coremask], ...]]   returns of add_core, list(get_regions_and_coremasks())
         ["fail", 0] on the first ValueError  |  ["other", name]
  {"mode": "chips", "chips": [[x, y, level or null], ...]}
      -> ["ok", [word, ...]]
  compress / tree cases may carry "dtype": name of a numpy integer dtype (coordinates and core numbers are given as
  numpy scalars of that type); compress cases may carry "raise_after": n (the mapping's iteration raises after n items)
  {"mode": "tree_rw", "level": l, "ops": [["add", x, y, p] | ["read"], ...]}   one tree, traversed repeatedly
      -> ["ok", [bool, ...], [[[region, coremask], ...] per read]]
  {"mode": "history", "calls": [case, ...]}   compress / tree cases run one after the other in ONE interpreter
      -> ["ok", [result of each call, ...]]
  {"mode": "enum4", "bx", "by", "a", "b", "cls", "lo", "hi"}   (thorough tier: exhaustive 4 x 4 block)
      -> ["ok", [[[region, coremask], ...] or exception name, ...]]   one entry per mask in range(lo, hi)
"""
import operator
from collections import OrderedDict

from rig.machine_control.regions import (get_region_for_chip, compress_flood_fill_regions,
                                         RegionCoreTree)


def plain(v):
    """The value of an emitted word / mask: any integral type is accepted, its VALUE is what is judged."""
    if isinstance(v, bool):
        raise TypeError("not an int: %r" % (v,))
    return operator.index(v)


def conv(dtype):
    """Coordinates / core numbers as given by the caller: Python ints or numpy scalars of one integer dtype."""
    if not dtype:
        return lambda v: v
    import numpy
    t = numpy.dtype(dtype).type
    info = numpy.iinfo(dtype)
    return lambda v: t(v) if info.min <= v <= info.max else v


class RaisingMapping(OrderedDict):
    """A user-supplied mapping whose iteration fails after `n` items."""
    n = 0

    def items(self):
        for i, kv in enumerate(OrderedDict.items(self)):
            if i >= self.n:
                raise RuntimeError("iteration of the caller's mapping failed")
            yield kv


def run_case(c):
    if c["mode"] == "compress":
        cv = conv(c.get("dtype"))
        targets = OrderedDict()
        if c.get("raise_after") is not None:
            targets = RaisingMapping()
            targets.n = c["raise_after"]
        for x, y, cores in c["targets"]:
            targets[(cv(x), cv(y))] = set(cv(p) for p in cores) if c["container"] == "set" else [cv(p) for p in cores]
        # the order in which compress_flood_fill_regions will meet the cores (same objects, same
        # iteration order: nothing is mutated in between)
        order = [[int(x), int(y), int(p)] for (x, y), cores in OrderedDict.items(targets) for p in cores]
        try:
            out = compress_flood_fill_regions(targets)
            out = [[plain(r), plain(m)] for r, m in out]
        except ValueError:
            return ["fail", 0, order]
        except Exception as e:
            return ["other", type(e).__name__, order]
        return ["ok", order, out]
    if c["mode"] == "tree":
        try:
            cv = conv(c.get("dtype"))
            t = RegionCoreTree(level=c["level"])
            rets = []
            for x, y, p in c["adds"]:
                r = t.add_core(cv(x), cv(y), cv(p))
                if not isinstance(r, bool):
                    return ["other", "add_core returned %r" % (r,)]
                rets.append(r)
            out = [[plain(r), plain(m)] for r, m in t.get_regions_and_coremasks()]
        except ValueError:
            return ["fail", 0]
        except Exception as e:
            return ["other", type(e).__name__]
        return ["ok", rets, out]
    if c["mode"] == "tree_rw":
        # ONE tree object: add_core calls interleaved with complete traversals
        try:
            t = RegionCoreTree(level=c["level"])
            rets, reads = [], []
            for op in c["ops"]:
                if op[0] == "read":
                    reads.append([[plain(r), plain(m)] for r, m in list(t.get_regions_and_coremasks())])
                else:
                    r = t.add_core(op[1], op[2], op[3])
                    if not isinstance(r, bool):
                        return ["other", "add_core returned %r" % (r,)]
                    rets.append(r)
        except ValueError:
            return ["fail", 0]
        except Exception as e:
            return ["other", type(e).__name__]
        return ["ok", rets, reads]
    if c["mode"] == "history":
        return ["ok", [run_case(call) for call in c["calls"]]]
    if c["mode"] == "chips":
        try:
            return ["ok", [plain(get_region_for_chip(x, y) if l is None else get_region_for_chip(x, y, l))
                           for x, y, l in c["chips"]]]
        except Exception as e:
            return ["other", type(e).__name__]
    if c["mode"] == "enum4":
        # every subset (bit i of mask <-> chip (bx + i % 4, by + i // 4)) of one 4 x 4 block for core a, with
        # core b following one of four patterns; the cores are inserted chip by chip, a before b
        outs = []
        for mask in range(c["lo"], c["hi"]):
            targets = OrderedDict()
            for i in range(16):
                ps = []
                if mask >> i & 1:
                    ps.append(c["a"])
                if enum_b(c["cls"], mask, i):
                    ps.append(c["b"])
                if ps:
                    targets[(c["bx"] + i % 4, c["by"] + i // 4)] = ps
            try:
                outs.append([[plain(r), plain(m)] for r, m in compress_flood_fill_regions(targets)])
            except Exception as e:
                outs.append(type(e).__name__)
        return ["ok", outs]
    raise ValueError(c["mode"])


def enum_b(cls, mask, i):
    """Is core b requested on chip i?  0: never, 1: where a is, 2: where a is not, 3: everywhere."""
    return [False, bool(mask >> i & 1), not (mask >> i & 1), True][cls]


def run_case_forked(c):
    """run_case in a forked child; the parent (which has only imported rig) stays pristine."""
    import json
    import os
    import signal
    r, w = os.pipe()
    pid = os.fork()
    if pid == 0:
        code = 0
        try:
            os.close(r)
            data = json.dumps(run_case(c)).encode()
            with os.fdopen(w, "wb") as f:
                f.write(data)
        except BaseException as e:      # noqa
            try:
                os.write(w, json.dumps(["other", "driver: %s: %s" % (type(e).__name__, e)]).encode())
            except Exception:
                pass
            code = 1
        os._exit(code)
    os.close(w)
    try:
        with os.fdopen(r, "rb") as f:
            data = f.read()
        os.waitpid(pid, 0)
        pid = None
    finally:
        if pid is not None:             # time limit hit in the parent: stop the child
            try:
                os.kill(pid, signal.SIGKILL)
                os.waitpid(pid, 0)
            except OSError:
                pass
    if not data:
        return ["other", "driver: child died without a result"]
    return json.loads(data.decode())


if __name__ == "__main__":
    import implutil
    implutil.run_cases(run_case_forked, per_case_s=60)
