UNITS = {
    # Property C07.  tools/dump_c07.py prints
    #  * expressions read with `ast` from the source text of SCPConnection.read / write / send_scp_burst and of
    #    MachineController.read / write / read_across_link / write_across_link / fill / the struct-field and
    #    per-core-field accessors (loop conditions, block sizes, chunk addresses, data-type lookup keys, command
    #    arguments, result-buffer slices, loop updates, address arithmetic), translated by the expression
    #    translator of tools/py2v.py; the statements around them are matched against the shape the hand-written
    #    model (coq/Model/MemOps.v) follows, any other shape raises (fail closed);
    #  * live objects: address_length_dtype (16 cases), DataType, SCPCommands members, SDP_HEADER_LENGTH, the
    #    parsed boot/sark.struct (sv, vcpu: base, size, field offsets, pack characters, byte sizes).
    "GenMemOps": dict(props=["C07"], dumper="dump_c07.py", args=[]),
}
