(* C10 -- predicates in which the loading theorems are stated (definitions only) *)
From Coq Require Import ZArith List Bool.
Require Import Rig.Model.Base Rig.Generated.GenRouter Rig.Model.Tables Rig.Model.Router.
Import ListNotations.
Open Scope Z_scope.

(* an entry the loader is meant for: routes are members of Routes, key and mask are 32-bit words *)
Definition entry_ok (e : entry) : Prop :=
  (forall r, In r (e_route e) -> 0 <= r < 24) /\ 0 <= e_key e < 2 ^ 32 /\ 0 <= e_mask e < 2 ^ 32.

(* a state of the simulated chip that SARK can be in: 1024 router entries; every block of the free list
   lies within entries 1..1023; the staging buffer and the router copy are disjoint 32-bit address ranges *)
Definition chip_ok (cs : chipstate) : Prop :=
  length (cs_slots cs) = 1024%nat /\
  Forall (fun b => 1 <= fst b /\ fst b + snd b <= 1024) (cs_free cs) /\
  0 <= cs_buf cs < 2 ^ 32 /\ cs_buf cs + len (cs_bufmem cs) <= 2 ^ 32 /\
  0 <= cs_rtr_copy cs /\ cs_rtr_copy cs + 16384 <= 2 ^ 32 /\
  (cs_buf cs + len (cs_bufmem cs) <= cs_rtr_copy cs \/ cs_rtr_copy cs + 16384 <= cs_buf cs).

(* what the router holds for a given entry loaded for an application *)
Definition slot_of (app_id : Z) (e : entry) : rslot :=
  mkSlot 0 app_id (route_word (e_route e)) (e_key e) (e_mask e).

(* router entries base, base+1, ... hold the given entries, in order *)
Definition installed (slots : list rslot) (base app_id : Z) (es : list entry) : Prop :=
  forall i e, nth_error es i = Some e -> nth_error slots (Z.to_nat base + i) = Some (slot_of app_id e).

(* every entry outside [base, base + count) is what it was *)
Definition unchanged_outside (old new : list rslot) (base : Z) (count : nat) : Prop :=
  length new = length old /\
  forall j, ~ (Z.to_nat base <= j < Z.to_nat base + count)%nat -> nth_error new j = nth_error old j.

(* what get_routing_table_entries reports for a loaded entry: same key, mask and set of routes; the
   sources are not stored by the hardware and come back as {None}; application id; core 0 *)
Definition read_back_of (app_id : Z) (e : entry) (got : option (entry * Z * Z)) : Prop :=
  exists routes, got = Some (mkEntry routes (e_key e) (e_mask e) [none_dir], app_id, 0)
                 /\ NoDup routes /\ forall r, In r routes <-> In r (e_route e).

(* ------------------------------------------------------------------------------------------------ *)
(** * what the commands carry *)

(* the 16 bytes of record i *)
Definition rec_bytes (i : Z) (e : entry) : list Z :=
  le_bytes 2 i ++ le_bytes 2 0 ++ le_bytes 4 (route_word (e_route e)) ++ le_bytes 4 (e_key e)
  ++ le_bytes 4 (e_mask e) ++ [].

(* the records of a table, numbered from i *)
Fixpoint recs_from (i : Z) (es : list entry) : list (list Z) :=
  match es with
  | [] => []
  | e :: es' => rec_bytes i e :: recs_from (i + 1) es'
  end.

(* the allocation command and its answer, as it appears in the command trace *)
Definition alloc_item (x y app_id count base : Z) : titem :=
  TScp x y lrte_alloc_p lrte_alloc_cmd (lrte_alloc_arg1 app_id count) (lrte_alloc_arg2 app_id count) 0 base.

(* what unpack_routing_table_entry makes of 16 bytes *)
Definition decode_bytes (bs : list Z) : option (entry * Z * Z) :=
  match unpack_entry bs with Ok v => v | _ => None end.

(* the two reads of get_routing_table_entries *)
Definition readback_trace (x y : Z) (cs : chipstate) : list titem :=
  [TRead x y 0 sv_rtr_copy_addr sv_field_size (cksum (le_bytes 4 (cs_rtr_copy cs)));
   TRead x y 0 (cs_rtr_copy cs) 16384 (cksum (render_slots (cs_slots cs)))].

(* what "the allocator grants a block for this table on this chip" means in machine state m *)
Definition grantable (m : machine) (c : chip) (es : list entry) : Prop :=
  exists cs cs1 base,
    cassoc c m = Some cs /\ chip_ok cs /\ Forall entry_ok es /\ 16 * len es <= len (cs_bufmem cs)
    /\ rtr_alloc cs (len es) = (cs1, base) /\ base <> 0.

(* what "the table was installed on this chip" means between machine states m and m' *)
Definition table_installed (m m' : machine) (app_id : Z) (c : chip) (es : list entry) : Prop :=
  exists cs cs1 base cs',
    cassoc c m = Some cs /\ rtr_alloc cs (len es) = (cs1, base) /\ base <> 0 /\ cassoc c m' = Some cs'
    /\ installed (cs_slots cs') base app_id es
    /\ unchanged_outside (cs_slots cs) (cs_slots cs') base (length es).


(* ------------------------------------------------------------------------------------------------ *)
(** * histories *)

(* a command of the trace is addressed to chip (x, y) *)
Definition item_at (x y : Z) (t : titem) : Prop :=
  match t with
  | TScp a b _ _ _ _ _ _ => a = x /\ b = y
  | TRead a b _ _ _ _ => a = x /\ b = y
  | TWrite a b _ _ _ _ => a = x /\ b = y
  end.

(* the router entries of a chip of the machine *)
Definition routers (m : machine) (c : chip) : option (list rslot) :=
  match cassoc c m with Some cs => Some (cs_slots cs) | None => None end.

(* what run_history reports for one statement *)
Definition hitem : Type :=
  ((lres * list titem)
   + (result (Z * list (Z * (list Z * Z * Z * list Z) * Z * Z)) * list titem))%type.

(* Statement by statement.  BOOKKEEPING (true by definition of run_history, they only say which call each
   report belongs to and on which machine state it was made): `res = fst (fst r)`, `tr = snd r`,
   `(g, tr) = readback_digest ...`.  CONTENT: the report of a load is that of load_routing_table_entries on
   the machine as the earlier statements left it; every command it issued went to the chip the statement names; the first
   one, if any, is the allocation for the application the statement names and for as many entries as
   given; a load that does not succeed leaves the router entries of EVERY chip as they were; a read-back
   issues commands to the chip it names only and changes nothing. *)
Fixpoint history_ok (m : machine) (ops : list hop) (items : list hitem) : Prop :=
  match ops, items with
  | [], [] => True
  | HLoad x y a es :: ops', inl (res, tr) :: items' =>
      let r := load_routing_table_entries m es x y a in
      res = fst (fst r) /\ tr = snd r
      /\ Forall (item_at x y) tr
      /\ (forall it, hd_error tr = Some it -> exists base, it = alloc_item x y a (len es) base)
      /\ (res <> LOk -> forall c, routers (snd (fst r)) c = routers m c)
      /\ history_ok (snd (fst r)) ops' items'
  | HRead x y :: ops', inr (g, tr) :: items' =>
      (g, tr) = readback_digest (get_routing_table_entries m x y)
      /\ Forall (item_at x y) tr
      /\ history_ok m ops' items'
  | _, _ => False
  end.
