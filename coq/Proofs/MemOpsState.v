(* C07: struct-field accessors of a controller whose struct tables are state (replaced by boot), and the
   composition with C06: the callbacks of a burst that returns give an order that covers the chunk list, for
   every connection state (sequence counter anywhere, the wrap included), window and event list. *)
From Coq Require Import ZArith List Bool Lia String FinFun.
Require Import Rig.Generated.GenMemOps Rig.Generated.GenSCP Rig.Model.Base Rig.Model.Machine Rig.Model.MemOps
  Rig.Model.MemOpsState Rig.Spec.MemOps Rig.Proofs.MemOpsArith Rig.Proofs.MemOps Rig.Proofs.MemOpsChunks
  Rig.Proofs.MemOpsExact Rig.Proofs.MemOpsTop.
Require Rig.Model.SCP Rig.Spec.SCP Rig.Proofs.SCP Rig.Proofs.SCPReply.
Import ListNotations.
Open Scope Z_scope.

(* ------------------------------------------------------------------ struct tables as state *)
Lemma default_sfile_ok : sfile_ok default_sfile.
Proof.
  split; cbn [default_sfile sf_sv sf_sv_base sf_vcpu].
  - intros name off n H. destruct (sv_field_range _ _ _ H) as (H1 & H2 & H3). pose proof sv_base_nonneg. lia.
  - exact vcpu_field_range.
Qed.

Lemma ctl_boot_structs : forall S ct, ctl_structs (ctl_boot S ct) = S.
Proof. reflexivity. Qed.

Lemma st_read_struct_exact : forall ct buffer nbr M c core name off n,
  sfile_ok (ctl_structs ct) -> 1 <= buffer < 2 ^ 32 ->
  field_find name (sf_sv (ctl_structs ct)) = Some (off, n) ->
  exists tr, st_read_struct ct (mk_env buffer nbr) M c core name =
               Ok (tr, mem_range (M c) (sf_sv_base (ctl_structs ct) + off) n) /\
             trace_ok buffer tr /\ Forall (fun r => is_read_cmd (rq_cmd r)) tr /\
             Forall (fun r => rq_chip r = c /\ rq_core r = core) tr.
Proof.
  intros ct buffer nbr M c core name off n [Hsv _] Hb Hf. unfold st_read_struct. rewrite Hf.
  unfold struct_field_address. destruct (Hsv _ _ _ Hf) as (H1 & H2 & H3).
  apply sc_read_exact; lia.
Qed.

Lemma st_write_struct_exact : forall ct buffer nbr M c core name off n data,
  sfile_ok (ctl_structs ct) -> 1 <= buffer < 2 ^ 32 ->
  field_find name (sf_sv (ctl_structs ct)) = Some (off, n) -> zlen data = n ->
  exists tr M', st_write_struct ct (mk_env buffer nbr) M c core name data = Ok (tr, M') /\
                stored_exactly M M' c (sf_sv_base (ctl_structs ct) + off) data /\ trace_ok buffer tr /\
                Forall (fun r => rq_chip r = c) tr.
Proof.
  intros ct buffer nbr M c core name off n data [Hsv _] Hb Hf Hd. unfold st_write_struct. rewrite Hf.
  unfold struct_field_address. destruct (Hsv _ _ _ Hf) as (H1 & H2 & H3).
  apply sc_write_exact; lia.
Qed.

Lemma st_vcpu_address_ok : forall ct buffer nbr M c p name off n vboff,
  sfile_ok (ctl_structs ct) -> 1 <= buffer < 2 ^ 32 ->
  field_find "vcpu_base" (sf_sv (ctl_structs ct)) = Some (vboff, 4) ->
  field_find name (sf_vcpu (ctl_structs ct)) = Some (off, n) ->
  exists tr, st_vcpu_address ct (mk_env buffer nbr) M c p name =
               Ok (tr, st_vcpu_addr (ctl_structs ct) vboff M c p off, n) /\
             trace_ok buffer tr /\ Forall (fun r => is_read_cmd (rq_cmd r)) tr /\
             Forall (fun r => rq_chip r = c) tr.
Proof.
  intros ct buffer nbr M c p name off n vboff Hok Hb Hvb Hf. unfold st_vcpu_address. rewrite Hf.
  destruct (st_read_struct_exact ct buffer nbr M c vcpu_access_core _ _ _ Hok Hb Hvb) as (tr & Hr & Hk & Hrd & Hch).
  rewrite Hr. cbn [bind]. exists tr. split; [|split; [assumption | split; [assumption|]]].
  - unfold st_vcpu_addr, vcpu_field_address. reflexivity.
  - eapply Forall_impl; [|exact Hch]. intros r [H _]. exact H.
Qed.

Lemma st_read_vcpu_exact : forall ct buffer nbr M c p name off n vboff,
  sfile_ok (ctl_structs ct) -> 1 <= buffer < 2 ^ 32 ->
  field_find "vcpu_base" (sf_sv (ctl_structs ct)) = Some (vboff, 4) ->
  field_find name (sf_vcpu (ctl_structs ct)) = Some (off, n) ->
  0 <= st_vcpu_addr (ctl_structs ct) vboff M c p off ->
  st_vcpu_addr (ctl_structs ct) vboff M c p off + n <= 2 ^ 32 ->
  exists tr, st_read_vcpu ct (mk_env buffer nbr) M c p name =
               Ok (tr, mem_range (M c) (st_vcpu_addr (ctl_structs ct) vboff M c p off) n) /\
             trace_ok buffer tr /\ Forall (fun r => is_read_cmd (rq_cmd r)) tr /\
             Forall (fun r => rq_chip r = c) tr.
Proof.
  intros ct buffer nbr M c p name off n vboff Hok Hb Hvb Hf Ha Htop. unfold st_read_vcpu.
  destruct (st_vcpu_address_ok ct buffer nbr M c p name off n vboff Hok Hb Hvb Hf) as (tr1 & Hr1 & Hk1 & Hrd1 & Hch1).
  rewrite Hr1. cbn [bind].
  destruct Hok as [_ Hv]. destruct (Hv _ _ _ Hf) as (Hoff & Hn).
  destruct (sc_read_exact buffer nbr M c vcpu_access_core _ n Ha Hn Htop Hb) as (tr2 & Hr2 & Hk2 & Hrd2 & Hch2).
  rewrite Hr2. cbn [bind]. exists (tr1 ++ tr2). split; [reflexivity|].
  split; [apply Forall_app; split; assumption|]. split; [apply Forall_app; split; assumption|].
  apply Forall_app. split; [assumption|]. eapply Forall_impl; [|exact Hch2]. intros r [H _]. exact H.
Qed.

Lemma st_write_vcpu_exact : forall ct buffer nbr M c p name off n vboff data,
  sfile_ok (ctl_structs ct) -> 1 <= buffer < 2 ^ 32 ->
  field_find "vcpu_base" (sf_sv (ctl_structs ct)) = Some (vboff, 4) ->
  field_find name (sf_vcpu (ctl_structs ct)) = Some (off, n) -> zlen data = n ->
  0 <= st_vcpu_addr (ctl_structs ct) vboff M c p off ->
  st_vcpu_addr (ctl_structs ct) vboff M c p off + n <= 2 ^ 32 ->
  exists tr M', st_write_vcpu ct (mk_env buffer nbr) M c p name data = Ok (tr, M') /\
                stored_exactly M M' c (st_vcpu_addr (ctl_structs ct) vboff M c p off) data /\
                trace_ok buffer tr /\ Forall (fun r => rq_chip r = c) tr.
Proof.
  intros ct buffer nbr M c p name off n vboff data Hok Hb Hvb Hf Hd Ha Htop. unfold st_write_vcpu.
  destruct (st_vcpu_address_ok ct buffer nbr M c p name off n vboff Hok Hb Hvb Hf) as (tr1 & Hr1 & Hk1 & Hrd1 & Hch1).
  rewrite Hr1. cbn [bind].
  destruct (sc_write_exact buffer nbr M c vcpu_access_core _ data Ha ltac:(lia) Hb) as (tr2 & M' & Hr2 & Hst & Hk2 & Hch2).
  rewrite Hr2. cbn [bind]. exists (tr1 ++ tr2), M'. split; [reflexivity|]. split; [assumption|].
  split; apply Forall_app; split; assumption.
Qed.

(* after any history the controller works with the tables installed last (the bundled ones if none was) *)
Lemma history_uses_last_tables : forall steps ct,
  ctl_structs (fold_left ctl_apply steps ct) = last_structs steps (ctl_structs ct).
Proof.
  induction steps as [|s steps IH]; intros ct; [reflexivity|].
  cbn [fold_left]. rewrite IH. unfold last_structs. cbn [fold_left].
  destruct s; reflexivity.
Qed.

(* a controller that was never booted behaves as the stateless model of Model/MemOps.v *)
Lemma st_run_op_new : forall E M c o, st_run_op ctl_new E M c o = run_op E M c o.
Proof. intros E M c o. destruct o; reflexivity. Qed.

(* ------------------------------------------------------------------ composition with C06 *)
Lemma burst_cmds_ids : forall n, Spec.SCP.ids (burst_cmds n) = map Z.of_nat (seq 0 n).
Proof.
  intros n. unfold Spec.SCP.ids, burst_cmds. rewrite map_map. reflexivity.
Qed.

Lemma burst_cmds_nodup : forall n, NoDup (Spec.SCP.ids (burst_cmds n)).
Proof.
  intros n. rewrite burst_cmds_ids. apply FinFun.Injective_map_NoDup; [|apply seq_NoDup].
  intros a b H. lia.
Qed.

Lemma callback_ids_count : forall tr c,
  In c (callback_ids tr) <-> (0 < Spec.SCP.n_callbacks c tr)%nat.
Proof.
  intros tr c. unfold Spec.SCP.n_callbacks, callback_ids.
  induction tr as [|o tr IH]; cbn [flat_map filter List.length]; [split; [contradiction | lia]|].
  destruct o as [tx c' s t | to | d | c' d]; cbn [Spec.SCP.is_callback_of app]; try exact IH.
  destruct (c' =? c) eqn:E.
  - apply Z.eqb_eq in E. subst. cbn [In List.length]. split; [lia | auto].
  - apply Z.eqb_neq in E. cbn [In]. rewrite IH. split; [intros [H | H]; [congruence | exact H] | auto].
Qed.

Lemma order_of_covers : forall (A : Type) (cs : list A) cf evs k tr k' rest,
  Model.SCP.burst cf (burst_cmds (List.length cs)) evs k = (tr, Model.SCP.Returned, k', rest) ->
  covers cs (order_of cs tr).
Proof.
  intros A cs cf evs k tr k' rest Hb.
  destruct (Proofs.SCP.completion_exactly_once _ _ _ _ _ _ _ (burst_cmds_nodup _) Hb) as [Hin Hout].
  rewrite burst_cmds_ids in Hin, Hout. unfold covers, order_of. split.
  - intros x Hx. apply in_flat_map in Hx. destruct Hx as (c & _ & Hx).
    destruct (nth_error cs (Z.to_nat c)) eqn:E; [|contradiction].
    destruct Hx as [<- | []]. eapply nth_error_In. exact E.
  - intros x Hx. apply In_nth_error in Hx. destruct Hx as (i & Hi).
    assert (Hlt : (i < List.length cs)%nat) by (apply nth_error_Some; congruence).
    apply in_flat_map. exists (Z.of_nat i). split.
    + apply callback_ids_count. rewrite Hin; [lia|]. apply in_map. apply in_seq. lia.
    + rewrite Nat2Z.id, Hi. left. reflexivity.
Qed.

(* when every callback is handed the reply to its own command, the served pairs are the diagonal of the callback
   order, and running them is the order-run of Model/MemOps.v *)
Lemma callback_ids_callbacks : forall tr, callback_ids tr = map fst (callbacks tr).
Proof.
  induction tr as [|o tr IH]; [reflexivity|]. unfold callback_ids, callbacks in *. cbn [flat_map].
  rewrite map_app, <- IH. destruct o; reflexivity.
Qed.

Lemma served_diagonal : forall (A : Type) (cs : list A) hist tr,
  own_replies hist tr = true -> served cs hist tr = map (fun x => (x, x)) (order_of cs tr).
Proof.
  intros A cs hist tr H. unfold served, order_of, own_replies in *. rewrite callback_ids_callbacks.
  induction (callbacks tr) as [|[c d] cbs IH]; [reflexivity|].
  cbn [forallb fst snd] in H. apply andb_true_iff in H. destruct H as [H1 H2].
  cbn [flat_map map fst snd]. rewrite map_app, (IH H2). f_equal.
  destruct (owner_of hist (Model.SCP.d_src d)) as [c'|]; [|discriminate].
  apply Z.eqb_eq in H1. subst c'.
  destruct (nth_error cs (Z.to_nat c)); reflexivity.
Qed.

Lemma read_run_served_diagonal : forall E c core order M buf,
  read_run_served E M c core (map (fun x => (x, x)) order) buf = read_run E M c core order buf.
Proof.
  intros E c core order. induction order as [|k rest IH]; intros M buf; [reflexivity|].
  cbn [map read_run_served read_run].
  destruct (issue E M c core (rk_call k)) as [[[M' r] d] | | |]; cbn [bind]; try reflexivity.
  destruct (splice buf (rk_lo k) (rk_hi k) d); cbn [bind]; try reflexivity.
  rewrite IH. reflexivity.
Qed.

(* a read over a burst in which every callback received the reply to its own command: exact when the burst
   returns, an exception (never other bytes) when it does not *)
Lemma sc_read_burst_exact_or_raises : forall cf evs k past buffer nbr M c core address length r,
  0 <= address -> 0 <= length -> address + length <= 2 ^ 32 -> 1 <= buffer < 2 ^ 32 ->
  (forall tr k' rest cs, read_chunks address length buffer = Ok cs ->
     Model.SCP.burst cf (burst_cmds (List.length cs)) evs k = (tr, Model.SCP.Returned, k', rest) ->
     own_replies (past ++ tr) tr = true) ->
  sc_read_burst cf evs k past (mk_env buffer nbr) M c core address length = r ->
  (exists tr, r = Ok (tr, mem_range (M c) address length) /\ trace_ok buffer tr /\
              Forall (fun q => is_read_cmd (rq_cmd q)) tr) \/
  (forall v, r <> Ok v).
Proof.
  intros cf evs k past buffer nbr M c core address length r Ha Hl Htop Hb Hown Hr. unfold sc_read_burst in Hr.
  destruct (length <? 0) eqn:E; [apply Z.ltb_lt in E; lia|].
  cbn [mk_env e_buffer] in Hr.
  destruct (read_chunks_tiles address length buffer ltac:(lia) Hl) as (cs & Hcs & Ht).
  rewrite Hcs in Hr. cbn [bind] in Hr.
  destruct (Model.SCP.burst cf (burst_cmds (List.length cs)) evs k) as [[[tr oc] k'] rest] eqn:Eb.
  destruct oc; try (right; intros v Hv; subst r; discriminate).
  left. pose proof (order_of_covers _ cs _ _ _ _ _ _ Eb) as Hcov.
  rewrite (served_diagonal _ cs _ _ (Hown _ _ _ _ Hcs Eb)), read_run_served_diagonal in Hr.
  destruct (read_run_exact buffer nbr M c core address length cs (order_of cs tr) Ha Hl Htop Hb Ht Hcov)
    as (tr' & Hrun & Hok & Hrd & _).
  exists tr'. rewrite Hrun in Hr. subst r. auto.
Qed.

Lemma owner_of_in : forall hist tx c, owner_of hist tx = Some c -> exists s t, In (Model.SCP.OSend tx c s t) hist.
Proof.
  induction hist as [|o hist IH]; intros tx c H; cbn [owner_of] in H; [discriminate|].
  destruct o as [tx' c' s t | | |]; try (destruct (IH _ _ H) as (s0 & t0 & Hin); exists s0, t0; right; exact Hin).
  destruct (tx' =? tx) eqn:E.
  - apply Z.eqb_eq in E. inversion H; subst. exists s, t. left. reflexivity.
  - destruct (IH _ _ H) as (s0 & t0 & Hin). exists s0, t0. right. exact Hin.
Qed.

Lemma owner_of_some : forall hist tx c s t, In (Model.SCP.OSend tx c s t) hist -> exists c', owner_of hist tx = Some c'.
Proof.
  induction hist as [|o hist IH]; intros tx c s t H; [contradiction|]. cbn [owner_of].
  destruct H as [-> | H].
  - rewrite Z.eqb_refl. eauto.
  - destruct o as [tx' c' s' t' | | |]; try (eapply IH; exact H).
    destruct (tx' =? tx); [eauto | eapply IH; exact H].
Qed.

Lemma own_replies_of_reply_to : forall hist tr,
  tx_unique hist ->
  (forall c d, In (Model.SCP.OCallback c d) tr -> Spec.SCP.reply_to hist c d) ->
  own_replies hist tr = true.
Proof.
  intros hist tr Hu Hr. unfold own_replies. apply forallb_forall. intros [c d] Hin. cbn [fst snd].
  assert (Hcb : In (Model.SCP.OCallback c d) tr).
  { unfold callbacks in Hin. apply in_flat_map in Hin. destruct Hin as (o & Ho & Hin).
    destruct o; cbn in Hin; try contradiction. destruct Hin as [Heq | []]. inversion Heq; subst. exact Ho. }
  destruct (Hr _ _ Hcb) as (_ & t & Hs).
  destruct (owner_of_some _ _ _ _ _ Hs) as (c' & Hc'). rewrite Hc'.
  destruct (owner_of_in _ _ _ Hc') as (s0 & t0 & Hin0).
  apply Z.eqb_eq. exact (Hu _ _ _ _ _ _ _ Hin0 Hs).
Qed.

(* ... hence, under C06's own hypotheses *)
Lemma own_replies_under_c06 : forall cf n evs k past tr oc k' rest,
  Spec.SCP.config_ok cf -> Spec.SCP.history_ok past k (burst_cmds n) ->
  Model.SCP.burst cf (burst_cmds n) evs k = (tr, oc, k', rest) ->
  Spec.SCP.causal (past ++ tr) -> Spec.SCP.fresh (past ++ tr) -> tx_unique (past ++ tr) ->
  own_replies (past ++ tr) tr = true.
Proof.
  intros cf n evs k past tr oc k' rest Hcf Hh Hb Hc Hf Hu.
  apply own_replies_of_reply_to; [exact Hu|].
  exact (Proofs.SCPReply.reply_matches cf _ evs k past tr oc k' rest Hcf (burst_cmds_nodup n) Hh Hb Hc Hf).
Qed.

(* writes: when the burst returns, exactly the data is stored *)
Lemma call_run_burst_exact : forall cf evs k past tr k' rest buffer nbr M c core address data cs,
  0 <= address -> address + zlen data <= 2 ^ 32 -> 1 <= buffer < 2 ^ 32 ->
  write_chunks address buffer data = Ok cs ->
  Model.SCP.burst cf (burst_cmds (List.length cs)) evs k = (tr, Model.SCP.Returned, k', rest) ->
  own_replies (past ++ tr) tr = true ->
  exists trq M', call_run (mk_env buffer nbr) M c core (order_of cs tr) = Ok (trq, M') /\
                 stored_exactly M M' c address data /\ trace_ok buffer trq.
Proof.
  intros cf evs k past tr k' rest buffer nbr M c core address data cs Ha Htop Hb Hcs Hburst _.
  destruct (write_chunks_tiles address buffer data ltac:(lia)) as (cs' & Hcs' & Ht).
  rewrite Hcs in Hcs'. inversion Hcs'; subst cs'.
  pose proof (order_of_covers _ cs _ _ _ _ _ _ Hburst) as Hcov.
  destruct (call_run_exact buffer nbr M c core address data cs (order_of cs tr) Ha Htop Hb Ht Hcov)
    as (trq & M' & Hrun & Hst & Hok & _).
  exists trq, M'. auto.
Qed.
