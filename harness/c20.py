"""C20 -- boot sends the complete image carrying this call's options only.

theorems (Props/C20.v) + correspondence of Model/Boot.v with rig.machine_control.boot on histories of 1-4
boots in one process (recording socket, scripted clock, exact comparison of every datagram by length and
63-bit digest, of the returned struct defaults, of the caller's dictionary and of the shared default
dictionary) + an independent oracle that reassembles the image from the datagrams and packs the expected
configuration area itself from the struct file text."""
import json
import os
import re
import struct

import lib
from lib import zlit, vlist

LEVEL = "proof"
UNITS = ["GenBoot", "GenBootImage", "GenBootCtrl", "GenSharedState"]   # the last is C17's inventory (read only)

# names that are parameters of boot() / MachineController.boot(): given as keywords they are not options
BOOT_PARAMS = {"hostname", "boot_port", "scamp_binary", "sark_struct", "boot_delay", "post_boot_delay",
               "sv_overrides", "width", "height", "only_if_needed", "check_booted", "self"}
FIXED = ("unix_time", "boot_sig", "root_chip")
KINDS = {"C": ("B", 1, False), "c": ("b", 1, True), "v": ("H", 2, False), "V": ("I", 4, False)}
HEADER = ("From Coq Require Import ZArith List String. Import ListNotations. Open Scope Z_scope.\n"
          "Require Import Rig.Generated.GenBoot Rig.Generated.GenBootImage Rig.Generated.GenBootCtrl Rig.Model.Base "
          "Rig.Model.Boot Rig.Model.BootCtrl.\n")


# The documented layout of the bundled `sv` struct (SC&MP's system variables), frozen here: name, kind (C byte,
# v half word, V word), offset, format, default.  The oracle judges boots that use the bundled struct file against
# THIS description, not against whatever rig/boot/sark.struct says at the time of the run.
PINNED_SV = (
    "name = sv\n"
    "size = 256\n"
    "base = 0xf5007f00\n"
    "p2p_addr v 0x00 %04x 0\n"
    "p2p_dims v 0x02 %04x 0\n"
    "dbg_addr v 0x04 %04x 0\n"
    "p2p_up C 0x06 %d 0\n"
    "last_id C 0x07 %d 0\n"
    "eth_addr v 0x08 %04x 0\n"
    "hw_ver C 0x0a %d 0\n"
    "eth_up C 0x0b %d 0\n"
    "p2pb_repeats C 0x0c %d 4\n"
    "p2p_sql C 0x0d %d 4\n"
    "clk_div C 0x0e %02x 0x33\n"
    "tp_scale C 0x0f %d 0\n"
    "clock_ms V 0x10 %d 0\n"
    "clock_ms_h V 0x14 %d 0\n"
    "time_ms v 0x18 %d 0\n"
    "ltpc_period v 0x1a %d 0\n"
    "unix_time V 0x1c %08x 0\n"
    "tp_timer V 0x20 %d 0\n"
    "cpu_clk v 0x24 %d 200\n"
    "mem_clk v 0x26 %d 130\n"
    "forward C 0x28 %02x 0x3f\n"
    "retry C 0x29 %02x 0\n"
    "peek_time C 0x2a %d 100\n"
    "led_period C 0x2b %d 1\n"
    "netinit_bc_wait C 0x2c %d 50\n"
    "netinit_phase C 0x2d %d 0\n"
    "p2p_root v 0x2e %02x 0\n"
    "led0 V 0x30 %08x 0x00000001\n"
    "led1 V 0x34 %08x 0x00000000\n"
    "__PAD2 V 0x38 %d 0\n"
    "random V 0x3c %08x 0\n"
    "root_chip C 0x40 %d 0\n"
    "num_buf C 0x41 %d 7\n"
    "boot_delay C 0x42 %d 10\n"
    "soft_wdog C 0x43 %d 3\n"
    "__PAD3 V 0x44 %d 0\n"
    "sysram_heap V 0x48 %08x 1024\n"
    "sdram_heap V 0x4c %08x 1048576\n"
    "iobuf_size V 0x50 %d 16384\n"
    "sys_bufs V 0x54 %d 8388608\n"
    "sysbuf_size V 0x58 %d 32768\n"
    "boot_sig V 0x5c %08x 0\n"
    "mem_ptr V 0x60 %08x 0\n"
    "lock C 0x64 %02x 0\n"
    "link_en C 0x65 %02x 0x3f\n"
    "last_biff_id C 0x66 %02x 0\n"
    "bt_flags C 0x67 %02x 0\n"
    "shm_root.free V 0x68 %08x 0\n"
    "shm_root.count v 0x6c %d 0\n"
    "shm_root.max v 0x6e %d 0\n"
    "utmp0 V 0x70 %08x 0\n"
    "utmp1 V 0x74 %08x 0\n"
    "utmp2 V 0x78 %08x 0\n"
    "utmp3 V 0x7c %08x 0\n"
    "status_map[20] C 0x80 %02x 0\n"
    "p2v_map[20] C 0x94 %02x 0\n"
    "v2p_map[20] C 0xa8 %02x 0\n"
    "num_cpus C 0xbc %d 0\n"
    "rom_cpus C 0xbd %d 0\n"
    "__PAD4 v 0xbe %d 0\n"
    "sdram_base V 0xc0 %08x 0\n"
    "sysram_base V 0xc4 %08x 0\n"
    "sdram_sys V 0xc8 %08x 0\n"
    "vcpu_base V 0xcc %08x 0\n"
    "sys_heap V 0xd0 %08x 0\n"
    "rtr_copy V 0xd4 %08x 0\n"
    "hop_table V 0xd8 %08x 0\n"
    "alloc_tag V 0xdc %08x 0\n"
    "rtr_free v 0xe0 %d 0\n"
    "p2p_active v 0xe2 %d 0\n"
    "app_data V 0xe4 %08x 0\n"
    "shm_buf V 0xe8 %08x 0\n"
    "mbox_flags V 0xec %08x 0\n"
    "ip_addr V 0xf0 %08x 0\n"
    "fr_copy V 0xf4 %08x 0\n"
    "board_info V 0xf8 %08x 0\n"
    "__PAD4 V 0xfc %08x 0\n")


# ------------------------------------------------------------------ independent reading of struct files
def parse_struct_text(text):
    """{struct name: dict(size, base, fields={name: (perl pack, offset, default, length)})}, written from
    the format of sark.struct (not from rig's parser)."""
    def num(s):
        return int(s, 16) if s[:2].lower() == "0x" else int(s)
    structs = {}
    cur = None
    for line in text.splitlines():
        toks = line.split("#", 1)[0].split()
        if not toks:
            continue
        if len(toks) == 3 and toks[1] == "=":
            if toks[0] == "name":
                cur = structs[toks[2]] = dict(size=None, base=None, fields={})
            else:
                cur[toks[0]] = num(toks[2])
        elif len(toks) == 5:
            # NAME[n] declares an array when NAME is a plain identifier; any other first token (a dotted member
            # path, with or without a bracket suffix) is the variable's name as written
            name, length = toks[0], 1
            m = re.fullmatch(r"(\w+)\[(\d+)\]", name)
            if m:
                name, length = m.group(1), int(m.group(2))
            cur["fields"][name] = (toks[1], num(toks[2]), num(toks[4]), length)
        else:
            raise ValueError("bad line: " + line)
    return structs


def python_pack(perl):
    if perl in KINDS:
        return KINDS[perl][0]
    # numbered pack such as A16 / V4: python puts the count first
    base = {"A": "s", "C": "B", "c": "b", "v": "H", "V": "I"}[perl[0]]
    return perl[1:] + base


def packable(sv):
    """The struct has an unambiguous packed form: known integer kinds, fields inside the struct and
    pairwise disjoint, at least 128 bytes."""
    if sv["size"] is None or sv["size"] < 128:
        return False
    spans = []
    for perl, off, _, _ in sv["fields"].values():
        if perl not in KINDS or off < 0 or off + KINDS[perl][1] > sv["size"]:
            return False
        spans.append((off, off + KINDS[perl][1]))
    spans.sort()
    return all(a[1] <= b[0] for a, b in zip(spans, spans[1:]))


def value_ok(perl, v):
    _, w, signed = KINDS[perl]
    return (-(1 << (8 * w - 1)) <= v < (1 << (8 * w - 1))) if signed else (0 <= v < (1 << (8 * w)))


def pack_expected(sv, values):
    buf = bytearray(sv["size"])
    for name, (perl, off, _, _) in sv["fields"].items():
        _, w, signed = KINDS[perl]
        buf[off:off + w] = int(values[name]).to_bytes(w, "little", signed=signed)
    return bytes(buf)


# ------------------------------------------------------------------ images
def lcg_bytes(n, x):
    out = bytearray()
    for _ in range(n):
        x = (x * 1103515245 + 12345) & 0x7FFFFFFF
        out.append((x >> 16) & 255)
    return bytes(out)


_REAL = {}


def image_bytes(spec):
    if spec["kind"] == "lcg":
        return lcg_bytes(spec["n"], spec["seed"])
    if spec["kind"] == "hex":
        return bytes.fromhex(spec["hex"])
    if "b" not in _REAL:
        with open(os.path.join(lib.REPO, "rig", "boot", "scamp.boot"), "rb") as f:
            _REAL["b"] = f.read()
    return _REAL["b"]


def image_len(spec):
    return spec["n"] if spec["kind"] == "lcg" else len(image_bytes(spec))


def digest(b):
    h = 7
    for x in b:
        h = (h * 1000003 + x + 1) & 0x7FFFFFFFFFFFFFFF
    return h


# ------------------------------------------------------------------ generator
def bundled_struct_text():
    """The layout boots with the bundled struct file are judged against: the pinned documented one."""
    return PINNED_SV


def gen_struct(rng):
    """A synthetic struct file.  -> (text, variety)"""
    variety = rng.choice(["plain", "plain", "plain", "overlap", "beyond", "dup", "array", "A16", "numbered",
                          "small", "missing-fixed", "two-structs", "dotted-arrays", "dotted-arrays"])
    size = rng.choice([128, 132, 160, 256])
    if variety == "small":
        size = rng.choice([64, 100, 124])
    names = ["alpha", "beta_2", "g.amma", "delta", "eps", "zeta", "eta", "theta", "iota", "kappa", "__PAD", "hw_ver",
             "led0", "boot_delay"]
    rng.shuffle(names)
    fields = []
    off = 0
    want = [("unix_time", "V"), ("boot_sig", "V"), ("root_chip", "C")]
    if variety == "missing-fixed":
        want.pop(rng.randrange(3))
    for nm in names[:rng.randint(3, 9)]:
        want.append((nm, rng.choice(["C", "C", "c", "v", "V", "V"])))
    rng.shuffle(want)
    for nm, k in want:
        w = KINDS[k][1]
        off += rng.choice([0, 0, 0, 1, 2, 5])
        off = (off + w - 1) // w * w
        if off + w > size:
            break_ok = nm in FIXED
            if not break_ok:
                continue
            off = size - w if variety != "small" else off
        lo, hi = (-(1 << (8 * w - 1)), (1 << (8 * w - 1)) - 1) if KINDS[k][2] else (0, (1 << (8 * w)) - 1)
        dflt = rng.choice([0, 0, 1, hi, lo, rng.randint(lo, hi)])
        fields.append([nm, k, off, dflt])
        off += w
    if variety == "overlap" and len(fields) >= 2:
        i = rng.randrange(1, len(fields))
        fields[i][2] = fields[i - 1][2]
    if variety == "beyond":
        fields.append(["far", "V", size + rng.choice([0, 4, 8]), 0x01020304])
    if variety == "dup":
        fields.append([fields[0][0], "V", (size - 4) // 4 * 4, 77])
    if variety == "array":
        fields.append(["arr[4]", "C", min(off, size - 1), 9])
    if variety == "dotted-arrays":
        # members of nested structs, arrays among them, sharing their last component
        free = [o for o in range(0, min(size, 128) - 4, 4) if all(not (f[2] < o + 4 and o < f[2] + KINDS[f[1]][1])
                                                                   for f in fields)]
        rng.shuffle(free)
        for nm, k, d in (("rx.buf[2]", "C", 7), ("tx.buf[2]", "C", 9), ("rx.len", "v", 300), ("tx.len", "v", 400),
                         ("q.a.buf[3]", "V", 0x01020304))[:len(free)]:
            fields.append([nm, k, free.pop(), d])
    if variety == "A16":
        fields.append(["label[16]", "A16", 0, 0])
    if variety == "numbered":
        fields.append(["pair", "V2", 0, 0])
    lines = ["# synthetic struct file", "", "name = sv", "size = %s" % rng.choice([str(size), hex(size)]),
             "base = 0xf5007f00", ""]
    for nm, k, o, d in fields:
        lines.append("%-14s %-3s %s  %%d  %s   # %s" % (nm, k, rng.choice([hex(o), "0x%02x" % o, str(o)]),
                                                       rng.choice([str(d), hex(d)]) if d >= 0 else str(d),
                                                       rng.choice(["comment", "", "x # y"])))
        if rng.random() < 0.2:
            lines.append("")
    if variety == "two-structs":
        lines += ["", "name = vcpu", "size = 8", "base = 0", "r0  V  0x00  %08x  0", "hw_ver  C  0x04  %d  9"]
    return "\n".join(lines) + "\n", variety


def field_value(rng, perl):
    _, w, signed = KINDS.get(perl, ("", 1, False))
    lo, hi = (-(1 << (8 * w - 1)), (1 << (8 * w - 1)) - 1) if signed else (0, (1 << (8 * w)) - 1)
    return rng.choice([lo, hi, 1, 2, rng.randint(lo, hi), rng.randint(lo, hi)])


def gen_options(rng, sv, n, via_kwargs):
    names = [nm for nm, (perl, _, _, _) in sv["fields"].items() if perl in KINDS]
    if via_kwargs:
        names = [nm for nm in names if nm not in BOOT_PARAMS]
    rng.shuffle(names)
    return [[nm, field_value(rng, sv["fields"][nm][0])] for nm in names[:n]]


def gen_history(rng, tier, forced_sizes, allow_real):
    ncalls = rng.choice([1, 2, 2, 3, 3, 4])
    h = dict(slots=[], calls=[])
    synth = None
    if rng.random() < 0.25:
        synth = gen_struct(rng)
    last_image = None
    share_image_path = rng.random() < 0.3      # the boots of this history name one image / struct file path,
    share_struct_path = rng.random() < 0.3     # rewritten in place between them
    for i in range(ncalls):
        c = dict(via="mc" if rng.random() < 0.25 else "func", host="127.0.0.%d" % rng.randint(1, 6),
                 port=rng.choice([None, None, None, 54321, 17, 65535]), kwargs=[], overrides=None, tags=[])
        if c["via"] == "mc":
            # one of a few controllers of this process (a controller keeps its host), created with or without
            # structs=; sometimes with the deprecated (ignored) width / height arguments
            c["ctrl"] = rng.randrange(3)
            c["host"] = "127.0.0.%d" % (10 + c["ctrl"])
            c["structs_given"] = c["ctrl"] == 2
            r = rng.random()
            if r < 0.2:
                c["width"], c["height"] = rng.choice([(2, 2), (8, 8), (12, 24), (255, 255), (0, 0)])
                c["tags"].append("controller:width+height")
            elif r < 0.3:
                c[rng.choice(["width", "height"])] = rng.choice([1, 8, 48])
                c["tags"].append("controller:width-or-height")
        # image
        r = rng.random()
        if forced_sizes and i == 0:
            n = forced_sizes.pop()
            c["image"] = dict(kind="lcg", n=n, seed=rng.randint(1, 10 ** 6))
            c["tags"].append("size:boundary")
        elif last_image is not None and r < 0.15:
            c["image"] = last_image
            c["tags"].append("size:same-as-previous")
        elif r < 0.20 and allow_real[0] > 0:
            allow_real[0] -= 1
            c["image"] = dict(kind="bundled")
            c["tags"].append("size:bundled-scamp.boot")
        elif r < 0.30:
            k = rng.choice([1, 1, 2, 2, 3, 4])
            c["image"] = dict(kind="lcg", n=k * 1024 + rng.choice([-4, 0, 4]), seed=rng.randint(1, 10 ** 6))
            c["tags"].append("size:boundary")
        elif r < 0.36:
            c["image"] = dict(kind="lcg", n=rng.choice([0, 4, 128, 380, 384, 388, 508]), seed=rng.randint(1, 10 ** 6))
            c["tags"].append("size:below-512")
        elif r < 0.44:
            c["image"] = dict(kind="lcg", n=rng.choice([515, 1026, 2049, 1023, 32768, 32772, 33000]),
                              seed=rng.randint(1, 10 ** 6))
            c["tags"].append("size:malformed")
        elif r < 0.47:
            c["image"] = dict(kind="hex", hex=bytes(rng.randrange(256) for _ in range(512 + 4 * rng.randint(0, 40))).hex())
            c["tags"].append("size:literal")
        else:
            c["image"] = dict(kind="lcg", n=4 * rng.randint(128, 1050), seed=rng.randint(1, 10 ** 6))
            c["tags"].append("size:random")
        last_image = c["image"]
        if share_image_path:
            c["image_path"] = "img"
            c["tags"].append("path:image-rewritten-in-place")
        # struct file
        if synth is not None and rng.random() < 0.8:
            c["struct"] = dict(kind="text", text=synth[0])
            c["tags"].append("struct:" + synth[1])
            if share_struct_path:
                c["struct_path"] = "struct"
        else:
            c["struct"] = dict(kind="bundled")
            c["tags"].append("struct:bundled")
        text = c["struct"]["text"] if c["struct"]["kind"] == "text" else bundled_struct_text()
        sv = parse_struct_text(text).get("sv", dict(size=0, fields={}))
        # options
        style = rng.choice(["none", "none", "preset", "preset", "kwargs", "kwargs", "overrides", "both", "slot",
                            "empty-dict", "preset-as-dict", "bad-name", "bad-value", "fixed-field"])
        if i > 0 and rng.random() < 0.35:
            style = "none"              # the interesting successor of a boot with options
        c["tags"].append("options:" + style)
        if style == "preset":
            c["preset_kwargs"] = rng.randint(1, 5)
            if rng.random() < 0.3:
                c["kwargs"] = gen_options(rng, sv, 1, True)
        elif style == "kwargs":
            c["kwargs"] = gen_options(rng, sv, rng.randint(1, 5), True)
        elif style == "overrides":
            c["overrides"] = dict(fresh=gen_options(rng, sv, rng.randint(1, 5), False))
        elif style == "both":
            ov = gen_options(rng, sv, rng.randint(1, 4), True)
            c["overrides"] = dict(fresh=ov)
            c["kwargs"] = [[ov[0][0], field_value(rng, sv["fields"][ov[0][0]][0])]] if ov else []
            c["kwargs"] += [kv for kv in gen_options(rng, sv, 2, True) if kv[0] not in [k for k, _ in c["kwargs"]]]
        elif style == "slot":
            if not h["slots"] or rng.random() < 0.4:
                h["slots"].append(gen_options(rng, sv, rng.randint(0, 3), False))
            c["overrides"] = dict(slot=rng.randrange(len(h["slots"])))
            if rng.random() < 0.6:
                c["kwargs"] = gen_options(rng, sv, rng.randint(1, 2), True)
        elif style == "empty-dict":
            c["overrides"] = dict(fresh=[])
            if rng.random() < 0.5:
                c["kwargs"] = gen_options(rng, sv, 1, True)
        elif style == "preset-as-dict":
            c["overrides"] = dict(preset=rng.randint(1, 5))
            if rng.random() < 0.6:
                c["kwargs"] = gen_options(rng, sv, rng.randint(1, 2), True)
        elif style == "bad-name":
            c["kwargs"] = gen_options(rng, sv, 1, True) + [["no_such_field", 1]]
            rng.shuffle(c["kwargs"])
        elif style == "bad-value":
            opts = gen_options(rng, sv, 2, True)
            if opts:
                perl = sv["fields"][opts[0][0]][0]
                w = KINDS[perl][1]
                opts[0][1] = rng.choice([1 << (8 * w), -1 if not KINDS[perl][2] else -(1 << (8 * w - 1)) - 1, 1 << 40])
            c["kwargs"] = opts
        elif style == "fixed-field":
            c["kwargs"] = [[rng.choice(FIXED), rng.randint(0, 200)]] + gen_options(rng, sv, 1, True)
            c["kwargs"] = [kv for j, kv in enumerate(c["kwargs"]) if kv[0] not in [k for k, _ in c["kwargs"][:j]]]
        if c["via"] == "func" and rng.random() < 0.2:
            c["boot_delay"] = rng.choice([0, 0.01])
            c["post_boot_delay"] = rng.choice([0, 1.5])
        t = rng.choice([0, 1, 1474848000, 2 ** 32 - 1, rng.randint(0, 2 ** 32 - 1)])
        if rng.random() < 0.03:
            t = 2 ** 32 + 5
            c["tags"].append("time:beyond-32-bit")
        c["times"] = [t + rng.choice([0.0, 0.25, 0.75]), min(t + rng.choice([0, 0, 1]), max(t, 2 ** 32 - 1)) + 0.5]
        h["calls"].append(c)
    return h


# ------------------------------------------------------------------ what the caller asked for
def passed_dict(h, c, presets):
    ov = c["overrides"]
    if ov is None:
        return None
    if "slot" in ov:
        return [list(kv) for kv in h["slots"][ov["slot"]]]
    if "preset" in ov:
        return [list(kv) for kv in presets["spin%d" % ov["preset"]]]
    return [list(kv) for kv in ov["fresh"]]


def received_kwargs(c, presets):
    kw = {}
    if c.get("preset_kwargs"):
        kw.update((k, v) for k, v in presets["spin%d" % c["preset_kwargs"]])
    for k, v in c["kwargs"]:
        kw[k] = v
    return [[k, v] for k, v in kw.items()]


def asked_options(h, c, presets):
    d = dict((k, v) for k, v in (passed_dict(h, c, presets) or []))
    d.update((k, v) for k, v in received_kwargs(c, presets))
    return d


# ------------------------------------------------------------------ independent oracle
def unswap(payload):
    n = len(payload) // 4
    return struct.pack("<%dI" % n, *struct.unpack(">%dI" % n, payload))


def oracle_call(h, i, out, presets):
    """Decide the sentences of C20 for call i of history h from its inputs and what was observed.
    -> None (nothing to object to / call outside the property's domain) or (key, text)."""
    c = h["calls"][i]
    o = out["calls"][i]
    image = image_bytes(c["image"])
    text = c["struct"]["text"] if c["struct"]["kind"] == "text" else bundled_struct_text()
    try:
        sv = parse_struct_text(text)["sv"]
    except Exception:
        return None
    asked = asked_options(h, c, presets)
    t1, t2 = int(c["times"][0]), int(c["times"][1])
    # the call is well-formed: a word-sized image with a configuration area, a struct with an unambiguous
    # packed form and the three fixed fields, options that name system variables
    # (an image that ends inside the configuration area, 384..508 bytes, is in the domain: the area sent is still the
    #  whole 128 bytes -- the image is extended to 512 bytes; below 384 bytes there is no place for the area: outside)
    shaped = (len(image) % 4 == 0 and 384 <= len(image) < 32768 and packable(sv)
              and all(n in sv["fields"] for n in FIXED)
              and all(k in sv["fields"] and isinstance(v, int) for k, v in asked.items()))
    if not shaped:
        c["_in_domain"] = False
        return None
    # this call's value of every system variable
    values = dict((n, f[2]) for n, f in sv["fields"].items())
    values.update(asked)
    values.update(unix_time=t1, boot_sig=t2, root_chip=1)
    misfit = sorted(n for n, f in sv["fields"].items() if not value_ok(f[0], values[n]))
    c["_in_domain"] = not misfit
    c["_values"] = values
    if misfit:
        # A value that its field cannot hold cannot be carried by the configuration area: the boot may refuse
        # (the code raises before anything is sent); it must not return normally having sent an image.
        if o["result"][0] == "error" or (o["result"][0] in ("cli", "sent") and not o["datagrams"]):
            return None
        n = misfit[0]
        w = KINDS[sv["fields"][n][0]][1]
        sent = None
        try:
            area = b"".join(unswap(bytes.fromhex(d)[18:]) for d in o["datagrams"][1:-1])[384:512]
            off = sv["fields"][n][1]
            if off + w <= 128 and len(area) == 128:
                sent = int.from_bytes(area[off:off + w], "little")
        except Exception:
            pass
        rep = [r[3] for r in (o["result"][1] or dict(fields=[]))["fields"] if r[0] == n]
        return ("unrepresentable-option-sent",
                "boot returned normally after sending %d datagrams although %s=%r does not fit its %d-byte field: "
                "the configuration area%s cannot hold this call's value, the returned structs report %r"
                % (len(o["datagrams"]), n, values[n], w,
                   "" if sent is None else " holds %d there and" % sent, rep[0] if rep else None))
    if o["result"][0] not in ("ok", "cli", "sent"):
        return ("boot-raised-on-valid-input", "boot raised %s (%s) on a valid image and valid options"
                % (o["result"][1], o["result"][2]))
    # the datagram sequence
    dg = [bytes.fromhex(d) for d in o["datagrams"]]
    if len(dg) < 3 or any(len(d) < 18 for d in dg):
        return ("block-sequence", "%d datagrams sent, some shorter than a header" % len(dg))
    hdr = [struct.unpack(">HIIII", d[:18]) for d in dg]
    blocks = dg[1:-1]
    if hdr[0][1] != 1 or len(dg[0]) != 18:
        return ("block-sequence", "first datagram is not a start command: %r" % (hdr[0],))
    if hdr[0][4] != len(blocks) - 1:
        return ("block-sequence", "start announces %d (blocks - 1) but %d blocks follow" % (hdr[0][4], len(blocks)))
    if hdr[-1][1] != 5 or len(dg[-1]) != 18:
        return ("block-sequence", "last datagram is not an end command: %r" % (hdr[-1],))
    for j, d in enumerate(blocks):
        if hdr[1 + j][1] != 3:
            return ("block-sequence", "datagram %d is not a block command: %r" % (1 + j, hdr[1 + j]))
        if hdr[1 + j][2] & 0xFF != j:
            return ("block-sequence", "block %d carries number %d" % (j, hdr[1 + j][2] & 0xFF))
        if len(d) - 18 > 1024 or (len(d) - 18) % 4:
            return ("block-sequence", "block %d carries %d bytes" % (j, len(d) - 18))
    if o["connects"] != [[c["host"], c["port"] if c["port"] is not None else 54321]]:
        return ("wrong-destination", "socket connected to %r, board is %s" % (o["connects"], c["host"]))
    # reassembly
    got = b"".join(unswap(d[18:]) for d in blocks)
    values = dict((n, f[2]) for n, f in sv["fields"].items())
    values.update(asked)
    values.update(unix_time=t1, boot_sig=t2, root_chip=1)
    config = pack_expected(sv, values)[:128]
    want = image[:384] + config + image[512:]
    if got != want:
        if len(got) != len(want):
            return ("image-bytes-wrong", "reassembled image has %d bytes, expected %d" % (len(got), len(want)))
        if got[:384] != want[:384] or got[512:] != want[512:]:
            k = next(j for j in range(len(got)) if got[j] != want[j] and not 384 <= j < 512)
            return ("image-bytes-wrong", "reassembled image differs from the boot image at byte %d" % k)
        # does the configuration area carry options of an earlier boot of this process?
        earlier = {}
        for j in range(i):
            earlier.update(asked_options(h, h["calls"][j], presets))
        leak = dict((n, f[2]) for n, f in sv["fields"].items())
        leak.update((k, v) for k, v in earlier.items() if k in sv["fields"])
        leak.update(asked)
        leak.update(unix_time=t1, boot_sig=t2, root_chip=1)
        k = next(j for j in range(128) if got[384 + j] != config[j])
        try:
            leaked = bytes(got[384:512]) == pack_expected(sv, leak)[:128]
        except Exception:
            leaked = False
        if leaked:
            diff = sorted(n for n in earlier if n in sv["fields"] and leak[n] != values[n])
            return ("option-leak-from-earlier-boot",
                    "configuration area carries option(s) %s given to an earlier boot of this process, not to this one"
                    % ", ".join(diff))
        return ("config-area-wrong", "configuration area byte %d (image byte %d) is %d, expected %d"
                % (k, 384 + k, got[384 + k], config[k]))
    if o["result"][0] in ("cli", "sent"):     # nothing is returned: the command-line tool; a controller whose
        return None                            # post-boot check raised after the image was sent (structs: see run)
    # the returned struct definitions
    ret = o["result"][1]
    meta = [[n, python_pack(f[0]), f[1], f[3]] for n, f in sv["fields"].items()]
    if [[r[0], r[1], r[2], r[4]] for r in ret["fields"]] != meta or ret["size"] != sv["size"]:
        return ("structs-returned-differ", "returned sv layout (names, kinds, offsets, lengths) differs from the documented layout / the struct file given")
    for r in ret["fields"]:
        if r[3] != values[r[0]]:
            return ("structs-returned-differ", "returned default of %s is %r, the value sent is %r"
                    % (r[0], r[3], values[r[0]]))
    # the caller's dictionary
    p = passed_dict(h, c, presets)
    if p is not None and o["passed_after"] != p:
        return ("caller-dict-mutated", "the dictionary passed as sv_overrides was %r, after the call it is %r"
                % (p, o["passed_after"]))
    return None


# ------------------------------------------------------------------ Coq literals
def coq_str(s):
    return '"%s"%%string' % s.replace('"', '""')


def coq_dict(items):
    return vlist("(%s, %s)" % (coq_str(k), zlit(v)) for k, v in items)


def coq_sv(c):
    if c["struct"]["kind"] == "bundled":
        return "live_sv"
    sv = parse_struct_text(c["struct"]["text"])["sv"]
    return "(mksdef %s %s)" % (zlit(sv["size"]), vlist(
        "mkfield %s %s %s %s %s" % (coq_str(n), coq_str(python_pack(f[0])), zlit(f[1]), zlit(f[2]), zlit(f[3]))
        for n, f in sv["fields"].items()))


def coq_image(spec):
    if spec["kind"] == "lcg":
        return "(lcg_image %d %d)" % (spec["n"], spec["seed"])
    if spec["kind"] == "hex":
        return vlist(str(b) for b in bytes.fromhex(spec["hex"]))
    return "scamp_boot"


def coq_call(h, c, presets):
    p = passed_dict(h, c, presets)
    return "(mkcall %s %s %s %s %s %s (clock_of %s))" % (
        zlit(int(c["host"].split(".")[-1])), lib.vopt(c["port"], zlit), coq_image(c["image"]), coq_sv(c),
        "None" if p is None else "(Some %s)" % coq_dict(p), coq_dict(received_kwargs(c, presets)),
        vlist(zlit(int(t)) for t in c["times"]))


_COPIES = {}


def source_copies_overrides():
    """The ast fact of Generated/GenBoot.v: does the current boot() update a copy of sv_overrides?  (When it does
    not, boot_step IS boot_orig_step and the aliasing of dictionary objects between calls must be threaded.)"""
    if "v" not in _COPIES:
        try:
            with open(os.path.join(lib.COQ, "Generated", "GenBoot.v")) as f:
                _COPIES["v"] = re.search(r"boot_copies_overrides : bool :=\s*false", f.read()) is None
        except IOError:
            _COPIES["v"] = True
    return _COPIES["v"]


def ctrl_order(h):
    """The controllers of a history in the order the model creates them: ("mc", key) at the first boot through a
    controller, ("cli", None) for the controller the command-line tool makes."""
    order = []
    for c in h["calls"]:
        if c["via"] == "mc" and ("mc", c["ctrl"]) not in order:
            order.append(("mc", c["ctrl"]))
        elif c["via"] == "cli":
            order.append(("cli", None))
    return order


def coq_history(h, presets, step="boot_step"):
    """observe_ops over the operations of the history: OpBoot for boot(), OpNew (at its first use) + OpCtrlBoot for
    MachineController.boot, cli_ops (which looks the flag up in the table dumped from rig_boot.py) for rig-boot."""
    h2, pres = h, presets
    if step != "boot_step" or not source_copies_overrides():
        # The code as found modified the dictionary object it was given.  The Coq model takes dictionary VALUES,
        # so the aliasing between calls (a caller's dictionary or a preset object passed again) is threaded here.
        h2 = dict(slots=[[list(kv) for kv in s_] for s_ in h["slots"]], calls=h["calls"])
        pres = dict((k, [list(kv) for kv in v]) for k, v in presets.items())
    ops = []
    seen = []
    for c in h["calls"]:
        lit = coq_call(h2, c, pres)
        host = zlit(int(c["host"].split(".")[-1]))
        if c["via"] == "func":
            ops.append("[OpBoot %s]" % lit)
        elif c["via"] == "mc":
            if ("mc", c["ctrl"]) not in seen:
                seen.append(("mc", c["ctrl"]))
                ops.append("[OpNew %s None %s]" % (host, "(Some live_sv)" if c.get("structs_given") else "None"))
            ops.append("[OpCtrlBoot %d %s %s %s]" % (seen.index(("mc", c["ctrl"])), lib.vopt(c.get("width"), zlit),
                                                    lib.vopt(c.get("height"), zlit), lit))
        else:
            flag = "(Some %s)" % coq_str(c["cli_args"][0]) if c["cli_args"] else "None"
            ops.append("(cli_ops %s %s (clock_of %s) %d)" % (host, flag, vlist(zlit(int(t)) for t in c["times"]),
                                                            len(seen)))
            seen.append(("cli", len(seen)))
        if step != "boot_step" or not source_copies_overrides():
            ov = c["overrides"]
            if ov is not None and "fresh" not in ov:
                obj = h2["slots"][ov["slot"]] if "slot" in ov else pres["spin%d" % ov["preset"]]
                d = dict((k, v) for k, v in obj)
                d.update((k, v) for k, v in received_kwargs(c, pres))
                obj[:] = [[k, v] for k, v in d.items()]
    return "observe_ops %s (%s)" % (step, " ++ ".join(ops) if ops else "[]")


def canon_model(v, h):
    st, obs, ctrls = v
    calls = []
    for dest, dgs, res, cd in obs:
        calls.append(dict(dest=None if dest is None else list(dest[1]),
                          datagrams=[list(d) for d in dgs],
                          result=["ok", list(res[1])] if res[0] == "Ok" else [res[0]],
                          caller_dict=None if cd is None else [list(kv) for kv in cd[1]]))
    order = ctrl_order(h)
    cs = [[host, port, list(dfl)] for (kind, _), (host, port, dfl) in zip(order, ctrls) if kind == "mc"]
    if len(ctrls) != len(order):
        cs.append("model has %d controllers, the history %d" % (len(ctrls), len(order)))
    return dict(shared=[list(kv) for kv in st], calls=calls, controllers=cs)


def canon_impl(h, out):
    calls = []
    for c, o in zip(h["calls"], out["calls"]):
        dest = None
        if len(o["connects"]) == 1:
            host = o["connects"][0][0]
            dest = [int(host.split(".")[-1]) if isinstance(host, str) and host.startswith("127.0.0.") else host,
                    o["connects"][0][1]]
        elif o["connects"]:
            dest = o["connects"]
        dgs = []
        for d in o["datagrams"]:
            b = bytes.fromhex(d)
            dgs.append([len(b), digest(b)])
        if o["result"][0] in ("cli", "sent"):
            res = ["cli"]
        elif o["result"][0] == "ok":
            res = ["ok", [f[3] for f in o["result"][1]["fields"]]]
        else:
            res = ["OtherError"]
        calls.append(dict(dest=dest, datagrams=dgs, result=res, caller_dict=o["passed_after"]))
    shared = out["calls"][-1]["shared_after"] if out["calls"] else []
    cs = []
    final = out["calls"][-1]["controllers"] if out["calls"] else {}
    for kind, key in ctrl_order(h):
        if kind == "mc":
            snap = final.get("c%s" % key)
            if snap is None:
                cs.append(None)
                continue
            host = snap["host"]
            cs.append([int(host.split(".")[-1]) if isinstance(host, str) and host.startswith("127.0.0.") else host,
                       snap["port"], [d for _, d in snap["sv"]] if snap["sv"][:1] != ["unreadable"] else snap["sv"]])
    return dict(shared=shared, calls=calls, controllers=cs)


def first_difference(m, i):
    if m.get("controllers") != i.get("controllers"):
        for k, (a, b) in enumerate(zip(m["controllers"], i["controllers"])):
            if a != b:
                return "controller %d after the history (host, boot port, sv defaults): model %s, implementation %s" % (
                    k, str(a)[:400], str(b)[:400])
        return "controllers after the history: model %d, implementation %d" % (len(m["controllers"]), len(i["controllers"]))
    if m["shared"] != i["shared"]:
        return "shared default dictionary after the history: model %r, implementation %r" % (m["shared"], i["shared"])
    for k, (a, b) in enumerate(zip(m["calls"], i["calls"])):
        for key in ("dest", "result", "caller_dict"):
            if a[key] != b[key]:
                return "boot %d, %s: model %s, implementation %s" % (k, key, str(a[key])[:300], str(b[key])[:300])
        if a["datagrams"] != b["datagrams"]:
            if len(a["datagrams"]) != len(b["datagrams"]):
                return "boot %d: model sends %d datagrams, implementation %d" % (k, len(a["datagrams"]), len(b["datagrams"]))
            j = next(j for j in range(len(a["datagrams"])) if a["datagrams"][j] != b["datagrams"][j])
            return "boot %d, datagram %d: model (length, digest) %r, implementation %r" % (
                k, j, a["datagrams"][j], b["datagrams"][j])
    if len(m["calls"]) != len(i["calls"]):
        return "number of boots"
    return "?"


def spread(costs, k):
    """A permutation of range(len(costs)) such that consecutive runs of len/k items have similar total cost."""
    order = sorted(range(len(costs)), key=lambda j: -costs[j])
    buckets = [[] for _ in range(k)]
    for n, j in enumerate(order):
        buckets[n % k if (n // k) % 2 == 0 else k - 1 - n % k].append(j)
    return [j for b in buckets for j in b]


def strip(h):
    return dict(slots=h["slots"], calls=[dict((k, v) for k, v in c.items() if not k.startswith("_")) for c in h["calls"]])


# ------------------------------------------------------------------ the check
def run(chk, args):
    chk.trusted += ["CPython struct.pack/unpack, bytes/bytearray slicing, dict insertion order (modelled by "
                    "Model/Boot.v: format interpreter, splice, association lists)",
                    "the recording socket and scripted clock assigned to boot.socket / boot.time by "
                    "harness/impl_c20.py (the real network and clock are outside the model)",
                    "rig's struct file parser is tied by correspondence only (its output for the bundled "
                    "sark.struct is dumped into Generated/GenBoot.v; synthetic files are parsed independently)"]
    chk.assumptions += ["option names are ASCII strings, option values and struct defaults are Python ints",
                        "struct file offsets are non-negative; image and struct files are readable",
                        "python is not run with -O (the assert statements of boot() are the guards of its domain)"]
    import time as _t
    t0 = _t.time()
    timing = lambda what: os.environ.get("C20_TIMING") and print("[C20 %6.1fs] %s" % (_t.time() - t0, what))
    chk.regenerate(UNITS)
    timing("regenerated")
    built = chk.prove(extra_targets=["Model/Boot.vo", "Model/BootCtrl.vo", "Generated/GenBootImage.vo"])
    if not built:
        ok, log = chk.build(["Model/Boot.vo", "Model/BootCtrl.vo", "Generated/GenBootImage.vo"])
        if not ok:
            chk.model_ok = False
            chk.oblige("build:Model/Boot.vo", False, log[-1500:])
    timing("proved")
    # ---- cases
    rng = chk.rng
    corpus = os.path.join(lib.VERIF, "corpus", "C20.json")
    histories = []
    if args.replay:
        rp = json.load(open(args.replay))
        for f in rp.get("failures", []) + rp.get("no_longer_checks", []):
            if "history" in f.get("replay", {}):
                histories.append(f["replay"]["history"])
    else:
        if os.path.exists(corpus):
            histories += json.load(open(corpus))
        n = 200 if chk.tier == "quick" else 5000
        forced = [k * 1024 + d for k in range(1, 33) for d in (-4, 0, 4)]
        rng.shuffle(forced)
        allow_real = [6 if chk.tier == "quick" else 60]
        histories += [gen_history(rng, chk.tier, forced, allow_real) for _ in range(n)]
        # small exhaustive families: every ordered pair (preset i, then preset j or no option at all) ...
        def simple(host, n, seed, t, **kw):
            c = dict(via="func", host="127.0.0.%d" % host, port=None, image=dict(kind="lcg", n=n, seed=seed),
                     struct=dict(kind="bundled"), overrides=None, kwargs=[], times=[t + 0.5, t + 0.5], tags=["family"])
            c.update(kw)
            return c
        for i in range(1, 6):
            for j in range(0, 6):
                second = simple(2, 1028, 11 + j, 1474848100, **(dict(preset_kwargs=j) if j else {}))
                histories.append(dict(slots=[], calls=[simple(1, 1028, i, 1474848000, preset_kwargs=i), second]))
        # ... values that do not fit, for every field class lying in the configuration area (one byte, half
        # word, word): max+1, a wrap-around to a plausible value, large, -1; as keyword and in sv_overrides;
        # each followed by a boot without options
        for nm, w in (("hw_ver", 1), ("p2p_sql", 1), ("cpu_clk", 2), ("p2p_dims", 2), ("led0", 4), ("sdram_heap", 4)):
            for v in ((1 << (8 * w)), (1 << (8 * w)) + 5, (1 << (8 * w)) + 200, 1 << 40, -1):
                for route in ("kwargs", "overrides"):
                    opt = dict(kwargs=[[nm, v]]) if route == "kwargs" else dict(overrides=dict(fresh=[[nm, v]]))
                    c1 = simple(5, 1024, 7, 1474848000, **opt)
                    c1["tags"] = ["family", "options:does-not-fit"]
                    histories.append(dict(slots=[], calls=[c1, simple(6, 1024, 7, 1474848000)]))
        # ... options named like the parameters of boot() / MachineController.boot (the system variable
        # boot_delay is also the name of boot()'s timing parameter): via sv_overrides= through both entry points,
        # alone, with other options, with the timing parameter given too; and a struct whose fields carry every
        # parameter name, overridden via sv_overrides= (both entry points) and by keyword where that is an option
        for via in ("func", "mc"):
            for v in (0, 33, 255):
                for extra in ([], [["hw_ver", 3]], [["led0", 1282], ["boot_sig", 9]]):
                    for tdelay in (None, 0.01):
                        c1 = simple(1, 1024, 3, 1474848000, via=via, overrides=dict(fresh=[["boot_delay", v]] + extra))
                        if tdelay is not None:
                            c1["boot_delay"] = tdelay
                        c1["tags"] = ["family", "options:named-like-a-parameter"]
                        histories.append(dict(slots=[], calls=[c1, simple(2, 1024, 3, 1474848001, via=via)]))
        pnames = ["hostname", "boot_port", "scamp_binary", "sark_struct", "boot_delay", "post_boot_delay",
                  "sv_overrides", "width", "height", "only_if_needed", "check_booted", "kwargs", "boot_kwargs"]
        ptext = "name = sv\nsize = 128\nbase = 0xf5007f00\n" + "".join(
            "%-16s C  0x%02x  %%d  %d\n" % (nm, k, k + 1) for k, nm in enumerate(pnames)) + (
            "unix_time V 0x20 %08x 0\nboot_sig V 0x24 %08x 0\nroot_chip C 0x28 %d 0\nhw_ver C 0x29 %d 0\n")
        for via in ("func", "mc"):
            for k, nm in enumerate(pnames):
                c1 = simple(1, 1024, 3, 1474848000, via=via, struct=dict(kind="text", text=ptext),
                            overrides=dict(fresh=[[nm, 100 + k]]))
                c1["tags"] = ["family", "options:named-like-a-parameter"]
                histories.append(dict(slots=[], calls=[c1]))
            c1 = simple(1, 1024, 3, 1474848000, via=via, struct=dict(kind="text", text=ptext),
                        overrides=dict(fresh=[[nm, 200 + k] for k, nm in enumerate(pnames)]))
            c1["tags"] = ["family", "options:named-like-a-parameter"]
            histories.append(dict(slots=[], calls=[c1]))
        for nm in ("width", "height", "only_if_needed", "check_booted", "kwargs", "boot_kwargs"):
            c1 = simple(1, 1024, 3, 1474848000, struct=dict(kind="text", text=ptext), kwargs=[[nm, 77]])
            c1["tags"] = ["family", "options:named-like-a-parameter"]
            histories.append(dict(slots=[], calls=[c1]))
        for nm in ("kwargs", "boot_kwargs"):
            c1 = simple(1, 1024, 3, 1474848000, via="mc", struct=dict(kind="text", text=ptext), kwargs=[[nm, 78]])
            c1["tags"] = ["family", "options:named-like-a-parameter"]
            histories.append(dict(slots=[], calls=[c1]))
        # ... the image file and the struct file rewritten IN PLACE between the boots of one process (same path,
        # modification time pinned to the same second): same size / different content, then another size
        sa = ("name = sv\nsize = 128\nbase = 0xf5007f00\nhw_ver C 0x00 %d 3\nled0 V 0x04 %08x 0x00000502\n"
              "unix_time V 0x10 %08x 0\nboot_sig V 0x14 %08x 0\nroot_chip C 0x18 %d 0\ncpu_clk v 0x1a %d 200\n")
        sb = sa.replace("%d 3\n", "%d 4\n").replace("0x00000502", "0x00000001").replace("%d 200", "%d 150")
        assert len(sa) == len(sb) and sa != sb
        for via in ("func", "mc"):
            for sizes in ([(2048, 1), (2048, 2), (2048, 3)], [(1024, 5), (1024, 6), (3072, 6), (3072, 7)],
                          [(27168, 1), (27168, 2)]):
                for structs in (None, [sa, sb, sa, sb]):
                    calls = []
                    for k, (n, seed) in enumerate(sizes):
                        c1 = simple(1 + k, n, seed, 1474848000 + k, via=via, image_path="img",
                                    **(dict(preset_kwargs=1 + k) if k % 2 == 0 else {}))
                        if structs is not None:
                            c1["struct"] = dict(kind="text", text=structs[k])
                            c1["struct_path"] = "struct"
                        c1["tags"] = ["family", "path:image-rewritten-in-place"] + (
                            ["path:struct-rewritten-in-place"] if structs is not None else [])
                        calls.append(c1)
                    histories.append(dict(slots=[], calls=calls))
            # the struct file alone rewritten, each boot with an image file of its own
            calls = []
            for k, text in enumerate([sa, sb, sb, sa]):
                c1 = simple(1 + k, 1024, 9 + k, 1474848000 + k, via=via, struct=dict(kind="text", text=text),
                            struct_path="struct")
                c1["tags"] = ["family", "path:struct-rewritten-in-place"]
                calls.append(c1)
            histories.append(dict(slots=[], calls=calls))
        # ... every system variable of the configuration area (first 128 bytes of sv, the LED words and the spare
        # ones included) given a value with no zero byte, one per boot and all in one boot, judged byte for byte
        # against the pinned documented layout
        pinned = parse_struct_text(PINNED_SV)["sv"]
        pat = {1: 0xA5, 2: 0xA55A, 4: 0xA55AA55B}
        area = [(nm, KINDS[f[0]][1]) for nm, f in pinned["fields"].items() if f[0] in KINDS and f[1] < 128]
        for nm, w in area:
            c1 = simple(7, 1024, 13, 1474848000, overrides=dict(fresh=[[nm, pat[w]]]))
            c1["tags"] = ["family", "options:every-config-area-field"]
            histories.append(dict(slots=[], calls=[c1]))
        for via in ("func", "mc"):
            c1 = simple(7, 1024, 13, 1474848000, via=via, overrides=dict(fresh=[[nm, pat[w] - k % 3] for k, (nm, w) in enumerate(area)]))
            c1["tags"] = ["family", "options:every-config-area-field"]
            histories.append(dict(slots=[], calls=[c1, simple(8, 1024, 13, 1474848001, via=via)]))
        # ... custom struct files (sark_struct=) in the documented format: dotted member names, arrays of nested
        # members sharing their last component, comments, blank lines, hex and decimal numbers
        dotted = ("# custom system variables\n\nname = sv   # struct\nsize = 0x80\nbase = 0xf5007f00\n\n"
                  "hw_ver        C  0x00  %d    0    # plain\n"
                  "rx.buf[2]     C  0x10  %02x  7    # array member of rx\n"
                  "tx.buf[2]     C  0x14  %02x  9    # array member of tx\n\n"
                  "rx.len        v  24    %d    300\n"
                  "tx.len        v  26    %d    0x190\n"
                  "q.a.buf[3]    V  0x20  %08x  0x01020304\n"
                  "buf           C  0x30  %d    5    # a plain field called like the members\n"
                  "unix_time     V  0x40  %08x  0\nboot_sig      V  0x44  %08x  0\nroot_chip     C  0x48  %d  0\n"
                  "\nname = other\nsize = 4\nbase = 0\nx.buf[2]  C  0  %d  1\n")
        for via in ("func", "mc"):
            for opt in ({}, dict(overrides=dict(fresh=[["rx.buf[2]", 0x11]])), dict(overrides=dict(fresh=[["tx.buf[2]", 0x22], ["buf", 0x33]])),
                        dict(kwargs=[["hw_ver", 4]], overrides=dict(fresh=[["q.a.buf[3]", 0x0A0B0C0D], ["rx.len", 0x1234]]))):
                c1 = simple(9, 1024, 17, 1474848000, via=via, struct=dict(kind="text", text=dotted), **opt)
                c1["tags"] = ["family", "struct:dotted-arrays"]
                histories.append(dict(slots=[], calls=[c1]))
        # ... boots through a controller whose post-boot check gets no SCP reply (SpiNNakerBootError after the
        # image was sent): the controller's structs must describe the image that was sent
        for given in (False, True):
            calls = [simple(10, 1024, 19, 1474848000, via="mc", ctrl=0, structs_given=given, preset_kwargs=3, check_booted=True),
                     simple(11, 1024, 19, 1474848010, via="mc", ctrl=1, kwargs=[["cpu_clk", 150]]),
                     simple(10, 1024, 21, 1474848020, via="mc", ctrl=0, structs_given=given, check_booted=True,
                            overrides=dict(fresh=[["led1", 0x0F0F], ["boot_delay", 20]]))]
            for c1 in calls:
                c1["tags"] = ["family", "controller:post-boot-check-fails" if c1.get("check_booted") else "controller:sequence"]
            histories.append(dict(slots=[], calls=calls))
        # ... and, in the thorough tier, every image size 0, 4, ..., 4200 and every single-field override of
        # the bundled struct at its extreme values
        if chk.tier != "quick":
            for n in range(0, 4204, 4):
                histories.append(dict(slots=[], calls=[simple(1, n, n + 1, 1474848000 + n, preset_kwargs=1 + n // 4 % 5)]))
            sv = parse_struct_text(bundled_struct_text())["sv"]
            for nm, (perl, _, _, _) in sv["fields"].items():
                w = KINDS[perl][1]
                for v in (0, (1 << (8 * w)) - 1, 1 << (8 * w), -1):
                    opt = dict(overrides=dict(fresh=[[nm, v]])) if nm in BOOT_PARAMS or rng.random() < 0.5 \
                        else dict(kwargs=[[nm, v]])
                    histories.append(dict(slots=[], calls=[simple(3, 1024, 5, 1474848000, **opt),
                                                           simple(4, 1024, 5, 1474848000)]))
        # ... boots through several controllers of one process: each controller's structs must keep describing
        # its own last boot; with and without structs=, the deprecated width / height (ignored per the docs),
        # presets, keywords, sv_overrides, a re-boot of an earlier controller
        def mcboot(ctrl, seed, t, **kw):
            c = simple(10 + ctrl, 1024, seed, t, via="mc", ctrl=ctrl, **kw)
            c["tags"] = ["family", "controller:sequence"]
            return c
        for given in ([False, False, False], [True, False, True], [True, True, True]):
            sg = lambda k: dict(structs_given=given[k])
            histories.append(dict(slots=[], calls=[
                mcboot(0, 1, 1474848000, preset_kwargs=3, **sg(0)), mcboot(1, 2, 1474848010, preset_kwargs=5, **sg(1)),
                mcboot(2, 3, 1474848020, **sg(2))]))
            histories.append(dict(slots=[], calls=[
                mcboot(0, 1, 1474848000, kwargs=[["cpu_clk", 150]], **sg(0)),
                mcboot(1, 2, 1474848010, overrides=dict(fresh=[["led0", 7], ["boot_delay", 3]]), **sg(1)),
                mcboot(0, 4, 1474848020, preset_kwargs=2, **sg(0)), mcboot(1, 5, 1474848030, **sg(1))]))
            histories.append(dict(slots=[], calls=[
                mcboot(0, 1, 1474848000, **sg(0)), mcboot(1, 2, 1474848010, preset_kwargs=1, **sg(1)),
                simple(3, 1024, 9, 1474848020, preset_kwargs=4),
                mcboot(2, 3, 1474848030, kwargs=[["no_such_field", 1]], **sg(2))]))
        for wh in (dict(width=2, height=2), dict(width=8, height=8), dict(width=12, height=24), dict(width=48),
                   dict(height=24), dict(width=0, height=0), dict(width=255, height=255)):
            for extra in ({}, dict(preset_kwargs=5), dict(kwargs=[["p2p_dims", 0x0303]])):
                c1 = mcboot(0, 1, 1474848000, **dict(wh, **extra))
                c1["tags"] = ["family", "controller:width+height" if len(wh) == 2 else "controller:width-or-height"]
                histories.append(dict(slots=[], calls=[c1, mcboot(1, 2, 1474848010)]))
        # ... the command-line tool rig-boot HOST [--spinN]: judged against the documented preset of the flag
        documented = {1: 0x00076104, 2: 0x00006103, 3: 0x00000502, 4: 0x00000001, 5: 0x00000001}
        def cli(host, n):
            return dict(via="cli", host="127.0.0.%d" % host, port=None, image=dict(kind="bundled"),
                        struct=dict(kind="bundled"), overrides=None, cli_args=["--spin%d" % n] if n else [],
                        kwargs=[["hw_ver", n], ["led0", documented[n]]] if n else [],
                        times=[1474848000.5 + n, 1474848000.5 + n], tags=["family", "entry:rig-boot"])
        for n in range(0, 6):
            histories.append(dict(slots=[], calls=[cli(20 + n, n)]))
        histories.append(dict(slots=[], calls=[cli(30, 3), cli(31, 0)]))
        # the history of the repaired defect, always
        histories.append(dict(slots=[], calls=[
            dict(via="func", host="127.0.0.1", port=None, image=dict(kind="bundled"), struct=dict(kind="bundled"),
                 overrides=None, kwargs=[], preset_kwargs=3, times=[1474848000.5, 1474848000.9], tags=["fixed:F4"]),
            dict(via="func", host="127.0.0.2", port=None, image=dict(kind="bundled"), struct=dict(kind="bundled"),
                 overrides=None, kwargs=[], times=[1474848001.5, 1474848001.9], tags=["fixed:F4"])]))
    for h in histories:          # a boot through a controller that names none gets a controller of its own
        for i, c in enumerate(h["calls"]):
            if c["via"] == "mc" and c.get("ctrl") is None:
                c["ctrl"] = 100 + i
    # ---- implementation
    k = max(1, min(12, len(histories) // 4))
    chunks = [histories[i::k] for i in range(k)]
    parts = chk.impl_parallel("impl_c20.py", chunks)
    outs = [None] * len(histories)
    for i in range(k):
        for j, o in enumerate(parts[i]):
            outs[i + j * k] = o
    timing("implementation ran")
    presets_seen = None
    good = []
    for h, o in zip(histories, outs):
        if isinstance(o, list):
            if o[0] == "hang":
                chk.fail_input("boot-hangs", "a history of boots did not finish within the time limit",
                               dict(history=strip(h)))
            else:
                chk.oblige("driver-ran", False, "driver error on a history: %r" % (o,))
            continue
        good.append((h, o))
        presets_seen = presets_seen or o["presets_before"]
    # ---- oracle
    for h, o in good:
        presets = o["presets_before"]
        verdicts = []
        for i, c in enumerate(h["calls"]):
            for t in c.get("tags", []):
                chk.count(t)
            chk.count("via:" + c["via"])
            chk.count("outcome:" + o["calls"][i]["result"][0])
            v = oracle_call(h, i, o, presets)
            chk.count("in-domain:%s" % c.get("_in_domain", False))
            if o["calls"][i]["result"][0] == "ok":
                chk.count("blocks:%02d" % (len(o["calls"][i]["datagrams"]) - 2))
            verdicts.append(v)
            if v:
                chk.fail_input(v[0], "boot %d of %d in one process: %s" % (i + 1, len(h["calls"]), v[1]),
                               dict(history=strip(h), boot=i, observed=dict(
                                   result=o["calls"][i]["result"][:2] if o["calls"][i]["result"][0] == "error" else "ok",
                                   n_datagrams=len(o["calls"][i]["datagrams"]),
                                   config_area=(b"".join(unswap(bytes.fromhex(d)[18:]) for d in
                                                         o["calls"][i]["datagrams"][1:-1])[384:512].hex()
                                                if all((len(d) // 2 - 18) % 4 == 0 and len(d) >= 36 for d in
                                                       o["calls"][i]["datagrams"][1:-1]) else None),
                                   passed_after=o["calls"][i]["passed_after"])))
                break
        # every controller's struct definitions describe ITS OWN last boot, also after later boots elsewhere
        if not any(verdicts):
            last = {}
            for i, c in enumerate(h["calls"]):
                oc = o["calls"][i]
                if c["via"] == "mc":
                    key = "c%s" % c["ctrl"]
                    if oc["result"][0] in ("ok", "sent") and c.get("_in_domain"):
                        last[key] = (i, c["_values"])      # "sent": the post-boot check raised after the image went out
                    elif oc["result"][0] in ("ok", "sent"):
                        last.pop(key, None)
                bad = None
                for key, (j, vals) in last.items():
                    snap = (oc["controllers"].get(key) or {}).get("sv")
                    if snap is None or (snap and snap[0] == "unreadable"):
                        continue
                    diff = [(n, d, vals.get(n)) for n, d in snap if vals.get(n) != d]
                    if diff or len(snap) != len(vals):
                        bad = (key, j, diff[:3])
                        break
                if bad:
                    chk.fail_input("controller-structs-describe-another-boot",
                                   "after boot %d of %d the struct definitions of the controller that made boot %d "
                                   "no longer describe that boot: %s" % (
                                       i + 1, len(h["calls"]), bad[1] + 1,
                                       ", ".join("%s is %r, was sent as %r" % d for d in bad[2])),
                                   dict(history=strip(h), boot=i, controller=bad[0]))
                    break
        if o["presets_after"] != o["presets_before"]:
            chk.fail_input("preset-mutated", "a spinN_boot_options preset was modified by a boot: %r -> %r"
                           % (o["presets_before"], o["presets_after"]), dict(history=strip(h)))
        chk.count("history-length:%d" % len(h["calls"]))
        ok_calls = [i for i, c in enumerate(h["calls"]) if c.get("_in_domain") and o["calls"][i]["result"][0] == "ok"]
        chk.note_case(strip(h), nontrivial=bool(ok_calls) and (
            len(h["calls"]) >= 2 or any(asked_options(h, h["calls"][i], presets) for i in ok_calls)))
    if good:
        h, o = good[len(good) // 2]
        chk.sample(dict(history=strip(h), implementation=[
            dict(result=c["result"][0], datagram_lengths=[len(d) // 2 for d in c["datagrams"]],
                 connects=c["connects"]) for c in o["calls"]]))
    timing("oracle done")
    # ---- model
    if chk.model_ok and good:
        try:
            step = os.environ.get("C20_STEP", "boot_step")    # boot_orig_step: validate the model of the code as found
            exprs = [coq_history(h, o["presets_before"], step) for h, o in good]
            costs = [sum(image_len(c["image"]) + 2000 for c in h["calls"]) for h, _ in good]
            # <= 40 histories per coqc process (each process stays below ~0.5 GB), at least 24 shards when possible
            nsh = max(1, min(24, len(exprs) // 3), (len(exprs) + 39) // 40)
            perm = spread(costs, nsh)
            vals_p = chk.coq_eval(HEADER, [exprs[j] for j in perm], shard=(len(exprs) + nsh - 1) // nsh, timeout=1500)
            vals = [None] * len(exprs)
            for pos, j in enumerate(perm):
                vals[j] = vals_p[pos]
            bad = None
            for (h, o), v in zip(good, vals):
                chk.traces_validated += len(h["calls"])
                m, im = canon_model(v, h), canon_impl(h, o)
                for k_, c_ in enumerate(h["calls"]):     # the command-line tool returns nothing to compare
                    if (c_["via"] == "cli" or c_.get("check_booted")) and im["calls"][k_]["result"] == ["cli"] \
                            and k_ < len(m["calls"]) and m["calls"][k_]["result"][0] == "ok":
                        m["calls"][k_]["result"] = ["cli"]
                if m != im:
                    bad = (h, o, first_difference(m, im))
                    break
            if bad is None:
                chk.oblige("correspondence:" + step + " (%d histories, %d boots: every datagram, returned defaults, "
                           "destination, caller's and shared dictionaries)" % (len(good), chk.traces_validated), True)
            else:
                h, o, what = bad
                note = ""
                try:
                    v2 = chk.coq_eval(HEADER, [coq_history(h, o["presets_before"], "boot_orig_step")], name="orig")[0]
                    if canon_model(v2, h) == canon_impl(h, o):
                        note = " [the implementation agrees with boot_orig_step, the model of the code as found before the fix]"
                except Exception:
                    pass
                chk.disagree(what + note, dict(history=strip(h)))
        except RuntimeError as e:
            chk.oblige("correspondence:model-evaluates", False, str(e))
    timing("model compared")
    chk.coverage["rule"] = (
        "histories of 1-4 boots in one process (boot() and MachineController.boot), images: every block boundary "
        "k*1024-4/0/+4 for k=1..32, random multiples of 4 in [512,4200], the bundled scamp.boot, literal bytes, sizes "
        "below 512 and malformed sizes; struct files: the bundled sark.struct and synthetic ones (overlap, beyond the "
        "size, duplicate names, arrays, non-integer kinds, too small, missing fixed field); options: none, presets, "
        "keyword overrides, sv_overrides, both with a shared key, a caller's dictionary reused across calls, a preset "
        "object passed as the dictionary, unknown names, out-of-range values; plus exhaustively every ordered pair "
        "(preset i, then preset j or no option), values that do not fit their field (max+1, wrap-arounds, 2^40, -1 for "
        "byte / half-word / word variables of the configuration area, as keyword and in sv_overrides: the boot must "
        "refuse, never return normally with an image), options named like parameters of boot()/MachineController.boot "
        "(boot_delay via sv_overrides= through both entry points; a struct whose fields carry every parameter name), "
        "image and struct files rewritten in place between boots (same path, same size, same second), sequences of boots "
        "through several MachineControllers (with/without structs=, with the deprecated width/height) whose structs "
        "are re-read after every later boot, the command-line tool rig-boot with each --spinN flag, and the F4 history; thorough tier adds every image size 0,4,...,4200 "
        "and every field of the bundled sv overridden with 0 / max / max+1 / -1 followed by a boot without options; "
        "non-trivial = at least one boot inside "
        "the property's domain succeeded and the history has >= 2 boots or that boot carried options; distinct by "
        "hash of the whole history")
