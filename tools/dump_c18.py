"""Dumper of unit GenSignatures (property C18).

Printed from the current /repo, as Coq definitions:

  * for every method wrapped by `ContextMixin.use_contextual_arguments` in MachineController and
    BMPController: class, name, the positional parameters (after self) in order with their defaults
    (no default / `Required` sentinel => DRequired, literal int / None / bool => the literal, anything else
    => an opaque token), whether the method has *args / **kwargs, and the keyword-only defaults handed to
    the decorator, in order;
  * the `initial_context` defaults of the two constructors;
  * the command numbers and operation codes the model of the method bodies mentions;
  * the table rig.geometry.SPINN5_ETH_OFFSET (used by the translated spinn5_local_eth_coord).

Two independent readings are compared and any difference is an error (fail closed):
  (a) `ast` of the two source files: every FunctionDef of the class carrying the decorator;
  (b) the live classes: every function in the class dict with a `__wrapped__` attribute whose closure
      has exactly the free variables of the decorator's wrapper (arg_names, defaults, f,
      kw_only_args_defaults); the closure's contents are what the wrapper really uses at call time.
Also an error: a decorated method with keyword-only parameters, a decorator call with positional or
**-arguments, a third class deriving from ContextMixin anywhere in rig/, a change of the free variables of
the wrapper (the decorator was rewritten), a default that is neither a literal nor Required where the
closure and the source disagree.
"""
import ast
import glob
import inspect
import os
import sys
import warnings

warnings.simplefilter("ignore")
sys.path.insert(0, os.path.dirname(os.path.abspath(__file__)))
import dumplib as D  # noqa: E402

REPO = [p for p in os.environ.get("PYTHONPATH", "/repo").split(os.pathsep) if p][0]

from rig.utils import contexts  # noqa: E402
from rig.utils.contexts import ContextMixin, Required  # noqa: E402
from rig.machine_control.machine_controller import MachineController  # noqa: E402
from rig.machine_control.bmp_controller import BMPController  # noqa: E402
from rig.machine_control import consts  # noqa: E402
from rig import geometry  # noqa: E402
import numpy as np  # noqa: E402

CLASSES = [("MC", MachineController, "rig/machine_control/machine_controller.py", "MachineController"),
           ("BMP", BMPController, "rig/machine_control/bmp_controller.py", "BMPController")]
WRAPPER_FREEVARS = ("arg_names", "defaults", "f", "kw_only_args_defaults")


class Shape(Exception):
    pass


def need(cond, what):
    if not cond:
        raise Shape(what)


TOKENS = []          # reprs of the opaque defaults, index + 1000 is the token number


def coq_value(v):
    if v is None:
        return "VNone"
    if isinstance(v, bool):
        return "(VBool %s)" % ("true" if v else "false")
    if isinstance(v, int):
        return "(VInt %s)" % D.z(v)
    r = repr(v)
    if r not in TOKENS:
        TOKENS.append(r)
    return "(VTok %s)" % D.z(1000 + TOKENS.index(r))


def json_default(v):
    if v is Required:
        return ["req"]
    if v is None or isinstance(v, (bool, int)):
        return ["val", v]
    r = repr(v)
    if r not in TOKENS:
        TOKENS.append(r)
    return ["val", {"t": 1000 + TOKENS.index(r)}]


def coq_default(v):
    return "DRequired" if v is Required else "(DVal %s)" % coq_value(v)


def is_decorator(dec):
    """`ContextMixin.use_contextual_arguments(<keywords>)`"""
    if not isinstance(dec, ast.Call):
        return False
    f = dec.func
    return (isinstance(f, ast.Attribute) and f.attr == "use_contextual_arguments")


def ast_default(node):
    """value of a default written in the source: literal, Required, or ('other', source)"""
    if isinstance(node, ast.Name) and node.id == "Required":
        return Required
    try:
        return ast.literal_eval(node)
    except Exception:
        return ("other", ast.dump(node))


def from_source(relfile, classname):
    with open(os.path.join(REPO, relfile)) as f:
        tree = ast.parse(f.read())
    cls = [n for n in tree.body if isinstance(n, ast.ClassDef) and n.name == classname]
    need(len(cls) == 1, "%s: class %s not found exactly once" % (relfile, classname))
    found = {}
    order = []
    for fn in cls[0].body:
        if not isinstance(fn, ast.FunctionDef):
            continue
        decs = [d for d in fn.decorator_list if is_decorator(d)]
        # any other mention of the decorator (e.g. without a call) is not understood
        for d in fn.decorator_list:
            if not is_decorator(d) and "use_contextual_arguments" in ast.dump(d):
                raise Shape("%s.%s: decorator use not of the form use_contextual_arguments(...)" % (classname, fn.name))
        if not decs:
            continue
        need(len(decs) == 1, "%s.%s decorated twice" % (classname, fn.name))
        need(fn.decorator_list[0] is decs[0] and len(fn.decorator_list) == 1,
             "%s.%s: the context decorator is not the only decorator" % (classname, fn.name))
        dec = decs[0]
        need(isinstance(dec.func.value, ast.Name) and dec.func.value.id == "ContextMixin",
             "%s.%s: decorator is not ContextMixin.use_contextual_arguments" % (classname, fn.name))
        need(not dec.args and all(k.arg is not None for k in dec.keywords),
             "%s.%s: decorator call with positional or ** arguments" % (classname, fn.name))
        a = fn.args
        need(not a.kwonlyargs and not getattr(a, "posonlyargs", []),
             "%s.%s has keyword-only / positional-only parameters" % (classname, fn.name))
        names = [x.arg for x in a.args]
        need(names and names[0] == "self", "%s.%s: first parameter is not self" % (classname, fn.name))
        defaults = [Required] * (len(names) - len(a.defaults)) + [ast_default(d) for d in a.defaults]
        need(fn.name not in found, "%s.%s defined twice" % (classname, fn.name))
        found[fn.name] = dict(params=list(zip(names[1:], defaults[1:])), varargs=a.vararg is not None,
                              varkw=a.kwarg is not None,
                              kwonly=[(k.arg, ast_default(k.value)) for k in dec.keywords])
        order.append(fn.name)
    return order, found


def from_live(cls):
    found = {}
    for name, obj in vars(cls).items():
        if not inspect.isfunction(obj) or not hasattr(obj, "__wrapped__"):
            continue
        fv = obj.__code__.co_freevars
        if fv != WRAPPER_FREEVARS:
            # a wrapped function that is not the context wrapper (none exists today)
            raise Shape("%s.%s is wrapped by something whose closure is %r, not the context wrapper's %r"
                        % (cls.__name__, name, fv, WRAPPER_FREEVARS))
        cell = dict(zip(fv, (c.cell_contents for c in obj.__closure__)))
        f = cell["f"]
        spec = inspect.getfullargspec(f)
        need(list(spec.args) == list(cell["arg_names"]), "%s.%s: closure arg_names differ from the function's" % (cls.__name__, name))
        need(not spec.kwonlyargs, "%s.%s has keyword-only parameters" % (cls.__name__, name))
        need(len(cell["defaults"]) == len(cell["arg_names"]), "%s.%s: defaults not fully populated" % (cls.__name__, name))
        fd = list(spec.defaults or [])
        full = [Required] * (len(spec.args) - len(fd)) + fd
        need(all(a is b or a == b for a, b in zip(full, cell["defaults"])),
             "%s.%s: closure defaults differ from the function's" % (cls.__name__, name))
        found[name] = dict(params=list(zip(cell["arg_names"][1:], cell["defaults"][1:])),
                           varargs=spec.varargs is not None, varkw=spec.varkw is not None,
                           kwonly=list(cell["kw_only_args_defaults"].items()))
    return found


def same_default(a, b):
    if a is Required or b is Required:
        return a is b
    if isinstance(a, tuple) and a and a[0] == "other":
        return True            # not a literal in the source: the live value is used (as an opaque token)
    return type(a) is type(b) and a == b


def wrapper_shape():
    """The free variables of the wrapper built by the decorator (what from_live relies on)."""
    probe = ContextMixin.use_contextual_arguments(k=1)(lambda self, a, b=2: None)
    need(probe.__code__.co_freevars == WRAPPER_FREEVARS,
         "the wrapper made by use_contextual_arguments now closes over %r" % (probe.__code__.co_freevars,))
    need(hasattr(probe, "__wrapped__"), "the wrapper no longer carries __wrapped__")


def other_mixins():
    bad = []
    for path in glob.glob(os.path.join(REPO, "rig", "**", "*.py"), recursive=True):
        with open(path) as f:
            try:
                tree = ast.parse(f.read())
            except SyntaxError:
                continue
        for n in ast.walk(tree):
            if isinstance(n, ast.ClassDef) and any("ContextMixin" in ast.dump(b) for b in n.bases):
                if n.name not in ("MachineController", "BMPController"):
                    bad.append("%s:%s" % (os.path.relpath(path, REPO), n.name))
            if isinstance(n, ast.FunctionDef) and any(is_decorator(d) for d in n.decorator_list):
                rel = os.path.relpath(path, REPO)
                if rel not in [c[2] for c in CLASSES]:
                    bad.append("%s:%s" % (rel, n.name))
    need(not bad, "context machinery used outside the two modelled controllers: %s" % ", ".join(bad))


def initial_context(cls):
    d = inspect.signature(cls.__init__).parameters["initial_context"].default
    need(isinstance(d, dict) and all(isinstance(k, str) for k in d), "initial_context default is not a dict of names")
    return D.lst(D.pair(D.string(k), coq_value(v)) for k, v in d.items())


TYPES = """
(* Values of arguments as far as the context mechanism is concerned: integers, None, booleans and
   opaque objects (a token stands for one Python object; equal tokens = same object), and collections of
   integers (the boards of BMPController.set_led / set_power). *)
Inductive value : Type := VInt (z : Z) | VNone | VBool (b : bool) | VTok (t : Z)
  | VSeq (l : list Z).   (* a collection of integers in iteration order (list, tuple, iterator, ...) *)
(* The default of a parameter: the Required sentinel (also: no default at all, which the decorator
   turns into Required) or a value. *)
Inductive default : Type := DRequired | DVal (v : value).
Record msig : Type := MkSig {
  sg_cls : string;                         (* "MC" = MachineController, "BMP" = BMPController *)
  sg_name : string;
  sg_params : list (string * default);     (* positional parameters after self, in order *)
  sg_varargs : bool;                       (* def f(self, ..., *args) *)
  sg_varkw : bool;                         (* def f(self, ..., **kwargs) *)
  sg_kwonly : list (string * default)      (* use_contextual_arguments(name=default, ...) in order *)
}.
"""


def main():
    wrapper_shape()
    other_mixins()
    out = [D.HEADER % "dump_c18.py", "Open Scope string_scope.\n", TYPES]
    sigs = []
    jsigs = []
    for tag, cls, relfile, classname in CLASSES:
        order, src = from_source(relfile, classname)
        live = from_live(cls)
        need(set(src) == set(live), "%s: methods decorated in the source %r differ from the wrapped methods of "
             "the live class %r" % (classname, sorted(set(src) - set(live)), sorted(set(live) - set(src))))
        for name in order:
            s, l = src[name], live[name]
            need([p for p, _ in s["params"]] == [p for p, _ in l["params"]], "%s.%s: parameter names differ" % (classname, name))
            need(all(same_default(a, b) for (_, a), (_, b) in zip(s["params"], l["params"])),
                 "%s.%s: parameter defaults differ between source and live object" % (classname, name))
            need([k for k, _ in s["kwonly"]] == [k for k, _ in l["kwonly"]]
                 and all(same_default(a, b) for (_, a), (_, b) in zip(s["kwonly"], l["kwonly"])),
                 "%s.%s: decorator keyword defaults differ between source and live object" % (classname, name))
            need(s["varargs"] == l["varargs"] and s["varkw"] == l["varkw"], "%s.%s: */** differ" % (classname, name))
            pn = [p for p, _ in l["params"]]
            need(len(set(pn)) == len(pn), "%s.%s: duplicate parameter" % (classname, name))
            jsigs.append(dict(cls=tag, name=name, params=[[p, json_default(d)] for p, d in l["params"]],
                              varargs=l["varargs"], varkw=l["varkw"],
                              kwonly=[[k, json_default(d)] for k, d in l["kwonly"]]))
            sigs.append("MkSig %s %s %s %s %s %s" % (
                D.string(tag), D.string(name),
                D.lst(D.pair(D.string(p), coq_default(d)) for p, d in l["params"]),
                "true" if l["varargs"] else "false", "true" if l["varkw"] else "false",
                D.lst(D.pair(D.string(k), coq_default(d)) for k, d in l["kwonly"])))
    if "--json" in sys.argv:
        import json
        def ini(c):
            # None when the default is not a plain dict (the Coq unit then fails closed; the harness goes on
            # with the documented defaults so that it can still look for a failing input)
            d = inspect.signature(c.__init__).parameters["initial_context"].default
            return [[k, v] for k, v in d.items()] if isinstance(d, dict) else None
        json.dump(dict(signatures=jsigs, mc_initial=ini(MachineController), bmp_initial=ini(BMPController)),
                  sys.stdout)
        return
    out.append("(* every method wrapped by ContextMixin.use_contextual_arguments, in source order *)\n")
    out.append(D.definition("all_signatures", "list msig", "[" + ";\n   ".join(sigs) + "]"))
    out.append("(* opaque default values: token 1000+i stands for the i-th of: %s *)\n"
               % ", ".join(TOKENS).replace("*)", "* )"))
    out.append(D.definition("mc_initial_context", "list (string * value)", initial_context(MachineController)))
    out.append(D.definition("bmp_initial_context", "list (string * value)", initial_context(BMPController)))
    out.append("(* command numbers and operation codes *)\n")
    out.append(D.enum("SCP", consts.SCPCommands))
    out.append(D.enum("Alloc", consts.AllocOperations))
    out.append(D.enum("NN", consts.NNCommands))
    out.append(D.enum("AppSignal", consts.AppSignal))
    out.append(D.enum("RouterOp", consts.RouterOperations))
    out.append(D.enum("AppDiag", consts.AppDiagnosticSignal))
    out.append(D.enum("IPTagCmd", consts.IPTagCommands))
    t = geometry.SPINN5_ETH_OFFSET
    need(isinstance(t, np.ndarray) and t.ndim == 3 and t.shape[2] == 2 and t.dtype.kind == "i",
         "SPINN5_ETH_OFFSET is not a 3-d integer array with pairs in the last axis")
    out.append("(* rig.geometry.SPINN5_ETH_OFFSET[row][column] (numpy); the translated kernel only indexes it\n"
               "   with `... % 12`; Proofs/Context.v checks the dumped shape is 12 x 12 *)\n")
    out.append(D.definition("c18_ETH_OFFSET_shape", "list Z", D.zlist(t.shape)))
    rows = [D.lst([D.pair(D.z(c[0]), D.z(c[1])) for c in row]) for row in t]
    out.append(D.definition("c18_ETH_OFFSET", "list (list (Z * Z))", "[" + ";\n   ".join(rows) + "]"))
    out.append(D.definition("c18_ETH_OFFSET_at (i j : Z)", "Z * Z",
                            "nth (Z.to_nat j) (nth (Z.to_nat i) c18_ETH_OFFSET []) (0, 0)"))
    sys.stdout.write("\n".join(out))


try:
    main()
except Shape as e:
    sys.stderr.write("dump_c18: %s\n" % e)
    sys.stdout.write("dump_c18: %s\n" % e)
    sys.exit(2)
