"""Common machinery of the checks: regeneration of coq/Generated from /repo, building the proof
files, evaluating the Gallina models under vm_compute, driving the implementation in fresh
sub-processes, the verdict protocol (VIOLATION / KNOWN-FINDING / no-failing-input-found) and
the evidence file.  Standard library only."""
import concurrent.futures
import fcntl
import hashlib
import json
import os
import random
import re
import shutil
import subprocess
import sys
import time

VERIF = os.path.dirname(os.path.dirname(os.path.abspath(__file__)))
REPO = os.environ.get("RIG_REPO", "/repo")
COQ = os.path.join(VERIF, "coq")
if os.environ.get("RIG_REPO"):
    # Testing the checks against a scratch copy of the repository (mutation experiments): use a private
    # copy of the Coq tree so that the regenerated files do not disturb /verif/coq.
    COQ = os.environ.get("RIG_COQ") or os.path.join(
        VERIF, "work", "coq-" + hashlib.sha1(REPO.encode()).hexdigest()[:8])
PY = "/venv/bin/python"
GUARD = "RIG_VERIF"
sys.path.insert(0, os.path.join(VERIF, "tools"))

ALLOWED_AXIOMS = {
    # axioms declared by the Coq standard library that the development may rely on; each one that
    # actually occurs is reported per theorem in the evidence file (trusted_base)
    "Coq.Logic.FunctionalExtensionality.functional_extensionality_dep",
    "FunctionalExtensionality.functional_extensionality_dep",
    "functional_extensionality_dep",
    "Classical_Prop.classic", "Coq.Logic.Classical_Prop.classic", "classic",
    "ClassicalDedekindReals.sig_forall_dec", "ClassicalDedekindReals.sig_not_dec",
    "sig_forall_dec", "sig_not_dec",
    "Eqdep.Eq_rect_eq.eq_rect_eq", "Coq.Logic.Eqdep.Eq_rect_eq.eq_rect_eq", "eq_rect_eq",
    "Coq.Logic.ProofIrrelevance.proof_irrelevance", "proof_irrelevance",
    "JMeq.JMeq_eq", "Coq.Logic.JMeq.JMeq_eq", "JMeq_eq",
}
FORBIDDEN = re.compile(r"\b(Admitted|admit|Axiom|Axioms|Parameter|Parameters|Conjecture|Conjectures|"
                       r"Hypothesis|Hypotheses|Variable|Variables|bypass_check|Admit\s+Obligations)\b|"
                       r"Unset\s+Guard|Unset\s+Positivity|Unset\s+Universe|type-in-type|"
                       r"impredicative-set")


# ------------------------------------------------------------------------- small utilities
def sh(cmd, timeout=None, cwd=None, env=None, input=None):
    p = subprocess.run(cmd, shell=isinstance(cmd, str), cwd=cwd, env=env, input=input,
                       stdout=subprocess.PIPE, stderr=subprocess.STDOUT, timeout=timeout,
                       universal_newlines=True)
    return p.returncode, p.stdout


class Lock:
    def __init__(self, path):
        self.path = path

    def __enter__(self):
        self.f = open(self.path, "w")
        fcntl.flock(self.f, fcntl.LOCK_EX)
        return self

    def __exit__(self, *a):
        fcntl.flock(self.f, fcntl.LOCK_UN)
        self.f.close()


def write_if_changed(path, text):
    try:
        with open(path) as f:
            if f.read() == text:
                return False
    except IOError:
        pass
    os.makedirs(os.path.dirname(path), exist_ok=True)
    with open(path + ".tmp", "w") as f:
        f.write(text)
    os.replace(path + ".tmp", path)
    return True


def run_py2v_selftest(force=False):
    """Differential self-test of the trusted translator (tools/py2v_selftest.py).  It is run only when
    tools/py2v.py (or the test) is newer than the stamp work/py2v_selftest.stamp left by the last
    successful run, so normally it costs nothing.  -> (ok, summary line)"""
    tools = os.path.join(VERIF, "tools")
    stamp = os.path.join(VERIF, "work", "py2v_selftest.stamp")
    os.makedirs(os.path.dirname(stamp), exist_ok=True)
    with Lock(stamp + ".lock"):
        newest = max(os.path.getmtime(os.path.join(tools, f)) for f in ("py2v.py", "py2v_selftest.py"))
        if not force and os.path.exists(stamp) and os.path.getmtime(stamp) >= newest:
            with open(stamp) as f:
                return True, f.read().strip() + " (cached)"
        try:
            rc, out = sh([PY, os.path.join(tools, "py2v_selftest.py")], timeout=900)
        except Exception as e:             # never let the self-test break its caller
            rc, out = 1, "could not run: %s" % e
        line = ([l for l in out.splitlines() if l.startswith("py2v self-test:")] or ["py2v self-test: no summary"])[-1]
        if rc == 0:
            with open(stamp, "w") as f:
                f.write(line + "\n")
            return True, line
        if os.path.exists(stamp):
            os.remove(stamp)
        return False, line.replace("py2v self-test:", "py2v self-test: FAILED", 1).replace("FAILED FAILED", "FAILED") \
            + "\n" + out[-3000:]


# ------------------------------------------------------------------------- Coq term parser
_TOK = re.compile(r'\s*(?:(-?\d+)|("(?:[^"]|"")*")|([A-Za-z_][A-Za-z_0-9.\']*)|([\[\]\(\);,]))')


def parse_term(text):
    """Parse the printed form of a closed Coq value built from numbers, strings, booleans,
    options, tuples, lists and constructor applications into Python values."""
    text = re.sub(r"%[A-Za-z_]+", "", text)
    toks = []
    pos = 0
    text = text.strip()
    while pos < len(text):
        m = _TOK.match(text, pos)
        if not m:
            raise ValueError("cannot tokenise Coq output at: " + text[pos:pos + 60])
        pos = m.end()
        if m.group(1) is not None:
            toks.append(("n", int(m.group(1))))
        elif m.group(2) is not None:
            toks.append(("s", m.group(2)[1:-1].replace('""', '"')))
        elif m.group(3) is not None:
            toks.append(("i", m.group(3)))
        else:
            toks.append(("p", m.group(4)))
    i = [0]

    def peek():
        return toks[i[0]] if i[0] < len(toks) else ("e", None)

    def atom():
        k, v = peek()
        if k == "n" or k == "s":
            i[0] += 1
            return v
        if k == "i":
            i[0] += 1
            return {"true": True, "false": False, "None": None, "tt": (), "nil": []}.get(v, ("@", v))
        if (k, v) == ("p", "("):
            i[0] += 1
            items = [term()]
            while peek() == ("p", ","):
                i[0] += 1
                items.append(term())
            if peek() != ("p", ")"):
                raise ValueError("expected )")
            i[0] += 1
            return items[0] if len(items) == 1 else tuple(items)
        if (k, v) == ("p", "["):
            i[0] += 1
            items = []
            if peek() != ("p", "]"):
                items.append(term())
                while peek() == ("p", ";"):
                    i[0] += 1
                    items.append(term())
            if peek() != ("p", "]"):
                raise ValueError("expected ]")
            i[0] += 1
            return items
        raise ValueError("unexpected token %r" % (peek(),))

    def term():
        head = atom()
        args = []
        while peek()[0] in ("n", "s", "i") or peek() in (("p", "("), ("p", "[")):
            args.append(atom())
        if not args:
            if isinstance(head, tuple) and len(head) == 2 and head[0] == "@":
                return (head[1],)          # nullary constructor
            return head
        if isinstance(head, tuple) and len(head) == 2 and head[0] == "@":
            return (head[1],) + tuple(args)
        raise ValueError("application of a non-constructor")

    t = term()
    if i[0] != len(toks):
        raise ValueError("trailing tokens in Coq output")
    return t


def split_evals(out):
    """Split coqc output into the printed values of successive `Eval` commands."""
    vals = []
    cur = None
    for line in out.splitlines():
        if line.startswith("     = "):
            cur = [line[7:]]
        elif line.startswith("     : ") and cur is not None:
            vals.append("\n".join(cur))
            cur = None
        elif cur is not None:
            cur.append(line)
    return vals


# Coq literal printers
def zlit(n):
    return "(%d)" % n


def vlist(items):
    return "[" + "; ".join(items) + "]"


def vopt(x, f=lambda v: v):
    return "None" if x is None else "(Some %s)" % f(x)


def vbool(b):
    return "true" if b else "false"


# ------------------------------------------------------------------------- the check object
class Check:
    def __init__(self, pid, tier="quick", seed=None, level="proof"):
        self.pid = pid
        self.tier = os.environ.get("VERIF_TIER", tier) if tier is None else tier
        if seed is None:
            seed = int(os.environ.get("VERIF_SEED", "0"))
        self.seed = seed
        self.rng = random.Random("%s-%d" % (pid, seed))
        self.level = level
        self.t0 = time.time()
        self.obligations = []          # [name, ok(bool), detail]
        self.axioms = {}               # theorem -> [axioms]
        self.failing = []              # concrete failing inputs: dict(key, what, replay)
        self.broken = []               # broken proof / translation / correspondence without a concrete input
        self.known_hit = []
        self.coverage = {}
        self.samples = []
        self.assumptions = []
        self.trusted = []
        self.evaluations = 0
        self.nontrivial = set()
        self.dist = {}
        self.traces_validated = 0
        self.work = os.path.join(VERIF, "work", "%s-%d" % (pid, os.getpid()))
        shutil.rmtree(self.work, ignore_errors=True)
        os.makedirs(self.work)
        os.makedirs(os.path.join(VERIF, "evidence"), exist_ok=True)
        os.makedirs(os.path.join(VERIF, "replays"), exist_ok=True)
        self.model_ok = True
        if COQ != os.path.join(VERIF, "coq"):
            os.makedirs(COQ, exist_ok=True)
            with Lock(os.path.join(VERIF, "coq", ".lock")), Lock(os.path.join(COQ, ".lock")):
                sh("rsync -a --exclude .lock %s/ %s/" % (os.path.join(VERIF, "coq"), COQ), timeout=600)

    # ---------------------------------------------------------------- counting
    def count(self, key, n=1):
        self.dist[key] = self.dist.get(key, 0) + n

    def note_case(self, canonical, nontrivial=True):
        self.evaluations += 1
        if nontrivial:
            self.nontrivial.add(hashlib.sha1(
                json.dumps(canonical, sort_keys=True, default=str).encode()).hexdigest())

    def sample(self, s):
        if len(self.samples) < 6:
            self.samples.append(s)

    def oblige(self, name, ok, detail=""):
        self.obligations.append([name, bool(ok), detail])
        if not ok:
            self.broken.append(dict(obligation=name, detail=detail[-3000:]))

    # ---------------------------------------------------------------- tie T: regeneration
    def regenerate(self, unit_names):
        """Rewrite coq/Generated/<unit>.v from the current /repo for each named unit."""
        import py2v
        import units as U
        if unit_names:
            self.selftest_py2v()       # the translator itself is re-validated whenever it changed (cached otherwise)
        with Lock(os.path.join(COQ, ".lock")):
            for name in unit_names:
                unit = U.UNITS[name]
                path = os.path.join(COQ, "Generated", name + ".v")
                try:
                    if "functions" in unit:
                        text = py2v.translate_unit(REPO, unit)
                    else:
                        text = self.dump_unit(unit)
                    self.oblige("translate:" + name, True)
                except Exception as e:      # fail closed
                    text = ("(* translation of %s failed: %s *)\n" % (name, str(e).replace("*)", "* )")))
                    self.oblige("translate:" + name, False, "%s: %s" % (type(e).__name__, e))
                    self.model_ok = False
                write_if_changed(path, text)

    def selftest_py2v(self):
        """Obligation `py2v-selftest` (once per check run; a cached success costs nothing)."""
        if not getattr(self, "_py2v_tested", False):
            self._py2v_tested = True
            ok, line = run_py2v_selftest()
            self.oblige("py2v-selftest", ok, line)
        return self.obligations[[o[0] for o in self.obligations].index("py2v-selftest")][1]

    def dump_unit(self, unit):
        """Units whose content is dumped from the live module (constant tables, enums, signatures):
        run the unit's dumper script under the repo's interpreter."""
        env = self.impl_env()
        p = subprocess.run([PY, "-W", "ignore", os.path.join(VERIF, "tools", unit["dumper"])] + unit.get("args", []),
                           timeout=300, env=env, stdout=subprocess.PIPE, stderr=subprocess.PIPE,
                           universal_newlines=True)
        if p.returncode != 0 or not p.stdout.strip():
            raise RuntimeError("dumper failed: " + p.stderr[-1500:])
        return p.stdout

    # ---------------------------------------------------------------- proofs
    def ensure_makefile(self):
        """_CoqProject is derived from the directory listing; the Makefile is regenerated whenever the
        set of .v files changes."""
        files = []
        for d in ("Generated", "Model", "Spec", "Proofs", "Props"):
            full = os.path.join(COQ, d)
            if os.path.isdir(full):
                files += sorted("%s/%s" % (d, f) for f in os.listdir(full) if f.endswith(".v"))
        text = ("-R . Rig\n-arg -w -arg -deprecated-hint-without-locality,-deprecated-instance-without-locality,"
                "-deprecated-syntactic-definition,-notation-overridden,-ambiguous-paths\n" + "\n".join(files) + "\n")
        changed = write_if_changed(os.path.join(COQ, "_CoqProject"), text)
        if changed or not os.path.exists(os.path.join(COQ, "Makefile")):
            sh("coq_makefile -f _CoqProject -o Makefile", cwd=COQ, timeout=120)

    def build(self, targets, timeout=1500):
        """make the given .vo targets (and everything they depend on); -> (ok, log)"""
        # fast path without the lock: everything already up to date (make -q only reads)
        if os.path.exists(os.path.join(COQ, "Makefile")) and os.path.exists(os.path.join(COQ, ".Makefile.d")):
            rc, out = sh("timeout 300 make -q %s 2>&1" % " ".join(targets), cwd=COQ)
            if rc == 0:
                return True, "up to date"
        with Lock(os.path.join(COQ, ".lock")):
            self.ensure_makefile()
            rc, out = sh("timeout -k 20 %d make -j%d %s 2>&1" % (timeout, os.cpu_count() or 4,
                                                          " ".join(targets)), cwd=COQ)
        return rc == 0, out

    def prove(self, prop_files=None, extra_targets=()):
        """Build Props/<pid>.vo (a full .vo build of its dependency chain against the regenerated
        sources), then ask Print Assumptions for every theorem stated in it."""
        prop_files = prop_files or ["Props/%s.v" % self.pid]
        targets = [p[:-2] + ".vo" for p in prop_files] + list(extra_targets)
        ok, log = self.build(targets)
        thms = []
        for p in prop_files:
            with open(os.path.join(COQ, p)) as f:
                src = f.read()
            bad = FORBIDDEN.search(re.sub(r"\(\*.*?\*\)", "", src, flags=re.S))
            if bad:
                self.oblige("hygiene:" + p, False, "forbidden vernacular: " + bad.group(0))
            for m in re.finditer(r"^\s*(?:Theorem|Lemma|Corollary|Example)\s+([A-Za-z_0-9']+)", src, re.M):
                thms.append((p, m.group(1)))
        if not ok:
            m = re.search(r'File "([^"]+)", line (\d+)[^\n]*\n(?:.*\n){0,12}?Error:[^\n]*(?:\n[^\n]*){0,6}', log)
            detail = m.group(0) if m else log[-2500:]
            for p, t in thms:
                self.oblige("theorem:%s" % t, False, "build failed: " + detail)
            if not thms:
                self.oblige("build:" + ",".join(prop_files), False, detail)
            self.proof_log = log
            # is the model still usable?
            return False
        # hygiene of every .v the targets depend on
        self.hygiene()
        # Print Assumptions
        for p in sorted(set(p for p, _ in thms)):
            mod = "Rig." + p[:-2].replace("/", ".")
            names = [t for q, t in thms if q == p]
            text = "Require Import %s.\n" % mod + "".join(
                'Goal True. idtac "@@THM %s". exact I. Qed.\nPrint Assumptions %s.\n' % (t, t) for t in names)
            out = self.coqc_text("assum_%s" % os.path.basename(p)[:-2], text, timeout=600)
            cur = None
            got = {}
            for line in out.splitlines():
                if line.startswith("@@THM "):
                    cur = line[6:].strip()
                    got[cur] = []
                elif cur is not None and line.strip():
                    got[cur].append(line.rstrip())
            for t in names:
                lines = got.get(t)
                if lines is None:
                    self.oblige("theorem:" + t, False, "Print Assumptions gave no output: " + out[-500:])
                    continue
                if lines and lines[0].startswith("Closed under the global context"):
                    axs = []
                else:
                    # every axiom starts at column 0 (`name : type`, or `name` alone with the type on the
                    # indented lines that follow); the first line is the header `Axioms:`
                    axs = [re.match(r"[A-Za-z_][\w.']*", l).group(0) for l in lines
                           if re.match(r"[A-Za-z_][\w.']*", l) and l.strip() != "Axioms:"]
                self.axioms[t] = axs
                bad = [a for a in axs if a not in ALLOWED_AXIOMS and a.split(".")[-1] not in ALLOWED_AXIOMS]
                self.oblige("theorem:" + t, not bad,
                            "depends on axioms outside the stated base: %s" % bad if bad else "")
        if self.tier == "thorough" and not os.environ.get("RIG_NO_COQCHK"):
            self.coqchk()
        return True

    def coqchk(self, timeout=3000):
        """Thorough tier: re-check the compiled property file and everything it depends on with the independent
        checker and record its context summary (axioms, type-in-type, unsafe fixpoints, assumed positivity)."""
        mod = "Rig.Props.%s" % self.pid
        rc, out = sh("timeout -k 20 %d coqchk -silent -o -R . Rig %s 2>&1" % (timeout, mod), cwd=COQ)
        summ = out[out.find("CONTEXT SUMMARY"):] if "CONTEXT SUMMARY" in out else out[-1500:]

        def section(title):
            m = re.search(re.escape(title) + r":(.*?)(?:\n\s*\n\* |\Z)", summ, re.S)
            body = (m.group(1) if m else "?").strip()
            return [] if body == "<none>" else [l.strip() for l in body.splitlines() if l.strip()]
        axs = section("* Axioms")
        # coqchk lists the axioms of every library LOADED, used by a theorem or not: the specifications of the
        # primitive 63-bit integers / floats are declared as axioms by the standard library itself (Uint63.v,
        # PrimInt63.v, FloatAxioms.v); they come in with models that use machine integers for evaluation-only
        # digests (C06, C20) and with Flocq (C16, C19).  No property theorem depends on them (Print Assumptions).
        prim = ("Coq.Numbers.Cyclic.Int63.", "Coq.Floats.")
        bad_ax = [a for a in axs if a.split(":")[0].strip() not in ALLOWED_AXIOMS
                  and a.split(":")[0].strip().split(".")[-1] not in ALLOWED_AXIOMS
                  and not a.split(":")[0].strip().startswith(prim)]
        unsafe = section("* Constants/Inductives relying on type-in-type") \
            + section("* Constants/Inductives relying on unsafe (co)fixpoints") \
            + section("* Inductives whose positivity is assumed")
        ok = rc == 0 and "CONTEXT SUMMARY" in out and not bad_ax and not unsafe
        self.coverage["coqchk"] = dict(axioms=axs, unsafe=unsafe, rc=rc)
        self.oblige("coqchk:%s re-checked by the independent checker (axioms: %s)" % (mod, ", ".join(a.split(":")[0] for a in axs) or "none"),
                    ok, summ[-1200:])
        return ok

    def hygiene(self):
        bad = []
        for root, _, files in os.walk(COQ):
            for fn in files:
                if fn.endswith(".v"):
                    with open(os.path.join(root, fn)) as f:
                        src = re.sub(r"\(\*.*?\*\)", "", f.read(), flags=re.S)
                    m = FORBIDDEN.search(src)
                    if m:
                        bad.append("%s: %s" % (os.path.relpath(os.path.join(root, fn), COQ), m.group(0)))
        self.oblige("hygiene:no-axioms-no-admits", not bad, "; ".join(bad))

    # ---------------------------------------------------------------- evaluating the model
    def coqc_text(self, name, text, timeout=600):
        path = os.path.join(self.work, name + ".v")
        with open(path, "w") as f:
            f.write(text)
        # -k: a coqc deep inside vm_compute can ignore SIGTERM for a long time; ulimit -v: an evaluation that runs away
        # (e.g. a validator fed a pathological output of a changed implementation) dies at 24 GB instead of taking
        # the machine with it -- either way the evaluation counts as failed (a broken obligation), never as a pass
        rc, out = sh("ulimit -s unlimited 2>/dev/null; ulimit -v 25165824 2>/dev/null; "
                     "timeout -k 20 %d coqc -R %s Rig -Q %s Cases %s 2>&1"
                     % (timeout, COQ, self.work, path), cwd=self.work)
        if rc != 0:
            out += "\n@@COQC-FAILED rc=%d" % rc
        return out

    def coq_eval(self, header, exprs, shard=400, timeout=900, name="cases"):
        """Evaluate each Coq expression of `exprs` with vm_compute (sharded, in parallel) and return
        the parsed values in order.  A shard that fails to compile raises RuntimeError."""
        shards = [exprs[i:i + shard] for i in range(0, len(exprs), shard)]
        texts = []
        for k, sh_ in enumerate(shards):
            body = header + "\n" + "\n".join("Eval vm_compute in (%s)." % e for e in sh_) + "\n"
            texts.append(("%s_%d" % (name, k), body))
        results = [None] * len(texts)
        with concurrent.futures.ThreadPoolExecutor(max_workers=min(12, os.cpu_count() or 4)) as ex:
            futs = {ex.submit(self.coqc_text, n, t, timeout): i for i, (n, t) in enumerate(texts)}
            for fu in concurrent.futures.as_completed(futs):
                results[futs[fu]] = fu.result()
        vals = []
        for (n, _), out, sh_ in zip(texts, results, shards):
            if "@@COQC-FAILED" in out:
                raise RuntimeError("model evaluation failed in %s: %s" % (n, out[-1500:]))
            vs = split_evals(out)
            if len(vs) != len(sh_):
                raise RuntimeError("model evaluation %s printed %d values for %d cases: %s"
                                   % (n, len(vs), len(sh_), out[-800:]))
            vals.extend(parse_term(v) for v in vs)
        return vals

    # ---------------------------------------------------------------- driving the implementation
    def impl_env(self):
        env = dict(os.environ)
        env["PYTHONPATH"] = REPO + os.pathsep + os.path.join(VERIF, "harness")
        # string hashing (hence the iteration order of sets / dicts keyed by strings) is fixed per run so that a run
        # replays exactly; RIG_HASHSEED picks another order (the soak runs do)
        env["PYTHONHASHSEED"] = os.environ.get("RIG_HASHSEED", "0")
        env[GUARD] = "1"
        env["PYTHONDONTWRITEBYTECODE"] = "1"
        for v in ("OMP_NUM_THREADS", "OPENBLAS_NUM_THREADS", "MKL_NUM_THREADS"):
            env[v] = "1"            # many drivers run in parallel; numpy needs no thread pool of its own
        return env

    def impl(self, script, payload, timeout=900):
        """Run harness/<script> under the repo's interpreter in a fresh process; JSON in, JSON out."""
        p = subprocess.run([PY, os.path.join(VERIF, "harness", script)], input=json.dumps(payload),
                           stdout=subprocess.PIPE, stderr=subprocess.PIPE, timeout=timeout,
                           universal_newlines=True, env=self.impl_env(), cwd=self.work)
        if p.returncode != 0:
            raise RuntimeError("implementation driver %s failed: %s" % (script, p.stderr[-3000:]))
        return json.loads(p.stdout)

    def impl_parallel(self, script, payloads, timeout=900):
        with concurrent.futures.ThreadPoolExecutor(max_workers=min(12, os.cpu_count() or 4)) as ex:
            return list(ex.map(lambda pl: self.impl(script, pl, timeout), payloads))

    # ---------------------------------------------------------------- verdict
    def fail_input(self, key, what, replay):
        """A concrete input / history on which the property fails against the real code."""
        self.failing.append(dict(key=key, what=what, replay=replay))

    def disagree(self, what, replay):
        """Model and implementation differ on this input (correspondence broken)."""
        self.broken.append(dict(obligation="correspondence", detail=what, replay=replay))
        self.obligations.append(["correspondence:" + what[:60], False, what])

    def known_findings(self):
        known = []
        path = os.path.join(VERIF, "KNOWN_FINDINGS.txt")
        if os.path.exists(path):
            for line in open(path):
                m = re.match(r"known:\s+property=(\S+)\s+key=(\S+)\s+(.*)", line)
                if m and m.group(1) == self.pid:
                    known.append((m.group(2), m.group(3).strip()))
        return known

    def finish(self):
        known = self.known_findings()
        new_fail = []
        for f in self.failing:
            hit = [k for k in known if k[0] == f["key"]]
            if hit:
                if f["key"] not in [k for k, _ in self.known_hit]:
                    self.known_hit.append((f["key"], hit[0][1]))
            else:
                new_fail.append(f)
        violations = 0
        lines = []
        for k, desc in self.known_hit:
            lines.append("KNOWN-FINDING: property=%s %s [%s]" % (self.pid, desc, k))
        if new_fail:
            violations = len(new_fail)
            path = os.path.join(VERIF, "replays", "%s-%d.json" % (self.pid, self.seed))
            with open(path, "w") as f:
                json.dump(dict(property=self.pid, kind="failing-input", failures=new_fail[:20],
                               broken=self.broken[:10], seed=self.seed, tier=self.tier,
                               replay_cmd="./check %s --replay %s" % (self.pid, path)), f, indent=1,
                          default=str)
            lines.append("VIOLATION property=%s replay=%s" % (self.pid, path))
        elif self.broken:
            violations = len(self.broken)
            path = os.path.join(VERIF, "replays", "%s-%d.json" % (self.pid, self.seed))
            with open(path, "w") as f:
                json.dump(dict(property=self.pid, kind="unproved",
                               no_longer_checks=self.broken[:20],
                               note="the search over the generator stream, the corpus and the boundary "
                                    "enumerations found no input on which the implementation violates "
                                    "the property; the property is nevertheless no longer shown to hold",
                               seed=self.seed, tier=self.tier), f, indent=1, default=str)
            lines.append("VIOLATION property=%s replay=%s no-failing-input-found" % (self.pid, path))
        n_obl = len(self.obligations)
        n_ok = sum(1 for o in self.obligations if o[1])
        tb = ["Coq 8.16.1 kernel + vm_compute (no native_compute)",
              "tools/py2v.py translator and tools/dump_*.py dumpers (tie T)",
              "harness generators/drivers/canonicalisation (tie C)"] + self.trusted
        axs = sorted(set(a for v in self.axioms.values() for a in v))
        tb.append("axioms reported by Print Assumptions over %d theorems: %s"
                  % (len(self.axioms), ", ".join(axs) if axs else "none (closed under the global context)"))
        cov = dict(obligations=n_obl, discharged=n_ok,
                   checker_cmd="make -C coq Props/%s.vo (coqc 8.16.1, full .vo) + Print Assumptions per theorem"
                               % self.pid,
                   trusted_base=tb,
                   evaluations=self.evaluations, distinct_nontrivial=len(self.nontrivial),
                   traces_validated_against_impl=self.traces_validated,
                   samples=self.samples or ["(no cases were generated: proof obligations only)"],
                   input_distribution=self.dist,
                   obligation_list=[{"name": o[0], "ok": o[1]} for o in self.obligations],
                   theorem_axioms=self.axioms,
                   known_findings_hit=[k for k, _ in self.known_hit])
        cov.update(self.coverage)
        ev = dict(property_id=self.pid, tier=self.tier, seed=self.seed, level=self.level,
                  coverage=cov, assumptions=self.assumptions, wall_s=round(time.time() - self.t0, 2),
                  violations=violations)
        evdir = os.path.join(VERIF, "evidence")
        if os.environ.get("RIG_REPO"):       # experiments against a scratch copy never touch the evidence
            evdir = os.path.join(VERIF, "work", "evidence-alt")
            os.makedirs(evdir, exist_ok=True)
        with open(os.path.join(evdir, self.pid + ".json"), "w") as f:
            json.dump(ev, f, indent=1, default=str)
        shutil.rmtree(self.work, ignore_errors=True)
        for l in lines:
            print(l)
        print("%s %s tier=%s seed=%d obligations=%d/%d cases=%d distinct=%d wall=%.1fs" % (
            self.pid, "FAIL" if violations else "ok", self.tier, self.seed, n_ok, n_obl,
            self.evaluations, len(self.nontrivial), time.time() - self.t0))
        return 1 if violations else 0
