(* C10 -- the deprecated second entry point of the tree -> table conversion,
     rig/place_and_route/utils.py : build_routing_tables(routes, net_keys, omit_default_routes=True),
   as a function over the modelled core [routing_tree_to_tables] (Model/Tables.v) and C04's model of
   remove_default_routes (Model/Table.v: [is_defaultable], [no_alias_shortcut]).  Definitions only.

   The shape this follows -- iterate the tables of routing_tree_to_tables in order; if omit_default_routes
   replace the table by remove_default_routes.minimise(table, target_length=None); keep it unless empty --
   and the two defaults are re-read from the source on every run (Generated/GenTablesWrapper.v,
   tools/dump_c10w.py, fail closed).

   C04 represents the route and the sources of an entry as bit sets (None = bit 24); [to_c04] is that
   view of an entry of this model.  remove_default_routes only ever drops entries, so the result keeps
   the entries of this model as they are. *)
From Coq Require Import ZArith List Bool.
Require Import Rig.Model.Base Rig.Generated.GenTablesWrapper Rig.Model.Tables.
Require Rig.Model.Table.
Import ListNotations.
Open Scope Z_scope.

Definition to_c04 (e : entry) : Table.entry :=
  Table.mkEntry (bits_of (e_route e)) (e_key e) (e_mask e) (bits_of (e_sources e)).

(* the loop of remove_default_routes.minimise: keep the entries that _is_defaultable rejects *)
Fixpoint rd_filter (check : bool) (t : list entry) : list entry :=
  match t with
  | [] => []
  | e :: rest =>
      if Table.is_defaultable check (to_c04 e) (map to_c04 rest)
      then rd_filter check rest
      else e :: rd_filter check rest
  end.

(* remove_default_routes.minimise(table, target_length=None): with no target it cannot fail *)
Definition remove_default_routes (t : list entry) : list entry :=
  let check := if rdr_check_for_aliases_default
               then negb (Table.no_alias_shortcut (map to_c04 t)) else false in
  rd_filter check t.

Definition nonempty {A} (l : list A) : bool := match l with [] => false | _ => true end.

Definition build_routing_tables (routes : list (Z * tree)) (net_keys : list (Z * km)) (omit : bool)
  : tres (list (chip * list entry)) :=
  match routing_tree_to_tables routes net_keys with
  | ROk T =>
      ROk (filter (fun ce => nonempty (snd ce))
                  (map (fun ce => (fst ce, if omit then remove_default_routes (snd ce) else snd ce)) T))
  | RMultisource k m c => RMultisource k m c
  | ROther => ROther
  | RFuel => RFuel
  end.

(* the call with the default argument *)
Definition build_routing_tables_default routes net_keys :=
  build_routing_tables routes net_keys brt_omit_default_routes_default.
