(* add_field and __call__ keep the tree well formed and the layout invariant; every state reachable by a
   history satisfies both. *)
From Coq Require Import ZArith List Bool Lia Permutation.
Require Import Rig.Model.Base Rig.Model.BitField Rig.Spec.BitField.
Require Import Rig.Proofs.BitFieldBits Rig.Proofs.BitFieldTree Rig.Proofs.BitFieldAssign.
Import ListNotations.
Open Scope Z_scope.

(* ------------------------------------------------------------------ small list facts *)
Lemma fvals_eqb_eq a : forall b, fvals_eqb a b = true -> a = b.
Proof.
  induction a as [|[i v] a IH]; intros [|[j w] b] H; simpl in H; try discriminate; auto.
  apply andb_true_iff in H. destruct H as [H H3]. apply andb_true_iff in H. destruct H as [H1 H2].
  apply Z.eqb_eq in H1, H2. subst. f_equal. now apply IH.
Qed.

Lemma meetable_In fs fv k v :
  In (k, v) (meetable fs fv) <-> (exists f, In (k, f) fs) /\ zassoc k fv = Some v.
Proof.
  unfold meetable. rewrite in_flat_map. split.
  - intros [[k' f] [Hin H]]. simpl in H. destruct (zassoc k' fv) as [v'|] eqn:E; [|destruct H].
    destruct H as [H|[]]. inversion H; subst. split; eauto.
  - intros [[f Hf] Hz]. exists (k, f). split; [exact Hf|]. simpl. rewrite Hz. now left.
Qed.

Lemma zassoc_fv_minus fv meet k :
  zassoc k (fv_minus fv meet) = match zassoc k meet with Some _ => None | None => zassoc k fv end.
Proof.
  unfold fv_minus. induction fv as [|[k' v'] fv IH]; simpl.
  - destruct (zassoc k meet); reflexivity.
  - destruct (zassoc k' meet) as [w|] eqn:Em; simpl.
    + destruct (k =? k') eqn:E.
      * apply Z.eqb_eq in E. subst. rewrite Em in IH |- *. exact IH.
      * exact IH.
    + destruct (k =? k') eqn:E.
      * apply Z.eqb_eq in E. subst. rewrite Em. reflexivity.
      * exact IH.
Qed.

Lemma fv_minus_nil fv meet k v : fv_minus fv meet = [] -> In (k, v) fv -> zassoc k meet <> None.
Proof.
  unfold fv_minus. intros H Hin E.
  assert (In (k, v) (filter (fun iv => match zassoc (fst iv) meet with Some _ => false | None => true end) fv)).
  { apply filter_In. split; [exact Hin|]. simpl. now rewrite E. }
  rewrite H in H0. destruct H0.
Qed.

Lemma meet_lookup fs fv k w : zassoc k (meetable fs fv) = Some w -> zassoc k fv = Some w.
Proof. intros H. apply zassoc_In in H. apply meetable_In in H. tauto. Qed.

(* ------------------------------------------------------------------ upd_first *)
Lemma upd_first_spec {A} (p : A -> bool) (f : A -> result A) (dflt : result A) : forall l l',
  upd_first p f dflt l = Ok l' ->
  (exists l1 a a' l2, l = l1 ++ a :: l2 /\ p a = true /\ f a = Ok a' /\ l' = l1 ++ a' :: l2)
  \/ (exists a, dflt = Ok a /\ l' = l ++ [a]).
Proof.
  induction l as [|x l IH]; intros l' H; simpl in H.
  - right. destruct dflt as [a| | |]; simpl in H; try discriminate. inversion H. eauto.
  - destruct (p x) eqn:Ep.
    + left. destruct (f x) as [x'| | |] eqn:Ef; simpl in H; try discriminate. inversion H.
      exists [], x, x', l. auto.
    + destruct (upd_first p f dflt l) as [r| | |] eqn:Er; simpl in H; try discriminate. inversion H; subst.
      destruct (IH _ eq_refl) as [[l1 [a [a' [l2 [E1 [E2 [E3 E4]]]]]]]|[a [E1 E2]]].
      * left. exists (x :: l1), a, a', l2. subst. auto.
      * right. exists a. subst. auto.
Qed.

Lemma perm_insert {A} (x : A) a b c c' d :
  Permutation c' (x :: c) -> Permutation (a ++ b ++ c' ++ d) (x :: a ++ b ++ c ++ d).
Proof.
  intros HP. apply Permutation_trans with (a ++ b ++ (x :: c) ++ d).
  { do 2 apply Permutation_app_head. apply Permutation_app_tail. exact HP. }
  apply Permutation_sym. rewrite (app_assoc a b). rewrite (app_assoc a b).
  rewrite <- app_comm_cons. apply Permutation_middle.
Qed.

(* ------------------------------------------------------------------ _Tree.add_field *)
Lemma tree_add_spec t : forall i fid fv p t',
  tree_add t i fid fv = Ok t' ->
  has_ident i (potential_fields t fv) = false /\
  exists path, Permutation (flat t' p) ((p ++ path, (i, fid)) :: flat t p)
               /\ (forall k v, In (k, v) path <-> zassoc k fv = Some v).
Proof.
  induction t as [fs cs IH] using tree_ind'. intros i fid fv p t' H.
  cbn [tree_add] in H.
  destruct (has_ident i (potential_fields (Node fs cs) fv)) eqn:Eh; [discriminate|].
  split; [reflexivity|].
  destruct fv as [|kv0 fv0].
  - inversion H; subst. exists []. split.
    + simpl. rewrite map_app. simpl. rewrite app_nil_r. rewrite <- app_assoc. simpl.
      apply Permutation_sym. apply Permutation_middle.
    + intros k v. simpl. split; [tauto|discriminate].
  - set (fv := kv0 :: fv0) in *.
    destruct (meetable fs fv) as [|m0 meet0] eqn:Em; [discriminate|].
    set (meet := m0 :: meet0) in *.
    assert (Hmeet : forall k v, In (k, v) meet <-> (exists f, In (k, f) fs) /\ zassoc k fv = Some v).
    { intros. subst meet. rewrite <- Em. apply meetable_In. }
    assert (Hml : forall k w, zassoc k meet = Some w -> zassoc k fv = Some w).
    { intros k w. subst meet. rewrite <- Em. apply meet_lookup. }
    match type of H with bind ?u _ = _ => destruct u as [cs'| | |] eqn:Eu end; simpl in H; try discriminate.
    inversion H; subst t'. clear H.
    apply upd_first_spec in Eu.
    destruct Eu as [[l1 [[req c] [a' [l2 [E1 [E2 [E3 E4]]]]]]]|[a [E1 E2]]].
    + (* an existing child has this key *)
      simpl in E2. apply fvals_eqb_eq in E2. subst req.
      destruct (tree_add c i fid (fv_minus fv meet)) as [c'| | |] eqn:Ec; simpl in E3; try discriminate.
      inversion E3; subst a'. clear E3.
      assert (Hc : In (meet, c) cs) by (subst cs; apply in_or_app; right; now left).
      rewrite Forall_forall in IH. specialize (IH _ Hc). simpl in IH.
      destruct (IH _ _ _ (p ++ meet) _ Ec) as [_ [path' [HP Hpath']]].
      exists (meet ++ path'). split.
      * subst cs cs'. cbn [flat]. rewrite !flat_map_app. cbn [flat_map].
        replace (p ++ meet ++ path') with ((p ++ meet) ++ path') by (now rewrite <- app_assoc).
        apply perm_insert. exact HP.
      * intros k v. rewrite in_app_iff, Hpath', zassoc_fv_minus, Hmeet. split.
        -- intros [[_ Hz]|Hz]; [exact Hz|]. destruct (zassoc k meet); [discriminate|exact Hz].
        -- intros Hz. destruct (zassoc k meet) as [w|] eqn:Ek.
           ++ left. pose proof (Hml _ _ Ek) as Hw. assert (w = v) by congruence. subst w.
              apply zassoc_In in Ek. apply Hmeet in Ek. exact Ek.
           ++ right. exact Hz.
    + (* a fresh child *)
      destruct (fv_minus fv meet) as [|x xs] eqn:Ef; [|discriminate].
      inversion E1; subst a. clear E1.
      exists meet. split.
      * subst cs'. cbn [flat]. rewrite flat_map_app. cbn [flat_map flat map]. rewrite !app_nil_r.
        rewrite app_assoc. apply Permutation_sym. apply Permutation_cons_append.
      * intros k v. rewrite Hmeet. split; [tauto|]. intros Hz. split; [|exact Hz].
        pose proof (fv_minus_nil fv meet k v Ef (zassoc_In _ _ _ Hz)) as Hn.
        destruct (zassoc k meet) as [w|] eqn:Ek; [|congruence].
        apply zassoc_In in Ek. apply Hmeet in Ek. tauto.
Qed.

(* ------------------------------------------------------------------ store facts *)
Lemma sset_beyond s : forall fid f, (length s <= fid)%nat -> sset s fid f = s.
Proof.
  induction s as [|x s IH]; intros [|n] f H; simpl in *; auto; try lia. f_equal. apply IH. lia.
Qed.

Lemma sget_sset s fid f g :
  sget (sset s fid f) g = if (Nat.eqb fid g && Nat.ltb fid (length s))%bool then f else sget s g.
Proof.
  destruct (Nat.eqb fid g) eqn:E; simpl.
  - apply Nat.eqb_eq in E. subst g. destruct (Nat.ltb fid (length s)) eqn:El.
    + apply Nat.ltb_lt in El. now apply sget_sset_same.
    + apply Nat.ltb_ge in El. now rewrite sset_beyond.
  - apply Nat.eqb_neq in E. now apply sget_sset_other.
Qed.

Lemma sget_app_old s x g : (g < length s)%nat -> sget (s ++ [x]) g = sget s g.
Proof. intros H. unfold sget. now rewrite app_nth1. Qed.

Lemma sget_app_new s x : sget (s ++ [x]) (length s) = x.
Proof. unfold sget. rewrite app_nth2 by lia. now rewrite Nat.sub_diag. Qed.

(* two stores that agree on lengths, positions and maxima *)
Definition same_layout (s s' : list field) : Prop :=
  length s' = length s /\
  forall g, f_len (sget s' g) = f_len (sget s g) /\ f_start (sget s' g) = f_start (sget s g)
            /\ f_max (sget s' g) = f_max (sget s g).

Lemma same_layout_refl s : same_layout s s.
Proof. split; auto. Qed.

Lemma same_layout_trans a b c : same_layout a b -> same_layout b c -> same_layout a c.
Proof.
  intros [A1 A2] [B1 B2]. split; [congruence|]. intros g.
  destruct (A2 g) as [? [? ?]], (B2 g) as [? [? ?]]. repeat split; congruence.
Qed.

Lemma same_layout_frange s s' g : same_layout s s' -> frange s' g = frange s g.
Proof. intros [_ H]. unfold frange. destruct (H g) as [-> [-> _]]. reflexivity. Qed.

Lemma LInv_same_layout L t s s' : same_layout s s' -> LInv L t s -> LInv L t s'.
Proof.
  intros HS [HD [HR HM]]. split; [|split].
  - intros e1 e2 H1 H2 Hne Hc st1 l1 st2 l2 R1 R2.
    rewrite (same_layout_frange _ _ (e_fid e1) HS) in R1. rewrite (same_layout_frange _ _ (e_fid e2) HS) in R2.
    apply (HD e1 e2 H1 H2 Hne Hc _ _ _ _ R1 R2).
  - intros e st l He Hr. rewrite (same_layout_frange _ _ _ HS) in Hr. eapply HR; eauto.
  - intros e He. destruct HS as [_ HS]. destruct (HS (e_fid e)) as [-> [_ ->]]. now apply HM.
Qed.

Lemma add_tags_same_layout s fid tags : same_layout s (add_tags s fid tags).
Proof.
  unfold add_tags. split; [apply length_sset|]. intros g. rewrite sget_sset.
  destruct (Nat.eqb fid g && Nat.ltb fid (length s))%bool eqn:E; [|auto].
  apply andb_true_iff in E. destruct E as [E _]. apply Nat.eqb_eq in E. subst g. simpl. auto.
Qed.

Lemma propagate_tags_same_layout t fv : forall parents s tags s' e,
  propagate_tags t fv s parents tags = (s', e) -> same_layout s s'.
Proof.
  induction parents as [|[p v] ps IH]; intros s tags s' e H; simpl in H.
  - inversion H; subst. apply same_layout_refl.
  - destruct (get_field t p fv) as [fid|]; [|inversion H; subst; apply same_layout_refl].
    eapply same_layout_trans; [apply add_tags_same_layout|]. eapply IH; eauto.
Qed.

(* ------------------------------------------------------------------ add_field keeps the invariants *)
Definition Inv (st : state) : Prop :=
  wf_tree (s_tree st) (length (s_store st)) /\ LInv (s_len st) (s_tree st) (s_store st).

Lemma in_potential_of_compat t fv path e :
  (forall k v, In (k, v) path <-> zassoc k fv = Some v) ->
  In e (entries t) -> compat path (e_path e) -> In (snd e) (potential_fields t fv).
Proof.
  intros Hpath He Hc. destruct e as [pe [i f]]. simpl. apply potential_flat0. exists pe. split; [exact He|].
  apply req_potential_spec. intros k v v' Hin Hz. apply Hpath in Hz. symmetry. eapply Hc; eauto.
Qed.

Lemma has_ident_false i l : has_ident i l = false -> forall f, ~ In (i, f) l.
Proof.
  unfold has_ident. intros H f Hin.
  assert (existsb (fun p => fst p =? i) l = true).
  { apply existsb_exists. exists (i, f). split; [exact Hin|apply Z.eqb_refl]. }
  congruence.
Qed.

Lemma tree_add_wf t n i fv t' :
  wf_tree t n -> tree_add t i n fv = Ok t' ->
  wf_tree t' (S n) /\
  exists path, Permutation (entries t') ((path, (i, n)) :: entries t)
               /\ (forall k v, In (k, v) path <-> zassoc k fv = Some v).
Proof.
  intros W H. destruct (tree_add_spec t i n fv [] t' H) as [Hid [path [HP Hpath]]].
  simpl in HP. split; [|exists path; split; assumption].
  assert (Hin : forall e, In e (entries t') <-> e = (path, (i, n)) \/ In e (entries t)).
  { intros e. split; intros He.
    - apply (Permutation_in _ HP) in He. destruct He; auto.
    - apply (Permutation_in _ (Permutation_sym HP)). destruct He; [now left|now right]. }
  assert (Hself : compat path path).
  { intros k v1 v2 H1 H2. apply Hpath in H1, H2. congruence. }
  constructor.
  - apply (Permutation_NoDup (Permutation_sym (Permutation_map e_fid HP))). simpl. constructor.
    + intros Hc. apply in_map_iff in Hc. destruct Hc as [e [E He]].
      pose proof (wf_bound _ _ W _ He). unfold e_fid in *. simpl in *. lia.
    + apply (wf_nodup _ _ W).
  - intros e He. apply Hin in He. destruct He as [->|He]; [unfold e_fid; simpl; lia|].
    pose proof (wf_bound _ _ W _ He). lia.
  - intros e He. apply Hin in He. destruct He as [->|He]; [exact Hself|]. now apply (wf_self _ _ W).
  - intros e1 e2 H1 H2 Hc Hn. apply Hin in H1, H2.
    destruct H1 as [->|H1], H2 as [->|H2].
    + reflexivity.
    + exfalso. pose proof (in_potential_of_compat t fv path e2 Hpath H2 Hc) as Hp.
      destruct e2 as [p2 [i2 f2]]. unfold e_name in Hn. simpl in *. subst i2.
      eapply has_ident_false; eauto.
    + exfalso. pose proof (in_potential_of_compat t fv path e1 Hpath H1 (compat_sym _ _ Hc)) as Hp.
      destruct e1 as [p1 [i1 f1]]. unfold e_name in Hn. simpl in *. subst i1.
      eapply has_ident_false; eauto.
    + now apply (wf_names _ _ W).
Qed.

Lemma len_or1_pos l : 0 < l -> len_or1 (Some l) = l.
Proof. intros H. unfold len_or1. destruct (Z.eqb_spec l 0); [lia|reflexivity]. Qed.

Lemma add_field_gen_inv st fv i len start tags st' e :
  Inv st -> add_field_gen false st fv i len start tags = (st', e) -> Inv st'.
Proof.
  intros [W HI] H. unfold add_field_gen in H.
  destruct (match len with Some l => l <=? 0 | None => false end) eqn:E1.
  { inversion H; subst. split; assumption. }
  destruct (match start with Some s => range_bad false (s_len st) s len | None => false end) eqn:E2.
  { inversion H; subst. split; assumption. }
  match type of H with (if ?c then _ else _) = _ => destruct c eqn:E3 end.
  { inversion H; subst. split; assumption. }
  destruct (tree_add (s_tree st) i (length (s_store st)) fv) as [t'| | |] eqn:Et;
    try (inversion H; subst; split; assumption).
  destruct (tree_add_wf _ _ _ _ _ W Et) as [W' [path [HP Hpath]]].
  set (newf := mkField len start (nodup Z.eq_dec tags) 1) in *.
  set (s1 := s_store st ++ [newf]) in *.
  assert (Hlen1 : length s1 = S (length (s_store st))).
  { subst s1. rewrite app_length. simpl. lia. }
  assert (Hin : forall e, In e (entries t') <-> e = (path, (i, length (s_store st))) \/ In e (entries (s_tree st))).
  { intros e0. split; intros He.
    - apply (Permutation_in _ HP) in He. destruct He; auto.
    - apply (Permutation_in _ (Permutation_sym HP)). destruct He; [now left|now right]. }
  assert (Hold : forall e0, In e0 (entries (s_tree st)) -> sget s1 (e_fid e0) = sget (s_store st) (e_fid e0)).
  { intros e0 He. subst s1. apply sget_app_old. apply (wf_bound _ _ W _ He). }
  assert (Hnew : sget s1 (length (s_store st)) = newf) by (subst s1; apply sget_app_new).
  assert (HoldR : forall e0, In e0 (entries (s_tree st)) -> frange s1 (e_fid e0) = frange (s_store st) (e_fid e0)).
  { intros e0 He. unfold frange. now rewrite Hold. }
  assert (Hlenpos : forall l, len = Some l -> 0 < l).
  { intros l ->. apply Z.leb_gt in E1. exact E1. }
  assert (HI1 : LInv (s_len st) t' s1).
  { destruct HI as [HD [HR HM]].
    assert (Hsep : forall e2 st1 l1 st2 l2, In e2 (entries (s_tree st)) -> compat path (e_path e2) ->
               frange s1 (length (s_store st)) = Some (st1, l1) ->
               frange (s_store st) (e_fid e2) = Some (st2, l2) -> st1 + l1 <= st2 \/ st2 + l2 <= st1).
    { intros e2 st1 l1 st2 l2 H2 Hc R1 R2.
      unfold frange in R1. rewrite Hnew in R1. simpl in R1.
      destruct start as [s0|]; [|discriminate]. destruct len as [l0|]; [|discriminate]. inversion R1; subst s0 l0.
      pose proof (Hlenpos _ eq_refl) as Hl1.
      pose proof (in_potential_of_compat _ fv path e2 Hpath H2 Hc) as Hp.
      destruct (Z_le_gt_dec (st1 + l1) st2) as [|G1]; [now left|].
      destruct (Z_le_gt_dec (st2 + l2) st1) as [|G2]; [now right|]. exfalso.
      apply not_true_iff_false in E3. apply E3. apply existsb_exists.
      exists (snd e2). split; [exact Hp|]. cbv zeta.
      unfold frange in R2. unfold e_fid in R2.
      destruct (f_start (sget (s_store st) (snd (snd e2)))) as [os|] eqn:Es; [|discriminate].
      destruct (f_len (sget (s_store st) (snd (snd e2)))) as [ol|] eqn:El; [|discriminate].
      inversion R2; subst os ol.
      assert (0 < l2). { apply (proj2 (HM _ H2)). exact El. }
      rewrite !len_or1_pos by lia. apply andb_true_iff. split; apply Z.gtb_lt; lia. }
    split; [|split].
    - intros e1 e2 H1 H2 Hne Hc st1 l1 st2 l2 R1 R2. apply Hin in H1, H2.
      destruct H1 as [->|H1], H2 as [->|H2].
      + congruence.
      + unfold e_fid at 1 in R1. simpl in R1. rewrite HoldR in R2 by exact H2. eapply Hsep; eauto.
      + unfold e_fid at 1 in R2. simpl in R2. rewrite HoldR in R1 by exact H1.
        destruct (Hsep e1 st2 l2 st1 l1 H1 (compat_sym _ _ Hc) R2 R1); lia.
      + rewrite HoldR in R1, R2 by assumption. apply (HD e1 e2 H1 H2 Hne Hc _ _ _ _ R1 R2).
    - intros e0 st0 l0 He Hr. apply Hin in He. destruct He as [->|He].
      + unfold e_fid in Hr. simpl in Hr. unfold frange in Hr. rewrite Hnew in Hr. simpl in Hr.
        destruct start as [s0|]; [|discriminate]. destruct len as [l1|]; [|discriminate]. inversion Hr; subst s0 l1.
        unfold range_bad in E2. apply orb_false_iff in E2. destruct E2 as [E2a E2b].
        apply negb_false_iff in E2a. apply andb_true_iff in E2a. destruct E2a as [E2a _].
        apply Z.leb_le in E2a. rewrite len_or1_pos in E2b by (now apply Hlenpos).
        rewrite Z.gtb_ltb in E2b. apply Z.ltb_ge in E2b. lia.
      + rewrite HoldR in Hr by exact He. eapply HR; eauto.
    - intros e0 He. apply Hin in He. destruct He as [->|He].
      + unfold e_fid. simpl. rewrite Hnew. simpl. split; [lia|]. intros l Hl.
        pose proof (Hlenpos _ Hl). split; [assumption|].
        assert (2 ^ 1 <= 2 ^ l) by (apply Z.pow_le_mono_r; lia). lia.
      + rewrite Hold by exact He. now apply HM. }
  destruct (get_field_requirements t' i fv) as [reqs|].
  - destruct (propagate_tags t' fv s1 reqs (nodup Z.eq_dec tags)) as [s2 e2] eqn:Ep.
    inversion H; subst st' e. clear H. simpl.
    pose proof (propagate_tags_same_layout _ _ _ _ _ _ _ Ep) as HS.
    split; simpl.
    + destruct HS as [HS _]. rewrite HS, Hlen1. exact W'.
    + eapply LInv_same_layout; eauto.
  - inversion H; subst st' e. clear H. split; simpl.
    + rewrite Hlen1. exact W'.
    + exact HI1.
Qed.

(* ------------------------------------------------------------------ __call__ *)
Lemma call_check_none t s all : forall l,
  call_check t s all l = None ->
  forall i v, In (i, v) l ->
    exists fid, get_field t i all = Some fid /\ 0 <= v /\
                forall fl, f_len (sget s fid) = Some fl -> v < 2 ^ fl.
Proof.
  induction l as [|[i0 v0] l IH]; intros H i v Hin; simpl in *; [tauto|].
  destruct (get_field t i0 all) as [fid|] eqn:Eg; [|discriminate].
  destruct (v0 <? 0) eqn:E0; [discriminate|]. apply Z.ltb_ge in E0.
  assert (Hrest : call_check t s all l = None /\ forall fl, f_len (sget s fid) = Some fl -> v0 < 2 ^ fl).
  { destruct (f_len (sget s fid)) as [fl|] eqn:El.
    - destruct (v0 >=? pow2 fl) eqn:E1; [discriminate|]. split; [exact H|].
      intros fl' Hfl. inversion Hfl; subst fl'. rewrite pow2_shiftl in E1.
      rewrite Z.geb_leb in E1. apply Z.leb_gt in E1. exact E1.
    - split; [exact H|discriminate]. }
  destruct Hrest as [Hr Hv0]. destruct Hin as [Heq|Hin].
  - inversion Heq; subst. exists fid. auto.
  - now apply IH.
Qed.

(* what call_update does to the store: only max_value grows, bounded by the values written *)
Lemma call_update_props t all : forall l s,
  (forall i v fid fl, In (i, v) l -> get_field t i all = Some fid ->
                      f_len (sget s fid) = Some fl -> v < 2 ^ fl) ->
  length (call_update t s all l) = length s /\
  forall g, f_len (sget (call_update t s all l) g) = f_len (sget s g)
         /\ f_start (sget (call_update t s all l) g) = f_start (sget s g)
         /\ f_tags (sget (call_update t s all l) g) = f_tags (sget s g)
         /\ f_max (sget s g) <= f_max (sget (call_update t s all l) g)
         /\ (forall fl, f_len (sget s g) = Some fl -> f_max (sget s g) < 2 ^ fl ->
                        f_max (sget (call_update t s all l) g) < 2 ^ fl).
Proof.
  induction l as [|[i0 v0] l IH]; intros s Hfit; simpl.
  - split; [reflexivity|]. intros g. repeat split; auto; lia.
  - destruct (get_field t i0 all) as [fid|] eqn:Eg.
    2:{ apply IH. intros; eapply Hfit; eauto. now right. }
    set (f1 := mkField (f_len (sget s fid)) (f_start (sget s fid)) (f_tags (sget s fid))
                       (Z.max (f_max (sget s fid)) v0)).
    assert (Hs1 : forall g, f_len (sget (sset s fid f1) g) = f_len (sget s g)
                         /\ f_start (sget (sset s fid f1) g) = f_start (sget s g)
                         /\ f_tags (sget (sset s fid f1) g) = f_tags (sget s g)
                         /\ f_max (sget s g) <= f_max (sget (sset s fid f1) g)
                         /\ (forall fl, f_len (sget s g) = Some fl -> f_max (sget s g) < 2 ^ fl ->
                                        f_max (sget (sset s fid f1) g) < 2 ^ fl)).
    { intros g. rewrite sget_sset.
      destruct (Nat.eqb fid g && Nat.ltb fid (length s))%bool eqn:E.
      - apply andb_true_iff in E. destruct E as [E _]. apply Nat.eqb_eq in E. subst g. simpl.
        repeat split; auto; try lia. intros fl Hfl Hm.
        assert (v0 < 2 ^ fl) by (eapply Hfit; eauto; now left). lia.
      - repeat split; auto; lia. }
    destruct (IH (sset s fid f1)) as [L1 G1].
    { intros i v fid' fl Hin Hg Hl. destruct (Hs1 fid') as [El _]. rewrite El in Hl.
      eapply Hfit; eauto. now right. }
    split; [now rewrite L1, length_sset|].
    intros g. destruct (G1 g) as [A [B [C [D E]]]]. destruct (Hs1 g) as [A' [B' [C' [D' E']]]].
    repeat split; try congruence; try lia.
    intros fl Hfl Hm. apply E; [congruence|]. now apply E'.
Qed.

Lemma call_inv st fv kw st' e : Inv st -> call st fv kw = (st', e) -> Inv st'.
Proof.
  intros [W HI] H. unfold call in H.
  match type of H with (if ?c then _ else _) = _ => destruct c end;
    [inversion H; subst; split; assumption|].
  destruct (call_check (s_tree st) (s_store st) (kw ++ fv) (kw ++ fv)) as [k|] eqn:Ec;
    [inversion H; subst; split; assumption|].
  inversion H; subst st' e. clear H. unfold Inv. simpl.
  destruct (call_update_props (s_tree st) (kw ++ fv) (kw ++ fv) (s_store st)) as [L1 G1].
  { intros i v fid fl Hin Hg Hl.
    destruct (call_check_none _ _ _ _ Ec i v Hin) as [fid' [Hg' [_ Hfit]]].
    assert (fid' = fid) by congruence. subst. now apply Hfit. }
  split; [now rewrite L1|].
  destruct HI as [HD [HR HM]].
  assert (HF : forall g, frange (call_update (s_tree st) (s_store st) (kw ++ fv) (kw ++ fv)) g
                         = frange (s_store st) g).
  { intros g. unfold frange. destruct (G1 g) as [-> [-> _]]. reflexivity. }
  split; [|split].
  - intros e1 e2 H1 H2 Hne Hc st1 l1 st2 l2 R1 R2. rewrite HF in R1, R2.
    apply (HD e1 e2 H1 H2 Hne Hc _ _ _ _ R1 R2).
  - intros e0 st0 l0 He Hr. rewrite HF in Hr. eapply HR; eauto.
  - intros e0 He. destruct (HM _ He) as [M1 M2]. destruct (G1 (e_fid e0)) as [A [_ [_ [D E]]]].
    split; [lia|]. intros l Hl. rewrite A in Hl. destruct (M2 _ Hl). split; [assumption|]. now apply E.
Qed.

Lemma assign_inv orig st st' e : Inv st -> assign_fields_gen orig st = (st', e) -> Inv st'.
Proof.
  intros [W HI] H. destruct (assign_fields_inv _ _ _ _ W HI H) as [A [B [_ [D [E _]]]]].
  unfold Inv. rewrite A, B, D. split; assumption.
Qed.

(* ------------------------------------------------------------------ histories *)
(* every state a history can reach (a history stops at an exception the model does not describe) *)
Inductive reachable : state -> Prop :=
| reach_init L : reachable (init L)
| reach_step st o st' r : reachable st -> step st o = (st', r) -> r <> OutErr E_OTHER -> reachable st'.

Lemma init_inv L : Inv (init L).
Proof.
  unfold Inv, init. simpl. split.
  - constructor; unfold entries; simpl.
    + constructor.
    + intros ? [].
    + intros ? [].
    + intros ? ? [].
  - split; [|split]; unfold Disj, InRange, LenMax, entries; simpl.
    + intros ? ? [].
    + intros ? ? ? [].
    + intros ? [].
Qed.

Lemma step_inv st o st' r : Inv st -> step st o = (st', r) -> Inv st'.
Proof.
  intros HI H. destruct o; simpl in H.
  - destruct (add_field st (inst_fv st inst) i len start tags) as [s1 e1] eqn:E.
    inversion H; subst. eapply add_field_gen_inv; eauto.
  - destruct (call st (inst_fv st inst) kw) as [s1 e1] eqn:E.
    inversion H; subst. eapply call_inv; eauto.
  - destruct (assign_fields st) as [s1 e1] eqn:E.
    inversion H; subst. eapply assign_inv; eauto.
  - inversion H; subst; assumption.
  - inversion H; subst; assumption.
  - inversion H; subst; assumption.
  - inversion H; subst; assumption.
  - inversion H; subst; assumption.
  - inversion H; subst; assumption.
  - inversion H; subst; assumption.
Qed.

Lemma reachable_inv st : reachable st -> Inv st.
Proof. induction 1; [apply init_inv|eapply step_inv; eauto]. Qed.

(* ------------------------------------------------------------------ a refused definition leaves no trace *)
Lemma propagate_tags_err t fv : forall ps s tags s' k,
  propagate_tags t fv s ps tags = (s', Some k) -> k = E_UNAVAILABLE.
Proof.
  induction ps as [|[p v] ps IH]; intros s tags s' k H; simpl in H; [discriminate|].
  destruct (get_field t p fv); [eapply IH; eauto|now inversion H].
Qed.

Lemma add_field_refused_no_effect orig st fv i len start tags st' :
  add_field_gen orig st fv i len start tags = (st', Some E_VALUE) -> st' = st.
Proof.
  unfold add_field_gen. intros H.
  destruct (match len with Some l => l <=? 0 | None => false end); [now inversion H|].
  destruct (match start with Some s => range_bad orig (s_len st) s len | None => false end); [now inversion H|].
  match type of H with (if ?c then _ else _) = _ => destruct c end; [now inversion H|].
  destruct (tree_add (s_tree st) i (length (s_store st)) fv) as [t'| | |]; try (now inversion H).
  destruct (get_field_requirements t' i fv); [|inversion H].
  destruct (propagate_tags _ _ _ _ _) as [s2 [k|]] eqn:Ep; [|inversion H].
  apply propagate_tags_err in Ep. subst k. inversion H.
Qed.
