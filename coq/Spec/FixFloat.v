(* C16 -- what the property says, on inputs and outputs only (definitions only). *)
From Coq Require Import ZArith Reals List Bool.
From Flocq Require Import Core BinarySingleNaN.
Require Import Rig.Model.Base Rig.Model.FixFloat.
Open Scope Z_scope.

(* the real number denoted by a finite double *)
Definition rval (x : b64) : R := B2R x.

(* The format's range and "the nearest end of the range", stated here independently of the model (the model
   has its own fmt_min / fmt_max / clamp, following the code; Proofs/FixFloat.v `spec_range_is_model_range`
   shows they are the same functions). *)
Definition range_min (signed : bool) (n_bits : Z) : Z := if signed then - 2 ^ (n_bits - 1) else 0.
Definition range_max (signed : bool) (n_bits : Z) : Z := if signed then 2 ^ (n_bits - 1) - 1 else 2 ^ n_bits - 1.
Definition saturate (lo hi i : Z) : Z := Z.max (Z.min hi i) lo.

(* "the value scaled and truncated toward zero when that is representable and otherwise the nearest
   end of the format's range": the exact (real-number) scaled value, truncated, clamped *)
Definition fp_spec (signed : bool) (n_bits n_frac : Z) (x : R) : Z :=
  saturate (range_min signed n_bits) (range_max signed n_bits) (Ztrunc (x * bpow radix2 n_frac)).

(* the property's quantifier: a finite float whose scaled value is still a finite float *)
Definition in_domain (n_frac : Z) (x : b64) : Prop :=
  is_finite x = true /\
  exists scale, py_pow2 n_frac = Ok scale /\ is_finite (b64_mult scale x) = true.

Definition representable (signed : bool) (n_bits v : Z) : Prop :=
  range_min signed n_bits <= v <= range_max signed n_bits.

(* a two's-complement word of n_bits bits read as a signed / unsigned number *)
Definition word_value (signed : bool) (n_bits w : Z) : Z :=
  if signed && (2 ^ (n_bits - 1) <=? w) then w - 2 ^ n_bits else w.

(* the formats the deprecated float_to_fix / fix_to_float accept (validate_fp_params raises the
   documented ValueError otherwise); n_bits <= 1023 keeps every bound a finite double *)
Definition sbit (signed : bool) : Z := if signed then 1 else 0.

Definition valid_format (signed : bool) (n_bits n_frac : Z) : Prop :=
  1 <= n_bits <= 1023 /\ 0 <= n_frac <= n_bits - sbit signed.
