"""Drive every placer of rig.place_and_route.place on JSON-described problems (runs under /venv/bin/python,
PYTHONPATH=/repo:/verif/harness).  For each case all placer configurations are run, each under its own
alarm; vertex / chip orders computed by the wrappers (breadth-first, RCM, Hilbert) and the random choices
of the scripted runs are recorded so that the Gallina model can be evaluated on the same inputs."""
import json
import random as pyrandom
import signal
import sys
import warnings
from collections import OrderedDict

warnings.simplefilter("ignore")

import implutil  # noqa: E402
from rig.netlist import Net  # noqa: E402
from rig.routing_table import Routes  # noqa: E402
from rig.place_and_route.machine import Machine  # noqa: E402
from rig.place_and_route.constraints import (  # noqa: E402
    LocationConstraint, SameChipConstraint, ReserveResourceConstraint, AlignResourceConstraint,
    RouteEndpointConstraint)
from rig.place_and_route.exceptions import InsufficientResourceError, InvalidConstraintError  # noqa: E402
from rig.place_and_route.place import sequential, breadth_first, hilbert, rcm, rand  # noqa: E402
from rig.place_and_route.place.sa import algorithm as sa_algorithm  # noqa: E402
from rig.place_and_route.place.sa import python_kernel  # noqa: E402
from rig.place_and_route.place.sa.python_kernel import PythonKernel  # noqa: E402
try:
    from rig.place_and_route.place.sa.c_kernel import CKernel
except Exception:                                   # pragma: no cover
    CKernel = None
from rig.links import Links  # noqa: E402


class IdentityResource(object):
    """A user-defined resource identifier compared by identity (no __eq__ / __hash__ of its own)."""

    def __init__(self, n):
        self.n = n

    def __repr__(self):
        return "IdentityResource(%d)" % self.n


class ValueResource(object):
    """A user-defined resource identifier compared by value."""

    def __init__(self, n):
        self.n = n

    def __eq__(self, other):
        return isinstance(other, ValueResource) and other.n == self.n

    def __ne__(self, other):
        return not self == other

    def __hash__(self):
        return hash(("ValueResource", self.n))

    def __repr__(self):
        return "ValueResource(%d)" % self.n


def resource_namer(kind):
    """How the integer resource numbers of the JSON description become the library's resource identifiers."""
    if kind == "identity":             # one shared instance per resource
        table = {}
        return lambda r: table.setdefault(r, IdentityResource(r))
    if kind == "value":                # a new (equal) instance at every mention
        return lambda r: ValueResource(r)
    if kind == "str":
        return lambda r: "res%d" % r
    return lambda r: r


def resource_number(r):
    """Back from a resource identifier to the number used in the JSON description."""
    if isinstance(r, (IdentityResource, ValueResource)):
        return r.n
    if isinstance(r, str):
        return int(r[3:])
    return r


VREV = {}
VFWD = {}


def vertex_namer(kind):
    """How the integer vertex numbers of the JSON description become the caller's vertex objects."""
    if kind == "tuple":                # e.g. (population, index)
        return lambda v: ("pop%d" % (v % 3), v)
    if kind == "frozenset":
        return lambda v: frozenset([v, "member"])
    if kind == "str":
        return lambda v: "vertex%d" % v
    return lambda v: v


def vnum(v):
    """Back from a vertex object to its number (objects the caller never supplied stay as they are)."""
    try:
        return VREV.get(v, v)
    except TypeError:
        return v


def vnums(l):
    return None if l is None else [vnum(v) for v in l]


def build(c):
    m = c["machine"]
    V = vertex_namer(c.get("vkind", "int"))
    VREV.clear()
    VFWD.clear()
    for v, _ in c["vres"]:
        VREV[V(v)] = v
        VFWD[v] = V(v)
    R = resource_namer(c.get("reskind", "int"))
    machine = Machine(m["w"], m["h"], chip_resources=OrderedDict((R(r), q) for r, q in m["res"]),
                      chip_resource_exceptions=OrderedDict(
                          (tuple(xy), OrderedDict((R(r), q) for r, q in rs)) for xy, rs in m["exc"]),
                      dead_chips=set(tuple(xy) for xy in m["dead"]),
                      dead_links=set((x, y, Links(l)) for x, y, l in m.get("dead_links", [])))
    vres = OrderedDict((V(v), OrderedDict((R(r), q) for r, q in rq)) for v, rq in c["vres"])
    # a net with one sink is written in the documented scalar form Net(source, sink) when the case says so
    W = lambda w: float(w) if isinstance(w, str) else w          # "nan" travels as a string
    nets = [Net(V(s), V(sinks[0]), W(w)) if (c.get("scalar_sinks") and len(sinks) == 1)
            else Net(V(s), [V(x) for x in sinks], W(w)) for s, sinks, w in c["nets"]]
    cs = []
    for k in c["constraints"]:
        if k[0] == "loc":
            cs.append(LocationConstraint(V(k[1]), tuple(k[2])))
        elif k[0] == "same":
            cs.append(SameChipConstraint([V(x) for x in k[1]]))
        elif k[0] == "reserve":
            cs.append(ReserveResourceConstraint(R(k[1]), slice(k[2], k[3]),
                                                None if k[4] is None else tuple(k[4])))
        elif k[0] == "align":
            cs.append(AlignResourceConstraint(R(k[1]), k[2]))
        else:
            cs.append(RouteEndpointConstraint(V(k[1]), Routes(k[2])))
    return vres, nets, machine, cs


class Recorder(object):
    """Wrap an order function: evaluate it eagerly (they are pure), remember the order, hand out an
    iterator over it.  Should the function raise, fall back to the lazy original."""

    def __init__(self, module, name):
        self.module, self.name = module, name
        self.orig = getattr(module, name)
        self.last = None
        setattr(module, name, self)

    def __call__(self, *a, **k):
        try:
            self.last = list(self.orig(*a, **k))
        except Exception:
            self.last = None
            return self.orig(*a, **k)
        return iter(self.last)


REC = {
    "bf_v": Recorder(breadth_first, "breadth_first_vertex_order"),
    "hil_v": Recorder(hilbert, "breadth_first_vertex_order"),
    "hil_c": Recorder(hilbert, "hilbert_chip_order"),
    "rcm_v": Recorder(rcm, "rcm_vertex_order"),
    "rcm_c": Recorder(rcm, "rcm_chip_order"),
}
# rcm_chip_order calls rcm_vertex_order internally (on chips): give it the original so that the vertex
# recorder only ever sees the call made by place().
_rcm_vertex_rec = REC["rcm_v"]


def _rcm_chip_order(machine, _orig=REC["rcm_c"].orig):
    rcm.rcm_vertex_order = _rcm_vertex_rec.orig
    try:
        return list(_orig(machine))
    finally:
        rcm.rcm_vertex_order = _rcm_vertex_rec


REC["rcm_c"].orig = _rcm_chip_order


class ScriptedRandom(object):
    """Stands in for the `random` argument of rand.place and sa.place (effort 0).  The choices are made
    by a private generator and logged in the form the model's oracle takes."""

    def __init__(self, seed):
        self.rng = pyrandom.Random(seed)
        self.sample_picks = []         # rand.place: index of the choice among the candidates in raster order
        self.shuffles = []             # sa: selection-shuffle picks of every shuffle() call

    def sample(self, population, k):
        assert k == 1
        pop = list(population)
        choice = pop[self.rng.randrange(len(pop))]
        self.sample_picks.append(sorted(pop).index(choice))
        return [choice]

    def shuffle(self, lst):
        orig = list(lst)
        perm = list(range(len(orig)))
        self.rng.shuffle(perm)
        remaining = list(range(len(orig)))
        picks = []
        for p in perm:
            picks.append(remaining.index(p))
            remaining.remove(p)
        lst[:] = [orig[p] for p in perm]
        self.shuffles.append(picks)

    # the kernel's own draws are not scripted; they are observed at the level of _step (see StepLog)
    def choice(self, seq):
        return self.rng.choice(seq)

    def randint(self, a, b):
        return self.rng.randint(a, b)

    def random(self):
        return self.rng.random()

    def getrandbits(self, k):
        return self.rng.getrandbits(k)


class StepLog(object):
    """Observe every call of python_kernel._step from outside: the source vertex (random.choice), the
    destination chip handed to _get_candidate_swap (None when the step gave up before, i.e. the drawn chip
    is dead) and whether the swap was kept."""

    def __init__(self):
        self.steps = []
        self.kernel = None
        self.orig_step = python_kernel._step
        self.orig_gcs = python_kernel._get_candidate_swap
        self.orig_asc = sa_algorithm.apply_same_chip_constraints
        self.subs = []
        self.cur = None

    def install(self):
        log = self

        def gcs(resources, location, *a, **k):
            log.cur["dst"] = list(location)
            return log.orig_gcs(resources, location, *a, **k)

        def step(vertices, d_limit, temperature, placements, l2v, v2n, vertices_resources, fixed_vertices,
                 machine, has_wrap_around_links, random):
            log.cur = dict(src=None, dst=None)
            rec = ChoiceSpy(random, log.cur)
            swapped, delta = log.orig_step(vertices, d_limit, temperature, placements, l2v, v2n,
                                           vertices_resources, fixed_vertices, machine,
                                           has_wrap_around_links, rec)
            if len(log.steps) < log.limit:
                log.steps.append([log.cur["src"], log.cur["dst"], bool(swapped)])
                log.snapshot = (dict(placements), dict((xy, dict(machine[xy])) for xy in machine),
                                dict((xy, list(vs)) for xy, vs in l2v.items()))
            return swapped, delta
        def asc(*a, **k):
            res = log.orig_asc(*a, **k)
            log.subs = list(res[3])
            return res
        python_kernel._step = step
        python_kernel._get_candidate_swap = gcs
        sa_algorithm.apply_same_chip_constraints = asc

    def uninstall(self):
        python_kernel._step = self.orig_step
        python_kernel._get_candidate_swap = self.orig_gcs
        sa_algorithm.apply_same_chip_constraints = self.orig_asc

    def vid(self, v):
        """The model's name of a vertex: the k-th MergedVertex created is -(k+1)."""
        for k, mv in enumerate(self.subs):
            if v is mv:
                return -(k + 1)
        return vnum(v)


class ChoiceSpy(object):
    def __init__(self, random, cur):
        self._r, self._cur = random, cur

    def choice(self, seq):
        v = self._r.choice(seq)
        self._cur["src"] = v
        return v

    def __getattr__(self, name):
        return getattr(self._r, name)


def outcome(fn):
    try:
        pl = fn()
    except InsufficientResourceError:
        return ["fail", 0]
    except InvalidConstraintError:
        return ["fail", 1]
    except implutil.Hang:
        raise
    except Exception as e:
        return ["other", type(e).__name__, str(e)[:200]]
    try:
        return ["ok", sorted([vnum(v), list(xy)] for v, xy in pl.items())]
    except Exception as e:             # a placement that is not {vertex: (x, y)}
        return ["other", "Malformed:" + type(e).__name__, repr(pl)[:200]]


HANGS = [0]


def guarded(fn, seconds):
    if HANGS[0] >= 3:                  # enough evidence of non-termination; do not spend minutes on the rest
        return ["skipped"]
    # the limit is CPU time of this process (a busy machine must not turn a slow placer into a "hang"), with a
    # generous wall-clock backstop for a call that blocks
    signal.setitimer(signal.ITIMER_PROF, seconds)
    signal.alarm(max(120, 20 * int(seconds)))
    try:
        return outcome(fn)
    except implutil.Hang:
        HANGS[0] += 1
        return ["hang"]
    finally:
        signal.setitimer(signal.ITIMER_PROF, 0)
        signal.alarm(0)


def passive_callback(log):
    """A documented argument of the SA placer; this one only records what it is shown."""
    def cb(iteration_count, placements, cost, acceptance_rate, temperature, distance_limit):
        log.append(len(placements))
    return cb


def run_stress(c, per_cfg_s):
    """Python-kernel annealing only (extreme net weights / very low efforts): outcome of place()."""
    vr, nets, m, cs = build(c)
    out = OrderedDict()
    out["sa_py"] = guarded(lambda: sa_algorithm.place(
        vr, nets, m, cs, effort=c["effort"], random=pyrandom.Random(c["seed"]), kernel=PythonKernel,
        kernel_kwargs=dict(no_warn=True)), per_cfg_s)
    return dict(out=out, aux={})


def run_large(c, per_cfg_s):
    """Large problems: the deterministic placers (and the C-kernel annealer at low effort) on fresh objects."""
    out = OrderedDict()
    runs = [("seq", lambda a: sequential.place(*a)), ("bf", lambda a: breadth_first.place(*a)),
            ("hilbert", lambda a: hilbert.place(*a)), ("rcm", lambda a: rcm.place(*a)),
            ("rand_real", lambda a: rand.place(*a, random=pyrandom.Random(c["seed"])))]
    if CKernel is not None and c.get("large_sa"):
        runs.append(("sa_c", lambda a: sa_algorithm.place(*a, effort=c["effort"], random=pyrandom.Random(c["seed"]),
                                                          kernel=CKernel)))
    for name, fn in runs:
        args = build(c)
        out[name] = guarded(lambda: fn(args), per_cfg_s)
    return dict(out=out, aux={})


def machine_inventory():
    """What the class Machine defines (the model mirrors __contains__, __getitem__, __setitem__, __iter__ and
    copy; a new special method changes what `list(machine)`, `machine == x`, `len(machine)` ... do)."""
    return sorted(k for k, v in Machine.__dict__.items() if not k.startswith("__") or callable(v))


def run_case(c, per_cfg_s):
    if c.get("mode") == "stress":
        return run_stress(c, per_cfg_s)
    if c.get("mode") == "large":
        return run_large(c, 6 * per_cfg_s)
    out = OrderedDict()
    aux = {}

    def fresh():
        return build(c)
    vorder = c.get("vorder")
    corder = c.get("corder")
    # 1 sequential, default orders
    vr, nets, m, cs = fresh()
    out["seq"] = guarded(lambda: sequential.place(vr, nets, m, cs), per_cfg_s)
    # 2 sequential, custom orders
    if vorder is not None or corder is not None:
        vr, nets, m, cs = fresh()
        out["seq_custom"] = guarded(lambda: sequential.place(
            vr, nets, m, cs, None if vorder is None else [VFWD.get(v, v) for v in vorder],
            None if corder is None else [tuple(xy) for xy in corder]), per_cfg_s)
    # 3 breadth first
    for r in REC.values():
        r.last = None
    vr, nets, m, cs = fresh()
    out["bf"] = guarded(lambda: breadth_first.place(vr, nets, m, cs), per_cfg_s)
    aux["bf_v"] = vnums(REC["bf_v"].last)
    # 4 hilbert (default: breadth-first vertex order) and with the dictionary's vertex order
    vr, nets, m, cs = fresh()
    out["hilbert"] = guarded(lambda: hilbert.place(vr, nets, m, cs), per_cfg_s)
    aux["hil_v"] = vnums(REC["hil_v"].last)
    aux["hil_c"] = None if REC["hil_c"].last is None else [list(xy) for xy in REC["hil_c"].last]
    vr, nets, m, cs = fresh()
    out["hilbert_nobf"] = guarded(lambda: hilbert.place(vr, nets, m, cs, breadth_first=False), per_cfg_s)
    # 5 rcm
    vr, nets, m, cs = fresh()
    out["rcm"] = guarded(lambda: rcm.place(vr, nets, m, cs), per_cfg_s)
    aux["rcm_v"] = vnums(REC["rcm_v"].last)
    aux["rcm_c"] = None if REC["rcm_c"].last is None else [list(xy) for xy in REC["rcm_c"].last]
    # 6 random placer, scripted choices
    vr, nets, m, cs = fresh()
    sr = ScriptedRandom(c["seed"])
    out["rand"] = guarded(lambda: rand.place(vr, nets, m, cs, random=sr), per_cfg_s)
    aux["rand_picks"] = sr.sample_picks
    #   and with a real generator
    vr, nets, m, cs = fresh()
    out["rand_real"] = guarded(lambda: rand.place(vr, nets, m, cs, random=pyrandom.Random(c["seed"])),
                               per_cfg_s)
    # 7 simulated annealing, C kernel (the default kernel when rig_c_sa is installed)
    if CKernel is not None:
        vr, nets, m, cs = fresh()
        out["sa_c"] = guarded(lambda: sa_algorithm.place(
            vr, nets, m, cs, effort=c["effort"], random=pyrandom.Random(c["seed"]), kernel=CKernel),
            per_cfg_s)
    aux["default_kernel"] = sa_algorithm.default_kernel.__name__
    # 8 simulated annealing, Python kernel
    vr, nets, m, cs = fresh()
    out["sa_py"] = guarded(lambda: sa_algorithm.place(
        vr, nets, m, cs, effort=c["effort"], random=pyrandom.Random(c["seed"]), kernel=PythonKernel,
        kernel_kwargs=dict(no_warn=True)), per_cfg_s)
    #   both kernels again with a passive on_temperature_change callback
    for name, kern, kw in (("sa_c_cb", CKernel, {}), ("sa_py_cb", PythonKernel, dict(no_warn=True))):
        if kern is None:
            continue
        vr, nets, m, cs = fresh()
        cblog = []
        out[name] = guarded(lambda: sa_algorithm.place(
            vr, nets, m, cs, effort=c["effort"], random=pyrandom.Random(c["seed"]), kernel=kern,
            kernel_kwargs=kw, on_temperature_change=passive_callback(cblog)), per_cfg_s)
        aux[name + "_calls"] = len(cblog)
    # 9 simulated annealing with no effort (trivial: the initial placement is returned), scripted shuffles
    vr, nets, m, cs = fresh()
    sr = ScriptedRandom(c["seed"] + 1)
    out["sa_initial"] = guarded(lambda: sa_algorithm.place(
        vr, nets, m, cs, effort=0.0, random=sr, kernel=PythonKernel), per_cfg_s)
    aux["sa_shuffles"] = sr.shuffles
    # 10 simulated annealing, Python kernel, scripted shuffles, every _step observed (model replay)
    if c.get("sa_steps"):
        vr, nets, m, cs = fresh()
        sr = ScriptedRandom(c["seed"] + 2)
        log = StepLog()
        log.limit = c["sa_steps"]
        log.snapshot = None
        log.install()
        try:
            out["sa_logged"] = guarded(lambda: sa_algorithm.place(
                vr, nets, m, cs, effort=c["effort"], random=sr, kernel=PythonKernel,
                kernel_kwargs=dict(no_warn=True)), per_cfg_s)
        finally:
            log.uninstall()
        aux["sal_shuffles"] = sr.shuffles
        aux["sal_steps"] = [[log.vid(a), b, c_] for a, b, c_ in log.steps]
        if log.snapshot is not None:
            pl, mach, l2v = log.snapshot
            aux["sal_state"] = dict(
                placements=[[log.vid(v), list(xy)] for v, xy in pl.items()],
                machine=[[list(xy), sorted([resource_number(r), q] for r, q in d.items())] for xy, d in sorted(mach.items())],
                l2v=[[list(xy), [log.vid(v) for v in vs]] for xy, vs in sorted(l2v.items())])
    # 11 object reuse: the rig objects (vertices_resources, nets, Machine, constraint objects) are built ONCE
    #    and several placers run one after the other on the same objects
    if c.get("reuse"):
        vr, nets, m, cs = fresh()
        seed = c["seed"]
        runners = {
            "seq": lambda: sequential.place(vr, nets, m, cs),
            "bf": lambda: breadth_first.place(vr, nets, m, cs),
            "hilbert": lambda: hilbert.place(vr, nets, m, cs),
            "rcm": lambda: rcm.place(vr, nets, m, cs),
            "rand_real": lambda: rand.place(vr, nets, m, cs, random=pyrandom.Random(seed)),
            "sa_c": lambda: sa_algorithm.place(vr, nets, m, cs, effort=c["effort"],
                                               random=pyrandom.Random(seed), kernel=CKernel),
            "sa_py": lambda: sa_algorithm.place(vr, nets, m, cs, effort=c["effort"],
                                                random=pyrandom.Random(seed), kernel=PythonKernel,
                                                kernel_kwargs=dict(no_warn=True)),
        }
        for i, cfg in enumerate(c["reuse"]):
            if cfg == "sa_c" and CKernel is None:
                continue
            out["reuse%d:%s" % (i, cfg)] = guarded(runners[cfg], per_cfg_s)
    return dict(out=out, aux=aux)


if __name__ == "__main__":
    payload = json.load(sys.stdin)
    signal.signal(signal.SIGALRM, implutil._alarm)
    signal.signal(signal.SIGPROF, implutil._alarm)
    if payload.get("inventory"):
        json.dump(dict(machine=machine_inventory()), sys.stdout)
        sys.exit(0)
    if payload.get("levels_upto"):
        # the level hilbert_chip_order picks for a machine of max dimension n, read off by replacing the curve
        # generator (from outside) with the identity on its argument
        chip_order_fn = REC["hil_c"].orig
        orig_curve = hilbert.hilbert
        hilbert.hilbert = lambda level: [level]
        try:
            levels = [[n, list(chip_order_fn(Machine(n, 1 + n // 3)))[0]] for n in range(0, payload["levels_upto"] + 1)]
        finally:
            hilbert.hilbert = orig_curve
        json.dump(dict(levels=levels), sys.stdout)
        sys.exit(0)
    res = []
    for case in payload["cases"]:
        res.append(run_case(case, payload.get("per_cfg_s", 10)))
    json.dump(res, sys.stdout)
