(* C18 -- "the connection of the board that holds the target": the kernel _get_connection calls is the one
   C19's theorems are about, and on a torus machine the connection chosen is that of the Ethernet chip of the
   target's board in the geometric sense of Spec/Board.v.
   (C19's files are used read-only: Generated/GenBoardTables.v, GenBoard.v, Model/Board.v, Spec/Board.v,
   Proofs/Board.v.) *)
From Coq Require Import ZArith List Bool String Lia.
Require Import Rig.Model.Base Rig.Generated.GenSignatures Rig.Generated.GenCtxGeometry
               Rig.Generated.GenBoardTables Rig.Generated.GenBoard
               Rig.Model.Board Rig.Spec.Board Rig.Proofs.Board
               Rig.Model.Context Rig.Spec.Context Rig.Proofs.Context.
Import ListNotations.
Open Scope Z_scope.

(* the two dumps of rig.geometry.SPINN5_ETH_OFFSET (tools/dump_c18.py, tools/dump_c19.py) are the same table *)
Lemma eth_offset_tables_equal : c18_ETH_OFFSET = SPINN5_ETH_OFFSET.
Proof. vm_compute. reflexivity. Qed.

Lemma eth_offset_at_equal : forall i j, c18_ETH_OFFSET_at i j = SPINN5_ETH_OFFSET_at i j.
Proof. intros. unfold c18_ETH_OFFSET_at, SPINN5_ETH_OFFSET_at. rewrite eth_offset_tables_equal. reflexivity. Qed.

(* the two translations of spinn5_local_eth_coord (units GenCtxGeometry and GenBoard) are the same function *)
Theorem local_eth_kernels_equal : forall x y w h rx ry,
  c18_local_eth_coord x y w h rx ry = spinn5_local_eth_coord_k x y w h rx ry.
Proof.
  intros. unfold c18_local_eth_coord, spinn5_local_eth_coord_k. rewrite eth_offset_at_equal. reflexivity.
Qed.

(* On a torus machine (dimensions positive multiples of 12) whose geometry the controller knows, a command for a
   chip (x, y) of the machine leaves by the connection of THE Ethernet chip e of the board that holds (x, y) --
   e is inside the machine, is an Ethernet chip of the tiling anchored at the root, has (x, y) on its board
   (offsets taken around the torus), and is the only such chip -- when a connection to e is known, and by the
   initial connection (0) otherwise. *)
Theorem connection_is_that_of_the_board : forall c w h rx ry x y k,
  c_width c = Some w -> c_height c = Some h -> c_root c = Some (rx, ry) ->
  full_torus w h -> in_machine w h (x, y) ->
  mc_get_connection c (VInt x) (VInt y) = Some k ->
  exists e, in_machine w h e /\ is_eth (rx, ry) e /\ on_board_torus w h e (x, y)
            /\ (forall e', in_machine w h e' -> is_eth (rx, ry) e' -> on_board_torus w h e' (x, y) -> e' = e)
            /\ match cassoc e (c_conns c) with Some k' => k = k' | None => k = 0 end.
Proof.
  intros c w h rx ry x y k Hw Hh Hr Hft Hin Hk.
  destruct (local_eth_is_board_eth_torus w h rx ry x y Hft Hin) as [e [He [H1 [H2 [H3 H4]]]]].
  exists e. split; [exact H1|]. split; [exact H2|]. split; [exact H3|]. split; [exact H4|].
  assert (Ee : e = c18_local_eth_coord x y w h rx ry).
  { unfold spinn5_local_eth_coord in He. destruct Hft as [Hw0 [Hh0 _]].
    destruct (w =? 0) eqn:E1; [apply Z.eqb_eq in E1; lia|].
    destruct (h =? 0) eqn:E2; [apply Z.eqb_eq in E2; lia|].
    simpl in He. inversion He as [E]. symmetry. apply local_eth_kernels_equal. }
  unfold mc_get_connection in Hk. rewrite Hw, Hh, Hr in Hk. simpl in Hk. rewrite <- Ee in Hk.
  destruct (cassoc e (c_conns c)); inversion Hk; reflexivity.
Qed.

(* ... in particular after a (re-)discovery of a torus machine: whatever the controller knew before *)
Theorem rediscovered_connection_is_that_of_the_board : forall m c rx ry x y k,
  full_torus (dm_w m) (dm_h m) -> in_machine (dm_w m) (dm_h m) (x, y) ->
  c_root (discover_step m c) = Some (rx, ry) ->
  mc_get_connection (discover_step m c) (VInt x) (VInt y) = Some k ->
  exists e, in_machine (dm_w m) (dm_h m) e /\ is_eth (rx, ry) e /\ on_board_torus (dm_w m) (dm_h m) e (x, y)
            /\ (forall e', in_machine (dm_w m) (dm_h m) e' -> is_eth (rx, ry) e' ->
                           on_board_torus (dm_w m) (dm_h m) e' (x, y) -> e' = e)
            /\ match cassoc e (c_conns (discover_step m c)) with Some k' => k = k' | None => k = 0 end.
Proof.
  intros m c rx ry x y k Hft Hin Hr Hk.
  eapply (connection_is_that_of_the_board (discover_step m c) (dm_w m) (dm_h m)); eauto.
Qed.

(* an instance: 24x12 torus, root (0, 0), connections to (8, 4) and (20, 4) known: chip (0, 4) belongs to the board
   of (20, 4) (across the torus edge) and its commands leave by that board's connection *)
Lemma ex_board_instance :
  full_torus 24 12 /\ in_machine 24 12 (0, 4)
  /\ mc_get_connection (MkCtl (Some 24) (Some 12) (Some (0, 0)) [((8, 4), 3); ((20, 4), 5)] []) (VInt 0) (VInt 4) = Some 5.
Proof. repeat split; try (vm_compute; congruence); vm_compute; reflexivity. Qed.
