(* Soundness of the placers of the sequential family (sequential / breadth-first / Hilbert / RCM differ
   only in the vertex and chip orders handed to seq_place), of the random placer and of the annealer's
   initial placement: whatever they return is Feasible, for every vertex order that lists each vertex
   (at least) once, every chip order and every oracle. *)
From Coq Require Import ZArith List Bool Lia.
Require Import Rig.Model.Base Rig.Model.Place Rig.Spec.Place Rig.Proofs.Place Rig.Proofs.PlaceCore
        Rig.Proofs.PlaceMerge.
Import ListNotations.
Open Scope Z_scope.

Lemma wf_problem_machine : forall vr m cs, wf_problem vr m cs -> wf_machine m.
Proof.
  intros vr m cs W. destruct (wf_caps_nonneg _ _ _ W) as [C1 C2].
  constructor; [exact (wf_exc_nodup _ _ _ W) | exact C1 | exact C2].
Qed.

Lemma wf_problem_pwf : forall vr m cs, wf_problem vr m cs -> consistent cs -> pwf m vr cs.
Proof.
  intros vr m cs W Hc. constructor.
  - exact (wf_vr_nodup _ _ _ W).
  - exact (wf_demand_nodup _ _ _ W).
  - exact (wf_demand_nonneg _ _ _ W).
  - exact (wf_demand_known _ _ _ W).
  - exact (wf_constr_vertices _ _ _ W).
  - exact Hc.
Qed.

Lemma pwf_core : forall m vr cs, pwf m vr cs -> wf_core vr m.
Proof. intros m vr cs [P1 P2 P3 P4 P5 P6]. constructor; assumption. Qed.

Lemma consistent_agree : forall cs, consistent cs -> locs_agree cs.
Proof.
  intros cs [f [F1 _]] v c c' H1 H2. rewrite <- (F1 v c H1), <- (F1 v c' H2). reflexivity.
Qed.

(* what the merging phase guarantees to the rest of every placer *)
Lemma merged_problem : forall vr m cs vr1 cs1 subs,
  wf_problem vr m cs -> consistent cs ->
  apply_same_chip vr cs = Ok (vr1, cs1, subs) ->
  pwf m vr1 cs1 /\ Forall degenerate cs1
  /\ (forall vo vo', (forall v, In v (map fst vr) -> In v vo) -> subst_order subs vo = Ok vo' ->
                     forall v, In v (map fst vr1) -> In v vo')
  /\ (forall pl1, Feasible vr1 m cs1 pl1 ->
        exists pl, finalise (rev subs) pl1 = Ok pl /\ Feasible vr m cs pl).
Proof.
  intros vr m cs vr1 cs1 subs W Hc H. unfold apply_same_chip in H.
  assert (Hcur : [] ++ map (subst_c (fun v => v)) cs = cs) by (cbn [app]; apply subst_c_id).
  destruct (apply_sc_sound m cs (fun v => v) [] vr [] vr1 cs1 subs H) as [new [N1 [N2 [N3 [N4 N5]]]]].
  - rewrite Hcur. apply wf_problem_pwf; assumption.
  - rewrite Hcur. cbn [length]. split.
    + intros v Hv. apply (wf_vr_ids _ _ _ W) in Hv. lia.
    + intros k v Hk Hv. apply (wf_constr_vertices _ _ _ W k v Hk) in Hv. apply (wf_vr_ids _ _ _ W) in Hv. lia.
  - constructor.
  - cbn [app] in N1. subst new. rewrite Hcur in N5.
    split; [exact N2|]. split; [exact N3|]. split; [exact N4 | exact N5].
Qed.

Lemma feasible_empty : forall m cs,
  (forall k v, In k cs -> In v (constr_vertices k) -> False) -> Feasible [] m cs [].
Proof.
  intros m cs H. constructor.
  - constructor.
  - intros v. tauto.
  - intros v c Hz. discriminate.
  - intros c r _. rewrite load_nil. lia.
  - intros v c Hin. exfalso. apply (H (PCLocation v c) v Hin). left. reflexivity.
  - intros vs Hin. exists (0, 0). intros v Hv. exfalso. apply (H (PCSameChip vs) v Hin Hv).
Qed.

(* ---------------------------------------------------------------------------------------------- *)
(* sequential / breadth-first / Hilbert / RCM                                                       *)
(* ---------------------------------------------------------------------------------------------- *)
Theorem seq_place_sound : forall vr m cs vorder corder pl,
  wf_problem vr m cs -> consistent cs ->
  (forall vo, vorder = Some vo -> forall v, In v (map fst vr) -> In v vo) ->
  seq_place vr m cs vorder corder = Ok pl ->
  Feasible vr m cs pl.
Proof.
  intros vr m cs vorder corder pl W Hc Hvo H. unfold seq_place in H.
  destruct (length vr =? 0)%nat eqn:Elen.
  - apply Nat.eqb_eq in Elen. destruct vr; [|discriminate]. inversion H. subst pl.
    apply feasible_empty. intros k v Hk Hv. apply (wf_constr_vertices _ _ _ W k v Hk Hv).
  - destruct (apply_same_chip vr cs) as [[[vr1 cs1] subs]| | |] eqn:Ea; cbn [bind] in H; try discriminate.
    destruct (merged_problem vr m cs vr1 cs1 subs W Hc Ea) as [Hp [Hdeg [Hord Hfin]]].
    destruct (handle_cs vr1 cs1 m []) as [[m1 pl0]| | |] eqn:Eh; cbn [bind] in H; try discriminate.
    destruct (match vorder with Some vo => subst_order subs vo | None => Ok (map fst vr1) end)
      as [vo1| | |] eqn:Eo; cbn [bind] in H; try discriminate.
    destruct (filter (live m1) (match corder with Some co => co | None => raster m1 end))
      as [|c0 crest] eqn:Ef; [discriminate|].
    destruct (place_loop vr1 vo1 m1 pl0 c0 crest) as [pl1| | |] eqn:El; cbn [bind] in H; try discriminate.
    assert (Hlive : forall c, In c (c0 :: crest) -> live m1 c = true).
    { intros c Hin. rewrite <- Ef in Hin. apply filter_In in Hin. tauto. }
    assert (Hf1 : Feasible vr1 m cs1 pl1).
    { apply (seq_core_sound vr1 m cs1 vo1 m1 pl0 c0 crest pl1).
      - exact (pwf_core _ _ _ Hp).
      - exact (wf_problem_machine _ _ _ W).
      - exact (pwf_cv _ _ _ Hp).
      - apply consistent_agree. exact (pwf_consistent _ _ _ Hp).
      - exact Hdeg.
      - destruct vorder as [vo|].
        + apply (Hord vo vo1); [apply (Hvo vo eq_refl) | exact Eo].
        + inversion Eo. subst vo1. intros v Hv. exact Hv.
      - exact Eh.
      - apply Hlive. left. reflexivity.
      - intros c Hin. apply Hlive. right. exact Hin.
      - exact El. }
    destruct (Hfin pl1 Hf1) as [pl' [Hfe Hf]]. rewrite Hfe in H. inversion H. subst pl'. exact Hf.
Qed.

(* ---------------------------------------------------------------------------------------------- *)
(* random placer                                                                                    *)
(* ---------------------------------------------------------------------------------------------- *)
Lemma remove_chip_subset : forall c l x, In x (remove_chip c l) -> In x l.
Proof.
  intros c l. induction l as [|h t IH]; intros x H; cbn [remove_chip] in H; [exact H|].
  destruct (chip_eqb h c); [right; exact H|]. destruct H as [H | H]; [left; exact H | right; apply IH; exact H].
Qed.

Lemma rand_vertex_some : forall fuel m d locs oracle c r' locs' oracle',
  rand_vertex fuel m d locs oracle = Ok (c, r', locs', oracle') ->
  In c locs /\ live m c = true /\ r' = subtract_resources (chip_res m c) d /\ overallocated r' = false
  /\ (forall x, In x locs' -> In x locs).
Proof.
  induction fuel as [|fuel IH]; intros m d locs oracle c r' locs' oracle' H; cbn [rand_vertex] in H.
  - destruct locs; discriminate.
  - destruct locs as [|l0 lt] eqn:El; [discriminate|]. rewrite <- El in *.
    destruct oracle as [|n oracle1]; [discriminate|].
    assert (Hnth : In (nth (Nat.modulo n (length locs)) locs l0) locs).
    { apply nth_In. apply Nat.mod_upper_bound. subst locs. cbn [length]. lia. }
    destruct (try_chip m d (nth (Nat.modulo n (length locs)) locs l0)) as [o| | |] eqn:Et; cbn [bind] in H; try discriminate.
    destruct o as [r1|].
    + inversion H. subst c r1 locs' oracle'. apply try_chip_some in Et. destruct Et as [T1 [T2 T3]].
      split; [exact Hnth|]. split; [exact T1|]. split; [exact T2|]. split; [exact T3|]. intros x Hx. exact Hx.
    + destruct (IH _ _ _ _ _ _ _ _ H) as [G1 [G2 [G3 [G4 G5]]]].
      split; [eapply remove_chip_subset; exact G1|]. split; [exact G2|]. split; [exact G3|]. split; [exact G4|].
      intros x Hx. eapply remove_chip_subset. apply G5. exact Hx.
Qed.

Lemma rand_loop_inv : forall vr m0 cs vs m pl locs oracle pl',
  wf_core vr m0 -> Inv vr m0 cs m pl -> PlInv vr m0 pl ->
  (forall c, In c locs -> live m0 c = true) ->
  rand_loop vr vs m pl locs oracle = Ok pl' ->
  (exists m', Inv vr m0 cs m' pl') /\ PlInv vr m0 pl'
  /\ (forall v c, ~ In v vs -> zassoc v pl = Some c -> zassoc v pl' = Some c)
  /\ (forall v, In v vs -> In v (map fst pl')).
Proof.
  intros vr m0 cs vs. induction vs as [|v vs IH]; intros m pl locs oracle pl' Hwf Hinv Hpl Hlocs H;
    cbn [rand_loop] in H.
  - inversion H. subst pl'. split; [exists m; exact Hinv|]. split; [exact Hpl|].
    split; [intros v c _ Hz; exact Hz | intros v []].
  - destruct (zassoc v vr) as [d|] eqn:Ev; [|discriminate].
    destruct (rand_vertex (S (length locs)) m d locs oracle) as [[[[c r'] locs'] oracle']| | |] eqn:Er;
      cbn [bind] in H; try discriminate.
    apply rand_vertex_some in Er. destruct Er as [R1 [R2 [R3 [R4 R5]]]].
    destruct (mset m c r') as [m1|] eqn:Es; [|discriminate]. subst r'.
    assert (Hl0 : live m0 c = true) by (apply Hlocs; exact R1).
    assert (Hvk : In v (map fst vr)) by (apply zassoc_Some_key in Ev; exact Ev).
    assert (Hi1 : Inv vr m0 cs m1 (pl_set v c pl)) by (eapply Inv_place; eassumption).
    assert (Hp1 : PlInv vr m0 (pl_set v c pl)) by (apply PlInv_set; assumption).
    destruct (IH m1 (pl_set v c pl) locs' oracle' pl' Hwf Hi1 Hp1) as [G1 [G2 [G3 G4]]].
    { intros x Hx. apply Hlocs. apply R5. exact Hx. }
    { exact H. }
    split; [exact G1|]. split; [exact G2|]. split.
    + intros u c0 Hn Hz. destruct (in_dec Z.eq_dec u vs) as [Hin | Hni].
      * exfalso. apply Hn. right. exact Hin.
      * apply G3; [exact Hni|]. unfold pl_set. rewrite zassoc_zupdate.
        destruct (u =? v) eqn:E; [|exact Hz]. apply Z.eqb_eq in E. subst u. exfalso. apply Hn. left. reflexivity.
    + intros u [Hu | Hu]; [|apply G4; exact Hu]. subst u.
      destruct (in_dec Z.eq_dec v vs) as [Hin | Hni]; [apply G4; exact Hin|].
      apply (zassoc_Some_key v pl' c). apply G3; [exact Hni|]. unfold pl_set. rewrite zassoc_zupdate, Z.eqb_refl. reflexivity.
Qed.

Lemma pl_mem_true : forall v (pl : placement), pl_mem v pl = true <-> In v (map fst pl).
Proof.
  intros v pl. unfold pl_mem. destruct (zassoc v pl) as [c|] eqn:E.
  - split; [intros _; apply zassoc_Some_key in E; exact E | reflexivity].
  - split; [discriminate | intros H; apply zassoc_None in E; contradiction].
Qed.

Theorem rand_place_sound : forall vr m cs oracle pl,
  wf_problem vr m cs -> consistent cs ->
  rand_place vr m cs oracle = Ok pl ->
  Feasible vr m cs pl.
Proof.
  intros vr m cs oracle pl W Hc H. unfold rand_place in H.
  destruct (apply_same_chip vr cs) as [[[vr1 cs1] subs]| | |] eqn:Ea; cbn [bind] in H; try discriminate.
  destruct (merged_problem vr m cs vr1 cs1 subs W Hc Ea) as [Hp [Hdeg [_ Hfin]]].
  destruct (handle_cs vr1 cs1 m []) as [[m1 pl0]| | |] eqn:Eh; cbn [bind] in H; try discriminate.
  set (movable := filter (fun v => negb (pl_mem v pl0)) (map fst vr1)) in *.
  destruct (rand_loop vr1 movable m1 pl0 (raster m1) oracle) as [pl1| | |] eqn:El; cbn [bind] in H; try discriminate.
  pose proof (pwf_core _ _ _ Hp) as Hwc.
  destruct (handle_cs_inv vr1 m cs1 [] m [] m1 pl0 Hwc (Inv_init vr1 m (wf_problem_machine _ _ _ W))
              (PlInv_init vr1 m) Eh) as [Hinv [Hpl [_ Hlocs]]].
  cbn [app] in Hinv. destruct (Hlocs (consistent_agree _ (pwf_consistent _ _ _ Hp))) as [_ Hloc0].
  destruct (rand_loop_inv vr1 m cs1 movable m1 pl0 (raster m1) oracle pl1 Hwc Hinv Hpl) as [[m2 Hinv2] [Hpl2 [Hkeep Hplaced]]].
  { intros c Hin. apply raster_In in Hin. rewrite <- (live_frame m m1 c (inv_frame _ _ _ _ _ Hinv)). exact Hin. }
  { exact El. }
  assert (Hmov : forall v, In v movable <-> In v (map fst vr1) /\ ~ In v (map fst pl0)).
  { intros v. unfold movable. rewrite filter_In, negb_true_iff. split.
    - intros [H1 H2]. split; [exact H1|]. intros Hin. apply pl_mem_true in Hin. congruence.
    - intros [H1 H2]. split; [exact H1|]. destruct (pl_mem v pl0) eqn:E; [|reflexivity]. apply pl_mem_true in E. contradiction. }
  assert (Hkeep' : forall v c, zassoc v pl0 = Some c -> zassoc v pl1 = Some c).
  { intros v c Hz. apply Hkeep; [|exact Hz]. intros Hin. apply Hmov in Hin. destruct Hin as [_ Hn].
    apply Hn. apply zassoc_Some_key in Hz. exact Hz. }
  assert (Hf1 : Feasible vr1 m cs1 pl1).
  { apply (feasible_of_inv vr1 m cs1 m2 pl1 Hwc Hinv2 Hpl2).
    - intros v Hv. destruct (in_dec Z.eq_dec v (map fst pl0)) as [Hin | Hni].
      + apply zassoc_key_Some in Hin. destruct Hin as [c Hc']. apply (zassoc_Some_key v pl1 c). apply Hkeep'. exact Hc'.
      + apply Hplaced. apply Hmov. split; assumption.
    - intros v c Hin. apply Hkeep'. apply Hloc0. exact Hin.
    - exact (pwf_cv _ _ _ Hp).
    - exact Hdeg. }
  destruct (Hfin pl1 Hf1) as [pl' [Hfe Hf]]. rewrite Hfe in H. inversion H. subst pl'. exact Hf.
Qed.

(* ---------------------------------------------------------------------------------------------- *)
(* A concrete instance satisfying the hypotheses (non-vacuity)                                      *)
(* ---------------------------------------------------------------------------------------------- *)
Definition ex_vr : vresources := [(1, [(0, 1)]); (2, [(0, 1)]); (3, [(0, 2)]); (4, [])].
Definition ex_m : pmachine :=
  {| pm_width := 2; pm_height := 1; pm_res := [(0, 3)]; pm_exc := [((1, 0), [(0, 3)])]; pm_dead := [] |}.
Definition ex_cs : list pconstr := [PCSameChip [1; 2]; PCLocation 1 (0, 0); PCReserve 0 0 1 None].

Ltac in_cases :=
  repeat match goal with
         | H : In _ (_ :: _) |- _ => destruct H as [H | H]
         | H : In _ [] |- _ => destruct H
         | H : _ \/ _ |- _ => destruct H as [H | H]
         | H : False |- _ => destruct H
         | H : (_, _) = (_, _) |- _ => inversion H; clear H; subst
         | H : PCLocation _ _ = _ |- _ => inversion H; clear H; subst
         | H : PCSameChip _ = _ |- _ => inversion H; clear H; subst
         | H : PCReserve _ _ _ _ = _ |- _ => inversion H; clear H; subst
         | H : _ = PCLocation _ _ |- _ => inversion H; clear H; subst
         | H : _ = PCSameChip _ |- _ => inversion H; clear H; subst
         | H : _ = PCReserve _ _ _ _ |- _ => inversion H; clear H; subst
         end.

Lemma ex_known : resource_known ex_m 0.
Proof.
  split; [left; reflexivity|]. intros c d H. cbn in H. in_cases. left. reflexivity.
Qed.

Lemma ex_wf : wf_problem ex_vr ex_m ex_cs.
Proof.
  constructor.
  - cbn. repeat constructor; cbn; intuition discriminate.
  - intros v H. cbn in H. intuition lia.
  - intros v d H. unfold ex_vr in H. in_cases; cbn; repeat constructor; cbn; intuition.
  - intros v d r q H Hq. unfold ex_vr in H. in_cases; lia.
  - intros v d r q H Hq. unfold ex_vr in H. in_cases; exact ex_known.
  - cbn. repeat constructor; cbn; intuition.
  - split.
    + intros r q H. cbn in H. in_cases. lia.
    + intros c d r q H Hq. cbn in H. in_cases. lia.
  - intros k v H Hv. unfold ex_cs in H. in_cases; cbn in Hv; in_cases; cbn; tauto.
  - intros r s e loc H. unfold ex_cs in H. in_cases. exact ex_known.
Qed.

Lemma ex_consistent : consistent ex_cs.
Proof.
  exists (fun _ => (0, 0)). split.
  - intros v c H. unfold ex_cs in H. in_cases. reflexivity.
  - intros vs a b _ _ _. reflexivity.
Qed.

Lemma ex_seq_instance :
  wf_problem ex_vr ex_m ex_cs /\ consistent ex_cs
  /\ seq_place ex_vr ex_m ex_cs None None = Ok [(3, (1, 0)); (4, (1, 0)); (1, (0, 0)); (2, (0, 0))]
  /\ rand_place ex_vr ex_m ex_cs [1%nat; 0%nat; 5%nat] = Ok [(3, (1, 0)); (4, (0, 0)); (1, (0, 0)); (2, (0, 0))].
Proof.
  split; [exact ex_wf|]. split; [exact ex_consistent|]. split; vm_compute; reflexivity.
Qed.

(* ---------------------------------------------------------------------------------------------- *)
(* Termination: the model of the sequential placer is a structurally recursive total function with *)
(* no loop bound of its own; in particular it never reports an exhausted bound.                     *)
(* ---------------------------------------------------------------------------------------------- *)
Lemma bind_fuel : forall {A B} (r : result A) (f : A -> result B),
  r <> OutOfFuel -> (forall a, r = Ok a -> f a <> OutOfFuel) -> bind r f <> OutOfFuel.
Proof.
  intros A B r f Hr Hf. destruct r as [a| | |]; cbn [bind]; try discriminate.
  - apply Hf. reflexivity.
  - exfalso. apply Hr. reflexivity.
Qed.

Lemma apply_sc_fuel : forall todo f done vr subs, apply_sc f done todo vr subs <> OutOfFuel.
Proof.
  induction todo as [|k rest IH]; intros f done vr subs; cbn [apply_sc]; [discriminate|].
  destruct (subst_c f k) as [| vs | |]; try apply IH.
  destruct (length vs <=? 1)%nat; [apply IH|].
  destruct (pop_all (dedup vs) vr []) as [[total vr']|]; [apply IH | discriminate].
Qed.

Lemma reserve_exceptions_fuel : forall todo m r size, reserve_exceptions m r size todo <> OutOfFuel.
Proof.
  induction todo as [|[loc x] todo IH]; intros m r size; cbn [reserve_exceptions]; [discriminate|].
  destruct (cassoc loc (pm_exc m)) as [d|]; [|discriminate].
  destruct (after_reservation d r size) as [d'|]; [|discriminate].
  match goal with |- (if ?b then _ else _) <> _ => destruct b end; [discriminate | apply IH].
Qed.

Lemma apply_reserve_fuel : forall m r size loc, apply_reserve m r size loc <> OutOfFuel.
Proof.
  intros m r size loc. unfold apply_reserve. destruct loc as [c|].
  - destruct (negb (live m c)); [discriminate|].
    destruct (after_reservation (chip_res m c) r size) as [d'|]; [|discriminate].
    destruct (mset m c d') as [m'|]; [|discriminate].
    destruct (overallocated (chip_res m' c)); discriminate.
  - destruct (after_reservation (pm_res m) r size) as [d'|]; [|discriminate].
    destruct (overallocated d'); [discriminate | apply reserve_exceptions_fuel].
Qed.

Lemma handle_cs_fuel : forall vr cs m pl, handle_cs vr cs m pl <> OutOfFuel.
Proof.
  intros vr cs. induction cs as [|k cs IH]; intros m pl; cbn [handle_cs]; [discriminate|].
  destruct k as [v loc | vs | r s e loc |]; try apply IH.
  - destruct (negb (live m loc)); [discriminate|].
    destruct (match zassoc v pl with Some l => chip_eqb l loc | None => false end); [apply IH|].
    destruct (zassoc v vr) as [d|]; [|discriminate].
    destruct (mget m loc) as [cr|]; [|discriminate].
    destruct (mset m loc (subtract_resources cr d)) as [m'|]; [|discriminate].
    destruct (overallocated (chip_res m' loc)); [discriminate | apply IH].
  - apply bind_fuel; [apply apply_reserve_fuel | intros a _; apply IH].
Qed.

Lemma subst_order_fuel : forall subs vo, subst_order subs vo <> OutOfFuel.
Proof.
  induction subs as [|[mv vs] t IH]; intros vo; cbn [subst_order]; [discriminate|].
  destruct vs as [|v0 vs']; [discriminate|].
  destruct (replace_first v0 mv vo) as [vo1|]; [|discriminate].
  destruct (remove_members vs' [v0] vo1) as [vo2|]; [apply IH | discriminate].
Qed.

Lemma try_chip_fuel : forall m d c, try_chip m d c <> OutOfFuel.
Proof. intros m d c. unfold try_chip. destruct (mget m c); discriminate. Qed.

Lemma scan_fuel : forall m d last cands passed, scan m d last passed cands <> OutOfFuel.
Proof.
  intros m d last cands. induction cands as [|x cs IH]; intros passed; cbn [scan]; [discriminate|].
  destruct (chip_eqb x last); [discriminate|].
  apply bind_fuel; [apply try_chip_fuel|]. intros o _. destruct o; [discriminate | apply IH].
Qed.

Lemma place_loop_fuel : forall vr vs m pl cur rest, place_loop vr vs m pl cur rest <> OutOfFuel.
Proof.
  intros vr vs. induction vs as [|v vs IH]; intros m pl cur rest; cbn [place_loop]; [discriminate|].
  destruct (pl_mem v pl); [apply IH|].
  destruct (zassoc v vr) as [d|]; [|discriminate].
  apply bind_fuel; [apply try_chip_fuel|]. intros o _. destruct o as [r'|].
  - destruct (mset m cur r'); [apply IH | discriminate].
  - apply bind_fuel; [apply scan_fuel|]. intros o2 _. destruct o2 as [[[c r'] rest']|]; [|discriminate].
    destruct (mset m c r'); [apply IH | discriminate].
Qed.

Lemma finalise_fuel : forall rsubs pl, finalise rsubs pl <> OutOfFuel.
Proof.
  induction rsubs as [|[mv vs] t IH]; intros pl; cbn [finalise]; [discriminate|].
  destruct (zassoc mv pl); [apply IH | discriminate].
Qed.

Theorem seq_place_terminates : forall vr m cs vorder corder,
  seq_place vr m cs vorder corder <> OutOfFuel.
Proof.
  intros vr m cs vorder corder. unfold seq_place. destruct (length vr =? 0)%nat; [discriminate|].
  apply bind_fuel; [apply apply_sc_fuel|]. intros [[vr1 cs1] subs] _.
  apply bind_fuel; [apply handle_cs_fuel|]. intros [m1 pl0] _.
  apply bind_fuel; [destruct vorder; [apply subst_order_fuel | discriminate]|]. intros vo _.
  destruct (filter (live m1) (match corder with Some co => co | None => raster m1 end)); [discriminate|].
  apply bind_fuel; [apply place_loop_fuel | intros pl1 _; apply finalise_fuel].
Qed.
