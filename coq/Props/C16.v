(* C16 -- Fixed-point conversion saturates, is monotone and inverts exactly.
   Property theorems only; each is closed by `exact` of a lemma of Proofs/FixFloat.v.

   Model: Model/FixFloat.v, rig/type_casts.py over Flocq's IEEE-754 binary64 (round to nearest even).
   A double x denotes the real number B2R x.  `in_domain n_frac x` is the property's quantifier: x is
   finite and the scaled value 2.0**n_frac * x computed by the code is again a finite double.
   `fp_spec signed n_bits n_frac r` = clamp (Ztrunc (r * 2^n_frac)) is the property's first sentence
   read literally on the real number r (exact scaling, truncation toward zero, nearest end of the
   range).  The theorems about float_to_fp carry no guard beyond that domain and n_bits >= 1: they hold
   for every n_frac for which Python can compute 2.0**n_frac at all (n_frac <= 1023, above which the
   code raises OverflowError -- C16_scale_overflow_error -- down to scales that underflow to 0.0).

   SCOPE OF THE ARRAY THEOREMS.  The model of the array converters is PER ELEMENT OF A float64 ARRAY: the
   array result is taken to be the map of the element function over the elements (numpy's elementwise
   semantics, trusted).  Harness-only, not covered by a theorem: arrays of any shape / layout / read-only /
   broadcast, result dtype and aliasing, float32 / float16 / longdouble inputs (numpy keeps their own
   arithmetic), ambient np.errstate, numpy scalars as values / words / format parameters, pickled or copied
   converter objects.  range_min / range_max / saturate / fp_spec / in_domain live in Spec/FixFloat.v;
   C16_spec_range_is_model_range and C16_in_domain_real relate them to the model and to real numbers.

   Every theorem below depends, through Flocq's real-number specifications, on the axioms of Coq's
   classical real numbers only (ClassicalDedekindReals.sig_forall_dec, sig_not_dec,
   FunctionalExtensionality.functional_extensionality_dep, Classical_Prop.classic). *)
From Coq Require Import ZArith Reals List Bool.
From Flocq Require Import Core BinarySingleNaN.
Require Import Rig.Model.Base Rig.Model.FixFloat Rig.Spec.FixFloat Rig.Proofs.FixFloat.
Require Import Rig.Model.FixFloatSyntax Rig.Generated.GenFixFloat Rig.Model.FixFloatSource Rig.Proofs.FixFloatSource.
Open Scope Z_scope.

(* ---- float -> fixed point (scalar converter) ------------------------------------------------ *)

(* The result IS the exactly scaled value truncated toward zero and clamped to the format. *)
Theorem C16_fp_exact :
  forall signed n_bits n_frac (x : b64),
    1 <= n_bits -> in_domain n_frac x ->
    float_to_fp signed n_bits n_frac x = Ok (fp_spec signed n_bits n_frac (B2R x)).
Proof. exact float_to_fp_exact. Qed.

(* never leaves the range *)
Theorem C16_fp_in_range :
  forall signed n_bits n_frac (x : b64) v,
    1 <= n_bits -> in_domain n_frac x ->
    float_to_fp signed n_bits n_frac x = Ok v ->
    range_min signed n_bits <= v <= range_max signed n_bits.
Proof. exact fp_in_range. Qed.

(* monotone *)
Theorem C16_fp_monotone :
  forall signed n_bits n_frac (x y : b64) vx vy,
    1 <= n_bits -> in_domain n_frac x -> in_domain n_frac y ->
    (B2R x <= B2R y)%R ->
    float_to_fp signed n_bits n_frac x = Ok vx -> float_to_fp signed n_bits n_frac y = Ok vy ->
    vx <= vy.
Proof. exact fp_monotone. Qed.

(* the scaled, truncated value when that is representable ... *)
Theorem C16_fp_truncates :
  forall signed n_bits n_frac (x : b64),
    1 <= n_bits -> in_domain n_frac x ->
    range_min signed n_bits <= Ztrunc (B2R x * bpow radix2 n_frac) <= range_max signed n_bits ->
    float_to_fp signed n_bits n_frac x = Ok (Ztrunc (B2R x * bpow radix2 n_frac)).
Proof. exact fp_truncates. Qed.

(* ... and otherwise the nearest end of the range *)
Theorem C16_fp_saturates :
  forall signed n_bits n_frac (x : b64),
    1 <= n_bits -> in_domain n_frac x ->
    ((IZR (range_max signed n_bits) <= B2R x * bpow radix2 n_frac)%R ->
       float_to_fp signed n_bits n_frac x = Ok (range_max signed n_bits)) /\
    ((B2R x * bpow radix2 n_frac <= IZR (range_min signed n_bits))%R ->
       float_to_fp signed n_bits n_frac x = Ok (range_min signed n_bits)).
Proof. exact fp_saturates. Qed.

(* inside the range: less than one least-significant step (2^-n_frac) from the input *)
Theorem C16_fp_within_one_lsb :
  forall signed n_bits n_frac (x : b64),
    1 <= n_bits -> in_domain n_frac x ->
    (IZR (range_min signed n_bits) <= B2R x * bpow radix2 n_frac <= IZR (range_max signed n_bits))%R ->
    exists v, float_to_fp signed n_bits n_frac x = Ok v /\
              (Rabs (IZR v * bpow radix2 (- n_frac) - B2R x) < bpow radix2 (- n_frac))%R.
Proof. exact fp_within_one_lsb. Qed.

(* the error branches of the scalar converter: what lies outside the domain raises *)
Theorem C16_scale_overflow_error :
  forall signed n_bits n_frac (x : b64),
    1 <= n_bits -> 1024 <= n_frac -> float_to_fp signed n_bits n_frac x = OtherError.
Proof. exact fp_scale_overflow. Qed.

Theorem C16_nonfinite_scaled_error :
  forall signed n_bits n_frac (x : b64) scale,
    py_pow2 n_frac = Ok scale -> is_finite (b64_mult scale x) = false ->
    float_to_fp signed n_bits n_frac x = OtherError.
Proof. exact fp_nonfinite_error. Qed.

(* ---- fixed point -> float -> fixed point ----------------------------------------------------- *)

(* Every representable fixed-point value that a double can hold comes back unchanged ... *)
Theorem C16_roundtrip_exact :
  forall signed n_bits n_frac v,
    1 <= n_bits <= 1024 -> -1022 <= n_frac <= 1022 -> n_bits - n_frac <= 1024 ->
    representable signed n_bits v -> generic_format radix2 (FLT_exp (-1074) 53) (IZR v) ->
    roundtrip signed n_bits n_frac v = Ok v.
Proof. exact roundtrip_exact. Qed.

(* ... in particular every value below 2^53 in magnitude, hence every value of every format of at
   most 53 bits *)
Theorem C16_roundtrip_small :
  forall signed n_bits n_frac v,
    1 <= n_bits <= 1024 -> -1022 <= n_frac <= 1022 -> n_bits - n_frac <= 1024 ->
    representable signed n_bits v -> Z.abs v < 2 ^ 53 ->
    roundtrip signed n_bits n_frac v = Ok v.
Proof. exact roundtrip_small. Qed.

Theorem C16_roundtrip_upto_53_bits :
  forall signed n_bits n_frac v,
    1 <= n_bits <= 53 -> -1022 <= n_frac <= 1022 -> n_bits - n_frac <= 1024 ->
    representable signed n_bits v -> roundtrip signed n_bits n_frac v = Ok v.
Proof. exact roundtrip_upto_53_bits. Qed.

(* The clause "converting ANY representable fixed-point value to float and back returns it unchanged"
   is false of the code for 64-bit formats: 2^53 + 1 is representable and comes back as 2^53
   (a double cannot hold it).  Replayed on the code by the harness: known finding
   `roundtrip-beyond-2^53`. *)
Theorem C16_roundtrip_refuted :
  representable true 64 (2 ^ 53 + 1) /\ roundtrip true 64 0 (2 ^ 53 + 1) = Ok (2 ^ 53).
Proof. exact roundtrip_refuted. Qed.

(* ---- array converters ------------------------------------------------------------------------- *)

(* The repaired NumpyFloatToFixConverter agrees element for element with the scalar converter, for
   every supported width (numpy's clip / cast modelled from observation). *)
Theorem C16_numpy_agrees :
  forall signed n_bits n_frac (x : b64),
    n_bits = 8 \/ n_bits = 16 \/ n_bits = 32 \/ n_bits = 64 ->
    in_domain n_frac x ->
    np_float_to_fix signed n_bits n_frac x = float_to_fp signed n_bits n_frac x.
Proof. exact numpy_agrees. Qed.

(* The code as found (clip, then cast) did not: the clip bound 2^63 - 1 rounds up to 2^63 as a double
   and the cast of 2^63 wraps (cast modelled as observed).  x = 1e30. *)
Theorem C16_numpy_agrees_orig_refuted :
  is_finite x_1e30 = true /\
  float_to_fp true 64 0 x_1e30 = Ok (2 ^ 63 - 1) /\
  np_float_to_fix_orig true 64 0 x_1e30 = Ok (- 2 ^ 63) /\
  float_to_fp false 64 0 x_1e30 = Ok (2 ^ 64 - 1) /\
  np_float_to_fix_orig false 64 0 x_1e30 = Ok 0.
Proof. exact numpy_agrees_orig_refuted. Qed.

(* NumpyFixToFloatConverter (values / 2.0**n_frac) agrees bit for bit with fp_to_float
   (value * 2.0**-n_frac) on every integer element, errors included. *)
Theorem C16_numpy_back_agrees :
  forall n_frac v, -1023 <= n_frac <= 1023 -> np_fix_to_float n_frac v = fp_to_float n_frac v.
Proof. exact np_back_agrees. Qed.

(* ---- deprecated unsigned-word variants ------------------------------------------------------------ *)

(* float_to_fix (after the repair) returns the result of float_to_fp modulo 2^n_bits, for every format
   its validation accepts ... *)
Theorem C16_fix_agrees_mod_2n :
  forall signed n_bits n_frac (x : b64),
    valid_format signed n_bits n_frac -> in_domain n_frac x ->
    exists v, float_to_fp signed n_bits n_frac x = Ok v /\
              float_to_fix signed n_bits n_frac x = Ok (v mod 2 ^ n_bits).
Proof. exact fix_agrees_mod_2n. Qed.

(* ... and rejects every other format with the documented ValueError. *)
Theorem C16_fix_invalid_format :
  forall signed n_bits n_frac (x : b64),
    n_bits < 1 \/ n_frac < 0 \/ n_bits - sbit signed < n_frac ->
    float_to_fix signed n_bits n_frac x = Failed 0.
Proof. exact fix_invalid_format. Qed.

(* The code as found did not agree: with more than 53 integer bits the float upper bound rounds up,
   the clip lets 2^n through and the mask wraps it.  x = 1e30. *)
Theorem C16_fix_agrees_orig_refuted :
  float_to_fp false 64 0 x_1e30 = Ok (2 ^ 64 - 1) /\
  float_to_fix_orig false 64 0 x_1e30 = Ok 0 /\
  float_to_fp true 64 0 x_1e30 = Ok (2 ^ 63 - 1) /\
  float_to_fix_orig true 64 0 x_1e30 = Ok (2 ^ 63).
Proof. exact fix_agrees_orig_refuted. Qed.

(* fix_to_float reads the word as a two's-complement number and then converts exactly like
   fp_to_float (bit for bit). *)
Theorem C16_fix_to_float_agrees :
  forall signed n_bits n_frac w,
    valid_format signed n_bits n_frac -> 0 <= w < 2 ^ n_bits ->
    fix_to_float signed n_bits n_frac w = fp_to_float n_frac (word_value signed n_bits w).
Proof. exact unfix_agrees. Qed.

(* ---- error clauses of the array converter and of fix_to_float ------------------------------------- *)

(* an unsupported width / a format outside validate_fp_params' limits is refused with the documented
   ValueError *)
Theorem C16_documented_errors :
  (forall signed n_bits n_frac (x : b64),
     n_bits <> 8 -> n_bits <> 16 -> n_bits <> 32 -> n_bits <> 64 ->
     np_float_to_fix signed n_bits n_frac x = Failed 1) /\
  (forall signed n_bits n_frac w,
     n_bits < 1 \/ n_frac < 0 \/ n_bits - sbit signed < n_frac ->
     fix_to_float signed n_bits n_frac w = Failed 0).
Proof. exact (conj numpy_invalid_width unfix_invalid_format). Qed.

(* ---- tie to the source text (T) ------------------------------------------------------------------------
   tools/dump_c16.py re-extracts every function of rig/type_casts.py from the source text on each run into
   the syntax of Model/FixFloatSyntax.v (Generated/GenFixFloat.v; fail closed).  Evaluating the extracted
   programs (Model/FixFloatSource.v) gives EXACTLY the model functions the theorems above are about, for
   all inputs, errors included: a changed expression in the source (round for int, another clamp order,
   another bound, a dropped int() coercion, a missing saturation fix-up ...) breaks this theorem.
   (float_to_fix: n_bits >= 0, because for a negative width Python's `2**n_bits` is a float, outside the
   evaluator's subset; such a format is rejected by validate_fp_params anyway.) *)
Theorem C16_source_is_model :
  (forall signed n_bits n_frac x, src_float_to_fp signed n_bits n_frac x = float_to_fp signed n_bits n_frac x) /\
  (forall n_frac v, src_fp_to_float n_frac v = fp_to_float n_frac v) /\
  (forall s n f, src_validate (VBool s) (VInt n) (VInt f) =
                 bind (validate_fp_params s n f) (fun mm => Ok (VTup (VInt (fst mm)) (VFlt (snd mm))))) /\
  (forall signed n_bits n_frac x, 0 <= n_bits ->
     src_float_to_fix signed n_bits n_frac x = float_to_fix signed n_bits n_frac x) /\
  (forall signed n_bits n_frac w, src_fix_to_float signed n_bits n_frac w = fix_to_float signed n_bits n_frac w) /\
  (forall signed n_bits n_frac x,
     src_np_float_to_fix signed n_bits n_frac x = np_float_to_fix signed n_bits n_frac x) /\
  (forall n_frac v, src_np_fix_to_float n_frac v = np_fix_to_float n_frac v).
Proof. exact source_is_model. Qed.

(* hence the property's sentences hold of the extracted programs themselves *)
Theorem C16_source_sentences :
  (forall signed n_bits n_frac (x : b64),
     1 <= n_bits -> in_domain n_frac x ->
     src_float_to_fp signed n_bits n_frac x = Ok (fp_spec signed n_bits n_frac (B2R x))) /\
  (forall signed n_bits n_frac (x : b64),
     n_bits = 8 \/ n_bits = 16 \/ n_bits = 32 \/ n_bits = 64 -> in_domain n_frac x ->
     src_np_float_to_fix signed n_bits n_frac x = src_float_to_fp signed n_bits n_frac x) /\
  (forall signed n_bits n_frac (x : b64),
     valid_format signed n_bits n_frac -> in_domain n_frac x ->
     exists v, src_float_to_fp signed n_bits n_frac x = Ok v /\
               src_float_to_fix signed n_bits n_frac x = Ok (v mod 2 ^ n_bits)) /\
  (forall signed n_bits n_frac w,
     valid_format signed n_bits n_frac -> 0 <= w < 2 ^ n_bits ->
     src_fix_to_float signed n_bits n_frac w = src_fp_to_float n_frac (word_value signed n_bits w)).
Proof. exact source_sentences. Qed.

(* ---- the Spec's vocabulary ---------------------------------------------------------------------------- *)

(* the Spec's range / saturation are the functions the model computes with *)
Theorem C16_spec_range_is_model_range :
  (forall s n, range_min s n = fmt_min s n) /\ (forall s n, range_max s n = fmt_max s n) /\
  (forall lo hi i, saturate lo hi i = clamp lo hi i).
Proof. exact spec_range_is_model_range. Qed.

(* in_domain is phrased with the model's 2.0**n_frac and product; on real numbers it says: x finite,
   n_frac <= 1023 (Python can compute the scale) and, when the scale is a non-zero double, the exactly scaled
   value ROUNDS to a finite double (the threshold is 2^1024 - 2^970, not 2^1024) *)
Theorem C16_in_domain_real :
  forall n_frac (x : b64),
    in_domain n_frac x <->
    is_finite x = true /\ n_frac <= 1023 /\
    (-1074 <= n_frac ->
     (Rabs (round radix2 (FLT_exp (-1074) 53) ZnearestE (B2R x * bpow radix2 n_frac)) < bpow radix2 1024)%R).
Proof. exact in_domain_real. Qed.

Theorem C16_in_domain_scaled_bound :
  forall n_frac (x : b64), in_domain n_frac x -> -1074 <= n_frac ->
    (Rabs (B2R x * bpow radix2 n_frac) < bpow radix2 1024)%R.
Proof. exact in_domain_scaled_bound. Qed.

(* ---- hypotheses are satisfiable ------------------------------------------------------------------ *)
Example C16_domain_inhabited :
  in_domain 4 (b64_of_bits 0x3fe0000000000000) /\                     (* 0.5, S3.4: the docstring's example *)
  float_to_fp true 8 4 (b64_of_bits 0x3fe0000000000000) = Ok 8 /\
  in_domain 0 x_1e30 /\ in_domain (-4) (b64_of_bits 1) /\             (* huge; smallest subnormal, underflowing scale *)
  float_to_fp true 8 (-4) (b64_of_bits 1) = Ok 0.
Proof. exact domain_inhabited. Qed.

(* the round-trip theorem is not confined to |v| < 2^53: 2^60 is a representable value of the signed
   64-bit format, is a double, and comes back *)
Example C16_roundtrip_hypotheses_inhabited :
  representable true 64 (2 ^ 60) /\ generic_format radix2 (FLT_exp (-1074) 53) (IZR (2 ^ 60)) /\
  ~ (Z.abs (2 ^ 60) < 2 ^ 53) /\ roundtrip true 64 0 (2 ^ 60) = Ok (2 ^ 60).
Proof. exact roundtrip_hypotheses_inhabited. Qed.

(* the repaired array converter on the witness of C16_numpy_agrees_orig_refuted, and one ulp either side of
   2^63: the largest double below it converts exactly, 2^63 and its successor saturate (scalar and array) *)
Example C16_numpy_repaired_examples :
  np_float_to_fix true 64 0 x_1e30 = Ok (2 ^ 63 - 1) /\
  np_float_to_fix false 64 0 x_1e30 = Ok (2 ^ 64 - 1) /\
  float_to_fp true 64 0 (b64_of_bits 0x43dfffffffffffff) = Ok (2 ^ 63 - 1024) /\
  np_float_to_fix true 64 0 (b64_of_bits 0x43dfffffffffffff) = Ok (2 ^ 63 - 1024) /\
  float_to_fp true 64 0 (b64_of_bits 0x43e0000000000000) = Ok (2 ^ 63 - 1) /\
  np_float_to_fix true 64 0 (b64_of_bits 0x43e0000000000000) = Ok (2 ^ 63 - 1) /\
  float_to_fp true 64 0 (b64_of_bits 0x43e0000000000001) = Ok (2 ^ 63 - 1) /\
  np_float_to_fix true 64 0 (b64_of_bits 0x43e0000000000001) = Ok (2 ^ 63 - 1).
Proof. exact numpy_repaired_examples. Qed.

Example C16_valid_format_inhabited :
  valid_format true 64 0 /\ valid_format false 64 64 /\ valid_format true 8 4.
Proof. exact valid_format_inhabited. Qed.
