(* Proofs for property C14, part 1: bytes and bit fields, the `info` reply, the P2P table,
   get_system_info. *)
From Coq Require Import ZArith String Ascii List Bool Lia.
Require Import Rig.Generated.GenProbe Rig.Model.Base Rig.Model.Probe Rig.Spec.Probe.
Import ListNotations.
Open Scope Z_scope.

Ltac Zify.zify_post_hook ::= Z.to_euclidean_division_equations.

(* ------------------------------------------------------------------------------------------------ *)
(* little-endian integers                                                                            *)

Lemma le_encode_length : forall n v, length (le_encode n v) = n.
Proof. induction n; intros; simpl; auto. Qed.

Lemma le_decode_encode : forall n v, 0 <= v < 256 ^ Z.of_nat n -> le_decode (le_encode n v) = v.
Proof.
  induction n as [|n IH]; intros v Hv.
  - simpl in *. lia.
  - rewrite Nat2Z.inj_succ, Z.pow_succ_r in Hv by lia.
    cbn [le_encode le_decode]. rewrite IH.
    + pose proof (Z.div_mod v 256). lia.
    + split.
      * apply Z.div_pos; lia.
      * apply Z.div_lt_upper_bound; lia.
Qed.

Lemma le_encode_bytes : forall n v, Forall is_byte (le_encode n v).
Proof.
  induction n; intros; simpl; constructor; auto.
  unfold is_byte. apply Z.mod_pos_bound. lia.
Qed.

(* ------------------------------------------------------------------------------------------------ *)
(* bit fields                                                                                        *)

Lemma land_ones_mod : forall a n, 0 <= n -> Z.land a (Z.ones n) = a mod 2 ^ n.
Proof. intros. apply Z.land_ones; auto. Qed.

Lemma land_pow2 : forall a n, 0 <= n ->
  Z.land a (2 ^ n) = if Z.testbit a n then 2 ^ n else 0.
Proof.
  intros a n Hn. apply Z.bits_inj'. intros m Hm.
  rewrite Z.land_spec, Z.pow2_bits_eqb by lia.
  destruct (Z.eqb_spec n m) as [->|Hne].
  - destruct (Z.testbit a m) eqn:E; simpl.
    + rewrite Z.pow2_bits_true; auto.
    + rewrite Z.bits_0. reflexivity.
  - rewrite andb_false_r. destruct (Z.testbit a n).
    + rewrite Z.pow2_bits_false; auto.
    + rewrite Z.bits_0; auto.
Qed.

Lemma testbit_divmod : forall a n, 0 <= n -> Z.testbit a n = negb ((a / 2 ^ n) mod 2 =? 0).
Proof.
  intros a n Hn. pose proof (Z.testbit_spec' a n Hn) as H.
  destruct (Z.testbit a n); simpl in H; rewrite <- H; reflexivity.
Qed.

(* ------------------------------------------------------------------------------------------------ *)
(* struct unpacking                                                                                  *)

Lemma le_decode_single : forall b, le_decode [b] = b.
Proof. intros. simpl. lia. Qed.

Lemma unpack_items_bytes : forall (st : list Z) its rest,
  unpack_items (repeat (FInt 1) (length st) ++ its) (st ++ rest) = map UInt st ++ unpack_items its rest.
Proof.
  induction st as [|b st IH]; intros its rest.
  - reflexivity.
  - cbn [length repeat app unpack_items firstn skipn map].
    rewrite le_decode_single. f_equal. apply IH.
Qed.

Lemma ints_of_app : forall a b la lb,
  ints_of a = Some la -> ints_of b = Some lb -> ints_of (a ++ b) = Some (la ++ lb).
Proof.
  induction a as [|x a IH]; intros b la lb Ha Hb.
  - simpl in *. inversion Ha. auto.
  - destruct x; simpl in *; try discriminate.
    destruct (ints_of a) eqn:E; simpl in Ha; try discriminate. inversion Ha; subst.
    rewrite (IH b l lb eq_refl Hb). reflexivity.
Qed.

Lemma ints_of_map_UInt : forall l, ints_of (map UInt l) = Some l.
Proof. induction l; simpl; auto. rewrite IHl. reflexivity. Qed.

(* ------------------------------------------------------------------------------------------------ *)
(* the `info` reply                                                                                  *)

Lemma app_states_members : forall s, In s app_states -> zmem s appstate_values = true.
Proof.
  intros s H. unfold app_states in H. simpl in H.
  repeat (destruct H as [<-|H]; [reflexivity|]). contradiction.
Qed.

Lemma forallb_members : forall l, Forall (fun s => In s app_states) l ->
  forallb (fun s => zmem s appstate_values) l = true.
Proof.
  induction 1; cbn [forallb]; auto. rewrite app_states_members by assumption. assumption.
Qed.

Lemma info_format_items :
  parse_format ci_data_format = Some (repeat (FInt 1) 18 ++ [FInt 2; FInt 4]).
Proof. reflexivity. Qed.

Lemma unpack_info_data : forall st v ip,
  length st = 18%nat -> length ip = 4%nat ->
  unpack_from_ints ci_data_format (st ++ le_encode 2 v ++ ip) =
  Some (st ++ [le_decode (le_encode 2 v); le_decode ip]).
Proof.
  intros st v ip Hst Hip.
  unfold unpack_from_ints, unpack_from. rewrite info_format_items.
  assert (Hlen : (length (st ++ le_encode 2 v ++ ip) <? items_size (repeat (FInt 1) 18 ++ [FInt 2; FInt 4]))%nat = false).
  { rewrite !app_length, le_encode_length, Hst, Hip. reflexivity. }
  rewrite Hlen. rewrite <- Hst at 1. rewrite unpack_items_bytes.
  destruct ip as [|i0 [|i1 [|i2 [|i3 [|]]]]]; try discriminate.
  cbn [unpack_items le_encode app firstn skipn].
  erewrite ints_of_app; [reflexivity | apply ints_of_map_UInt | reflexivity].
Qed.

Definition a1 (cs : chip_state) : Z := r_arg1 (encode_info cs).

  Lemma a1_eq : forall cs, a1 cs = cs_cores cs + 256 * cs_linkmask cs + 16384 * cs_rtr cs
                     + 33554432 * (if cs_eth_up cs then 1 else 0).
  Proof. reflexivity. Qed.

  Lemma rt_num_cores : forall cs (Hv : cs_valid cs) a2 a3, ci_num_cores (a1 cs) a2 a3 = cs_cores cs.
  Proof.
    intros. destruct Hv as (Hc & _ & _ & Hl & Hr & _).
    unfold ci_num_cores. change 31 with (Z.ones 5). rewrite land_ones_mod by lia.
    rewrite a1_eq. change (2 ^ 5) with 32. destruct (cs_eth_up cs); lia.
  Qed.

  Lemma rt_rtr : forall cs (Hv : cs_valid cs) a2 a3, ci_rtr_block (a1 cs) a2 a3 = cs_rtr cs.
  Proof.
    intros. destruct Hv as (Hc & _ & _ & Hl & Hr & _).
    unfold ci_rtr_block. change 2047 with (Z.ones 11). rewrite land_ones_mod by lia.
    rewrite Z.shiftr_div_pow2 by lia. rewrite a1_eq.
    change (2 ^ 14) with 16384. change (2 ^ 11) with 2048. destruct (cs_eth_up cs); lia.
  Qed.

  Lemma rt_eth : forall cs (Hv : cs_valid cs) a2 a3, ci_ethernet_up (a1 cs) a2 a3 = cs_eth_up cs.
  Proof.
    intros. destruct Hv as (Hc & _ & _ & Hl & Hr & _).
    unfold ci_ethernet_up. rewrite Z.shiftl_1_l. rewrite land_pow2 by lia.
    rewrite testbit_divmod by lia. rewrite a1_eq. change (2 ^ 25) with 33554432.
    destruct (cs_eth_up cs).
    - replace ((cs_cores cs + 256 * cs_linkmask cs + 16384 * cs_rtr cs + 33554432 * 1) / 33554432) with 1 by lia.
      reflexivity.
    - replace ((cs_cores cs + 256 * cs_linkmask cs + 16384 * cs_rtr cs + 33554432 * 0) / 33554432) with 0 by lia.
      reflexivity.
  Qed.

  Lemma rt_link : forall cs (Hv : cs_valid cs) a2 a3 l, In l [0; 1; 2; 3; 4; 5] ->
    ci_link_working (a1 cs) a2 a3 l = Z.testbit (cs_linkmask cs) l.
  Proof.
    intros cs Hv a2 a3 l Hl. destruct Hv as (Hc & _ & _ & Hm & Hr & _).
    unfold ci_link_working. change 1 with (Z.ones 1) at 1. rewrite land_ones_mod by lia.
    assert (H0 : 0 <= l) by (simpl in Hl; lia).
    rewrite Z.shiftr_div_pow2 by lia. rewrite testbit_divmod by lia. rewrite a1_eq.
    assert (He : 0 <= (if cs_eth_up cs then 1 else 0) <= 1) by (destruct (cs_eth_up cs); lia).
    remember (if cs_eth_up cs then 1 else 0) as e.
    change (2 ^ 1) with 2.
    simpl in Hl.
    destruct Hl as [<-|[<-|[<-|[<-|[<-|[<-|[]]]]]]];
      match goal with |- context [2 ^ (8 + ?k)] => let v := eval compute in (2 ^ (8 + k)) in change (2 ^ (8 + k)) with v end;
      match goal with |- context [cs_linkmask cs / 2 ^ ?k] => let v := eval compute in (2 ^ k) in change (2 ^ k) with v end;
      f_equal; f_equal; lia.
  Qed.

  Lemma links_values_eq : links_values = [0; 1; 2; 3; 4; 5].
  Proof. reflexivity. Qed.

  Lemma rt_links : forall cs (Hv : cs_valid cs) a2 a3,
    filter (ci_link_working (a1 cs) a2 a3) links_values =
    filter (fun l => Z.testbit (cs_linkmask cs) l) [0; 1; 2; 3; 4; 5].
  Proof.
    intros. rewrite links_values_eq. apply filter_ext_in. intros l Hl. apply rt_link; auto.
  Qed.

  Lemma rt_eth_chip : forall cs (Hv : cs_valid cs) d19,
    ci_local_ethernet_chip (256 * fst (cs_eth cs) + snd (cs_eth cs)) d19 = cs_eth cs.
  Proof.
    intros. destruct Hv as (_ & _ & _ & _ & _ & _ & _ & Hx & Hy).
    unfold ci_local_ethernet_chip, is_byte in *. change 255 with (Z.ones 8).
    rewrite !land_ones_mod by lia. rewrite !Z.shiftr_div_pow2 by lia.
    change (2 ^ 8) with 256. change (2 ^ 0) with 1.
    destruct (cs_eth cs) as [ex ey]; simpl in *. f_equal; lia.
  Qed.

  Lemma rt_ip : forall d18 i0 i1 i2 i3,
    is_byte i0 -> is_byte i1 -> is_byte i2 -> is_byte i3 ->
    map (fun i => ci_ip_byte d18 (le_decode [i0; i1; i2; i3]) i) ci_ip_shifts = [i0; i1; i2; i3].
  Proof.
    intros d18 i0 i1 i2 i3 H0 H1 H2 H3. unfold is_byte in *.
    unfold ci_ip_shifts, ci_ip_byte. cbn [map le_decode]. change 255 with (Z.ones 8).
    rewrite !land_ones_mod by lia. rewrite !Z.shiftr_div_pow2 by lia.
    change (2 ^ 8) with 256. change (2 ^ 0) with 1. change (2 ^ 16) with 65536. change (2 ^ 24) with 16777216.
    repeat (f_equal; [lia|]). reflexivity.
  Qed.

  Theorem chip_info_roundtrip : forall cs, cs_valid cs -> decode_info (encode_info cs) = Ok (truth_info cs).
  Proof.
    intros cs Hv. pose proof Hv as (Hc & Hlen & Hst & Hm & Hr & Hiplen & Hip & Hx & Hy).
    unfold decode_info.
    change (r_arg1 (encode_info cs)) with (a1 cs).
    change (r_data (encode_info cs)) with
      (cs_states cs ++ le_encode 2 (256 * fst (cs_eth cs) + snd (cs_eth cs)) ++ cs_ip cs).
    rewrite unpack_info_data by assumption.
    assert (Hv16 : 0 <= 256 * fst (cs_eth cs) + snd (cs_eth cs) < 256 ^ Z.of_nat 2).
    { unfold is_byte in *. change (256 ^ Z.of_nat 2) with 65536. lia. }
    rewrite le_decode_encode by assumption.
    assert (Hsl : slice 0 ci_states_stop (cs_states cs ++ [256 * fst (cs_eth cs) + snd (cs_eth cs); le_decode (cs_ip cs)])
                  = cs_states cs).
    { unfold slice, ci_states_stop. change (Z.to_nat (18 - 0)) with 18%nat. change (Z.to_nat 0) with 0%nat.
      cbn [skipn]. rewrite <- Hlen. rewrite firstn_app, Nat.sub_diag, firstn_all. cbn [firstn]. apply app_nil_r. }
    rewrite Hsl. rewrite forallb_members by assumption.
    assert (H18 : nth 18 (cs_states cs ++ [256 * fst (cs_eth cs) + snd (cs_eth cs); le_decode (cs_ip cs)]) 0
                  = 256 * fst (cs_eth cs) + snd (cs_eth cs)).
    { rewrite app_nth2 by lia. rewrite Hlen. reflexivity. }
    assert (H19 : nth 19 (cs_states cs ++ [256 * fst (cs_eth cs) + snd (cs_eth cs); le_decode (cs_ip cs)]) 0
                  = le_decode (cs_ip cs)).
    { rewrite app_nth2 by lia. rewrite Hlen. reflexivity. }
    rewrite H18, H19.
    rewrite rt_num_cores, rt_rtr, rt_eth, rt_links, rt_eth_chip by assumption.
    unfold truth_info, ci_sdram, ci_sram. f_equal. f_equal.
    - unfold slice. rewrite Z.sub_0_r. reflexivity.
    - unfold ip_text, ci_ip_separator.
      destruct (cs_ip cs) as [|i0 [|i1 [|i2 [|i3 [|]]]]] eqn:E; try discriminate.
      inversion Hip as [|? ? B0 Hip1]; subst. inversion Hip1 as [|? ? B1 Hip2]; subst.
      inversion Hip2 as [|? ? B2 Hip3]; subst. inversion Hip3 as [|? ? B3 _]; subst.
      rewrite <- (rt_ip (256 * fst (cs_eth cs) + snd (cs_eth cs)) i0 i1 i2 i3) at 2 by assumption.
      rewrite map_map. reflexivity.
  Qed.
