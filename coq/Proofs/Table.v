(* Proofs about the minimisers of Model/Table.v that do not need the ordered-covering invariant:
   default-route removal (for ANY table), the method chain of minimise_table / minimise_tables, and
   transitivity of route_eq. *)
From Coq Require Import ZArith List Bool Lia.
Require Import Rig.Generated.GenTable Rig.Generated.GenTableEnums.
Require Import Rig.Model.Base Rig.Model.Table Rig.Spec.Table Rig.Proofs.TableCheck.
Import ListNotations.
Open Scope Z_scope.

(* ------------------------------------------------------------------------------------------------ *)
(** * route_eq: reflexive, and transitive on tables whose entries have a source *)

Lemma subset_refl : forall s, subset s s.
Proof. intros s. unfold subset. apply Z.land_diag. Qed.

Lemma subset_trans : forall a b c, subset a b -> subset b c -> subset a c.
Proof.
  unfold subset. intros a b c Hab Hbc. rewrite <- Hab at 1. rewrite <- Z.land_assoc, Hbc. exact Hab.
Qed.

Lemma route_eq_refl : forall t, route_eq t t.
Proof.
  intros t k e _ Hl. rewrite Hl. split; [reflexivity | apply subset_refl].
Qed.

Lemma lookup_In : forall t k e, lookup t k = Some e -> In e t /\ matches e k = true.
Proof. intros t k e H. apply find_some in H. exact H. Qed.

(* a non-empty subset of a one-element set is that set *)
Lemma subset_singleton : forall s l, 0 <= l -> s <> 0 -> subset s (Z.shiftl 1 l) -> s = Z.shiftl 1 l.
Proof.
  intros s l Hl Hnz Hsub. unfold subset in Hsub.
  apply Z.bits_inj'. intros j Hj.
  assert (Hbit : forall i, 0 <= i -> Z.testbit s i = Z.testbit s i && (l =? i)).
  { intros i Hi. rewrite <- Hsub at 1. rewrite Z.land_spec, Z.shiftl_1_l, Z.pow2_bits_eqb by exact Hl.
    reflexivity. }
  rewrite Z.shiftl_1_l, Z.pow2_bits_eqb by exact Hl.
  destruct (l =? j) eqn:Hlj.
  - apply Z.eqb_eq in Hlj. subst j.
    destruct (Z.testbit s l) eqn:Hs; [reflexivity | exfalso].
    apply Hnz. apply Z.bits_inj'. intros i Hi. rewrite Z.bits_0, (Hbit i Hi).
    destruct (l =? i) eqn:Hli; [| apply andb_false_r].
    apply Z.eqb_eq in Hli. subst i. rewrite Hs. reflexivity.
  - rewrite (Hbit j Hj), Hlj. apply andb_false_r.
Qed.


Lemma route_eq_matched_route_eq : forall A B, route_eq_matched A B -> route_eq A B.
Proof.
  intros A B H k e Hk Hl. destruct (H k e Hk Hl) as [e' [Hl' Hrl]]. rewrite Hl'. exact Hrl.
Qed.

Lemma route_eq_compose : forall A B C,
  nonempty_sources A -> route_eq_matched A B -> route_eq B C -> route_eq A C.
Proof.
  intros A B C Hne HAB HBC k e Hk Hl.
  destruct (HAB k e Hk Hl) as [e1 [HB [Hr1 Hs1]]].
  specialize (HBC k e1 Hk HB).
  destruct (lookup C k) as [e2 |].
  - destruct HBC as [Hr2 Hs2]. split; [congruence | eapply subset_trans; eassumption].
  - destruct HBC as [l [Hl6 [Hsrc Hrt]]].
    exists l. split; [exact Hl6 | split; [| congruence]].
    apply subset_singleton; [lia | | rewrite <- Hsrc; exact Hs1].
    apply Hne. apply (lookup_In A k e Hl).
Qed.

(* ------------------------------------------------------------------------------------------------ *)
(** * Default-route removal, for any table whatever *)

(* what the code's test (through the generated Routes tables) establishes *)
Lemma is_defaultable_spec : forall check e rest,
  is_defaultable check e rest = true ->
  default_routable e /\ (check = true -> forall d, In d rest -> intersects e d = false).
Proof.
  intros check e rest H. unfold is_defaultable in H.
  destruct (singleton_of (e_sources e)) as [s |] eqn:Hs; [| discriminate].
  destruct (singleton_of (e_route e)) as [r |] eqn:Hr; [| discriminate].
  apply andb_true_iff in H. destruct H as [H Hal].
  apply andb_true_iff in H. destruct H as [H Hopp].
  apply andb_true_iff in H. destruct H as [Hnone Hlinks].
  apply andb_true_iff in Hlinks. destruct Hlinks as [Hls Hlr].
  split.
  - unfold singleton_of in Hs, Hr. apply find_some in Hs. apply find_some in Hr.
    destruct Hs as [Hsin Hseq]. destruct Hr as [_ Hreq].
    apply Z.eqb_eq in Hseq. apply Z.eqb_eq in Hreq.
    destruct (zassoc s routes_opposite) as [o |] eqn:Ho; [| discriminate].
    apply Z.eqb_eq in Hopp. subst o.
    assert (Hs6 : 0 <= s < 6).
    { vm_compute in Hsin.
      repeat (destruct Hsin as [<- | Hsin]; [first [lia | vm_compute in Hls; discriminate Hls] |]).
      destruct Hsin. }
    clear Hsin.
    assert (Hcases : s = 0 \/ s = 1 \/ s = 2 \/ s = 3 \/ s = 4 \/ s = 5) by lia.
    exists s. split; [exact Hs6 | split; [exact Hseq |]].
    rewrite Hreq. f_equal.
    destruct Hcases as [-> | [-> | [-> | [-> | [-> | ->]]]]];
      vm_compute in Ho; injection Ho as <-; reflexivity.
  - intros -> d Hd. simpl in Hal. apply negb_true_iff in Hal.
    destruct (intersects e d) eqn:Hi; [| reflexivity].
    assert (Hex : existsb (intersects e) rest = true) by (apply existsb_exists; exists d; split; assumption).
    rewrite Hex in Hal. discriminate.
Qed.

Lemma rd_go_incl : forall check t e, In e (rd_go check t) -> In e t.
Proof.
  intros check t. induction t as [| x rest IH]; intros e H; simpl in *; [exact H |].
  destruct (is_defaultable check x rest).
  - right. apply IH. exact H.
  - destruct H as [<- | H]; [left; reflexivity | right; apply IH; exact H].
Qed.

Lemma rd_go_length : forall check t, len (rd_go check t) <= len t.
Proof.
  intros check t. unfold len. induction t as [| x rest IH]; simpl; [lia |].
  destruct (is_defaultable check x rest); simpl length; lia.
Qed.

Lemma lookup_none_of : forall t k, (forall d, In d t -> matches d k = false) -> lookup t k = None.
Proof.
  intros t k H. unfold lookup. destruct (find (fun e => matches e k) t) as [d |] eqn:Hf; [| reflexivity].
  apply find_some in Hf. destruct Hf as [Hd Hm]. rewrite (H d Hd) in Hm. discriminate.
Qed.

(* no two entries of the table (at different positions) match a common key *)
Fixpoint pairwise_disjoint (t : table) : Prop :=
  match t with
  | [] => True
  | e :: r => (forall d k, In d r -> matches e k = true -> matches d k = false) /\ pairwise_disjoint r
  end.

Lemma rd_go_lookup : forall check t k,
  (check = false -> pairwise_disjoint t) ->
  match lookup t k with
  | None => lookup (rd_go check t) k = None
  | Some e => lookup (rd_go check t) k = Some e
              \/ (lookup (rd_go check t) k = None /\ default_routable e)
  end.
Proof.
  intros check t k. induction t as [| x rest IH]; intros Hpd; [reflexivity |].
  assert (Hpd' : check = false -> pairwise_disjoint rest) by (intros Hc; apply (Hpd Hc)).
  specialize (IH Hpd').
  unfold lookup in *. cbn [find rd_go].
  destruct (is_defaultable check x rest) eqn:Hdef.
  - destruct (matches x k) eqn:Hm; [| exact IH].
    right. apply is_defaultable_spec in Hdef. destruct Hdef as [Hdr Hni].
    split; [| exact Hdr].
    apply lookup_none_of. intros d Hd. apply rd_go_incl in Hd.
    destruct check.
    + specialize (Hni eq_refl d Hd). unfold intersects in Hni.
      apply (intersect_false_disjoint _ _ _ _ k Hni). exact Hm.
    + destruct (Hpd eq_refl) as [Hx _]. apply (Hx d k Hd Hm).
  - cbn [find]. destruct (matches x k) eqn:Hm; [left; reflexivity | exact IH].
Qed.

Lemma rd_go_route_eq : forall check t,
  (check = false -> pairwise_disjoint t) -> route_eq t (rd_go check t).
Proof.
  intros check t Hpd k e _ Hl. pose proof (rd_go_lookup check t k Hpd) as H. rewrite Hl in H.
  destruct H as [H | [H Hdr]]; rewrite H; [| exact Hdr].
  split; [reflexivity | apply subset_refl].
Qed.

(* the cheap test of the code: one mask, all keys different => no two entries share a key *)
Lemma zmem_false : forall x l, zmem x l = false -> ~ In x l.
Proof.
  intros x l. induction l as [| y l' IH]; intros H Hin; simpl in *; [exact Hin |].
  apply orb_false_iff in H. destruct H as [Hxy Hl'].
  destruct Hin as [<- | Hin]; [rewrite Z.eqb_refl in Hxy; discriminate | exact (IH Hl' Hin)].
Qed.

Lemma same_mask_disjoint : forall m t,
  (forall e, In e t -> e_mask e = m) -> znodup (map e_key t) = true -> pairwise_disjoint t.
Proof.
  intros m t. induction t as [| x rest IH]; intros Hm Hnd; simpl; [exact I |].
  simpl in Hnd. apply andb_true_iff in Hnd. destruct Hnd as [Hx Hrest]. apply negb_true_iff in Hx.
  split.
  - intros d k Hd Hxk. unfold matches, km_matches, km_of in *; simpl in *.
    apply Z.eqb_eq in Hxk.
    destruct (Z.land k (e_mask d) =? e_key d) eqn:Hdk; [| reflexivity].
    apply Z.eqb_eq in Hdk. exfalso.
    apply (zmem_false _ _ Hx). rewrite (Hm d (or_intror Hd)) in Hdk. rewrite (Hm x (or_introl eq_refl)) in Hxk.
    rewrite <- Hxk, Hdk. apply in_map. exact Hd.
  - apply IH; [intros e He; apply Hm; right; exact He | exact Hrest].
Qed.

Lemma no_alias_shortcut_disjoint : forall t, no_alias_shortcut t = true -> pairwise_disjoint t.
Proof.
  intros t H. destruct t as [| e r]; [exact I |]. unfold no_alias_shortcut in H.
  apply andb_true_iff in H. destruct H as [Hm Hnd].
  apply (same_mask_disjoint (e_mask e)); [| exact Hnd].
  intros e' [<- | He']; [reflexivity |]. rewrite forallb_forall in Hm. apply Z.eqb_eq. apply Hm. exact He'.
Qed.

(* U (any ordered table, any target): remove_default returns, with no target, a table that routes
   every matched key as before and is not longer; with a target it returns that same table when it is
   short enough and otherwise fails reporting exactly its length. *)
Theorem remove_default_spec : forall t target,
  exists full,
    remove_default t None = Ok full /\ route_eq t full /\ len full <= len t /\
    remove_default t target =
      match target with
      | None => Ok full
      | Some tl => if tl <? len full then Failed (len full) else Ok full
      end.
Proof.
  intros t target. unfold remove_default, remove_default_gen.
  exists (rd_go (negb (no_alias_shortcut t)) t).
  split; [reflexivity | split; [| split]].
  - apply rd_go_route_eq. intros Hc. apply negb_false_iff in Hc. apply no_alias_shortcut_disjoint. exact Hc.
  - apply rd_go_length.
  - destruct target; reflexivity.
Qed.

(* ------------------------------------------------------------------------------------------------ *)
(** * The method chain: minimise_table, minimise_tables *)



Lemma remove_default_method_ok : forall t, method_ok remove_default t.
Proof.
  intros t. destruct (remove_default_spec t None) as [full [Hn [Hre [Hlen _]]]].
  exists full. split; [exact Hn | split; [exact Hre | split; [exact Hlen |]]].
  intros tl. destruct (remove_default_spec t (Some tl)) as [full' [Hn' [_ [_ Hs]]]].
  rewrite Hn in Hn'. injection Hn' as <-. rewrite Hs.
  destruct (tl <? len full) eqn:Hlt.
  - apply Z.ltb_lt in Hlt. split; [reflexivity | exact Hlt].
  - apply Z.ltb_ge in Hlt. split; [exact Hre | split; assumption].
Qed.


Lemma min_if : forall a best, (if a <? best then a else best) = Z.min best a.
Proof. intros a best. destruct (a <? best) eqn:Hc; [apply Z.ltb_lt in Hc | apply Z.ltb_ge in Hc]; lia. Qed.

Lemma try_methods_spec : forall ms t tl best,
  Forall (fun f => method_ok f t) ms ->
  match try_methods ms t tl best with
  | Ok r => route_eq t r /\ len r <= len t /\ len r <= tl
  | Failed n => n = best_size ms t best /\ Forall (fun f => tl < full_size f t <= len t) ms
  | OtherError | OutOfFuel => False
  end.
Proof.
  induction ms as [| f ms' IH]; intros t tl best Hok; simpl.
  - split; [reflexivity | constructor].
  - inversion Hok as [| ? ? Hf Hms']; subst.
    destruct Hf as [full [Hn [_ [Hlen Ht]]]]. specialize (Ht tl).
    unfold full_size at 1. rewrite Hn.
    destruct (f t (Some tl)) as [r | n | |] eqn:Hft; try contradiction.
    + exact Ht.
    + destruct Ht as [-> Hlt]. rewrite min_if.
      specialize (IH t tl (Z.min best (len full)) Hms').
      destruct (try_methods ms' t tl (Z.min best (len full))) as [r | n | |]; try contradiction.
      * exact IH.
      * destruct IH as [-> Hall]. split; [reflexivity |].
        constructor; [unfold full_size; rewrite Hn; lia | exact Hall].
Qed.

Lemma best_size_gt : forall ms t tl best,
  Forall (fun f => tl < full_size f t <= len t) ms -> tl < best -> tl < best_size ms t best.
Proof.
  induction ms as [| f ms' IH]; intros t tl best Hall Hb; simpl; [exact Hb |].
  inversion Hall as [| ? ? Hf Hms']; subst. apply IH; [exact Hms' | lia].
Qed.

Lemma all_results_spec : forall ms t,
  Forall (fun f => method_ok f t) ms ->
  exists rs, all_results ms t = Ok rs /\ length rs = length ms /\
             Forall (fun r => route_eq t r /\ len r <= len t) rs.
Proof.
  induction ms as [| f ms' IH]; intros t Hok; simpl.
  - exists []. split; [reflexivity | split; [reflexivity | constructor]].
  - inversion Hok as [| ? ? Hf Hms']; subst.
    destruct Hf as [full [Hn [Hre [Hlen _]]]].
    destruct (IH t Hms') as [rs [Hrs [Hl Hall]]].
    exists (full :: rs). rewrite Hn. simpl. rewrite Hrs. simpl.
    split; [reflexivity | split; [simpl; congruence | constructor; [split; assumption | exact Hall]]].
Qed.

Lemma shortest_spec : forall (P : table -> Prop) l best,
  P best -> Forall P l -> P (shortest best l) /\ len (shortest best l) <= len best.
Proof.
  intros P l. induction l as [| x l' IH]; intros best Hb Hl; simpl; [split; [exact Hb | lia] |].
  inversion Hl as [| ? ? Hx Hl']; subst.
  destruct (len x <? len best) eqn:Hc.
  - apply Z.ltb_lt in Hc. destruct (IH x Hx Hl') as [H1 H2]. split; [exact H1 | lia].
  - apply IH; assumption.
Qed.

(* minimise_table with methods identity :: ms (all of ms method_ok, ms not empty) *)
Lemma identity_then_methods_target : forall ms t tl,
  Forall (fun f => method_ok f t) ms -> ms <> [] ->
  match try_methods (identity_method :: ms) t tl (len t) with
  | Ok r => route_eq t r /\ len r <= len t /\ len r <= tl
  | Failed n => n = best_size ms t (len t) /\ tl < n
  | OtherError | OutOfFuel => False
  end.
Proof.
  intros ms t tl Hok Hne. simpl. destruct (len t <? tl) eqn:Hc.
  - apply Z.ltb_lt in Hc. split; [apply route_eq_refl | lia].
  - apply Z.ltb_ge in Hc. rewrite Z.ltb_irrefl.
    pose proof (try_methods_spec ms t tl (len t) Hok) as H.
    destruct (try_methods ms t tl (len t)) as [r | n | |]; try contradiction; [exact H |].
    destruct H as [-> Hall]. split; [reflexivity |].
    destruct ms as [| f ms']; [contradiction |].
    inversion Hall as [| ? ? Hf Hms']; subst. simpl.
    apply best_size_gt; [exact Hms' | lia].
Qed.

Lemma identity_then_methods_none : forall ms t,
  Forall (fun f => method_ok f t) ms ->
  exists rs, all_results (identity_method :: ms) t = Ok (t :: rs) /\
             route_eq t (shortest t rs) /\ len (shortest t rs) <= len t.
Proof.
  intros ms t Hok. destruct (all_results_spec ms t Hok) as [rs [Hrs [_ Hall]]].
  exists rs. simpl. rewrite Hrs. simpl. split; [reflexivity |].
  destruct (shortest_spec (fun r => route_eq t r /\ len r <= len t) rs t) as [[H1 H2] H3].
  - split; [apply route_eq_refl | lia].
  - exact Hall.
  - split; assumption.
Qed.

(* U: minimise_table (default methods), given that ordered covering is method_ok on this table *)
Theorem minimise_table_spec : forall t target,
  method_ok oc_minimise t ->
  match minimise_table t target with
  | Ok r => route_eq t r /\ len r <= len t /\ (forall tl, target = Some tl -> len r <= tl)
  | Failed n =>
      exists tl, target = Some tl /\ tl < n /\
                 n = Z.min (Z.min (len t) (full_size remove_default t)) (full_size oc_minimise t)
  | OtherError | OutOfFuel => False
  end.
Proof.
  intros t target Hoc.
  assert (Hok : Forall (fun f => method_ok f t) [remove_default; oc_minimise]).
  { constructor; [apply remove_default_method_ok | constructor; [exact Hoc | constructor]]. }
  unfold minimise_table, methods. destruct target as [tl |].
  - pose proof (identity_then_methods_target [remove_default; oc_minimise] t tl Hok) as H.
    destruct (try_methods (identity_method :: [remove_default; oc_minimise]) t tl (len t)) as [r | n | |].
    + destruct (H ltac:(discriminate)) as [H1 [H2 H3]].
      split; [exact H1 | split; [exact H2 |]]. intros tl' Heq. injection Heq as <-. exact H3.
    + destruct (H ltac:(discriminate)) as [-> Hlt]. exists tl. split; [reflexivity | split; [exact Hlt |]].
      reflexivity.
    + apply H. discriminate.
    + apply H. discriminate.
  - destruct (identity_then_methods_none [remove_default; oc_minimise] t Hok) as [rs [Hrs [H1 H2]]].
    rewrite Hrs. simpl. split; [exact H1 | split; [exact H2 |]]. intros tl Heq. discriminate.
Qed.

(* minimise_tables without the accumulator *)
Fixpoint mts_spec (ts : list (chip * table)) (tg : targets) : tables_outcome :=
  match ts with
  | [] => TablesOk []
  | (c, t) :: ts' =>
      match target_for tg c with
      | None => TablesOther
      | Some tl =>
          match minimise_table t tl with
          | Ok r =>
              match mts_spec ts' tg with
              | TablesOk o => TablesOk (match r with [] => o | _ => (c, r) :: o end)
              | x => x
              end
          | Failed fl => TablesFailed c fl
          | OtherError => TablesOther
          | OutOfFuel => TablesOutOfFuel
          end
      end
  end.

Lemma minimise_tables_go_spec : forall ts tg acc,
  minimise_tables_go ts tg acc =
  match mts_spec ts tg with TablesOk o => TablesOk (rev acc ++ o) | x => x end.
Proof.
  induction ts as [| [c t] ts' IH]; intros tg acc; simpl.
  - rewrite app_nil_r. reflexivity.
  - destruct (target_for tg c) as [tl |]; [| reflexivity].
    destruct (minimise_table t tl) as [r | n | |]; try reflexivity.
    destruct r as [| e r'].
    + rewrite IH. destruct (mts_spec ts' tg); reflexivity.
    + rewrite IH. simpl. destruct (mts_spec ts' tg); try reflexivity.
      rewrite <- app_assoc. reflexivity.
Qed.


Lemma chip_eqb_eq : forall a b, chip_eqb a b = true <-> a = b.
Proof.
  intros [a1 a2] [b1 b2]. unfold chip_eqb; simpl. rewrite andb_true_iff, !Z.eqb_eq.
  split; [intros [-> ->]; reflexivity | intros H; injection H as -> ->; split; reflexivity].
Qed.

Lemma cassoc_In : forall (o : list (chip * table)) c r, cassoc c o = Some r -> In (c, r) o.
Proof.
  induction o as [| [c1 r1] o' IH]; intros c r H; simpl in H; [discriminate |].
  destruct (chip_eqb c c1) eqn:Hc.
  - injection H as <-. apply chip_eqb_eq in Hc. subst c1. left. reflexivity.
  - right. apply IH. exact H.
Qed.

Lemma mts_spec_keys : forall ts tg o c r,
  mts_spec ts tg = TablesOk o -> In (c, r) o -> In c (map fst ts).
Proof.
  induction ts as [| [c0 t0] ts' IH]; intros tg o c r H Hin; simpl in H.
  - injection H as <-. destruct Hin.
  - destruct (target_for tg c0) as [tl |]; [| discriminate].
    destruct (minimise_table t0 tl) as [r0 | | |]; try discriminate.
    destruct (mts_spec ts' tg) as [o' | | |] eqn:Ho'; try discriminate.
    injection H as <-. simpl.
    destruct r0 as [| e r0'].
    + right. apply (IH tg o' c r Ho' Hin).
    + destruct Hin as [Heq | Hin]; [left; congruence | right; apply (IH tg o' c r Ho' Hin)].
Qed.

(* U: minimise_tables: every chip's table is minimised as by minimise_table with that chip's target;
   chips whose result is empty are dropped (their table_of is []); a failure names a chip of the input
   and carries minimise_table's error for it. *)
Theorem minimise_tables_spec : forall ts tg,
  NoDup (map fst ts) ->
  (forall c t, In (c, t) ts -> method_ok oc_minimise t) ->
  match minimise_tables ts tg with
  | TablesOk out =>
      (forall c t, In (c, t) ts ->
         exists tl, target_for tg c = Some tl /\ minimise_table t tl = Ok (table_of out c) /\
                    route_eq t (table_of out c) /\ len (table_of out c) <= len t /\
                    (forall n, tl = Some n -> len (table_of out c) <= n))
      /\ (forall c r, In (c, r) out -> In c (map fst ts))
  | TablesFailed c n =>
      exists t tl, In (c, t) ts /\ target_for tg c = Some (Some tl) /\
                   minimise_table t (Some tl) = Failed n /\ tl < n
  | TablesOther => exists c t, In (c, t) ts /\ target_for tg c = None
  | TablesOutOfFuel => False
  end.
Proof.
  intros ts tg Hnd Hoc. unfold minimise_tables. rewrite minimise_tables_go_spec. simpl.
  assert (Hmain : match mts_spec ts tg with
                  | TablesOk out =>
                      (forall c t, In (c, t) ts ->
                         exists tl, target_for tg c = Some tl /\ minimise_table t tl = Ok (table_of out c) /\
                                    route_eq t (table_of out c) /\ len (table_of out c) <= len t /\
                                    (forall n, tl = Some n -> len (table_of out c) <= n))
                  | TablesFailed c n =>
                      exists t tl, In (c, t) ts /\ target_for tg c = Some (Some tl) /\
                                   minimise_table t (Some tl) = Failed n /\ tl < n
                  | TablesOther => exists c t, In (c, t) ts /\ target_for tg c = None
                  | TablesOutOfFuel => False
                  end).
  { induction ts as [| [c0 t0] ts' IH]; simpl.
    - intros c t [].
    - inversion Hnd as [| ? ? Hnotin Hnd']; subst.
      assert (Hoc' : forall c t, In (c, t) ts' -> method_ok oc_minimise t)
        by (intros c t H; apply (Hoc c t); right; exact H).
      specialize (IH Hnd' Hoc').
      destruct (target_for tg c0) as [tl |] eqn:Htg.
      2:{ exists c0, t0. split; [left; reflexivity | exact Htg]. }
      pose proof (minimise_table_spec t0 tl (Hoc c0 t0 (or_introl eq_refl))) as Hmt.
      destruct (minimise_table t0 tl) as [r0 | n | |] eqn:Hm; try contradiction.
      + destruct (mts_spec ts' tg) as [o' | c' n' | |] eqn:Ho'.
        * intros c t [Heq | Hin].
          -- injection Heq as <- <-. exists tl. split; [exact Htg |].
             assert (Htab : table_of (match r0 with [] => o' | _ :: _ => (c0, r0) :: o' end) c0 = r0).
             { unfold table_of. destruct r0 as [| e r0'].
               - destruct (cassoc c0 o') as [r |] eqn:Hca; [| reflexivity]. exfalso.
                 apply Hnotin.
                 pose proof (cassoc_In _ _ _ Hca) as Hin.
                 apply (mts_spec_keys ts' tg o' c0 r Ho' Hin).
               - simpl. assert (Hr : chip_eqb c0 c0 = true) by (apply chip_eqb_eq; reflexivity).
                 rewrite Hr. reflexivity. }
             rewrite Htab. destruct Hmt as [H1 [H2 H3]].
             split; [exact Hm | split; [exact H1 | split; [exact H2 |]]].
             intros n ->. apply H3. reflexivity.
          -- destruct (IH c t Hin) as [tl' [Ht1 Ht2]]. exists tl'. split; [exact Ht1 |].
             assert (Htab : table_of (match r0 with [] => o' | _ :: _ => (c0, r0) :: o' end) c = table_of o' c).
             { destruct r0 as [| e r0']; [reflexivity |]. unfold table_of. simpl.
               destruct (chip_eqb c c0) eqn:Hc; [| reflexivity].
               apply chip_eqb_eq in Hc. subst c. exfalso. apply Hnotin.
               apply in_map_iff. exists (c0, t). split; [reflexivity | exact Hin]. }
             rewrite Htab. exact Ht2.
        * destruct IH as [t [tl' [H1 H2]]]. exists t, tl'. split; [right; exact H1 | exact H2].
        * destruct IH as [c [t [H1 H2]]]. exists c, t. split; [right; exact H1 | exact H2].
        * exact IH.
      + destruct Hmt as [tl' [-> [Hlt _]]]. exists t0, tl'.
        split; [left; reflexivity | split; [exact Htg | split; [exact Hm | exact Hlt]]]. }
  destruct (mts_spec ts tg) as [out | c n | |] eqn:Hsp; try exact Hmain.
  split; [exact Hmain |]. intros c r Hin. apply (mts_spec_keys ts tg out c r Hsp Hin).
Qed.
