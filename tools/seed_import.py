#!/usr/bin/env python3
"""tools/seed_import.py <mutation dir (with result.json from mutation_run.py)> <seed id>
Copies patch.diff / demo.py into seeded/<seed id>/ and writes meta.json (which property it breaks, what it
needs to manifest, what was run and what the checks printed).  Only confirmed changes are kept."""
import json, os, shutil, sys
V = os.path.dirname(os.path.dirname(os.path.abspath(__file__)))
src, sid = sys.argv[1], sys.argv[2]
r = json.load(open(os.path.join(src, "result.json")))
m = json.load(open(os.path.join(src, "meta.json")))
ok = r.get("applied") and r.get("baseline_passes") and r.get("demo_fails_with_change") and r.get("demo_passes_without")
if not ok:
    print("NOT CONFIRMED:", {k: r.get(k) for k in ("applied", "baseline_passes", "demo_fails_with_change", "demo_passes_without")})
    sys.exit(1)
dst = os.path.join(V, "seeded", sid)
os.makedirs(dst, exist_ok=True)
shutil.copy(os.path.join(src, "patch.diff"), dst)
shutil.copy(os.path.join(src, "demo.py"), dst)
for extra in os.listdir(src):
    if extra.endswith(".py") and extra != "demo.py":
        shutil.copy(os.path.join(src, extra), dst)
meta = dict(property=m.get("property"), summary=m.get("summary"), needs=m.get("needs"),
            files_changed=m.get("files_changed"),
            confirmed=dict(patch_applies_to_repo_HEAD=True, pinned_baseline_475_still_passes=r["baseline_passes"],
                           demo_exits_nonzero_with_change=r["demo_fails_with_change"],
                           demo_exits_zero_on_repo=r["demo_passes_without"],
                           how="tools/mutation_run.py: fresh git worktree of /repo HEAD under /tmp, git apply patch.diff, "
                               "tools/baseline.py <worktree>, demo.py with PYTHONPATH=<worktree> and with PYTHONPATH=/repo, "
                               "RIG_REPO=<worktree> ./check <id> --tier quick; worktree removed afterwards"),
            checks={p: dict(exit=c["exit"], output=c["lines"], kind=c.get("kind"), wall_s=c["wall_s"],
                            first_reported=c.get("first", "")[:400]) for p, c in r.get("checks", {}).items()},
            author_verification=m.get("verified"))
json.dump(meta, open(os.path.join(dst, "meta.json"), "w"), indent=1)
print("kept", dst, {p: c["lines"][:1] for p, c in r.get("checks", {}).items()})
