"""Translation unit GenBootCtrl (property C20): the other entry points to boot.

Part 1 (ast of rig/machine_control/machine_controller.py and rig/machine_control/boot.py, fail closed): the
SHAPE Model/BootCtrl.v relies on --
  MachineController.__init__ : self.initial_host = initial_host ; self.boot_port = boot_port (default
      consts.BOOT_PORT) ; self.structs = structs, replaced by a fresh parse of the bundled struct file when None ;
      no other statement of the class binds or mutates self.structs except the one in boot()
  MachineController.boot(self, width=None, height=None, only_if_needed=True, check_booted=True, **boot_kwargs):
      if width is not None or height is not None: warnings.warn(...)        (nothing else: the values are ignored)
      if only_if_needed: ...                (does not mention boot_kwargs / width / height, does not bind structs)
      boot_kwargs.setdefault("boot_port", self.boot_port)
      self.structs = boot.boot(self.initial_host, **boot_kwargs)
      assert len(self.structs) > 0
      if check_booted: ...                  (same restriction)
      return True
  boot.boot : the image and the struct file are read afresh from the named paths on every call
      (with open(scamp_binary, "rb") as f: boot_data = f.read() ; likewise sark_struct -> struct_data), and these
      names are not rebound before use.
Anything else is Unsupported (a broken obligation).

Part 2 (live, rig.scripts.rig_boot): main() is run for no flag and for every --flag its own help lists, with
MachineController replaced by a recorder in the script's namespace; emitted: how the controller was constructed
and the keyword arguments its boot() received, per flag."""
import ast
import contextlib
import io
import os
import re
import sys
import warnings

warnings.simplefilter("ignore")
sys.path.insert(0, os.path.dirname(os.path.abspath(__file__)))
import dumplib as D  # noqa: E402

REPO = os.environ.get("PYTHONPATH", "/repo").split(os.pathsep)[0]


class Unsupported(Exception):
    pass


def need(cond, what):
    if not cond:
        raise Unsupported(what)


def dump(n):
    return ast.dump(n, annotate_fields=False)


def same(n, src):
    """n is the statement / expression written as src"""
    t = ast.parse(src).body[0]
    if isinstance(t, ast.Expr) and not isinstance(n, ast.stmt):
        t = t.value
    return dump(n) == dump(t)


def strip_doc(body):
    if body and isinstance(body[0], ast.Expr) and isinstance(body[0].value, ast.Constant) \
            and isinstance(body[0].value.value, str):
        return body[1:]
    return body


def names_in(n):
    return set(x.id for x in ast.walk(n) if isinstance(x, ast.Name))


def binds_structs(n):
    """any store / delete / augmented store to an attribute called structs, or a call of a method on x.structs"""
    for x in ast.walk(n):
        if isinstance(x, ast.Attribute) and x.attr == "structs" and not isinstance(x.ctx, ast.Load):
            return True
        if isinstance(x, ast.Call) and isinstance(x.func, ast.Attribute) and isinstance(x.func.value, ast.Attribute) \
                and x.func.value.attr == "structs":
            return True           # self.structs.update(...), .clear(), ...
        if isinstance(x, ast.Subscript) and not isinstance(x.ctx, ast.Load) and isinstance(x.value, ast.Attribute) \
                and x.value.attr == "structs":
            return True           # self.structs[k] = ...
    return False


def controller_shape():
    tree = ast.parse(open(os.path.join(REPO, "rig/machine_control/machine_controller.py")).read())
    cls = [n for n in tree.body if isinstance(n, ast.ClassDef) and n.name == "MachineController"]
    need(len(cls) == 1, "class MachineController not found")
    cls = cls[0]
    methods = dict((n.name, n) for n in cls.body if isinstance(n, ast.FunctionDef))
    # no class-level attribute about structs
    for n in cls.body:
        if isinstance(n, (ast.Assign, ast.AnnAssign, ast.AugAssign)):
            need("struct" not in dump(n), "class-level binding mentioning structs: " + ast.unparse(n))
    # ---- __init__
    init = methods.get("__init__")
    need(init is not None, "MachineController.__init__ not found")
    a = init.args
    argn = [x.arg for x in a.args]
    need(argn[:2] == ["self", "initial_host"] and "boot_port" in argn and "structs" in argn and not a.vararg
         and not a.kwarg, "__init__ signature changed: %r" % argn)
    defaults = dict(zip(argn[len(argn) - len(a.defaults):], a.defaults))
    need(same(defaults["boot_port"], "consts.BOOT_PORT"), "default of boot_port is not consts.BOOT_PORT")
    need(same(defaults["structs"], "None"), "default of structs is not None")
    body = strip_doc(init.body)
    top = [dump(s) for s in body]
    for src in ("self.initial_host = initial_host", "self.boot_port = boot_port", "self.structs = structs"):
        need(top.count(dump(ast.parse(src).body[0])) == 1, "__init__: expected exactly one `%s`" % src)
    for nm in ("initial_host", "boot_port", "structs"):
        stores = [x for s in body for x in ast.walk(s) if isinstance(x, ast.Name) and x.id == nm
                  and isinstance(x.ctx, ast.Store)]
        need(not stores, "__init__ rebinds its parameter " + nm)
    i = top.index(dump(ast.parse("self.structs = structs").body[0]))
    need(i + 1 < len(body) and dump(body[i + 1]) == dump(ast.parse(
        "if self.structs is None:\n"
        "    struct_data = pkg_resources.resource_string('rig', 'boot/sark.struct')\n"
        "    self.structs = struct_file.read_struct_file(struct_data)").body[0]),
        "__init__: the default structs are not a fresh parse of the bundled boot/sark.struct")
    for k, s in enumerate(body):
        if k not in (i, i + 1):
            need(not binds_structs(s), "__init__: another statement binds structs: " + ast.unparse(s)[:80])
            for x in ast.walk(s):
                if isinstance(x, ast.Attribute) and x.attr in ("initial_host", "boot_port") \
                        and isinstance(x.ctx, ast.Store):
                    need(dump(s) in (dump(ast.parse("self.initial_host = initial_host").body[0]),
                                     dump(ast.parse("self.boot_port = boot_port").body[0])),
                         "__init__: another statement binds " + x.attr)
    # ---- boot
    boot = methods.get("boot")
    need(boot is not None, "MachineController.boot not found")
    need(not boot.decorator_list, "MachineController.boot is decorated")
    a = boot.args
    need([x.arg for x in a.args] == ["self", "width", "height", "only_if_needed", "check_booted"]
         and [dump(d) for d in a.defaults] == [dump(ast.Constant(None)), dump(ast.Constant(None)),
                                               dump(ast.Constant(True)), dump(ast.Constant(True))]
         and a.kwarg is not None and a.kwarg.arg == "boot_kwargs" and not a.vararg and not a.kwonlyargs,
         "boot signature is not (self, width=None, height=None, only_if_needed=True, check_booted=True, **boot_kwargs)")
    b = strip_doc(boot.body)
    need(len(b) == 7, "boot: %d top-level statements (7 expected)" % len(b))
    s0, s1, s2, s3, s4, s5, s6 = b
    need(isinstance(s0, ast.If) and same(s0.test, "width is not None or height is not None") and not s0.orelse
         and len(s0.body) == 1 and isinstance(s0.body[0], ast.Expr) and isinstance(s0.body[0].value, ast.Call)
         and same(s0.body[0].value.func, "warnings.warn")
         and not ({"width", "height", "boot_kwargs"} & names_in(s0.body[0])),
         "boot: the deprecated width/height are not merely warned about")
    for s, flag in ((s1, "only_if_needed"), (s5, "check_booted")):
        need(isinstance(s, ast.If) and same(s.test, flag) and not s.orelse, "boot: `if %s:` block has another shape" % flag)
        need(not ({"width", "height", "boot_kwargs"} & names_in(s)) and not binds_structs(s)
             and not any(isinstance(x, ast.Attribute) and x.attr in ("initial_host", "boot_port")
                         and not isinstance(x.ctx, ast.Load) for x in ast.walk(s)),
             "boot: the `if %s:` block touches the forwarded arguments or the structs" % flag)
        need("boot" not in [x.attr for x in ast.walk(s) if isinstance(x, ast.Attribute)] and
             "boot" not in names_in(s), "boot: the `if %s:` block boots" % flag)
    need(same(s2, "boot_kwargs.setdefault('boot_port', self.boot_port)"),
         "boot: boot_kwargs is not completed by setdefault('boot_port', self.boot_port) only")
    need(same(s3, "self.structs = boot.boot(self.initial_host, **boot_kwargs)"),
         "boot: not `self.structs = boot.boot(self.initial_host, **boot_kwargs)`")
    need(same(s4, "assert len(self.structs) > 0"), "boot: statement after the forwarding call changed")
    need(same(s6, "return True"), "boot: does not end with `return True`")
    # ---- nothing else in the class binds / mutates structs
    for name, m in methods.items():
        if name not in ("__init__", "boot"):
            need(not binds_structs(m), "method %s binds or mutates structs" % name)
    # module level: `boot` is the module rig.machine_control.boot
    imports = [n for n in tree.body if isinstance(n, ast.ImportFrom) and n.module == "rig.machine_control"
               and any(al.name == "boot" and al.asname is None for al in n.names)]
    need(len(imports) == 1, "`from rig.machine_control import boot` not found")
    for n in tree.body:
        if isinstance(n, (ast.Assign, ast.FunctionDef, ast.ClassDef)):
            bound = [t.id for t in getattr(n, "targets", []) if isinstance(t, ast.Name)] + [getattr(n, "name", None)]
            need("boot" not in bound, "module-level name `boot` is rebound")


def boot_reads_files():
    tree = ast.parse(open(os.path.join(REPO, "rig/machine_control/boot.py")).read())
    f = [n for n in tree.body if isinstance(n, ast.FunctionDef) and n.name == "boot"]
    need(len(f) == 1, "boot.boot not found")
    b = strip_doc(f[0].body)
    d = [dump(s) for s in b]
    want = ["scamp_binary = scamp_binary if scamp_binary is not None else "
            "pkg_resources.resource_filename('rig', 'boot/scamp.boot')",
            "sark_struct = sark_struct if sark_struct is not None else "
            "pkg_resources.resource_filename('rig', 'boot/sark.struct')",
            "with open(scamp_binary, 'rb') as f:\n    boot_data = f.read()",
            "with open(sark_struct, 'rb') as f:\n    struct_data = f.read()",
            "structs = struct_file.read_struct_file(struct_data)",
            "sv = structs[b'sv']"]
    need(d[:len(want)] == [dump(ast.parse(w).body[0]) for w in want],
         "boot(): the image / struct file are no longer read afresh with open(path, 'rb').read() at the start")
    for s in b[len(want):]:
        for x in ast.walk(s):
            if isinstance(x, ast.Name) and isinstance(x.ctx, ast.Store):
                need(x.id not in ("structs", "sv", "struct_data", "scamp_binary", "sark_struct"),
                     "boot(): %s is rebound later" % x.id)
    rets = [s for s in ast.walk(f[0]) if isinstance(s, ast.Return)]
    need(len(rets) == 1 and same(rets[0], "return structs") and same(b[-1], "return structs"),
         "boot(): does not end with the only `return structs`")


def cli_table():
    import rig.scripts.rig_boot as RB

    class Recorder(object):
        log = []

        def __init__(self, *a, **k):
            Recorder.log.append(("new", a, k))

        def boot(self, *a, **k):
            Recorder.log.append(("boot", a, k))
            return True

    need(hasattr(RB, "MachineController"), "rig_boot no longer uses the name MachineController")
    RB.MachineController = Recorder
    out = io.StringIO()
    with contextlib.redirect_stdout(out), contextlib.redirect_stderr(io.StringIO()):
        try:
            RB.main(["--help"])
        except SystemExit:
            pass
    flags = sorted(set(re.findall(r"(--[A-Za-z][\w-]*)", out.getvalue())) - {"--help", "--version"})
    need(flags, "rig-boot --help lists no board flags")
    rows = []
    for fl in [None] + flags:
        Recorder.log = []
        with contextlib.redirect_stdout(io.StringIO()), contextlib.redirect_stderr(io.StringIO()):
            try:
                rc = RB.main(["HOST"] + ([fl] if fl else []))
            except SystemExit as e:
                raise Unsupported("rig-boot HOST %s exits (%r)" % (fl, e.code))
        need(rc == 0 and len(Recorder.log) == 2 and Recorder.log[0] == ("new", ("HOST",), {})
             and Recorder.log[1][0] == "boot" and Recorder.log[1][1] == (),
             "rig-boot HOST %s does not make one MachineController(HOST) and one .boot(**options): %r"
             % (fl, Recorder.log))
        opts = Recorder.log[1][2]
        for k, v in opts.items():
            need(isinstance(k, str) and type(v) is int and all(32 <= ord(ch) < 127 for ch in k),
                 "rig-boot %s passes a non-integer option %r=%r" % (fl, k, v))
        rows.append((fl, list(opts.items())))
    return rows


def main():
    controller_shape()
    boot_reads_files()
    rows = cli_table()
    out = [D.HEADER % "dump_c20w.py", "Require Import Rig.Generated.GenBoot.\n"]
    out.append("(* shape of MachineController.__init__ / .boot and of the file reads of boot.boot: checked, see the\n"
               "   dumper; the model of the controller entry point (Model/BootCtrl.v) relies on exactly this *)\n")
    out.append(D.definition("ctrl_default_boot_port", "Z", "BOOT_PORT"))
    out.append(D.definition("ctrl_forwards", "list string", D.lst(D.string(s) for s in (
        "self.initial_host", "boot_port := setdefault self.boot_port", "**boot_kwargs unchanged",
        "width, height: warning only", "self.structs := result", "files read afresh per call"))))
    dl = lambda items: D.lst(D.pair(D.string(k), D.z(v)) for k, v in items)
    out.append("(* rig-boot HOST [flag]: MachineController(HOST).boot( **options ) *)\n")
    out.append(D.definition("rig_boot_no_flag", "list (string * Z)", dl(rows[0][1])))
    out.append(D.definition("rig_boot_flags", "list (string * list (string * Z))",
                            "[" + ";\n   ".join(D.pair(D.string(fl), dl(o)) for fl, o in rows[1:]) + "]"))
    sys.stdout.write("".join(out))


if __name__ == "__main__":
    try:
        main()
    except Unsupported as e:        # fail closed, cleanly: the unit is not produced, the obligation is broken
        sys.stderr.write("Unsupported: %s\n" % e)
        sys.exit(2)
    except Exception as e:          # noqa -- a source the dumper cannot even read is unsupported as well
        sys.stderr.write("Unsupported: dumper could not analyse the source (%s: %s)\n" % (type(e).__name__, e))
        sys.exit(2)
