"""C04 -- routing-table minimisers never change where a matched key goes.

Theorems (Props/C04.v) + exact-equality correspondence of the Gallina model (Model/Table.v) with
remove_default_routes.minimise, ordered_covering.minimise, ordered_covering.ordered_covering (two rounds
with aliases), minimise_table, minimise_tables + the verified validator check_route_eq evaluated inside
Coq on every table the implementation returns + an independent brute-force oracle over all keys."""
import json
import os

import lib
from lib import zlit, vlist

LEVEL = "proof"
UNITS = ["GenTable", "GenTableEnums", "GenTableFront"]
NONE_BIT = 24
M32 = 0xFFFFFFFF


# ------------------------------------------------------------------ generator
def popcount(x):
    return bin(x).count("1")


def generality(e):
    return popcount(~e[1] & ~e[2] & M32)


ROUTE_POOL = [[0], [1], [2], [3], [4], [5], [6], [7], [9], [23], [0, 1], [2, 7], [3, 4, 8], [6, 7], []]


def gen_sources(rng, route, style):
    """known single / unknown / multiple source directions; 'through' makes the entry default-routable"""
    if style == "through" and len(route) == 1 and route[0] < 6:
        return [(route[0] + 3) % 6]
    r = rng.random()
    if r < 0.35:
        return [None]
    if r < 0.65:
        return [rng.randrange(6)]
    if r < 0.75:
        return [rng.randrange(6, 24)]            # a packet injected by a core
    if r < 0.9:
        return sorted(rng.sample(range(6), 2))
    return [None, rng.randrange(6)]


def gen_universe(rng):
    nv = rng.choice([4, 4, 5, 5, 6, 7, 8])
    pos = rng.sample(range(32), nv)
    mode = rng.choice(["fixed", "x", "mixed"])
    bkey = bmask = 0
    for b in range(32):
        if b in pos:
            continue
        fixed = mode == "fixed" or (mode == "mixed" and rng.random() < 0.5)
        if fixed:
            bmask |= 1 << b
            if rng.random() < 0.5:
                bkey |= 1 << b
    return dict(pos=pos, bkey=bkey, bmask=bmask)


def gen_pattern(rng, u, px):
    key, mask = u["bkey"], u["bmask"]
    for b in u["pos"]:
        if rng.random() >= px:
            mask |= 1 << b
            if rng.random() < 0.5:
                key |= 1 << b
    return key, mask


def gen_entry(rng, u, px, pool, through):
    key, mask = gen_pattern(rng, u, px)
    route = rng.choice(pool)
    return [route, key, mask, gen_sources(rng, route, "through" if rng.random() < through else "")]


def gen_table(rng, u, kind, n):
    pool = [rng.choice(ROUTE_POOL) for _ in range(rng.choice([1, 2, 2, 3, 3, 4]))]
    through = rng.choice([0.0, 0.2, 0.5, 0.9])
    px = rng.choice([0.0, 0.15, 0.3, 0.5])
    if kind == "orth":
        # disjoint cubes by repeated splitting of the whole space of the varying bits
        cubes = [(u["bkey"], u["bmask"])]
        for _ in range(rng.randint(n, n + 6)):
            i = rng.randrange(len(cubes))
            k, m = cubes[i]
            free = [b for b in u["pos"] if not (m >> b) & 1]
            if not free:
                continue
            b = rng.choice(free)
            cubes[i] = (k, m | 1 << b)
            cubes.append((k | 1 << b, m | 1 << b))
        rng.shuffle(cubes)
        t = []
        for k, m in cubes[:n]:
            route = rng.choice(pool)
            t.append([route, k, m, gen_sources(rng, route, "through" if rng.random() < through else "")])
        return t
    t = [gen_entry(rng, u, px, pool, through) for _ in range(n)]
    if kind == "sorted" and t and rng.random() < 0.25:
        # exact repeats of a key and mask (same or another route): legitimate when listed by generality
        for _ in range(rng.randint(1, 2)):
            e = rng.choice(t)
            route = rng.choice(pool)
            t[rng.randrange(len(t))] = [route, e[1], e[2], gen_sources(rng, route, "")]
    if kind == "sorted":
        t.sort(key=generality)                         # stable
    elif kind == "malformed":
        for e in t:
            if rng.random() < 0.4:
                b = rng.choice(u["pos"])
                e[1] |= 1 << b                         # key bit ...
                e[2] &= ~(1 << b) & M32                # ... outside the mask ('!')
    return t


def gen_target(rng, n):
    return rng.choice([None, None, 0, n - 1, n, n + 5, rng.randint(0, max(1, n)), max(0, n // 2)])


def perturb_sources(rng, e):
    """the same entry as seen on another chip: same key, mask and route, other source directions"""
    route = e[0]
    style = rng.choice(["through", "none", "other", "same"])
    if style == "same":
        return [route, e[1], e[2], list(e[3])]
    if style == "none":
        return [route, e[1], e[2], [None]]
    return [route, e[1], e[2], gen_sources(rng, route, style)]


def gen_seq(rng, u):
    """several minimiser calls in one interpreter; tables after the first are seeded (by the driver) with
    the key-masks of merged entries produced by earlier calls, given another route, among fresh entries"""
    steps = []
    for k in range(rng.choice([2, 2, 3])):
        n = rng.choice([2, 3, 4, 5, 6, 8])
        st = dict(op=rng.choice(["oc_min", "oc_min", "mt"]), table=gen_table(rng, u, "sorted", n),
                  target=rng.choice([None, None, None, max(1, n // 2), n]), seed_route=None)
        if k > 0:
            st["seed_route"] = rng.choice(ROUTE_POOL)
            st["seed_sources"] = rng.choice([[None], [rng.randrange(6)]])
            st["seed_n"] = rng.choice([1, 1, 2, 3])
            # fully specified entries of one other route: their merges cover parts of the seeded cubes
            route = rng.choice([r for r in ROUTE_POOL if r != st["seed_route"]])
            st["table"] = [[route, k_, m_, gen_sources(rng, route, "")]
                           for k_, m_ in (gen_pattern(rng, u, rng.choice([0.0, 0.0, 0.2])) for _ in range(n))]
        steps.append(st)
    return steps


# the shape of a table on which an up-check that ignored intervening members of the merge would go
# wrong (0101, 0X00, X000, 1X11 with one route and different sources; 1XXX with another route): bit
# roles are permuted and placed anywhere, values are flipped, routes and sources drawn at random
M3_SHAPE = [("0101", 0), ("0X00", 0), ("X000", 0), ("1X11", 0), ("1XXX", 1)]


def gen_family(rng, u):
    pos = list(u["pos"][:4])
    rng.shuffle(pos)
    flip = [rng.random() < 0.5 for _ in range(4)]
    routes = rng.sample([r for r in ROUTE_POOL if r], 2)
    shape = [list(x) for x in M3_SHAPE]
    if rng.random() < 0.4:                       # a perturbed variant: one character changed
        i, j = rng.randrange(len(shape)), rng.randrange(4)
        s_ = list(shape[i][0])
        s_[j] = rng.choice("01X")
        shape[i][0] = "".join(s_)
    t = []
    for pat, ri in shape:
        key, mask = u["bkey"], u["bmask"]
        for j, ch in enumerate(pat):
            if ch != "X":
                mask |= 1 << pos[j]
                if (ch == "1") != flip[j]:
                    key |= 1 << pos[j]
        t.append([routes[ri], key, mask, gen_sources(rng, routes[ri], rng.choice(["", "through"]))])
    if rng.random() < 0.3:
        t.append(gen_entry(rng, dict(u, pos=pos), 0.3, routes, 0.2))
    t.sort(key=generality)
    return t


def gen_case(rng, i):
    u = gen_universe(rng)
    op = rng.choice(["rde", "rde", "oc_min", "oc_min", "oc_min", "oc_min", "oc", "oc", "mt", "mt", "mts",
                     "seq", "family", "rde_nc", "new"])
    if op == "new":
        route = [rng.randrange(24) for _ in range(rng.randint(0, 5))]
        route += rng.sample(route, rng.randint(0, len(route)))           # repeats
        rng.shuffle(route)
        srcs = None if rng.random() < 0.4 else [rng.choice([None] + list(range(24))) for _ in range(rng.randint(0, 4))]
        key, mask = gen_pattern(rng, u, 0.3)
        return dict(op="new", kind="entry", nv=0, route=route, key=key, mask=mask, sources=srcs)
    if op == "seq":
        u["pos"] = u["pos"][:rng.choice([3, 4, 4, 5])]
        u["bmask"] |= ~sum(1 << b for b in u["pos"]) & M32 if rng.random() < 0.5 else 0
        u["bkey"] &= u["bmask"]
        return dict(op="seq", kind="sorted", nv=len(u["pos"]), steps=gen_seq(rng, u))
    if op == "family":
        t = gen_family(rng, u)
        op2 = rng.choice(["oc_min", "oc_min", "mt", "mts"])
        tg = rng.choice([None, None, len(t) - 1, len(t) - 2, 2])
        if op2 == "mts":
            return dict(op="mts", kind="family", nv=4, tables=[[[0, 0], t]], targets=tg)
        return dict(op=op2, kind="family", nv=4, table=t, target=tg)
    kind = rng.choice(["sorted", "sorted", "orth"])
    if op == "rde":
        kind = rng.choice(["sorted", "orth", "any", "any", "malformed"])
    if op == "rde_nc":
        kind = rng.choice(["orth", "orth", "any"])       # "any": outside its documented domain, model tie only
    n = rng.choice([0, 1, 2, 3, 4, 5, 6, 7, 8, 9, 10, 12, 14, 16])
    c = dict(op=op, kind=kind, nv=len(u["pos"]))
    if op in ("mt", "mts") and rng.random() < 0.4:
        # a caller-supplied method list: any order, repeats, a single method, none
        c["methods"] = rng.choice([[], [1], [2], [2, 1], [1, 1, 2], [2, 2], [1, 2]])
    if op == "mts":
        chips = [[x, y] for x in range(2) for y in range(2)]
        rng.shuffle(chips)
        chips = chips[:rng.randint(1, 3)]
        c["tables"] = [[chip, gen_table(rng, u, kind, rng.choice([0, 1, 2, 3, 5, 8, 12]))] for chip in chips]
        clones = rng.random() < 0.5
        if clones:
            # the same nets seen on several chips (source chip, transit chips): tables equal in keys, masks
            # and routes that differ only in the source directions
            c["kind"] = kind + "-clones"
            base = gen_table(rng, u, kind, rng.choice([1, 2, 3, 4, 6, 8]))
            chips = [[x, y] for x in range(2) for y in range(2)][:rng.randint(2, 4)]
            rng.shuffle(chips)
            c["tables"] = [[chip, [perturb_sources(rng, e) for e in base]] for chip in chips]
        how = rng.choice(["none", "int", "dict", "dict"])
        if how == "none":
            c["targets"] = None
        elif how == "int":
            c["targets"] = rng.choice([0, 1, 2, 4, 8, 100])
        else:
            c["targets"] = [[chip, gen_target(rng, len(t))] for chip, t in c["tables"]]
            if clones and rng.random() < 0.6:      # the same target on every chip
                same = c["targets"][0][1]
                c["targets"] = [[chip, same] for chip, _ in c["targets"]]
        return c
    c["table"] = gen_table(rng, u, kind, n)
    c["target"] = gen_target(rng, n)
    if op == "oc":
        extra = gen_table(rng, u, "sorted", rng.randint(1, 3))
        c["rounds"] = [dict(extra=[], target=c["target"], no_raise=rng.random() < 0.6),
                       dict(extra=extra, target=gen_target(rng, n), no_raise=rng.random() < 0.8)]
    return c


def small_tables(max_entries=3, nbits=2):
    """every table of <= max_entries entries over nbits key bits, 2 routes, sources {None} or straight
    through, sorted by generality (thorough tier)."""
    pats = []
    for code in range(3 ** nbits):
        k = m = 0
        x = code
        for b in range(nbits):
            d = x % 3
            x //= 3
            if d < 2:
                m |= 1 << b
                k |= d << b
        pats.append((k, m))
    ents = [[r, k, m, s] for (k, m) in pats for r, s in (([0], [None]), ([2], [5]))]
    import itertools
    for n in range(0, max_entries + 1):
        for combo in itertools.product(ents, repeat=n):
            t = [list(e) for e in combo]
            if all(generality(t[i]) <= generality(t[i + 1]) for i in range(n - 1)):
                yield dict(op="oc_min", kind="sorted", nv=nbits, table=t, target=None)


# ------------------------------------------------------------------ canonical forms
def sbits(s):
    b = 0
    for x in s:
        b |= 1 << (NONE_BIT if x is None else x)
    return b


def canon_in(t):
    return [[sbits(e[0]), e[1], e[2], sbits(e[3])] for e in t]


# ------------------------------------------------------------------ independent oracle
def first_match(t, k):
    for e in t:
        if k & e[2] == e[1]:
            return e
    return None


def default_routable(e):
    r, s = e[0], e[3]
    if popcount(s) != 1 or popcount(r) != 1:
        return False
    l = s.bit_length() - 1
    return l < 6 and r == 1 << ((l + 3) % 6)


def varying_bits(tables):
    ents = [e for t in tables for e in t]
    out = []
    for b in range(32):
        kinds = set(((e[2] >> b) & 1, (e[1] >> b) & 1) for e in ents)
        if kinds <= {(1, 0)} or kinds <= {(1, 1)} or kinds <= {(0, 0)}:
            continue                    # fixed for every entry, or X for every entry
        out.append(b)
    return out


def route_check(O, T):
    """Every key matched by O goes where it went.  Entries are [route_bits, key, mask, sources_bits]."""
    ents = O + T
    vb = varying_bits([O, T])
    if len(vb) > 16:
        return "oracle cannot enumerate %d varying bits" % len(vb)
    base = 0
    for b in range(32):
        if b not in vb and ents and all((e[2] >> b) & 1 and (e[1] >> b) & 1 for e in ents):
            base |= 1 << b
    for code in range(1 << len(vb)):
        k = base
        for j, b in enumerate(vb):
            if (code >> j) & 1:
                k |= 1 << b
        e = first_match(O, k)
        if e is None:
            continue
        e2 = first_match(T, k)
        if e2 is None:
            if not default_routable(e):
                return "key %#010x: matched by %r in the original, by nothing in the result, and not default-routable" % (k, e)
        elif e2[0] != e[0]:
            return "key %#010x: routed to %#x by the original and %#x by the result" % (k, e[0], e2[0])
        elif e[3] & ~e2[3]:
            return "key %#010x: result entry lists sources %#x, original %#x" % (k, e2[3], e[3])
    return None


def clause_check(O, T, target):
    why = route_check(O, T)
    if why:
        return "route:" + why
    if len(T) > len(O):
        return "longer: result has %d entries, input %d" % (len(T), len(O))
    if target is not None and len(T) > target:
        return "target: result has %d entries, target %d, no error raised" % (len(T), target)
    return None


def fail_check(out, target, O, which, strict=True):
    """the documented error must report the best size reached, which must be above the target"""
    final, tgt = out[1], out[2]
    sizes = out[-1]
    if target is None:
        return "error: MinimisationFailedError raised although no target was given"
    if tgt != target:
        return "error: error reports target %r, called with %r" % (tgt, target)
    reached = []
    for w in which:
        if w == "len":
            reached.append(len(O))
        elif isinstance(sizes.get(w), int):
            reached.append(sizes[w])
        else:
            return "error: method %s raised %r with target None" % (w, sizes.get(w))
    best = min(reached)
    if final != best:
        return "error: error reports best size %r, best reached is %d" % (final, best)
    # (with methods=() only _identity runs and its strict `<` rejects a table of exactly the target's
    #  length; the property's sentence -- the error reports the best size reached -- still holds)
    if best <= target and strict:
        return "error: target %d was reachable (size %d) but the error was raised" % (target, best)
    return None


def oracle(c, out):
    if out[0] == "hang":
        return "no result within the time limit"
    if out[0] == "other":
        return "raised %s: neither a table nor MinimisationFailedError" % out[1]
    op = c["op"]
    ms = c.get("methods")
    which = ["len"] + [{1: "rde", 2: "oc"}[i] for i in (ms if ms is not None else [1, 2])]
    if op == "new":
        want = [sbits(c["route"]), c["key"], c["mask"], sbits(c["sources"] if c["sources"] is not None else [None])]
        return None if out[1] == want else "entry: RoutingTableEntry(...) is %r, the sets given are %r" % (out[1], want)
    if op == "rde_nc" and c["kind"] != "orth":
        return None          # aliased entries with check_for_aliases=False: outside the documented domain
    if op == "mts":
        tables = [(tuple(chip), canon_in(t)) for chip, t in c["tables"]]
        tg = c["targets"]
        tgt = (lambda chip: dict((tuple(ch), v) for ch, v in tg)[chip]) if isinstance(tg, list) else (lambda chip: tg)
        if out[0] == "fail":
            chip = tuple(out[3]) if out[3] is not None else None
            if chip not in dict(tables):
                return "error: error names chip %r" % (chip,)
            o2 = list(out[:-1]) + [out[-1][repr(list(chip))]]
            return fail_check(o2, tgt(chip), dict(tables)[chip], which, strict=bool(ms is None or ms))
        res = dict((tuple(chip), t) for chip, t in out[1])
        for chip in res:
            if chip not in dict(tables):
                return "result has a table for chip %r which had none" % (chip,)
        for chip, O in tables:
            why = clause_check(O, res.get(chip, []), tgt(chip))
            if why:
                return "%s (chip %r)" % (why, chip)
        return None
    if op == "seq":
        for i, (st, (O, r)) in enumerate(zip(c["steps"], out[1])):
            why = oracle(dict(op=st["op"], table_canon=O, target=st["target"]), r)
            if why:
                return "%s (call %d of %d in one interpreter)" % (why, i + 1, len(c["steps"]))
        return None
    O = c["table_canon"] if "table_canon" in c else canon_in(c["table"])
    if op == "oc":
        rnd = out[1][0]
        spec = c["rounds"][0]
        if rnd[0] == "other":
            return "raised %s: neither a table nor MinimisationFailedError" % rnd[1]
        if rnd[0] == "fail":
            if spec["no_raise"] or spec["target"] is None:
                return "error: MinimisationFailedError raised with no_raise / without a target"
            if rnd[1] <= spec["target"]:
                return "error: target %d was reached (size %d) but the error was raised" % (spec["target"], rnd[1])
            return None
        return clause_check(O, rnd[1], None if spec["no_raise"] else spec["target"])
    if out[0] == "fail":
        return fail_check(out, c["target"], O, dict(rde=["rde"], rde_nc=["rde"], oc_min=["oc"], mt=which)[op],
                          strict=bool(op != "mt" or ms is None or ms))
    return clause_check(O, out[1], c["target"])


# ------------------------------------------------------------------ Coq literals
def coq_entry(e):
    return "(E %s %s %s %s)" % (zlit(e[0]), zlit(e[1]), zlit(e[2]), zlit(e[3]))


def coq_table(t):
    return vlist(coq_entry(e) for e in t)


def coq_target(t):
    return "None" if t is None else "(Some %s)" % zlit(t)


def coq_km(p):
    return "(%s, %s)" % (zlit(p[0]), zlit(p[1]))


def coq_aliases(a):
    return vlist("(%s, %s)" % (coq_km(k), vlist(coq_km(x) for x in v)) for k, v in a)


def coq_result(out):
    """the implementation's outcome as a `result table` literal"""
    if out[0] == "ok":
        return "(Ok %s)" % coq_table(out[1])
    if out[0] == "fail":
        return "(Failed %s)" % zlit(out[1])
    return "OtherError"


HEADER = """From Coq Require Import ZArith List Bool. Import ListNotations. Open Scope Z_scope.
Require Import Rig.Model.Base Rig.Model.Table Rig.Model.TableFront Rig.Spec.Table.
Definition E := mkEntry.
Definition table_eqb (a b : table) : bool :=
  Nat.eqb (length a) (length b) && forallb (fun p => entry_eqb (fst p) (snd p)) (combine a b).
Definition res_eqb {A} (eqb : A -> A -> bool) (x y : result A) : bool :=
  match x, y with
  | Ok a, Ok b => eqb a b | Failed a, Failed b => a =? b | OtherError, OtherError => true | _, _ => false
  end.
Definition kmset_eqb (a b : list km) : bool :=
  forallb (fun k => km_mem k b) a && forallb (fun k => km_mem k a) b.
Definition aliases_eqb (a b : aliases) : bool :=
  Nat.eqb (length a) (length b)
  && forallb (fun p => match alias_get (fst p) b with Some s => kmset_eqb (snd p) s | None => false end) a.
Definition ta_eqb (x y : table * aliases) : bool := table_eqb (fst x) (fst y) && aliases_eqb (snd x) (snd y).
Definition chip_tables_eqb (a b : list (chip * table)) : bool :=
  Nat.eqb (length a) (length b)
  && forallb (fun p => chip_eqb (fst (fst p)) (fst (snd p)) && table_eqb (snd (fst p)) (snd (snd p))) (combine a b).
Definition show_table (t : table) := map (fun e => (e_route e, e_key e, e_mask e, e_sources e)) t.
Definition show_res {A B} (f : A -> B) (r : result A) : result B :=
  match r with Ok a => Ok (f a) | Failed k => Failed k | OtherError => OtherError | OutOfFuel => OutOfFuel end.
Definition show_ta (x : table * aliases) := (show_table (fst x), snd x).
Inductive shown_outcome := SOk (ts : list (chip * list (Z * Z * Z * Z))) | SFailed (c : chip) (n : Z) | SOther | SFuel.
Definition show_outcome (x : tables_outcome) : shown_outcome :=
  match x with
  | TablesOk a => SOk (map (fun p => (fst p, show_table (snd p))) a)
  | TablesFailed c f => SFailed c f
  | TablesOther => SOther
  | TablesOutOfFuel => SFuel
  end.
Definition outcome_eqb (x y : tables_outcome) : bool :=
  match x, y with
  | TablesOk a, TablesOk b => chip_tables_eqb a b
  | TablesFailed c f, TablesFailed c' f' => chip_eqb c c' && (f =? f')
  | TablesOther, TablesOther => true
  | _, _ => false
  end.
"""


def coq_chip(c):
    return "(%s, %s)" % (zlit(c[0]), zlit(c[1]))


def coq_methods(ms):
    return vlist({1: "MRde", 2: "MOc"}[i] for i in ms)


def model_exprs(c, out):
    """-> list of (label, model expression, implementation literal, eqb, validator expression or None)"""
    op = c["op"]
    if op == "new":
        call = "entry_new %s %s %s %s" % (vlist(zlit(r) for r in c["route"]), zlit(c["key"]), zlit(c["mask"]),
                                          "None" if c["sources"] is None else "(Some %s)" % vlist(
                                              "None" if x is None else "(Some %s)" % zlit(x) for x in c["sources"]))
        lit = coq_entry(out[1]) if out[0] == "ok" and len(out[1]) == 4 and out[1][0] != "types" else "(E 0 0 0 (-1))"
        return [("RoutingTableEntry.__new__", call, lit, "entry_eqb", None)]
    if op == "mts":
        ts = vlist("(%s, %s)" % (coq_chip(chip), coq_table(canon_in(t))) for chip, t in c["tables"])
        tg = c["targets"]
        if tg is None:
            tgl = "TNone"
        elif isinstance(tg, int):
            tgl = "(TInt %s)" % zlit(tg)
        else:
            tgl = "(TDict %s)" % vlist("(%s, %s)" % (coq_chip(chip), coq_target(v)) for chip, v in tg)
        if out[0] == "ok":
            lit = "(TablesOk %s)" % vlist("(%s, %s)" % (coq_chip(chip), coq_table(t)) for chip, t in out[1])
            res = dict((tuple(chip), t) for chip, t in out[1])
            val = " && ".join("check_route_eq %s %s" % (coq_table(canon_in(t)), coq_table(res.get(tuple(chip), [])))
                              for chip, t in c["tables"])
        elif out[0] == "fail":
            lit = "(TablesFailed %s %s)" % (coq_chip(out[3]), zlit(out[1]))
            val = None
        else:
            lit, val = "TablesOther", None
        if c.get("methods") is not None:
            return [("minimise_tables(methods=%r)" % c["methods"],
                     "minimise_tables_with %s %s %s" % (coq_methods(c["methods"]), ts, tgl), lit, "outcome_eqb", val)]
        return [("minimise_tables", "minimise_tables %s %s" % (ts, tgl), lit, "outcome_eqb", val)]
    if op == "seq":
        exprs = []
        for i, (st, (O, r)) in enumerate(zip(c["steps"], out[1])):
            for label, call, lit, eqb, val in model_exprs(dict(op=st["op"], table_canon=O, target=st["target"]), r):
                exprs.append(("%s (call %d in one interpreter)" % (label, i + 1), call, lit, eqb, val))
        return exprs
    O = coq_table(c["table_canon"] if "table_canon" in c else canon_in(c["table"]))
    if op == "oc":
        exprs = []
        cur, al = canon_in(c["table"]), []
        for i, (spec, rnd) in enumerate(zip(c["rounds"], out[1])):
            cur = cur + canon_in(spec["extra"])
            call = "ordered_covering %s %s %s %s" % (coq_table(cur), coq_target(spec["target"]),
                                                     coq_aliases(al), lib.vbool(spec["no_raise"]))
            if rnd[0] == "ok":
                lit = "(Ok (%s, %s))" % (coq_table(rnd[1]), coq_aliases(rnd[2]))
                val = "check_route_eq %s %s" % (coq_table(cur), coq_table(rnd[1])) if i == 0 else None
                exprs.append(("ordered_covering round %d" % (i + 1), call, lit, "(res_eqb ta_eqb)", val))
                cur, al = rnd[1], rnd[2]
            else:
                lit = "(Failed %s)" % zlit(rnd[1]) if rnd[0] == "fail" else "OtherError"
                exprs.append(("ordered_covering round %d" % (i + 1), call, lit, "(res_eqb ta_eqb)", None))
        return exprs
    fn = dict(rde="remove_default", rde_nc="remove_default_nocheck", oc_min="oc_minimise", mt="minimise_table")[op]
    if op == "mt" and c.get("methods") is not None:
        fn = "minimise_table_with %s" % coq_methods(c["methods"])
    val = "check_route_eq %s %s" % (O, coq_table(out[1])) if out[0] == "ok" else None
    if op == "rde_nc" and c["kind"] != "orth":
        val = None
    return [(fn, "%s %s %s" % (fn, O, coq_target(c["target"])), coq_result(out), "(res_eqb table_eqb)", val)]


# ------------------------------------------------------------------ the check
def nontrivial(c, out):
    if out[0] in ("other", "hang"):
        return False
    if c["op"] == "new":
        return len(c["route"]) >= 2
    if c["op"] == "seq":
        return any(len(O) >= 3 and r[0] == "ok" and len(r[1]) < len(O) for O, r in out[1])
    ts = [t for _, t in c["tables"]] if c["op"] == "mts" else [c["table"]]
    for t in ts:
        routes = [tuple(e[0]) for e in t]
        if len(t) >= 3 and (len(set(routes)) < len(routes) or any(default_routable([sbits(e[0]), 0, 0, sbits(e[3])]) for e in t)):
            return True
    return False


def run(chk, args):
    chk.trusted += ["Python sets of Routes are modelled as bit sets; the aliases dictionary and index sets as lists "
                    "(the returned tables do not depend on their iteration order; checked by correspondence)",
                    "sorted() is stable (mirrored by a stable insertion sort)"]
    chk.assumptions += ["route members are Routes (0..23), source members are Routes or None",
                        "theorems about ordered covering / minimise_table(s) assume minimiser_domain (Spec/Table.v): "
                        "32-bit keys and masks with no key bit outside the mask, every entry has at least one source "
                        "direction ({None} counts), table in increasing order of generality or orthogonal; "
                        "default-route removal is proved for any table whatever",
                        "ordered_covering is started from an empty aliases dictionary (as ordered_covering.minimise "
                        "does); the two-round use with aliases is tied by correspondence only",
                        "minimise_table(s) is used with its default methods"]
    chk.regenerate(UNITS)
    built = chk.prove()
    if args.replay:
        rp = json.load(open(args.replay))
        cases = [f["replay"]["case"] for f in rp.get("failures", []) if "case" in f.get("replay", {})]
        cases += [b["replay"]["case"] for b in rp.get("no_longer_checks", []) if "case" in b.get("replay", {})]
    else:
        n = 2400 if chk.tier == "quick" else 60000
        cases = [gen_case(chk.rng, i) for i in range(n)]
        if chk.tier == "thorough":
            cases += list(small_tables(3, 2))
    corpus = os.path.join(lib.VERIF, "corpus", "C04.json")
    if os.path.exists(corpus):
        cases = json.load(open(corpus)) + cases
    size = 200 if chk.tier == "quick" else 1000
    chunks = [cases[i:i + size] + [dict(op="events")] for i in range(0, len(cases), size)]
    outs = []
    for part in chk.impl_parallel("impl_c04.py", chunks, timeout=3000):
        if part[-1][0] == "events":
            for k, v in part[-1][1].items():
                chk.count("path:" + k, v)
        outs += part[:-1]                       # the last result belongs to the pseudo-case
    keep = [i for i, o in enumerate(outs) if o[0] != "skipped"]
    cases, outs = [cases[i] for i in keep], [outs[i] for i in keep]
    for c, o in zip(cases, outs):
        chk.count("op:" + c["op"])
        chk.count("kind:" + c["kind"])
        if c.get("methods") is not None:
            chk.count("methods:%r" % (c["methods"],))
        chk.count("outcome:" + (o[0] if o[0] not in ("rounds", "seq") else
                                o[0] + ":" + "/".join(r[0] if o[0] == "rounds" else r[1][0] for r in o[1])))
        if c["op"] == "seq":
            for st, (O, r) in zip(c["steps"], o[1]):
                if st["seed_route"] is not None and len(O) > len(st["table"]):
                    chk.count("seq:call-seeded-with-earlier-merge-products")
        elif c["op"] not in ("mts", "new"):
            chk.count("entries:%d" % len(c["table"]))
            chk.count("target:" + ("none" if c["target"] is None else
                                   "0" if c["target"] == 0 else
                                   "len-1" if c["target"] == len(c["table"]) - 1 else
                                   "len" if c["target"] == len(c["table"]) else
                                   "below" if c["target"] < len(c["table"]) else "above"))
            if o[0] == "ok" and len(o[1]) < len(c["table"]):
                chk.count("shrunk")
        chk.note_case(c, nontrivial(c, o))
        why = oracle(c, o)
        if why:
            chk.fail_input("table:%s:%s" % (c["op"], why.split(":")[0][:24].replace(" ", "_")),
                           "%s on a %s table: %s" % (c["op"], c["kind"], why), dict(case=c, observed=o))
    if cases:
        mid = len(cases) // 2
        chk.sample(dict(case=cases[mid], implementation=outs[mid]))
    # model + validator, evaluated inside Coq
    if chk.model_ok:
        try:
            items = []
            eqbs = {}
            for ci, (c, o) in enumerate(zip(cases, outs)):
                if o[0] == "hang":
                    continue
                for label, call, lit, eqb, val in model_exprs(c, o):
                    eqbs[(ci, label)] = eqb
                    items.append((ci, label, call, "(%s (%s) %s, %s)" % (eqb, call, lit, val or "true")))
            vals = chk.coq_eval(HEADER, [it[3] for it in items], shard=60 if chk.tier == "quick" else 300,
                                timeout=3000)
            nval = 0
            bad_corr = bad_val = None
            for (ci, label, call, _), v in zip(items, vals):
                chk.traces_validated += 1
                if v[0] is not True and bad_corr is None:
                    bad_corr = (ci, label, call, eqbs[(ci, label)])
                if v[1] is not True and bad_val is None:
                    bad_val = (ci, label)
                nval += 1
            if bad_corr:
                ci, label, call = bad_corr[:3]
                show = {"entry_eqb": "(fun e => show_table [e])", "(res_eqb table_eqb)": "show_res show_table", "(res_eqb ta_eqb)": "show_res show_ta",
                        "outcome_eqb": "show_outcome"}
                try:
                    mv = chk.coq_eval(HEADER, ["%s (%s)" % (show[bad_corr[3]], call)], name="diag")[0]
                except Exception as e:                      # noqa
                    mv = "model evaluation failed: %s" % e
                chk.disagree("%s: model and implementation differ; model gives %r" % (label, mv),
                             dict(case=cases[ci], observed=outs[ci]))
            else:
                chk.oblige("correspondence:minimisers (%d calls, exact equality of tables, aliases, "
                           "error class and reported size)" % nval, True)
            if bad_val:
                ci, label = bad_val
                # the verified validator rejects an implementation output: a failing input unless it is
                # the validator's own incompleteness (it is complete on well-formed 32-bit tables)
                why = oracle(cases[ci], outs[ci])
                if why:
                    chk.oblige("validator:check_route_eq accepts every implementation output", False,
                               "rejected together with the oracle: " + why)
                else:
                    chk.disagree("%s: check_route_eq rejects an output the brute-force oracle accepts" % label,
                                 dict(case=cases[ci], observed=outs[ci]))
            else:
                chk.oblige("validator:check_route_eq = true on every implementation output (%d tables, "
                           "kernel-checked instances of route_eq)" % nval, True)
        except RuntimeError as e:
            chk.oblige("correspondence:model-evaluates", False, str(e))
    chk.coverage["rule"] = ("random tables over 4-8 varying key bits placed anywhere in 32 (other bits fixed or X), "
                            "0-16 entries, 1-4 distinct routes, sources unknown/known/core/multiple/straight-through; "
                            "streams: sorted by generality (overlapping), orthogonal (shuffled), any order and "
                            "malformed ('!' bits) for default-route removal only; targets None/0/len-1/len/above/"
                            "random; operations rde, oc_minimise, ordered_covering x2 rounds with aliases, "
                            "remove_default(check_for_aliases=False), RoutingTableEntry construction (repeats, omitted sources), "
                            "minimise_table(s) with caller-supplied method lists ((), single, repeated, reversed), sorted tables "
                            "with exact key/mask repeats, "
                            "minimise_table, minimise_tables (None/int/dict; half of them with chips whose tables are copies differing "
                            "only in sources), sequences of 2-3 calls in one interpreter whose later tables contain the "
                            "key-masks of earlier merge products, a directed family of overlapping same-route entries with "
                            "different sources around an evicting second down-check; thorough adds every sorted table of "
                            "<= 3 entries over 2 bits; non-trivial = a table of >= 3 entries with a repeated route or a "
                            "default-routable entry; distinct by hash of the whole case")
