(* placeholder, replaced below *)
From Coq Require Import ZArith List Bool.
Require Import Rig.Model.Base Rig.Model.MemIO.
