"""Dumper of unit GenContextShape (property C18): the SHAPE of the code the hand-written model follows.

Reads, with `ast` only (nothing is imported or run), from the current /repo:
  rig/utils/contexts.py      ContextMixin.__init__ / get_new_context / update_current_context /
                             get_context_arguments, the decorator and its wrapper f_, Context.__init__ / update /
                             before_close / __enter__ / __exit__
  machine_controller.py      MachineController.__call__, application, _get_connection, _send_scp, send_scp,
                             discover_connections
  bmp_controller.py          BMPController.__call__, _send_scp, send_scp, set_led, set_power
and compares every function, statement by statement (docstrings and comments apart; `ast.unparse` text), with
the statements Model/Context.v was written from (EXPECTED below).  Any difference -- a reordered step, `finally`
turned into `except`, a reversed loop, an extra cache, a copy of an iterable dropped -- is Unsupported: the unit
is not produced and the check reports the broken obligation translate:GenContextShape (fail closed; whether
the change also breaks the property is then decided by the correspondence run and the oracle).
When everything matches, the unit states, as Coq constants, the facts the model relies on; Proofs/ContextDeepen.v
proves that they are the ones the model implements.
"""
import ast
import os
import sys
import warnings

warnings.simplefilter("ignore")

sys.path.insert(0, os.path.dirname(os.path.abspath(__file__)))
import dumplib as D  # noqa: E402

REPO = [p for p in os.environ.get("PYTHONPATH", "/repo").split(os.pathsep) if p][0]


class Unsupported(Exception):
    pass


EXPECTED = \
{'bmp.__call__': ['self, **context_args', 'return self.get_new_context(**context_args)'],
 'bmp._send_scp': ['self, cabinet, frame, board, *args, **kwargs',
                   'connection = self.connections.get((cabinet, frame, board), None)',
                   'if connection is None:\n    connection = self.connections.get((cabinet, frame), None)',
                   "assert connection is not None, 'No connection available to ({}, {}, {})'.format(cabinet, frame, "
                   'board)',
                   'if self._scp_data_length is None:\n'
                   '    length = consts.SCP_SVER_RECEIVE_LENGTH_MAX\n'
                   'else:\n'
                   '    length = self._scp_data_length',
                   'return connection.send_scp(length, 0, 0, board, *args, **kwargs)'],
 'bmp.send_scp': ['self, *args, **kwargs',
                  "cabinet = kwargs.pop('cabinet')",
                  "frame = kwargs.pop('frame')",
                  "board = kwargs.pop('board')",
                  'return self._send_scp(cabinet, frame, board, *args, **kwargs)'],
 'bmp.set_led': ['self, led, action=None, cabinet=Required, frame=Required, board=Required',
                 'if isinstance(led, int):\n    leds = [led]\nelse:\n    leds = led',
                 'if isinstance(board, int):\n'
                 '    boards = [board]\n'
                 'else:\n'
                 '    boards = list(board)\n'
                 '    board = boards[0]',
                 'arg1 = sum((LEDAction.from_bool(action) << led * 2 for led in leds))',
                 'arg2 = sum((1 << b for b in boards))',
                 'self._send_scp(cabinet, frame, board, SCPCommands.led, arg1=arg1, arg2=arg2, expected_args=0)'],
 'bmp.set_power': ['self, state, cabinet, frame, board, delay=0.0, post_power_on_delay=5.0',
                   'if isinstance(board, int):\n    boards = [board]\nelse:\n    boards = list(board)',
                   'arg1 = int(delay * 1000) << 16 | (1 if state else 0)',
                   'arg2 = sum((1 << b for b in boards))',
                   'self._send_scp(cabinet, frame, 0, SCPCommands.power, arg1=arg1, arg2=arg2, '
                   'timeout=consts.BMP_POWER_ON_TIMEOUT if state else 0.0, expected_args=0)',
                   'if state:\n    time.sleep(post_power_on_delay)'],
 'contexts.Context.__enter__': ['self', 'self.stack.append(self)'],
 'contexts.Context.__exit__': ['self, exception_type, exception_value, traceback',
                               'try:\n'
                               '    for fn in self._before_close:\n'
                               '        fn()\n'
                               'finally:\n'
                               '    assert self.stack.pop() is self'],
 'contexts.Context.__init__': ['self, context_arguments, stack=None',
                               'self.context_arguments = dict(context_arguments)',
                               'self.stack = stack',
                               'self._before_close = list()'],
 'contexts.Context.before_close': ['self, *args', 'for fn in args:\n    self._before_close.append(fn)'],
 'contexts.Context.update': ['self, updates', 'self.context_arguments.update(updates)'],
 'contexts.ContextMixin.__init__': ['self, initial_context={}',
                                    'self.__context_stack = collections.deque()',
                                    'self.__context_stack.append(Context(initial_context))'],
 'contexts.ContextMixin.get_context_arguments': ['self',
                                                 'cargs = {}',
                                                 'for context in self.__context_stack:\n'
                                                 '    cargs.update(context.context_arguments)',
                                                 'return cargs'],
 'contexts.ContextMixin.get_new_context': ['self, **kwargs', 'return Context(kwargs, self.__context_stack)'],
 'contexts.ContextMixin.update_current_context': ['self, **context_args',
                                                  'self.__context_stack[-1].update(context_args)'],
 'contexts.decorator': ['arg_names, varargs, keywords, defaults = inspect.getfullargspec(f)[:4]',
                        'assert set(keywords or {}).isdisjoint(set(kw_only_args_defaults))',
                        'if defaults is None:\n    defaults = []',
                        'defaults = [Required] * (len(arg_names) - len(defaults)) + list(defaults)',
                        'return f_'],
 'contexts.wrapper': ['self, *args, **kwargs',
                      'new_kwargs = dict(zip(arg_names[1 + len(args):], defaults[1 + len(args):]))',
                      'new_kwargs.update(kw_only_args_defaults)',
                      'context = self.get_context_arguments()',
                      'for name, val in iteritems(context):\n'
                      '    if name in new_kwargs:\n'
                      '        new_kwargs[name] = val',
                      'new_kwargs.update(kwargs)',
                      'for k, v in iteritems(new_kwargs):\n'
                      '    if v is Required:\n'
                      "        raise TypeError('{!s}: missing argument {}'.format(f.__name__, k))",
                      'return f(self, *args, **new_kwargs)'],
 'mc.__call__': ['self, **context_args', 'return self.get_new_context(**context_args)'],
 'mc._get_connection': ['self, x, y',
                        'if self._width is None or self._height is None or self._root_chip is None:\n'
                        '    return self.connections[None]\n'
                        'else:\n'
                        '    eth_chip = spinn5_local_eth_coord(x, y, self._width, self._height, *self._root_chip)\n'
                        '    conn = self.connections.get(eth_chip)\n'
                        '    if conn is not None:\n'
                        '        return conn\n'
                        '    else:\n'
                        '        return self.connections[None]'],
 'mc._send_scp': ['self, x, y, p, *args, **kwargs',
                  'if self._scp_data_length is None:\n'
                  '    length = consts.SCP_SVER_RECEIVE_LENGTH_MAX\n'
                  'else:\n'
                  '    length = self._scp_data_length',
                  'connection = self._get_connection(x, y)',
                  'return connection.send_scp(length, x, y, p, *args, **kwargs)'],
 'mc.application': ['self, app_id',
                    'context = self(app_id=app_id)',
                    "context.before_close(lambda: self.send_signal('stop'))",
                    'return context'],
 'mc.discover_connections': ['self, x=255, y=255',
                             'working_chips = set(((x, y) for (x, y), route in '
                             'iteritems(self.get_p2p_routing_table(x, y)) if route != consts.P2PTableEntry.none))',
                             'self._width = max((x for x, y in working_chips)) + 1',
                             'self._height = max((y for x, y in working_chips)) + 1',
                             'num_new_connections = 0',
                             'for x, y in spinn5_eth_coords(self._width, self._height, *self.root_chip):\n'
                             '    if (x, y) in working_chips and (x, y) not in self.connections:\n'
                             '        try:\n'
                             '            ip = self.get_ip_address(x, y)\n'
                             '        except SCPError:\n'
                             '            continue\n'
                             '        if ip is not None:\n'
                             '            self.connections[x, y] = SCPConnection(ip, self.scp_port, self.n_tries, '
                             'self.timeout)\n'
                             '            try:\n'
                             '                self.get_software_version(x, y, 0)\n'
                             '                num_new_connections += 1\n'
                             '            except SCPError:\n'
                             '                self.connections.pop((x, y)).close()',
                             'return num_new_connections'],
 'mc.send_scp': ['self, *args, **kwargs',
                 "x = kwargs.pop('x')",
                 "y = kwargs.pop('y')",
                 "p = kwargs.pop('p')",
                 'return self._send_scp(x, y, p, *args, **kwargs)']}


def strip(body):
    body = list(body)
    if body and isinstance(body[0], ast.Expr) and isinstance(getattr(body[0], "value", None), ast.Constant) \
            and isinstance(body[0].value.value, str):
        body = body[1:]
    return body


def find(tree, cls, name, rel):
    c = [n for n in tree.body if isinstance(n, ast.ClassDef) and n.name == cls]
    if len(c) != 1:
        raise Unsupported("%s: class %s not found exactly once" % (rel, cls))
    f = [x for x in c[0].body if isinstance(x, ast.FunctionDef) and x.name == name]
    if len(f) != 1:
        raise Unsupported("%s: %s.%s not found exactly once" % (rel, cls, name))
    return f[0]


def shape(f):
    return [ast.unparse(f.args)] + [ast.unparse(x) for x in strip(f.body)]


def collect():
    got = {}
    rel = "rig/utils/contexts.py"
    t = ast.parse(open(os.path.join(REPO, rel)).read())
    for cls, name in [("ContextMixin", "__init__"), ("ContextMixin", "get_new_context"),
                      ("ContextMixin", "update_current_context"), ("ContextMixin", "get_context_arguments"),
                      ("Context", "__init__"), ("Context", "update"), ("Context", "before_close"),
                      ("Context", "__enter__"), ("Context", "__exit__")]:
        got["contexts.%s.%s" % (cls, name)] = shape(find(t, cls, name, rel))
    for cls, allowed in (("ContextMixin", {"__init__", "get_new_context", "update_current_context",
                                           "get_context_arguments", "use_contextual_arguments"}),
                         ("Context", {"__init__", "update", "before_close", "__enter__", "__exit__"})):
        c = [n for n in t.body if isinstance(n, ast.ClassDef) and n.name == cls][0]
        extra = [x.name for x in c.body if isinstance(x, ast.FunctionDef) and x.name not in allowed]
        if extra:
            raise Unsupported("%s: class %s has methods the model does not know: %s" % (rel, cls, extra))
    u = find(t, "ContextMixin", "use_contextual_arguments", rel)
    decs = [n for n in strip(u.body) if isinstance(n, ast.FunctionDef)]
    if len(decs) != 1 or not isinstance(strip(u.body)[-1], ast.Return):
        raise Unsupported("use_contextual_arguments is not `def decorator(f): ...; return decorator`")
    dec = decs[0]
    ws = [n for n in dec.body if isinstance(n, ast.FunctionDef)]
    if len(ws) != 1:
        raise Unsupported("the decorator does not define exactly one wrapper")
    got["contexts.decorator"] = [ast.unparse(x) for x in dec.body if not isinstance(x, ast.FunctionDef)]
    got["contexts.wrapper"] = shape(ws[0])
    rel = "rig/machine_control/machine_controller.py"
    m = ast.parse(open(os.path.join(REPO, rel)).read())
    for name in ["__call__", "application", "_get_connection", "_send_scp", "send_scp", "discover_connections"]:
        got["mc.%s" % name] = shape(find(m, "MachineController", name, rel))
    rel = "rig/machine_control/bmp_controller.py"
    b = ast.parse(open(os.path.join(REPO, rel)).read())
    for name in ["__call__", "_send_scp", "send_scp", "set_led", "set_power"]:
        got["bmp.%s" % name] = shape(find(b, "BMPController", name, rel))
    return got


def main():
    got = collect()
    for key in sorted(EXPECTED):
        if key not in got:
            raise Unsupported("%s not found" % key)
        e, g = EXPECTED[key], got[key]
        for i in range(max(len(e), len(g))):
            a = e[i] if i < len(e) else "<nothing>"
            c = g[i] if i < len(g) else "<nothing>"
            if a != c:
                raise Unsupported("%s: %s no longer has the modelled shape: the model follows `%s`, the source says `%s`"
                                  % (key, "parameters" if i == 0 else "statement %d" % i, a[:160], c[:160]))
    out = [D.HEADER % "dump_c18ctx.py"]
    out.append("(* every function below matched, statement by statement, the text Model/Context.v was written from *)\n")
    out.append(D.definition("ctxshape_functions", "list string", D.lst(D.string(k) for k in sorted(EXPECTED))))
    out.append("(* get_context_arguments: one pass over the stack from the oldest context to the newest, dict.update *)\n")
    out.append(D.definition("ctxshape_merge_oldest_first", "bool", "true"))
    out.append("(* the wrapper: 1 open positional parameters with their defaults, 2 the decorator's keyword-only\n"
               "   defaults, 3 the merged context, 4 overlay of the names still open, 5 the call's keywords,\n"
               "   6 the Required test (TypeError), 7 the call of the wrapped function *)\n")
    out.append(D.definition("ctxshape_wrapper_steps", "list Z", D.zlist([1, 2, 3, 4, 5, 6, 7])))
    out.append("(* Context.__enter__: append self;  __exit__: 1 the callbacks in order, 2 pop in `finally` *)\n")
    out.append(D.definition("ctxshape_exit_steps", "list Z", D.zlist([1, 2])))
    out.append(D.definition("ctxshape_exit_pop_in_finally", "bool", "true"))
    out.append("(* update_current_context updates the innermost context object; Context() copies its arguments *)\n")
    out.append(D.definition("ctxshape_update_innermost", "bool", "true"))
    out.append("(* discover_connections: dimensions assigned afresh from the P2P table; connections held are skipped;\n"
               "   a new connection whose probe raises SCPError is popped and closed *)\n")
    out.append(D.definition("ctxshape_discover_dims_fresh", "bool", "true"))
    out.append("(* BMP set_led / set_power: boards = list(board); set_led addresses boards[0]; the mask sums all *)\n")
    out.append(D.definition("ctxshape_boards_copied", "bool", "true"))
    sys.stdout.write("\n".join(out))


try:
    main()
except Unsupported as e:
    sys.stderr.write("dump_c18ctx: Unsupported: %s\n" % e)
    sys.stdout.write("dump_c18ctx: Unsupported: %s\n" % e)
    sys.exit(2)
