(* C12, list layer: arrays indexed by Python ints, a few facts about bits, the insertion sort that
   models sorted(), and the grouping of cores by identical sub-block sets in
   get_regions_and_coremasks.  Nothing here mentions the tree. *)
From Coq Require Import ZArith List Bool Lia Sorted.
Require Import Rig.Generated.GenRegions Rig.Model.Base Rig.Model.Regions Rig.Spec.Regions.
Import ListNotations.
Open Scope Z_scope.

(* ------------------------------------------------------------------------------------------ *)
(* upd / znth / zupd                                                                            *)
(* ------------------------------------------------------------------------------------------ *)
Lemma upd_length : forall A (l : list A) i v, length (upd i v l) = length l.
Proof. induction l as [|a l IH]; intros [|i] v; simpl; auto. Qed.

Lemma nth_upd_eq : forall A (l : list A) i v d, (i < length l)%nat -> nth i (upd i v l) d = v.
Proof.
  induction l as [|a l IH]; intros [|i] v d H; simpl in *; try lia; auto. apply IH. lia.
Qed.

Lemma nth_upd_neq : forall A (l : list A) i j v d, i <> j -> nth j (upd i v l) d = nth j l d.
Proof.
  induction l as [|a l IH]; intros [|i] [|j] v d H; simpl; auto; try congruence.
Qed.

Lemma zupd_length : forall A (l : list A) i v, length (zupd i v l) = length l.
Proof. intros. apply upd_length. Qed.

Lemma znth_zupd_eq : forall A (l : list A) i v d,
  0 <= i < Z.of_nat (length l) -> znth i (zupd i v l) d = v.
Proof. intros A l i v d H. unfold znth, zupd. apply nth_upd_eq. lia. Qed.

Lemma znth_zupd_neq : forall A (l : list A) i j v d,
  0 <= i -> 0 <= j -> i <> j -> znth j (zupd i v l) d = znth j l d.
Proof. intros A l i j v d Hi Hj H. unfold znth, zupd. apply nth_upd_neq. lia. Qed.

Lemma znth_In : forall A (l : list A) i d, 0 <= i < Z.of_nat (length l) -> In (znth i l d) l.
Proof. intros A l i d H. unfold znth. apply nth_In. lia. Qed.

Lemma upd_In : forall A (l : list A) i v a, In a (upd i v l) -> a = v \/ In a l.
Proof.
  induction l as [|b l IH]; intros [|i] v a H; simpl in *; auto.
  - destruct H as [H | H]; auto.
  - destruct H as [H | H]; auto. destruct (IH _ _ _ H); auto.
Qed.

Lemma Forall_zupd : forall A (P : A -> Prop) l i v, Forall P l -> P v -> Forall P (zupd i v l).
Proof.
  intros A P l i v Hl Hv. rewrite Forall_forall in *. intros a Ha.
  destruct (upd_In _ _ _ _ _ Ha) as [-> | H]; auto.
Qed.

Lemma znth_repeat : forall A (a : A) n i, znth i (repeat a n) a = a.
Proof.
  intros A a n i. unfold znth. generalize (Z.to_nat i) as k.
  induction n as [|n IH]; intros [|k]; simpl; auto.
Qed.

(* ------------------------------------------------------------------------------------------ *)
(* bits                                                                                         *)
(* ------------------------------------------------------------------------------------------ *)
Lemma shiftl_1 : forall i, 0 <= i -> Z.shiftl 1 i = 2 ^ i.
Proof. intros i Hi. rewrite Z.shiftl_mul_pow2 by exact Hi. lia. Qed.

Lemma bits_above : forall a n j, 0 <= a < 2 ^ n -> n <= j -> Z.testbit a j = false.
Proof.
  intros a n j [Ha0 Ha] Hj.
  destruct (Z.eq_dec a 0) as [-> | Hne]. { apply Z.bits_0. }
  apply Z.bits_above_log2; [lia|].
  assert (Z.log2 a < n); [|lia].
  destruct (Z_lt_le_dec n 0) as [Hn | Hn].
  { rewrite Z.pow_neg_r in Ha by exact Hn. lia. }
  apply Z.log2_lt_pow2; lia.
Qed.

Lemma lt_pow2_of_bits : forall a n, 0 <= a -> 0 <= n ->
  (forall j, n <= j -> Z.testbit a j = false) -> a < 2 ^ n.
Proof.
  intros a n Ha Hn H.
  destruct (Z.eq_dec a 0) as [-> | Hne]. { apply Z.pow_pos_nonneg; lia. }
  apply Z.log2_lt_pow2; [lia|].
  destruct (Z_lt_le_dec (Z.log2 a) n) as [Hl | Hl]; [exact Hl|].
  pose proof (Z.bit_log2 a ltac:(lia)) as Hb. rewrite (H _ Hl) in Hb. discriminate.
Qed.

(* `a | (1 << i)` *)
Lemma testbit_lor_bit : forall a i j, 0 <= i ->
  Z.testbit (Z.lor a (Z.shiftl 1 i)) j = Z.testbit a j || (i =? j).
Proof.
  intros a i j Hi. rewrite Z.lor_spec, shiftl_1 by exact Hi.
  rewrite Z.pow2_bits_eqb by exact Hi. reflexivity.
Qed.

Lemma lor_bit_range : forall a i n, 0 <= a < 2 ^ n -> 0 <= i < n ->
  0 <= Z.lor a (Z.shiftl 1 i) < 2 ^ n.
Proof.
  intros a i n Ha Hi. assert (H0 : 0 <= Z.lor a (Z.shiftl 1 i)).
  { apply Z.lor_nonneg. split; [lia|]. apply Z.shiftl_nonneg. lia. }
  split; [exact H0|]. apply lt_pow2_of_bits; [exact H0 | lia |].
  intros j Hj. rewrite testbit_lor_bit by lia.
  rewrite (bits_above a n j Ha Hj). simpl. apply Z.eqb_neq. lia.
Qed.

(* `a & (1 << i)` is zero exactly when bit i of a is clear *)
Lemma land_bit_eqb : forall a i, 0 <= i ->
  (Z.land a (Z.shiftl 1 i) =? 0) = negb (Z.testbit a i).
Proof.
  intros a i Hi. rewrite shiftl_1 by exact Hi.
  destruct (Z.testbit a i) eqn:Hb; simpl.
  - apply Z.eqb_neq. intro H0.
    assert (Hc : Z.testbit (Z.land a (2 ^ i)) i = true).
    { rewrite Z.land_spec, Hb, Z.pow2_bits_true by exact Hi. reflexivity. }
    rewrite H0, Z.bits_0 in Hc. discriminate.
  - apply Z.eqb_eq. apply Z.bits_inj_0. intros j. rewrite Z.land_spec.
    rewrite Z.pow2_bits_eqb by exact Hi.
    destruct (Z.eqb_spec i j) as [<- | Hne]; [rewrite Hb; reflexivity | apply andb_false_r].
Qed.

(* a high part and a low part that do not overlap: `|` is `+` *)
Lemma lor_high_low : forall a n m, 0 <= n -> 0 <= m < 2 ^ n -> Z.lor (a * 2 ^ n) m = a * 2 ^ n + m.
Proof.
  intros a n m Hn Hm.
  assert (Hl : Z.land (a * 2 ^ n) m = 0).
  { apply Z.bits_inj_0. intros j. rewrite Z.land_spec.
    destruct (Z_lt_le_dec j n) as [Hj | Hj].
    - rewrite Z.mul_pow2_bits_low by exact Hj. reflexivity.
    - rewrite (bits_above m n j Hm Hj). apply andb_false_r. }
  rewrite <- (Z.lxor_lor _ _ Hl). symmetry. apply Z.add_nocarry_lxor. exact Hl.
Qed.

Lemma testbit_65535 : forall j, 0 <= j < 16 -> Z.testbit 65535 j = true.
Proof. intros j Hj. change 65535 with (Z.ones 16). apply Z.ones_spec_low. exact Hj. Qed.

(* ------------------------------------------------------------------------------------------ *)
(* counting with a boolean predicate                                                            *)
(* ------------------------------------------------------------------------------------------ *)
Definition cnt_if {A} (f : A -> bool) (l : list A) : nat := length (filter f l).

Lemma cnt_if_app : forall A (f : A -> bool) l1 l2, cnt_if f (l1 ++ l2) = (cnt_if f l1 + cnt_if f l2)%nat.
Proof. intros. unfold cnt_if. rewrite filter_app, app_length. reflexivity. Qed.

Lemma cnt_if_cons : forall A (f : A -> bool) a l,
  cnt_if f (a :: l) = ((if f a then 1 else 0) + cnt_if f l)%nat.
Proof. intros. unfold cnt_if. simpl. destruct (f a); reflexivity. Qed.

Lemma cnt_if_ext : forall A (f g : A -> bool) l, (forall a, In a l -> f a = g a) -> cnt_if f l = cnt_if g l.
Proof.
  intros A f g l H. induction l as [|a l IH]; [reflexivity|].
  rewrite !cnt_if_cons, (H a (or_introl eq_refl)), IH; [reflexivity|].
  intros b Hb. apply H. right. exact Hb.
Qed.

Lemma cnt_if_none : forall A (f : A -> bool) l, (forall a, In a l -> f a = false) -> cnt_if f l = 0%nat.
Proof.
  intros A f l H. induction l as [|a l IH]; [reflexivity|].
  rewrite cnt_if_cons, (H a (or_introl eq_refl)), IH; [reflexivity|].
  intros b Hb. apply H. right. exact Hb.
Qed.

Lemma cnt_if_map : forall A B (g : A -> B) (f : B -> bool) l, cnt_if f (map g l) = cnt_if (fun a => f (g a)) l.
Proof.
  intros A B g f l. induction l as [|a l IH]; [reflexivity|].
  simpl map. rewrite !cnt_if_cons, IH. reflexivity.
Qed.

Fixpoint nsum (l : list nat) : nat := match l with [] => 0%nat | a :: r => (a + nsum r)%nat end.

Lemma cnt_if_flat_map : forall A B (f : B -> bool) (g : A -> list B) l,
  cnt_if f (flat_map g l) = nsum (map (fun a => cnt_if f (g a)) l).
Proof.
  intros A B f g l. induction l as [|a l IH]; [reflexivity|].
  simpl. rewrite cnt_if_app, IH. reflexivity.
Qed.

Lemma nsum_zero : forall A (g : A -> nat) (l : list A), (forall j, In j l -> g j = 0%nat) -> nsum (map g l) = 0%nat.
Proof.
  intros A g l H. induction l as [|a l IH]; [reflexivity|]. simpl.
  rewrite (H a (or_introl eq_refl)), IH; [reflexivity|]. intros j Hj. apply H. right. exact Hj.
Qed.

Lemma nsum_single : forall A (g : A -> nat) (l : list A) i,
  NoDup l -> In i l -> (forall j, In j l -> j <> i -> g j = 0%nat) -> nsum (map g l) = g i.
Proof.
  intros A g l i Hnd. induction Hnd as [|a l Hna Hnd IH]; intros Hin Hz; [destruct Hin|].
  simpl. destruct Hin as [-> | Hin].
  - rewrite nsum_zero; [lia|]. intros j Hj. apply Hz; [right; exact Hj|].
    intros ->. contradiction.
  - rewrite (Hz a); [|left; reflexivity | intros ->; contradiction].
    apply IH; [exact Hin|]. intros j Hj Hne. apply Hz; [right; exact Hj | exact Hne].
Qed.

(* ------------------------------------------------------------------------------------------ *)
(* NoDup of concatenations                                                                      *)
(* ------------------------------------------------------------------------------------------ *)
Lemma NoDup_app_intro : forall A (l1 l2 : list A),
  NoDup l1 -> NoDup l2 -> (forall a, In a l1 -> In a l2 -> False) -> NoDup (l1 ++ l2).
Proof.
  intros A l1 l2 H1 H2 Hd. induction H1 as [|a l1 Hna H1 IH]; [exact H2|].
  simpl. constructor.
  - intro Hin. apply in_app_or in Hin. destruct Hin as [Hin | Hin]; [contradiction|].
    apply (Hd a); [left; reflexivity | exact Hin].
  - apply IH. intros b Hb1 Hb2. apply (Hd b); [right; exact Hb1 | exact Hb2].
Qed.

Lemma NoDup_flat_map_intro : forall A B (g : A -> list B) (l : list A),
  NoDup l -> (forall a, In a l -> NoDup (g a)) ->
  (forall a a' b, In a l -> In a' l -> a <> a' -> In b (g a) -> In b (g a') -> False) ->
  NoDup (flat_map g l).
Proof.
  intros A B g l Hnd. induction Hnd as [|a l Hna Hnd IH]; intros Hg Hd; [constructor|].
  simpl. apply NoDup_app_intro.
  - apply Hg. left. reflexivity.
  - apply IH.
    + intros a' Ha'. apply Hg. right. exact Ha'.
    + intros a1 a2 b H1 H2. apply Hd; right; assumption.
  - intros b Hb1 Hb2. apply in_flat_map in Hb2. destruct Hb2 as [a' [Ha' Hb2]].
    apply (Hd a a' b); [left; reflexivity | right; exact Ha' | | exact Hb1 | exact Hb2].
    intros ->. contradiction.
Qed.

(* ------------------------------------------------------------------------------------------ *)
(* sorted()                                                                                     *)
(* ------------------------------------------------------------------------------------------ *)
Lemma insert_sorted_In : forall a b l, In b (insert_sorted a l) <-> b = a \/ In b l.
Proof.
  intros a b l. induction l as [|c l IH]; simpl.
  - intuition.
  - destruct (pair_leb a c); simpl; rewrite ?IH; intuition.
Qed.

Lemma py_sorted_In : forall b l, In b (py_sorted l) <-> In b l.
Proof.
  intros b l. induction l as [|a l IH]; simpl; [reflexivity|].
  rewrite insert_sorted_In, IH. intuition.
Qed.

Lemma cnt_if_insert_sorted : forall (f : Z * Z -> bool) a l,
  cnt_if f (insert_sorted a l) = cnt_if f (a :: l).
Proof.
  intros f a l. induction l as [|c l IH]; [reflexivity|]. simpl.
  destruct (pair_leb a c); [reflexivity|].
  rewrite cnt_if_cons, IH, !cnt_if_cons. lia.
Qed.

Lemma cnt_if_py_sorted : forall (f : Z * Z -> bool) l, cnt_if f (py_sorted l) = cnt_if f l.
Proof.
  intros f l. induction l as [|a l IH]; [reflexivity|].
  simpl. rewrite cnt_if_insert_sorted, !cnt_if_cons, IH. reflexivity.
Qed.

Lemma pair_leb_total : forall a b, pair_leb a b = false -> pair_leb b a = true.
Proof.
  intros [a1 a2] [b1 b2]. unfold pair_leb. simpl. intros H.
  apply orb_false_iff in H. destruct H as [H1 H2]. apply Z.ltb_ge in H1.
  apply andb_false_iff in H2. apply orb_true_iff.
  destruct (Z.eq_dec a1 b1) as [-> | Hne].
  - right. rewrite Z.eqb_refl. simpl. destruct H2 as [H2 | H2].
    + rewrite Z.eqb_refl in H2. discriminate.
    + apply Z.leb_gt in H2. apply Z.leb_le. lia.
  - left. apply Z.ltb_lt. lia.
Qed.

Lemma pair_leb_trans : forall a b c, pair_leb a b = true -> pair_leb b c = true -> pair_leb a c = true.
Proof.
  intros [a1 a2] [b1 b2] [c1 c2]. unfold pair_leb. simpl. intros H1 H2.
  apply orb_true_iff in H1. apply orb_true_iff in H2. apply orb_true_iff.
  rewrite !andb_true_iff, !Z.ltb_lt, !Z.eqb_eq, !Z.leb_le in *. lia.
Qed.

Definition pair_le (a b : Z * Z) : Prop := pair_leb a b = true.

Lemma insert_sorted_sorted : forall a l,
  StronglySorted pair_le l -> StronglySorted pair_le (insert_sorted a l).
Proof.
  intros a l H. induction H as [|c l Hs IH Hc]; simpl.
  - constructor; constructor.
  - destruct (pair_leb a c) eqn:Hac.
    + constructor; [constructor; assumption|].
      constructor; [exact Hac|]. rewrite Forall_forall in *. intros b Hb.
      apply (pair_leb_trans a c b Hac). apply Hc. exact Hb.
    + constructor; [exact IH|]. rewrite Forall_forall in *. intros b Hb.
      apply insert_sorted_In in Hb. destruct Hb as [-> | Hb].
      * apply pair_leb_total. exact Hac.
      * apply Hc. exact Hb.
Qed.

Lemma py_sorted_sorted : forall l, StronglySorted pair_le (py_sorted l).
Proof.
  induction l as [|a l IH]; simpl; [constructor|]. apply insert_sorted_sorted. exact IH.
Qed.

Lemma insert_sorted_NoDup_fst : forall a l,
  NoDup (map fst (a :: l)) -> NoDup (map fst (insert_sorted a l)).
Proof.
  intros a l. induction l as [|c l IH]; intros H; simpl; [exact H|].
  destruct (pair_leb a c); [exact H|].
  simpl in H. inversion H as [|? ? Ha Hr]; subst. inversion Hr as [|? ? Hc Hl]; subst.
  simpl. constructor.
  - intro Hin. apply in_map_iff in Hin. destruct Hin as [b [Hb1 Hb2]].
    apply insert_sorted_In in Hb2. destruct Hb2 as [-> | Hb2].
    + apply Ha. left. symmetry. exact Hb1.
    + apply Hc. rewrite <- Hb1. apply in_map. exact Hb2.
  - apply IH. simpl. constructor; [|exact Hl]. intro Hin. apply Ha. right. exact Hin.
Qed.

Lemma py_sorted_NoDup_fst : forall l, NoDup (map fst l) -> NoDup (map fst (py_sorted l)).
Proof.
  induction l as [|a l IH]; intros H; simpl; [constructor|].
  apply insert_sorted_NoDup_fst. simpl in *. inversion H as [|? ? Ha Hl]; subst.
  constructor; [|apply IH; exact Hl].
  intro Hin. apply Ha. apply in_map_iff in Hin. destruct Hin as [b [Hb1 Hb2]].
  rewrite <- Hb1. apply in_map. apply py_sorted_In. exact Hb2.
Qed.

(* sorted for <= lexicographically with pairwise distinct first components: the first components
   increase strictly *)
Lemma sorted_strict : forall l, StronglySorted pair_le l -> NoDup (map fst l) ->
  StronglySorted (fun a b => fst a < fst b) l.
Proof.
  intros l H. induction H as [|a l Hs IH Ha]; intros Hnd; [constructor|].
  simpl in Hnd. inversion Hnd as [|? ? Hna Hl]; subst.
  constructor; [apply IH; exact Hl|].
  rewrite Forall_forall in *. intros b Hb. specialize (Ha b Hb).
  assert (fst a <> fst b). { intro E. apply Hna. rewrite E. apply in_map. exact Hb. }
  unfold pair_le, pair_leb in Ha. apply orb_true_iff in Ha.
  rewrite andb_true_iff, Z.ltb_lt, Z.eqb_eq in Ha. lia.
Qed.

(* ------------------------------------------------------------------------------------------ *)
(* the dict subregions_cores                                                                    *)
(* ------------------------------------------------------------------------------------------ *)
(* how many entries (sub-block set m, core mask cm) have bit i of m and bit p of cm set *)
Definition wgt (i p : Z) (d : list (Z * Z)) : nat :=
  cnt_if (fun e => Z.testbit (fst e) i && Z.testbit (snd e) p) d.

Definition b2n (b : bool) : nat := if b then 1%nat else 0%nat.

Lemma wgt_dict_or : forall i p m c d, 0 <= c ->
  (forall e, In e d -> Z.testbit (snd e) c = false) ->
  wgt i p (dict_or m (Z.shiftl 1 c) d) = (wgt i p d + b2n ((c =? p)%Z && Z.testbit m i))%nat.
Proof.
  intros i p m c d Hc. induction d as [|[k v] d IH]; intros Hd.
  - simpl. unfold wgt. rewrite cnt_if_cons. simpl fst. simpl snd.
    rewrite shiftl_1, Z.pow2_bits_eqb by exact Hc.
    unfold cnt_if. simpl. rewrite andb_comm. unfold b2n.
    destruct ((c =? p) && Z.testbit m i); reflexivity.
  - simpl. destruct (Z.eqb_spec m k) as [-> | Hne].
    + unfold wgt. rewrite !cnt_if_cons. simpl fst. simpl snd.
      rewrite testbit_lor_bit by exact Hc.
      pose proof (Hd (k, v) (or_introl eq_refl)) as Hv. simpl in Hv.
      destruct (Z.eqb_spec c p) as [<- | Hcp].
      * rewrite Hv. simpl. rewrite andb_false_r, andb_true_r. unfold b2n.
        destruct (Z.testbit k i); simpl; lia.
      * rewrite orb_false_r. simpl. unfold b2n. lia.
    + unfold wgt in *. rewrite !cnt_if_cons. rewrite IH.
      * lia.
      * intros e He. apply Hd. right. exact He.
Qed.

Lemma dict_or_In : forall m v d e, In e (dict_or m v d) ->
  In e d \/ fst e = m /\ (exists v', snd e = Z.lor v' v /\ (v' = 0 \/ In (m, v') d)).
Proof.
  intros m v d. induction d as [|[k w] d IH]; intros e He; simpl in He.
  - destruct He as [<- | []]. right. simpl. split; [reflexivity|]. exists 0. auto.
  - destruct (Z.eqb_spec m k) as [-> | Hne].
    + destruct He as [<- | He].
      * right. simpl. split; [reflexivity|]. exists w. split; [reflexivity|]. right. left. reflexivity.
      * left. right. exact He.
    + destruct He as [<- | He].
      * left. left. reflexivity.
      * destruct (IH _ He) as [H | [H1 [v' [H2 H3]]]].
        -- left. right. exact H.
        -- right. split; [exact H1|]. exists v'. split; [exact H2|].
           destruct H3 as [H3 | H3]; [left; exact H3 | right; right; exact H3].
Qed.

Lemma dict_or_keys : forall m v d, NoDup (map fst d) -> NoDup (map fst (dict_or m v d)).
Proof.
  intros m v d. induction d as [|[k w] d IH]; intros H; simpl.
  - constructor; [intros []|constructor].
  - destruct (Z.eqb_spec m k) as [-> | Hne]; [exact H|].
    simpl in *. inversion H as [|? ? Hk Hd]; subst. constructor; [|apply IH; exact Hd].
    intro Hin. apply in_map_iff in Hin. destruct Hin as [e [He1 He2]].
    destruct (dict_or_In _ _ _ _ He2) as [H1 | [H1 _]].
    + apply Hk. rewrite <- He1. apply in_map. exact H1.
    + congruence.
Qed.

(* invariant of the loop over cores: keys are distinct non-zero elements of the array, every core
   mask is non-zero and only has bits of cores already visited *)
Definition dict_ok (sel : list Z) (c : Z) (d : list (Z * Z)) : Prop :=
  NoDup (map fst d) /\
  forall e, In e d -> fst e <> 0 /\ In (fst e) sel /\ 0 < snd e < 2 ^ c.

Lemma group_spec : forall i p sel l c d, 0 <= c -> dict_ok sel c d -> (forall m, In m l -> In m sel) ->
  dict_ok sel (c + Z.of_nat (length l)) (group c l d) /\
  wgt i p (group c l d)
  = (wgt i p d + b2n ((c <=? p) && (p <? c + Z.of_nat (length l)) && Z.testbit (znth (p - c) l 0) i)%Z)%nat.
Proof.
  intros i p sel l. induction l as [|m l IH]; intros c d Hc Hok Hsel.
  - simpl. rewrite Z.add_0_r. split; [exact Hok|].
    replace ((c <=? p) && (p <? c)) with false; [simpl; lia|].
    symmetry. apply andb_false_iff. destruct (Z.leb_spec c p); [right; apply Z.ltb_ge; lia | left; reflexivity].
  - simpl group.
    set (d' := if m =? 0 then d else dict_or m (Z.shiftl 1 c) d).
    assert (Hbits : forall e, In e d -> Z.testbit (snd e) c = false).
    { intros e He. destruct Hok as [_ Hok]. destruct (Hok e He) as [_ [_ Hr]].
      apply (bits_above (snd e) c c); lia. }
    assert (Hok' : dict_ok sel (c + 1) d').
    { unfold d'. destruct (Z.eqb_spec m 0) as [-> | Hm0].
      - destruct Hok as [Hk Hok]. split; [exact Hk|]. intros e He. destruct (Hok e He) as [H1 [H2 H3]].
        split; [exact H1|]. split; [exact H2|]. rewrite Z.pow_add_r by lia. lia.
      - destruct Hok as [Hk Hok]. split; [apply dict_or_keys; exact Hk|].
        intros e He. destruct (dict_or_In _ _ _ _ He) as [H | [H1 [v' [H2 H3]]]].
        + destruct (Hok e H) as [H1 [H2 H3]]. split; [exact H1|]. split; [exact H2|].
          rewrite Z.pow_add_r by lia. lia.
        + rewrite H1. split; [exact Hm0|]. split; [apply Hsel; left; reflexivity|].
          assert (Hv' : 0 <= v' < 2 ^ c).
          { destruct H3 as [-> | H3]; [split; [lia | apply Z.pow_pos_nonneg; lia]|].
            destruct (Hok _ H3) as [_ [_ Hr]]. simpl in Hr. lia. }
          assert (E : Z.lor v' (Z.shiftl 1 c) = 1 * 2 ^ c + v').
          { rewrite shiftl_1, Z.lor_comm by exact Hc. rewrite <- (lor_high_low 1 c v' Hc Hv').
            rewrite Z.mul_1_l. reflexivity. }
          rewrite H2, E. rewrite Z.pow_add_r by lia. lia. }
    assert (Hw' : wgt i p d' = (wgt i p d + b2n ((c =? p)%Z && Z.testbit m i))%nat).
    { unfold d'. destruct (Z.eqb_spec m 0) as [-> | Hm0].
      - rewrite Z.bits_0, andb_false_r. simpl. lia.
      - apply wgt_dict_or; assumption. }
    destruct (IH (c + 1) d' ltac:(lia) Hok' ltac:(intros m' Hm'; apply Hsel; right; exact Hm')) as [IH1 IH2].
    split.
    { replace (c + Z.of_nat (length (m :: l))) with (c + 1 + Z.of_nat (length l)); [exact IH1|].
      simpl length. lia. }
    rewrite IH2, Hw'. simpl length.
    replace (c + Z.of_nat (S (length l))) with (c + 1 + Z.of_nat (length l)) by lia.
    destruct (Z.eqb_spec c p) as [<- | Hcp].
    + replace (c + 1 <=? c) with false by (symmetry; apply Z.leb_gt; lia).
      rewrite Z.leb_refl. replace (c <? c + 1 + Z.of_nat (length l)) with true by (symmetry; apply Z.ltb_lt; lia).
      unfold znth. rewrite Z.sub_diag. simpl. lia.
    + simpl andb at 1. simpl b2n at 1.
      destruct (Z.leb_spec (c + 1) p) as [Hle | Hgt].
      * replace (c <=? p) with true by (symmetry; apply Z.leb_le; lia).
        unfold znth. replace (Z.to_nat (p - c)) with (S (Z.to_nat (p - (c + 1)))) by lia.
        simpl nth. lia.
      * replace (c <=? p) with false by (symmetry; apply Z.leb_gt; lia). simpl. lia.
Qed.

Lemma group_all : forall i p sel,
  dict_ok sel (Z.of_nat (length sel)) (group 0 sel []) /\
  wgt i p (group 0 sel [])
  = b2n ((0 <=? p) && (p <? Z.of_nat (length sel)) && Z.testbit (znth p sel 0) i).
Proof.
  intros i p sel.
  destruct (group_spec i p sel sel 0 [] ltac:(lia)) as [H1 H2].
  - split; [constructor | intros e []].
  - auto.
  - split; [exact H1|]. rewrite H2. rewrite Z.sub_0_r. reflexivity.
Qed.
