"""Dump rig's numbering of links and routes as Coq literals (unit GenNetwork).

The hardware model of Model/Network.v fixes what link i and route bit b MEAN on the silicon; Proofs/Network.v
proves (by computation, on every run) that rig's enumerations use the same meaning, so that a table built
with Routes / Links members denotes in the model what it does on a machine."""
import warnings
warnings.simplefilter("ignore")
import dumplib as D  # noqa: E402
from rig.links import Links
from rig.routing_table import Routes

out = [D.HEADER % "dump_c01.py"]
links = sorted(Links, key=int)
out.append("(* rig/links.py: Links member value -> to_vector() *)\n")
out.append(D.definition("net_link_vectors", "list (Z * (Z * Z))",
                        D.lst(D.pair(D.z(l), D.pair(D.z(l.to_vector()[0]), D.z(l.to_vector()[1]))) for l in links)))
out.append("(* rig/links.py: Links member value -> opposite *)\n")
out.append(D.definition("net_link_opposite", "list (Z * Z)", D.lst(D.pair(D.z(l), D.z(l.opposite)) for l in links)))
routes = sorted(Routes, key=int)
out.append("(* rig/routing_table/entries.py: Routes members that are links: value -> value of Links of the same name;\n"
           "   Routes(link) for every link (the cast used by the router) *)\n")
out.append(D.definition("net_route_links", "list (Z * Z)",
                        D.lst(D.pair(D.z(r), D.z(Links[r.name])) for r in routes if r.is_link)))
out.append(D.definition("net_route_of_link", "list (Z * Z)", D.lst(D.pair(D.z(l), D.z(Routes(l))) for l in links)))
out.append("(* Routes members that are cores: value -> core_num; Routes.core(n) for n in 0..17 *)\n")
out.append(D.definition("net_route_cores", "list (Z * Z)",
                        D.lst(D.pair(D.z(r), D.z(r.core_num)) for r in routes if r.is_core)))
out.append(D.definition("net_route_of_core", "list (Z * Z)",
                        D.lst(D.pair(D.z(n), D.z(Routes.core(n))) for n in range(18))))
out.append("(* Routes.opposite of the link routes *)\n")
out.append(D.definition("net_route_opposite", "list (Z * Z)",
                        D.lst(D.pair(D.z(r), D.z(r.opposite)) for r in routes if r.is_link)))
print("".join(out))
