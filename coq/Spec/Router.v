(* C10 -- predicates in which the loading theorems are stated (definitions only) *)
From Coq Require Import ZArith List Bool.
Require Import Rig.Model.Base Rig.Generated.GenRouter Rig.Model.Tables Rig.Model.Router.
Import ListNotations.
Open Scope Z_scope.

(* an entry the loader is meant for: routes are members of Routes, key and mask are 32-bit words *)
Definition entry_ok (e : entry) : Prop :=
  (forall r, In r (e_route e) -> 0 <= r < 24) /\ 0 <= e_key e < 2 ^ 32 /\ 0 <= e_mask e < 2 ^ 32.

(* a state of the simulated chip that SARK can be in: 1024 router entries; every block of the free list
   lies within entries 1..1023; the staging buffer and the router copy are disjoint 32-bit address ranges *)
Definition chip_ok (cs : chipstate) : Prop :=
  length (cs_slots cs) = 1024%nat /\
  Forall (fun b => 1 <= fst b /\ fst b + snd b <= 1024) (cs_free cs) /\
  0 <= cs_buf cs < 2 ^ 32 /\ cs_buf cs + len (cs_bufmem cs) <= 2 ^ 32 /\
  0 <= cs_rtr_copy cs /\ cs_rtr_copy cs + 16384 <= 2 ^ 32 /\
  (cs_buf cs + len (cs_bufmem cs) <= cs_rtr_copy cs \/ cs_rtr_copy cs + 16384 <= cs_buf cs).

(* what the router holds for a given entry loaded for an application *)
Definition slot_of (app_id : Z) (e : entry) : rslot :=
  mkSlot 0 app_id (route_word (e_route e)) (e_key e) (e_mask e).

(* router entries base, base+1, ... hold the given entries, in order *)
Definition installed (slots : list rslot) (base app_id : Z) (es : list entry) : Prop :=
  forall i e, nth_error es i = Some e -> nth_error slots (Z.to_nat base + i) = Some (slot_of app_id e).

(* every entry outside [base, base + count) is what it was *)
Definition unchanged_outside (old new : list rslot) (base : Z) (count : nat) : Prop :=
  length new = length old /\
  forall j, ~ (Z.to_nat base <= j < Z.to_nat base + count)%nat -> nth_error new j = nth_error old j.

(* what get_routing_table_entries reports for a loaded entry: same key, mask and set of routes; the
   sources are not stored by the hardware and come back as {None}; application id; core 0 *)
Definition read_back_of (app_id : Z) (e : entry) (got : option (entry * Z * Z)) : Prop :=
  exists routes, got = Some (mkEntry routes (e_key e) (e_mask e) [none_dir], app_id, 0)
                 /\ NoDup routes /\ forall r, In r routes <-> In r (e_route e).
