"""Drive rig.machine_control.regions on JSON-described cases (runs under /venv/bin/python, PYTHONPATH=/repo).

Every case runs in its own forked child of a process that has imported rig but never called it, so a case
(a single call or a "history" of several calls) always starts from the state of a fresh interpreter and a
failing case can be replayed alone; state carried from one call to the next is exercised by the histories.

case kinds
  {"mode": "compress", "targets": [[x, y, [p, ...]], ...], "container": "set" | "list"}
      -> ["ok", order, [[region, coremask], ...]]   order = the cores [x, y, p] in the order in which the two
                                                    loops of compress_flood_fill_regions meet them
         ["fail", 0, order]  (ValueError)  |  ["other", name, order]
  {"mode": "tree", "level": l, "adds": [[x, y, p], ...]}
      -> ["ok", [bool, ...], [[region, coremask], ...]]   returns of add_core, list(get_regions_and_coremasks())
         ["fail", 0] on the first ValueError  |  ["other", name]
  {"mode": "chips", "chips": [[x, y, level or null], ...]}
      -> ["ok", [word, ...]]
  compress cases may carry "mapping": "lazy" | "lazy-items" (a collections.abc.Mapping that creates a fresh core collection
  per access) | "defaultdict" | "plaindict"
  compress / tree cases may carry "dtype": name of a numpy integer dtype (coordinates and core numbers are given as
  numpy scalars of that type); compress cases may carry "raise_after": n (the mapping's iteration raises after n items)
  {"mode": "tree_rw", "level": l, "ops": [["add", x, y, p] | ["read"], ...]}   one tree, traversed repeatedly
      -> ["ok", [bool, ...], [[[region, coremask], ...] per read]]
  {"mode": "history", "calls": [case, ...]}   compress / tree cases run one after the other in ONE interpreter
      -> ["ok", [result of each call, ...]]
  {"mode": "ffa", "calls": [{"kind": "fill" | "load", "form": "two" | "map", "apps": [{"targets", "container"}],
                             "reuse": null | {"edits": [["add" | "discard", x, y, p]], "newdict": bool}, "fail": [[x, y, p]]}]}
      MachineController.flood_fill_aplx / load_application on one controller with a recording _send_scp
      -> ["ok", [{"fills": [[[arg1, arg2], ...], ...], "orders": [...], "exc": name or null}, ...]]
  {"mode": "enum4", "bx", "by", "a", "b", "cls", "lo", "hi"}   (thorough tier: exhaustive 4 x 4 block)
      -> ["ok", [[[region, coremask], ...] or exception name, ...]]   one entry per mask in range(lo, hi)
"""
import operator
from collections import OrderedDict, defaultdict
from collections.abc import Mapping

from rig.machine_control.regions import (get_region_for_chip, compress_flood_fill_regions,
                                         RegionCoreTree)


def plain(v):
    """The value of an emitted word / mask: any integral type is accepted, its VALUE is what is judged."""
    if isinstance(v, bool):
        raise TypeError("not an int: %r" % (v,))
    return operator.index(v)


def conv(dtype):
    """Coordinates / core numbers as given by the caller: Python ints or numpy scalars of one integer dtype."""
    if not dtype:
        return lambda v: v
    import numpy
    t = numpy.dtype(dtype).type
    info = numpy.iinfo(dtype)
    return lambda v: t(v) if info.min <= v <= info.max else v


class RaisingMapping(OrderedDict):
    """A user-supplied mapping whose iteration fails after `n` items."""
    n = 0

    def items(self):
        for i, kv in enumerate(OrderedDict.items(self)):
            if i >= self.n:
                raise RuntimeError("iteration of the caller's mapping failed")
            yield kv


class LazyTargets(Mapping):
    """A caller's mapping that builds each chip's core collection ON DEMAND: every access creates a fresh object
    (which is freed as soon as the caller lets go of it)."""

    def __init__(self, spec, make):
        self.spec = OrderedDict(((x, y), list(cores)) for x, y, cores in spec)
        self.make = make

    def __getitem__(self, chip):
        return self.make(self.spec[chip])

    def __iter__(self):
        return iter(self.spec)

    def __len__(self):
        return len(self.spec)


class LazyItemsTargets(LazyTargets):
    def items(self):
        for chip in self.spec:
            yield chip, self.make(self.spec[chip])


def run_case(c):
    if c["mode"] == "compress" and c.get("mapping") in ("lazy", "lazy-items", "defaultdict", "plaindict"):
        cv = conv(c.get("dtype"))
        make = (lambda ps: set(cv(p) for p in ps)) if c["container"] == "set" else (lambda ps: [cv(p) for p in ps])
        spec = [[cv(x), cv(y), cores] for x, y, cores in c["targets"]]
        if c["mapping"] == "lazy":
            targets = LazyTargets(spec, make)
        elif c["mapping"] == "lazy-items":
            targets = LazyItemsTargets(spec, make)
        else:
            targets = defaultdict(set) if c["mapping"] == "defaultdict" else {}
            for x, y, cores in spec:
                targets[(x, y)] = make(cores)
        # equal collections built the same way iterate in the same order
        order = [[int(x), int(y), int(p)] for x, y, cores in spec for p in make(cores)]
        try:
            out = [[plain(r), plain(m)] for r, m in compress_flood_fill_regions(targets)]
        except ValueError:
            return ["fail", 0, order]
        except Exception as e:
            return ["other", type(e).__name__, order]
        return ["ok", order, out]
    if c["mode"] == "compress":
        cv = conv(c.get("dtype"))
        targets = OrderedDict()
        if c.get("raise_after") is not None:
            targets = RaisingMapping()
            targets.n = c["raise_after"]
        for x, y, cores in c["targets"]:
            targets[(cv(x), cv(y))] = set(cv(p) for p in cores) if c["container"] == "set" else [cv(p) for p in cores]
        # the order in which compress_flood_fill_regions will meet the cores (same objects, same
        # iteration order: nothing is mutated in between)
        order = [[int(x), int(y), int(p)] for (x, y), cores in OrderedDict.items(targets) for p in cores]
        try:
            out = compress_flood_fill_regions(targets)
            if c.get("clear_after_call") and isinstance(targets, OrderedDict) and c.get("raise_after") is None:
                targets.clear()              # the caller re-uses its dictionary before looking at the pairs
            out = [[plain(r), plain(m)] for r, m in out]
        except ValueError:
            return ["fail", 0, order]
        except Exception as e:
            return ["other", type(e).__name__, order]
        return ["ok", order, out]
    if c["mode"] == "tree":
        try:
            cv = conv(c.get("dtype"))
            t = RegionCoreTree(level=c["level"])
            rets = []
            for x, y, p in c["adds"]:
                r = t.add_core(cv(x), cv(y), cv(p))
                if not isinstance(r, bool):
                    return ["other", "add_core returned %r" % (r,)]
                rets.append(r)
            out = [[plain(r), plain(m)] for r, m in t.get_regions_and_coremasks()]
        except ValueError:
            return ["fail", 0]
        except Exception as e:
            return ["other", type(e).__name__]
        return ["ok", rets, out]
    if c["mode"] == "tree_rw":
        # ONE tree object: add_core calls interleaved with complete traversals
        try:
            t = RegionCoreTree(level=c["level"])
            rets, reads = [], []
            for op in c["ops"]:
                if op[0] == "read":
                    reads.append([[plain(r), plain(m)] for r, m in list(t.get_regions_and_coremasks())])
                else:
                    r = t.add_core(op[1], op[2], op[3])
                    if not isinstance(r, bool):
                        return ["other", "add_core returned %r" % (r,)]
                    rets.append(r)
        except ValueError:
            return ["fail", 0]
        except Exception as e:
            return ["other", type(e).__name__]
        return ["ok", rets, reads]
    if c["mode"] == "ffa":
        return run_ffa(c)
    if c["mode"] == "history":
        return ["ok", [run_case(call) for call in c["calls"]]]
    if c["mode"] == "chips":
        try:
            return ["ok", [plain(get_region_for_chip(x, y) if l is None else get_region_for_chip(x, y, l))
                           for x, y, l in c["chips"]]]
        except Exception as e:
            return ["other", type(e).__name__]
    if c["mode"] == "enum4":
        # every subset (bit i of mask <-> chip (bx + i % 4, by + i // 4)) of one 4 x 4 block for core a, with
        # core b following one of four patterns; the cores are inserted chip by chip, a before b
        outs = []
        for mask in range(c["lo"], c["hi"]):
            targets = OrderedDict()
            for i in range(16):
                ps = []
                if mask >> i & 1:
                    ps.append(c["a"])
                if enum_b(c["cls"], mask, i):
                    ps.append(c["b"])
                if ps:
                    targets[(c["bx"] + i % 4, c["by"] + i // 4)] = ps
            try:
                outs.append([[plain(r), plain(m)] for r, m in compress_flood_fill_regions(targets)])
            except Exception as e:
                outs.append(type(e).__name__)
        return ["ok", outs]
    raise ValueError(c["mode"])


def enum_b(cls, mask, i):
    """Is core b requested on chip i?  0: never, 1: where a is, 2: where a is not, 3: everywhere."""
    return [False, bool(mask >> i & 1), not (mask >> i & 1), True][cls]


def build_cores(kind, cores):
    """The caller's per-chip core collection."""
    if kind == "set":
        return set(cores)
    if kind == "frozenset":
        return frozenset(cores)
    if kind == "list":
        return list(cores)
    if kind == "tuple":
        return tuple(cores)
    if kind == "iter":
        return iter(list(cores))                      # one-shot
    if kind == "gen":
        return (p for p in list(cores))               # one-shot
    if kind == "filter":
        return filter(lambda p: True, list(cores))    # one-shot on Python 3
    raise ValueError(kind)


def run_ffa(c):
    """MachineController.flood_fill_aplx / load_application on ONE controller whose _send_scp is a recorder.
    -> ["ok", [{"fills": [[[arg1, arg2], ...] per flood fill, in send order], "orders": [...], "exc": name or None}]]
    A flood fill is what lies between a flood-fill-start and a flood-fill-end packet; of the nearest-neighbour
    packets in between the raw (arg1, arg2) are returned (the harness decodes them)."""
    import types
    import rig.machine_control.machine_controller as mcm
    from rig.machine_control import consts

    class FakeConnection(object):
        def __init__(self, *a, **k):
            pass

        def close(self):
            pass
    mcm.SCPConnection = FakeConnection
    mcm.time = types.SimpleNamespace(sleep=lambda s: None, time=lambda: 0.0)
    mc = mcm.MachineController("recorder")
    log = []

    def send(x, y, p, cmd, arg1=0, arg2=0, arg3=0, data=b"", *a, **k):
        log.append((int(cmd), operator.index(arg1), operator.index(arg2)))
        return types.SimpleNamespace(arg1=0, arg2=0, arg3=0, data=b"")
    mc._send_scp = send
    mc._scp_data_length = 256
    mc.read_struct_field = lambda *a, **k: 0x70000000
    mc.send_signal = lambda *a, **k: None
    state = dict(round=0, failing=set())
    orig_fill = mc.flood_fill_aplx

    def counting_fill(*a, **k):
        state["round"] += 1
        return orig_fill(*a, **k)
    mc.flood_fill_aplx = counting_fill
    mc.read_vcpu_struct_field = lambda field, x, y, p: (
        int(consts.AppState.run) if state["round"] == 1 and (x, y, p) in state["failing"] else int(consts.AppState.wait))
    names = ["app%d.aplx" % i for i in range(4)]
    for n in names:
        with open(n, "wb") as f:
            f.write(b"\0" * 8)
    results = []
    objects = None            # the per-chip core objects of the previous call (single application)
    for call in c["calls"]:
        apps = []
        orders = []
        if call.get("reuse") is not None and objects is not None:
            for op, x, y, p in call["reuse"]["edits"]:
                getattr(objects[(x, y)], op)(p)
            targets = objects if not call["reuse"]["newdict"] else OrderedDict(objects.items())
            orders.append([[x, y, p] for (x, y), ps in targets.items() for p in ps])
            apps.append(targets)
        else:
            for app in call["apps"]:
                t = OrderedDict()
                order = []
                for x, y, cores in app["targets"]:
                    obj = build_cores(app["container"], cores)
                    order += [[x, y, p] for p in (obj if app["container"] in ("set", "frozenset") else cores)]
                    t[(x, y)] = obj
                apps.append(t)
                orders.append(order)
        objects = apps[0] if len(apps) == 1 and all(isinstance(v, set) for v in apps[0].values()) else None
        del log[:]
        state["round"] = 0
        state["failing"] = set(tuple(q) for q in call.get("fail", []))
        exc = None
        try:
            if call["form"] == "two":
                args = (names[0], apps[0])
            else:
                args = (OrderedDict((names[i], t) for i, t in enumerate(apps)),)
            if call["kind"] == "fill":
                orig_fill(*args, app_id=30)
            else:
                mc.load_application(*args, app_id=30, use_count=False)
        except Exception as e:      # noqa
            exc = type(e).__name__
        fills, cur = [], None
        for cmd, a1, a2 in log:
            if cmd != int(consts.SCPCommands.nearest_neighbour_packet):
                continue
            if (a1 >> 24) == int(consts.NNCommands.flood_fill_start):
                cur = []
            elif (a1 >> 24) == int(consts.NNCommands.flood_fill_end):
                fills.append(cur if cur is not None else [])
                cur = None
            elif cur is not None:
                cur.append([a1, a2])
        if cur is not None:
            fills.append(cur)             # a fill that was started and not ended (exception)
        results.append(dict(fills=fills, orders=orders, exc=exc))
    return ["ok", results]


def run_case_forked(c):
    """run_case in a forked child; the parent (which has only imported rig) stays pristine."""
    import json
    import os
    import signal
    r, w = os.pipe()
    pid = os.fork()
    if pid == 0:
        code = 0
        try:
            os.close(r)
            data = json.dumps(run_case(c)).encode()
            with os.fdopen(w, "wb") as f:
                f.write(data)
        except BaseException as e:      # noqa
            try:
                os.write(w, json.dumps(["other", "driver: %s: %s" % (type(e).__name__, e)]).encode())
            except Exception:
                pass
            code = 1
        os._exit(code)
    os.close(w)
    try:
        with os.fdopen(r, "rb") as f:
            data = f.read()
        os.waitpid(pid, 0)
        pid = None
    finally:
        if pid is not None:             # time limit hit in the parent: stop the child
            try:
                os.kill(pid, signal.SIGKILL)
                os.waitpid(pid, 0)
            except OSError:
                pass
    if not data:
        return ["other", "driver: child died without a result"]
    return json.loads(data.decode())


if __name__ == "__main__":
    import implutil
    implutil.run_cases(run_case_forked, per_case_s=60)
