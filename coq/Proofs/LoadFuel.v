(* C09: the loop bounds of the model (fuel of read_loop, send_ffd, load_loop) are never reached: the model
   never answers OutOfFuel, for any input whatsoever.  (So the fuel is not a hidden restriction, and the
   three loops of the code terminate: a read advances by at least one byte per command, a data packet that
   carries no whole word cannot be packed, and the retry loop counts its attempts.) *)
From Coq Require Import ZArith List Bool Lia.
Require Import Rig.Generated.GenLoad Rig.Model.Base Rig.Model.Regions Rig.Spec.Regions Rig.Model.Load.
Import ListNotations.
Open Scope Z_scope.

Lemma bind_fuel : forall A B (r : result A) (f : A -> result B),
  r <> OutOfFuel -> (forall a, f a <> OutOfFuel) -> bind r f <> OutOfFuel.
Proof. intros A B r f Hr Hf. destruct r; cbn [bind]; try discriminate; [apply Hf|exfalso; apply Hr; reflexivity]. Qed.

Lemma send_fuel : forall w q, send w q <> OutOfFuel.
Proof.
  intros w q. unfold send. destruct (packable q); [|discriminate].
  destruct (mstep (w_m w) q) as [m r]. destruct r; discriminate.
Qed.

Lemma send__fuel : forall w q, send_ w q <> OutOfFuel.
Proof. intros. unfold send_. apply bind_fuel; [apply send_fuel|discriminate]. Qed.

Lemma get_buffer_fuel : forall c w, get_buffer c w <> OutOfFuel.
Proof.
  intros c w. unfold get_buffer. destruct (c_buffer c); [discriminate|].
  apply bind_fuel; [apply send_fuel|]. intros [w1 r]. cbn [snd]. destruct r; discriminate.
Qed.

Lemma read_loop_fuel : forall fuel w x y p addr len buffer acc,
  0 < buffer -> (Z.to_nat len < fuel)%nat -> read_loop fuel w x y p addr len buffer acc <> OutOfFuel.
Proof.
  induction fuel as [|k IH]; intros w x y p addr len buffer acc Hb Hf; [lia|].
  cbn [read_loop]. destruct (len >? 0) eqn:E; [|discriminate].
  rewrite Z.gtb_ltb in E. apply Z.ltb_lt in E.
  destruct (dtype_lookup (addr mod 4, Z.min len buffer mod 4) address_length_dtype); [|discriminate].
  apply bind_fuel; [apply send_fuel|]. intros [w1 r]. cbn [fst snd]. destruct r; try discriminate.
  destruct (zlen d =? Z.min len buffer); [|discriminate]. apply IH; [exact Hb|lia].
Qed.

Lemma read_fuel : forall c w x y p addr len, read c w x y p addr len <> OutOfFuel.
Proof.
  intros. unfold read. apply bind_fuel; [apply get_buffer_fuel|]. intros [[c1 w1] buffer].
  destruct (buffer <=? 0) eqn:E; [discriminate|]. apply Z.leb_gt in E.
  apply bind_fuel; [apply read_loop_fuel; [exact E|lia]|]. discriminate.
Qed.

Lemma read_sv_word_fuel : forall c w off x y, read_sv_word c w off x y <> OutOfFuel.
Proof.
  intros. unfold read_sv_word. apply bind_fuel; [apply read_fuel|]. intros [cw d]. cbn [snd].
  destruct (of_le32 d); discriminate.
Qed.

Lemma read_cpu_state_fuel : forall c w x y p, read_cpu_state c w x y p <> OutOfFuel.
Proof.
  intros. unfold read_cpu_state. apply bind_fuel; [apply read_sv_word_fuel|]. intros [[c1 w1] v].
  apply bind_fuel; [apply read_fuel|]. intros [cw d]. cbn [snd]. destruct d as [|b [|]]; discriminate.
Qed.

(* a data packet without a whole word cannot be packed *)
Lemma ffd_empty_unpackable : forall x y p cmd a1 block a3 d size,
  size < 4 -> packable (mkPkt x y p cmd a1 (ffd_arg2 block size) a3 d) = false.
Proof.
  intros x y p cmd a1 block a3 d size Hs. unfold packable. cbn [q_x q_y q_cmd q_a1 q_a2 q_a3].
  assert (H : word32 (ffd_arg2 block size) = false).
  { unfold word32, ffd_arg2.
    assert (Hneg : Z.lor (Z.shiftl block 16) (Z.shiftl (size / 4 - 1) 8) < 0).
    { apply Z.lor_neg. right. apply Z.shiftl_neg. assert (size / 4 < 1); [|lia].
      apply Z.div_lt_upper_bound; lia. }
    destruct (0 <=? Z.lor (Z.shiftl block 16) (Z.shiftl (size / 4 - 1) 8)) eqn:E; [apply Z.leb_le in E; lia|reflexivity]. }
  rewrite H. rewrite andb_false_r. reflexivity.
Qed.

Lemma send_ffd_fuel : forall fuel w pid data buffer pos block address,
  0 <= pos -> (Z.to_nat (zlen data - pos) < fuel)%nat ->
  send_ffd fuel w pid data buffer pos block address <> OutOfFuel.
Proof.
  induction fuel as [|k IH]; intros w pid data buffer pos block address Hp Hf.
  - cbn [send_ffd]. unfold ffd_continue. destruct (pos <? zlen data) eqn:E; [apply Z.ltb_lt in E; lia|discriminate].
  - cbn [send_ffd]. unfold ffd_continue. destruct (pos <? zlen data) eqn:E; [|discriminate].
    apply Z.ltb_lt in E. set (chunk := slice data pos (pos + buffer)).
    destruct (Z_lt_dec (zlen chunk) 4) as [Hsmall|Hbig].
    + unfold send_, send. rewrite ffd_empty_unpackable by exact Hsmall. discriminate.
    + apply bind_fuel; [apply send__fuel|]. intros w1. apply IH; unfold ffd_next_pos; lia.
Qed.

Lemma send_ffcs_all_fuel : forall fills w fr, send_ffcs_all w fills fr <> OutOfFuel.
Proof.
  induction fills as [|[region cores] fills IH]; intros w fr; [discriminate|].
  cbn [send_ffcs_all]. apply bind_fuel; [apply send__fuel|]. intros w1. apply IH.
Qed.

Lemma fill_one_fuel : forall c w aid flags data ts, fill_one c w aid flags data ts <> OutOfFuel.
Proof.
  intros. unfold fill_one. destruct (compress (cores_of_targets ts)); try discriminate.
  apply bind_fuel; [apply get_buffer_fuel|]. intros [[c1 w1] buffer].
  destruct (buffer =? 0); [discriminate|].
  apply bind_fuel; [apply send__fuel|]. intros w2.
  apply bind_fuel; [apply send_ffcs_all_fuel|]. intros w3.
  apply bind_fuel; [apply read_sv_word_fuel|]. intros [[c3 w4] base].
  apply bind_fuel; [apply send_ffd_fuel; [unfold ffd_pos0; lia|unfold ffd_pos0, zlen; lia]|]. intros w5.
  apply bind_fuel; [apply send__fuel|]. discriminate.
Qed.

Lemma flood_fill_aplx_fuel : forall bins am c w aid wait, flood_fill_aplx bins c w am aid wait <> OutOfFuel.
Proof.
  intros bins am. induction am as [|[b ts] r IH]; intros c w aid wait; [discriminate|].
  cbn [flood_fill_aplx]. destruct (nth_error bins (Z.to_nat b)); [|discriminate].
  apply bind_fuel; [apply fill_one_fuel|]. intros [c1 w1]. apply IH.
Qed.

Lemma check_cores_fuel : forall ps c w x y, check_cores c w x y ps <> OutOfFuel.
Proof.
  induction ps as [|p ps IH]; intros c w x y; [discriminate|]. cbn [check_cores].
  apply bind_fuel; [apply read_cpu_state_fuel|]. intros [[c1 w1] s].
  destruct (is_member s AppState_members); [|discriminate].
  apply bind_fuel; [apply IH|]. discriminate.
Qed.

Lemma check_targets_fuel : forall ts c w, check_targets c w ts <> OutOfFuel.
Proof.
  induction ts as [|[xy ps] ts IH]; intros c w; [discriminate|]. cbn [check_targets].
  apply bind_fuel; [apply check_cores_fuel|]. intros [[c1 w1] un].
  apply bind_fuel; [apply IH|]. discriminate.
Qed.

Lemma check_map_fuel : forall am c w, check_map c w am <> OutOfFuel.
Proof.
  induction am as [|[b ts] am IH]; intros c w; [discriminate|]. cbn [check_map].
  apply bind_fuel; [apply check_targets_fuel|]. intros [[c1 w1] un].
  apply bind_fuel; [apply IH|]. discriminate.
Qed.

Lemma count_cores_wait_fuel : forall w aid, count_cores_wait w aid <> OutOfFuel.
Proof.
  intros. unfold count_cores_wait. apply bind_fuel; [apply send_fuel|]. intros [w1 r]. cbn [snd].
  destruct r; discriminate.
Qed.

Lemma load_loop_fuel : forall fuel bins a total c w unl tries atts,
  (Z.to_nat (a_tries a + 1 - tries) < fuel)%nat ->
  load_loop fuel bins a total c w unl tries atts <> OutOfFuel.
Proof.
  induction fuel as [|k IH]; intros bins a total c w unl tries atts Hf; [lia|].
  cbn [load_loop]. destruct (negb (is_empty unl) && load_continue tries (a_tries a)) eqn:E; [|discriminate].
  apply andb_prop in E. destruct E as [_ E]. unfold load_continue in E. apply Z.leb_le in E.
  apply bind_fuel; [apply flood_fill_aplx_fuel|]. intros [c1 w1]. cbn [fst snd].
  apply bind_fuel.
  - destruct (a_count a); [|discriminate]. apply bind_fuel; [apply count_cores_wait_fuel|]. discriminate.
  - intros [w2 flag]. cbn [fst snd]. destruct flag.
    + apply IH. unfold load_next_tries. lia.
    + apply bind_fuel; [apply check_map_fuel|]. intros [[c2 w3] unl1]. apply IH. unfold load_next_tries. lia.
Qed.

Theorem load_application_fuel : forall bins c w am a, load_application bins c w am a <> OutOfFuel.
Proof.
  intros. unfold load_application. apply bind_fuel.
  - apply load_loop_fuel. unfold load_fuel, load_tries0. lia.
  - intros [[[c1 w1] unl] atts]. destruct (negb (is_empty unl)); [discriminate|].
    destruct (negb (a_wait a)); [|discriminate].
    apply bind_fuel; [apply send__fuel|]. discriminate.
Qed.
