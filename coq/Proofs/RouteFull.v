(* C03 -- route() for one net when the tree built by ner_net touches no dead link (no repair needed): the
   returned tree satisfies the property's whole sentence, on ANY machine (faults elsewhere allowed). *)
From Coq Require Import ZArith List Bool Lia.
Require Import Rig.Model.Base Rig.Model.Route Rig.Spec.Route Rig.Proofs.Route Rig.Proofs.RouteTree
        Rig.Proofs.RouteNer Rig.Proofs.RouteGeom Rig.Proofs.RouteMain.
Import ListNotations.
Open Scope Z_scope.

(* route_has_dead_links = False: every hop leaves a working chip over a working link *)
Lemma no_dead_links_hops : forall m t,
    has_dead_links m t = false ->
    forall p l c, In (p, Some l, c) (tree_hops t) -> link_alive m p l = true.
Proof.
  intros m. induction t as [v|c0 kids IH] using rtree_ind2; intros H p l c Hin.
  - destruct Hin.
  - apply in_hops_node in Hin. destruct Hin as [[rk sk] [Hk He]].
    simpl in H. rewrite Forall_forall in IH.
    assert (Hk' : (match rk with Some r => negb (link_alive m c0 r) | None => false end
                   || has_dead_links m sk) = false).
    { destruct ((match rk with Some r => negb (link_alive m c0 r) | None => false end
                 || has_dead_links m sk)) eqn:E; [|reflexivity].
      assert (X : existsb (fun k : option Z * rtree =>
                             (match fst k with Some r => negb (link_alive m c0 r) | None => false end)
                             || has_dead_links m (snd k)) kids = true).
      { apply existsb_exists. exists (rk, sk). split; [exact Hk | exact E]. }
      rewrite X in H. discriminate. }
    apply orb_false_iff in Hk'. destruct Hk' as [H1 H2].
    unfold hops_kid in He. cbn [fst snd] in He. destruct sk as [c1 ks1|v1]; [|destruct He].
    destruct He as [He|He].
    + inversion He; subst. apply negb_false_iff in H1. exact H1.
    + apply (IH _ Hk H2 p l c). exact He.
Qed.

(* the constraint scan of the model is the specification's "last constraint on the vertex" *)
Lemma last_cons_default' : forall (A : Type) (l : list A) (x d : A), last (x :: l) d = last l x.
Proof.
  intros A. induction l as [|a l IH]; intros x d; [reflexivity|].
  change (last (x :: a :: l) d) with (last (a :: l) d). rewrite (IH a d), (IH a x). reflexivity.
Qed.

Lemma endpoint_of_last : forall v cons acc,
    endpoint_of v cons acc = last (map (fun vr => Some (snd vr)) (filter (fun vr => fst vr =? v) cons)) acc.
Proof.
  intros v. induction cons as [|[v' r] cons IH]; intros acc; [reflexivity|].
  cbn [endpoint_of filter fst]. rewrite IH. rewrite (Z.eqb_sym v' v).
  destruct (v =? v'); [|reflexivity].
  cbn [map snd]. rewrite last_cons_default'. reflexivity.
Qed.

Lemma sink_routes_expected : forall v cons allocs rs,
    sink_routes v cons allocs = Ok rs -> rs = expected_routes v cons allocs.
Proof.
  intros v cons allocs rs H. unfold sink_routes in H. unfold expected_routes.
  rewrite endpoint_of_last in H.
  destruct (last (map (fun vr => Some (snd vr)) (filter (fun vr => fst vr =? v) cons)) None) as [r|].
  - inversion H. reflexivity.
  - destruct (zassoc v allocs) as [[a b]|]; [|inversion H; reflexivity].
    destruct (forallb (fun c => (0 <=? c) && (c <=? 17)) (map (fun i => a + i) (zrange (b - a))));
      [inversion H; reflexivity | discriminate].
Qed.

Lemma in_zrange_inv : forall n x, In x (zrange n) -> 0 <= x < n.
Proof.
  intros n x H. unfold zrange in H. apply in_map_iff in H. destruct H as [k [Hk Hin]].
  apply in_seq in Hin. lia.
Qed.

Lemma sink_routes_ok : forall v cons allocs,
    (forall a b, zassoc v allocs = Some (a, b) -> 0 <= a /\ b <= 18) ->
    exists rs, sink_routes v cons allocs = Ok rs.
Proof.
  intros v cons allocs Ha. unfold sink_routes.
  destruct (endpoint_of v cons None) as [r|]; [eexists; reflexivity|].
  destruct (zassoc v allocs) as [[a b]|]; [|eexists; reflexivity].
  destruct (Ha a b eq_refl) as [H0 H18].
  assert (F : forallb (fun c => (0 <=? c) && (c <=? 17)) (map (fun i => a + i) (zrange (b - a))) = true).
  { apply forallb_forall. intros c Hc. apply in_map_iff in Hc. destruct Hc as [i [Hi Hin]].
    apply in_zrange_inv in Hin. apply andb_true_iff. split; [apply Z.leb_le | apply Z.leb_le]; lia. }
  rewrite F. eexists. reflexivity.
Qed.

(* the children appended for one sink *)
Lemma attach_routes : forall c v rs t,
    let t' := fold_left (fun t r => attach c (r, RLeaf v) t) rs t in
    root_chip t' = root_chip t /\ (forall x, occ x t' = occ x t) /\
    (forall e, In e (tree_hops t') <-> In e (tree_hops t)) /\
    (forall e, In e (tree_leaves t') <->
               In e (tree_leaves t) \/ (In c (chips t) /\ exists r, In r rs /\ e = (c, r, v))).
Proof.
  intros c v. induction rs as [|r rs IH]; intros t; cbn [fold_left].
  - split; [reflexivity|]. split; [reflexivity|]. split; [tauto|]. intros e. split; [tauto|].
    intros [H|[_ [r [[] _]]]]. exact H.
  - destruct (IH (attach c (r, RLeaf v) t)) as [H1 [H2 [H3 H4]]]. cbv zeta in *.
    split; [rewrite H1; apply root_chip_attach|].
    split; [intros x; rewrite H2; apply occ_attach_leaf|].
    split; [intros e; rewrite H3; apply hops_attach_leaf|].
    intros e. rewrite H4, leaves_attach_leaf.
    assert (Hc : In c (chips (attach c (r, RLeaf v) t)) <-> In c (chips t)).
    { rewrite !occ_in, occ_attach_leaf. tauto. }
    rewrite Hc. split.
    + intros [[H|[Hin He]]|[Hin [r' [Hr' He]]]].
      * left. exact H.
      * right. split; [exact Hin|]. exists r. split; [left; reflexivity | exact He].
      * right. split; [exact Hin|]. exists r'. split; [right; exact Hr' | exact He].
    + intros [H|[Hin [r' [[Hr'|Hr'] He]]]].
      * left. left. exact H.
      * subst r'. left. right. split; assumption.
      * right. split; [exact Hin|]. exists r'. split; assumption.
Qed.

Lemma fold_forest_single : forall c v rs t,
    fold_left (fun f r => forest_attach c (r, RLeaf v) f) rs [t] =
    [fold_left (fun t r => attach c (r, RLeaf v) t) rs t].
Proof. intros c v. induction rs as [|r rs IH]; intros t; cbn [fold_left]; [reflexivity|]. apply IH. Qed.

Lemma add_sinks_ok : forall pl cons allocs vs t,
    (forall v, In v vs -> exists c, zassoc v pl = Some c /\ In c (chips t)) ->
    (forall v, In v vs -> exists rs, sink_routes v cons allocs = Ok rs) ->
    exists t', add_sinks vs pl cons allocs [t] = Ok [t'] /\
               root_chip t' = root_chip t /\ (forall x, occ x t' = occ x t) /\
               (forall e, In e (tree_hops t') <-> In e (tree_hops t)) /\
               (forall c r v, In (c, r, v) (tree_leaves t') <->
                              In (c, r, v) (tree_leaves t) \/
                              (In v vs /\ zassoc v pl = Some c /\
                               exists rs, sink_routes v cons allocs = Ok rs /\ In r rs)).
Proof.
  intros pl cons allocs. induction vs as [|v vs IH]; intros t Hpl Hrs.
  - exists t. cbn [add_sinks]. split; [reflexivity|]. split; [reflexivity|]. split; [reflexivity|].
    split; [tauto|]. intros c r v. split; [tauto|]. intros [H|[[] _]]. exact H.
  - destruct (Hpl v (or_introl eq_refl)) as [c [Hc Hin]]. destruct (Hrs v (or_introl eq_refl)) as [rs Hr].
    cbn [add_sinks]. rewrite Hc. cbn [forest_chips flat_map]. rewrite app_nil_r.
    assert (Hm : chip_mem c (chips t) = true) by (apply rt_chip_mem_In; exact Hin).
    rewrite Hm. cbn [negb]. rewrite Hr. cbn [bind]. rewrite fold_forest_single.
    destruct (attach_routes c v rs t) as [A1 [A2 [A3 A4]]]. cbv zeta in *.
    set (t1 := fold_left (fun t r => attach c (r, RLeaf v) t) rs t) in *.
    destruct (IH t1) as [t' [E [B1 [B2 [B3 B4]]]]].
    + intros v0 Hv0. destruct (Hpl v0 (or_intror Hv0)) as [c0 [Hc0 Hin0]]. exists c0. split; [exact Hc0|].
      apply occ_in. rewrite A2. apply occ_in. exact Hin0.
    + intros v0 Hv0. apply Hrs. right. exact Hv0.
    + exists t'. split; [exact E|]. split; [rewrite B1; exact A1|].
      split; [intros x; rewrite B2; apply A2|]. split; [intros e; rewrite B3; apply A3|].
      intros c0 r0 v0. rewrite B4, A4. split.
      * intros [[H|[_ [r' [Hr' He]]]]|[Hv0 H]].
        -- left. exact H.
        -- inversion He; subst. right. split; [left; reflexivity|]. split; [exact Hc|]. exists rs. split; assumption.
        -- right. destruct H as [H1 H2]. split; [right; exact Hv0|]. split; assumption.
      * intros [H|[[Hv0|Hv0] [H1 [rs0 [H2 H3]]]]].
        -- left. left. exact H.
        -- subst v0. rewrite Hc in H1. inversion H1; subst c0. rewrite Hr in H2. inversion H2; subst rs0.
           left. right. split; [exact Hin|]. exists r0. split; [exact H3 | reflexivity].
        -- right. split; [exact Hv0|]. split; [exact H1|]. exists rs0. split; assumption.
Qed.

Lemma in_sink_reqs : forall sinks pl cons allocs v c rs,
    In (v, c, rs) (sink_reqs sinks pl cons allocs) <->
    In v sinks /\ zassoc v pl = Some c /\ rs = expected_routes v cons allocs.
Proof.
  intros sinks pl cons allocs v c rs. unfold sink_reqs. rewrite in_flat_map. split.
  - intros [v0 [Hv0 Hin]]. destruct (zassoc v0 pl) as [c0|] eqn:E; [|destruct Hin].
    destruct Hin as [Hin|[]]. inversion Hin; subst. auto.
  - intros [Hv [Hc Hrs]]. exists v. split; [exact Hv|]. rewrite Hc. left. subst rs. reflexivity.
Qed.

(* U (no-repair branch of route): any machine, any faults, as long as the tree of ner_net uses no dead
   link -- which is what route() tests before it calls avoid_dead_links *)
Theorem route_valid_no_repair :
  forall m source sinks dests pl cons allocs radius s order src,
    1 <= rm_w m -> 1 <= rm_h m ->
    zassoc source pl = Some src -> in_range (rm_w m) (rm_h m) src ->
    Forall (in_range (rm_w m) (rm_h m)) dests -> stream_ok s ->
    (forall v, In v sinks -> exists c, zassoc v pl = Some c /\ In c dests) ->
    (forall v a b, In v sinks -> zassoc v allocs = Some (a, b) -> 0 <= a /\ b <= 18) ->
    (forall tr, ner_net src dests (rm_w m) (rm_h m) (has_wrap m) radius s = Ok tr ->
                has_dead_links m (fst tr) = false) ->
    exists t, route_net m source sinks dests pl cons allocs radius s order = Ok t /\
              ValidTree m src (sink_reqs sinks pl cons allocs) t.
Proof.
  intros m source sinks dests pl cons allocs radius s order src Hw Hh Hsrc Hsr Hd Hs Hsinks Hal Hnd.
  apply sok_stream_ok in Hs.
  set (w := rm_w m) in *. set (h := rm_h m) in *.
  (* the tree of ner_net: adjacency of every hop, whatever has_wrap is *)
  assert (N : exists t route,
             ner_net src dests w h (has_wrap m) radius s = Ok (t, route)
             /\ root_chip t = Some src /\ NoDup (chips t)
             /\ (forall p r c, In (p, r, c) (tree_hops t) -> exists l, r = Some l /\ adjacent m p l c)
             /\ (forall d, In d dests -> In d (chips t))
             /\ (forall e, ~ In e (tree_leaves t))).
  { destruct (has_wrap m).
    - destruct (ner_net_tree_gen (adjacent (perfect w h)) src dests w h true radius s sok
                                 (geom_torus w h Hw Hh) Hsr Hd Hs)
        as [t [route [E [Hroot [Hnod [Hhops [Hdest [_ [_ Hnl]]]]]]]]].
      exists t, route. repeat (split; [assumption|]). exact Hnl.
    - destruct (ner_net_tree_gen (mesh_adjacent w h) src dests w h false radius s sok
                                 (geom_mesh w h Hw Hh) Hsr Hd Hs)
        as [t [route [E [Hroot [Hnod [Hhops [Hdest [_ [_ Hnl]]]]]]]]].
      exists t, route. split; [exact E|]. split; [exact Hroot|]. split; [exact Hnod|].
      split; [|split; [exact Hdest | exact Hnl]].
      intros p r c Hin. destruct (Hhops p r c Hin) as [l [Hr [dx [dy [Hv [Hc [Hx Hy]]]]]]].
      exists l. split; [exact Hr|]. exists dx, dy. split; [exact Hv|]. fold w h. rewrite Hc.
      rewrite Hc in Hx, Hy. cbn [fst snd] in Hx, Hy. rewrite !Z.mod_small by lia. reflexivity. }
  destruct N as [t [route [E [Hroot [Hnod [Hhops [Hdest Hnl]]]]]]].
  pose proof (Hnd (t, route) E) as Hdl. cbn [fst] in Hdl.
  destruct (add_sinks_ok pl cons allocs sinks t) as [t' [Ea [B1 [B2 [B3 B4]]]]].
  { intros v Hv. destruct (Hsinks v Hv) as [c [Hc Hin]]. exists c. split; [exact Hc | apply Hdest; exact Hin]. }
  { intros v Hv. apply sink_routes_ok. intros a b Hab. apply (Hal v a b Hv Hab). }
  exists t'. split.
  - unfold route_net. rewrite Hsrc. fold w h. rewrite E. cbn [bind fst]. rewrite Hdl. cbn [bind].
    rewrite Ea. cbn [bind]. reflexivity.
  - unfold ValidTree. split; [rewrite B1; exact Hroot|]. split.
    { apply nodup_occ. intros x. rewrite B2. apply (proj1 (nodup_occ t) Hnod). }
    split.
    { intros p r c Hin. apply B3 in Hin. destruct (Hhops p r c Hin) as [l [Hr Hadj]]. exists l.
      split; [exact Hr|]. split; [|exact Hadj]. apply rt_link_alive_iff. subst r.
      apply (no_dead_links_hops m t Hdl p l c Hin). }
    split.
    { intros c r v Hin. apply B4 in Hin. destruct Hin as [Hin|[Hv [Hc [rs [Hrs Hr]]]]].
      - exfalso. exact (Hnl _ Hin).
      - exists rs. split; [|exact Hr]. apply in_sink_reqs. split; [exact Hv|]. split; [exact Hc|].
        apply sink_routes_expected. exact Hrs. }
    { intros v c rs r Hin Hr. apply in_sink_reqs in Hin. destruct Hin as [Hv [Hc Hrs]].
      apply B4. right. split; [exact Hv|]. split; [exact Hc|].
      destruct (sink_routes_ok v cons allocs (fun a b Hab => Hal v a b Hv Hab)) as [rs' Hrs'].
      exists rs'. split; [exact Hrs'|]. rewrite (sink_routes_expected _ _ _ _ Hrs'), <- Hrs. exact Hr. }
Qed.

(* an instance on a machine WITH faults (a dead chip and a dead link away from the tree): the hypotheses of
   route_valid_no_repair hold and the result carries the two leaves of the (duplicated) sink *)
Definition ex_faulty : rmachine :=
  {| rm_w := 3; rm_h := 3; rm_dead_chips := [(2, 2)]; rm_dead_links := [((0, 1), 0)] |}.

Lemma ex_route_no_repair :
  (forall tr, ner_net (0, 0) [(1, 1)] 3 3 (has_wrap ex_faulty) 20 [] = Ok tr ->
              has_dead_links ex_faulty (fst tr) = false)
  /\ route_net ex_faulty 0 [1; 1] [(1, 1)] [(0, (0, 0)); (1, (1, 1))] [] [(1, (1, 3))] 20 [] None
     = Ok (RNode (0, 0) [(Some 1, RNode (1, 1) [(Some 7, RLeaf 1); (Some 8, RLeaf 1);
                                                (Some 7, RLeaf 1); (Some 8, RLeaf 1)])])
  /\ sink_reqs [1; 1] [(0, (0, 0)); (1, (1, 1))] [] [(1, (1, 3))]
     = [(1, (1, 1), [Some 7; Some 8]); (1, (1, 1), [Some 7; Some 8])].
Proof.
  split; [|split; vm_compute; reflexivity].
  intros tr H. vm_compute in H. inversion H; subst. vm_compute. reflexivity.
Qed.

(* on a fault-free machine route_has_dead_links is False for the tree of ner_net, so the statement above
   is the whole story there *)
Lemma has_dead_links_false : forall m t,
    (forall p r c, In (p, r, c) (tree_hops t) -> exists l, r = Some l /\ link_alive m p l = true) ->
    (forall e, ~ In e (tree_leaves t)) ->
    has_dead_links m t = false.
Proof.
  intros m. induction t as [v|c0 kids IH] using rtree_ind2; intros Hh Hl; [reflexivity|].
  cbn [has_dead_links]. rewrite Forall_forall in IH.
  destruct (existsb _ kids) eqn:E; [|reflexivity]. exfalso.
  apply existsb_exists in E. destruct E as [[rk sk] [Hk He]]. cbn [fst snd] in He.
  destruct sk as [c1 ks1|v1].
  - assert (Hin : In (c0, rk, c1) (tree_hops (RNode c0 kids))).
    { apply in_hops_node. exists (rk, RNode c1 ks1). split; [exact Hk|]. unfold hops_kid. simpl. left. reflexivity. }
    destruct (Hh _ _ _ Hin) as [l [Hr Hal]]. subst rk. rewrite Hal in He. cbn [negb orb] in He.
    change (has_dead_links m (RNode c1 ks1)) with (has_dead_links m (snd (Some l, RNode c1 ks1))) in He.
    rewrite (IH _ Hk) in He; [discriminate| |].
    + intros p r c Hin'. apply (Hh p r c). apply in_hops_node. exists (Some l, RNode c1 ks1). split; [exact Hk|].
      unfold hops_kid. simpl snd. right. exact Hin'.
    + intros e Hin'. apply (Hl e). apply in_leaves_node. exists (Some l, RNode c1 ks1). split; [exact Hk|].
      unfold leaves_kid. simpl snd. exact Hin'.
  - apply (Hl (c0, rk, v1)). apply in_leaves_node. exists (rk, RLeaf v1). split; [exact Hk|].
    unfold leaves_kid. simpl. left. reflexivity.
Qed.

Theorem route_valid_fault_free :
  forall m source sinks dests pl cons allocs radius s order src,
    1 <= rm_w m -> 1 <= rm_h m -> fault_free m (has_wrap m) ->
    zassoc source pl = Some src -> in_range (rm_w m) (rm_h m) src ->
    Forall (in_range (rm_w m) (rm_h m)) dests -> stream_ok s ->
    (forall v, In v sinks -> exists c, zassoc v pl = Some c /\ In c dests) ->
    (forall v a b, In v sinks -> zassoc v allocs = Some (a, b) -> 0 <= a /\ b <= 18) ->
    exists t, route_net m source sinks dests pl cons allocs radius s order = Ok t /\
              ValidTree m src (sink_reqs sinks pl cons allocs) t.
Proof.
  intros m source sinks dests pl cons allocs radius s order src Hw Hh Hff Hsrc Hsr Hd Hs Hsinks Hal.
  apply (route_valid_no_repair m source sinks dests pl cons allocs radius s order src); auto.
  intros [t route] E. cbn [fst].
  destruct (ner_net_tree m (has_wrap m) src dests radius s Hw Hh Hff Hsr Hd Hs)
    as [t' [route' [E' [_ [_ [Hhops _]]]]]].
  rewrite E in E'. inversion E'; subst t' route'.
  apply has_dead_links_false.
  - intros p r c Hin. destruct (Hhops p r c Hin) as [l [Hr [Hwl _]]]. exists l. split; [exact Hr|].
    apply rt_link_alive_iff. exact Hwl.
  - (* the tree of ner_net has no leaves *)
    apply sok_stream_ok in Hs.
    destruct (has_wrap m).
    + destruct (ner_net_tree_gen (adjacent (perfect (rm_w m) (rm_h m))) src dests (rm_w m) (rm_h m) true radius s sok
                                 (geom_torus _ _ Hw Hh) Hsr Hd Hs) as [t2 [r2 [E2 [_ [_ [_ [_ [_ [_ Hnl]]]]]]]]].
      rewrite E in E2. inversion E2; subst. exact Hnl.
    + destruct (ner_net_tree_gen (mesh_adjacent (rm_w m) (rm_h m)) src dests (rm_w m) (rm_h m) false radius s sok
                                 (geom_mesh _ _ Hw Hh) Hsr Hd Hs) as [t2 [r2 [E2 [_ [_ [_ [_ [_ [_ Hnl]]]]]]]]].
      rewrite E in E2. inversion E2; subst. exact Hnl.
Qed.
