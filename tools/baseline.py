#!/usr/bin/env python3
"""Run the repository's pinned baseline (command from /root/.vp/BASELINE.json) with the verification
guard OFF and require every stable_pass test to pass.  Exit 0 iff they all do."""
import json, os, subprocess, sys, tempfile
import xml.etree.ElementTree as ET
b = json.load(open("/root/.vp/BASELINE.json"))
out = tempfile.mktemp(suffix=".xml")
env = dict(os.environ)
env.pop("RIG_VERIF", None)
repo = sys.argv[1] if len(sys.argv) > 1 else "/repo"
cmd = b["cmd"].replace("<file>", out).replace("cd /repo", "cd " + repo)
subprocess.run(cmd, shell=True, env=env, stdout=subprocess.DEVNULL, stderr=subprocess.DEVNULL)
passed = set()
for tc in ET.parse(out).getroot().iter("testcase"):
    if not any(ch.tag in ("failure", "error", "skipped") for ch in tc):
        passed.add("%s::%s" % (tc.get("classname"), tc.get("name")))
os.unlink(out)
missing = [t for t in b["stable_pass"] if t not in passed]
print("baseline: %d/%d stable tests pass (%d passed in total)" % (len(b["stable_pass"]) - len(missing), len(b["stable_pass"]), len(passed)))
for t in missing[:20]:
    print("  NOT PASSING:", t)
sys.exit(1 if missing else 0)
