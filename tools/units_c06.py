UNITS = {
    "GenSCP": dict(
        props=["C06", "C07", "C09"],
        dumper="dump_c06.py"),
}
