"""Drive rig's MemoryIO / SlicedMemoryIO on JSON-described histories (runs under /venv/bin/python,
PYTHONPATH=/repo).  The machine controller is a recording fake backed by a byte memory: it logs every
read/write/free it is asked for (address, length) and serves reads from the bytes last written.  It can
be told to raise TransportError during the next transfer (logged as an attempt; nothing is transferred).

Operations beyond the plain methods: "fread"/"fwrite" = read/write during which the controller raises (if
the call gets as far as a transfer); "sread"/"swrite" = read/write with TruncationWarning turned into an
exception (warnings filter "error"); "ffree" = free() during which sdram_free raises; [vid, "drop"] = the caller drops its only reference to that
view (then gc.collect()); "enter"/"exit" = a genuine `with view as g:` statement entered at
"enter" and left at "exit", normally (None) or by an exception raised in its body ("body": ValueError,
"truncation": a TruncationWarning, "prev": the exception the previous failing operation raised)."""
import gc
import sys
import warnings

from rig.machine_control.machine_controller import MachineController, MemoryIO, TruncationWarning


class TransportError(Exception):
    pass


class FakeController(object):
    def __init__(self, lo, data):
        self.mem = {lo + i: b for i, b in enumerate(data)}
        self.log = []
        self.attempts = []
        self.fail_next = False

    def args(self, *xyp):
        if xyp != ((1, 2, 0) if len(xyp) == 3 else (1, 2)):
            self.log.append(["args"] + [repr(a) for a in xyp])      # not the chip / core the view was made for

    def read(self, address, length, x, y, p=0):
        self.args(x, y, p)
        if self.fail_next:
            self.fail_next = False
            self.attempts.append(["r", address, length])
            raise TransportError("timeout, nothing was read")
        self.log.append(["r", address, length])
        return bytes(bytearray(self.mem.get(address + i, 0) for i in range(length)))

    def write(self, address, data, x, y, p=0):
        self.args(x, y, p)
        data = bytes(data)
        if self.fail_next:
            self.fail_next = False
            self.attempts.append(["w", address, list(bytearray(data))])
            raise TransportError("timeout, nothing was written")
        self.log.append(["w", address, list(bytearray(data))])
        for i, b in enumerate(bytearray(data)):
            self.mem[address + i] = b

    def sdram_free(self, address, x=None, y=None):
        self.args(x, y)
        if self.fail_next:
            self.fail_next = False
            self.attempts.append(["f", address])
            raise TransportError("timeout, nothing was freed")
        self.log.append(["f", address])


def value(r):
    if r is None:
        return ["none"]
    if isinstance(r, bool):
        return ["other", "bool"]
    if isinstance(r, int):
        return ["int", r]
    if isinstance(r, (bytes, bytearray)):
        return ["bytes", list(bytearray(r))]
    return ["other", "value:" + type(r).__name__]


def block(view):
    """A real with-statement on `view`, held open across operations: next() enters it, send(None) leaves
    it normally, throw(exc) raises exc inside its body."""
    with view as g:
        yield g


def leave(gen, exc):
    """Leave the with-statement; -> None if it was left as asked (normally, or with exc propagating),
    otherwise the exception that came out instead (e.g. OSError from close())."""
    try:
        if exc is None:
            gen.send(None)
        else:
            gen.throw(exc)
    except StopIteration:
        return None
    except BaseException as e:      # noqa
        if e is exc:
            return None
        raise
    return None


def run_case(c):
    mc = FakeController(c["lo"], c["mem"])
    if c.get("via") == "filelike":
        # through the entry point: a real MachineController (no traffic: its transport methods are the fake's)
        # whose sdram_alloc returns the block
        real = MachineController("127.0.0.1")
        asked = []
        real.sdram_alloc = lambda size, tag, x, y, app_id, clear: (asked.append([size, tag, x, y, app_id, clear]),
                                                                   c["start"])[1]
        real.read, real.write, real.sdram_free = mc.read, mc.write, mc.sdram_free
        if c.get("context"):
            with real(x=1, y=2, app_id=77):
                root = real.sdram_alloc_as_filelike(c["end"] - c["start"], tag=3)
            want = [c["end"] - c["start"], 3, 1, 2, 77, False]
        else:
            root = real.sdram_alloc_as_filelike(c["end"] - c["start"], x=1, y=2, app_id=30)
            want = [c["end"] - c["start"], 0, 1, 2, 30, False]
        if asked != [want] or type(root) is not MemoryIO:
            return ["ok", [[["other", "sdram_alloc called with %r" % (asked,)], 0, [], None, []]] * len(c["ops"]), c["mem"], []]
        views = [root]
    else:
        views = [MemoryIO(mc, 1, 2, c["start"], c["end"])]
    blocks = {}                         # view number -> stack of open with-statements
    last_exc = nv = g = gen = None
    out = []
    for o in c["ops"]:
        mc.log = []
        mc.attempts = []
        mc.fail_next = False
        view = None
        made = False
        with warnings.catch_warnings(record=True) as w:
            warnings.simplefilter("always")
            try:
                if o[0] == "free":
                    res = value(views[0].free())
                elif o[0] == "ffree":                             # sdram_free raises during this free()
                    mc.fail_next = True
                    res = value(views[0].free())
                elif o[1] == "drop":
                    # the caller forgets this view: no reference to it remains in the driver
                    views[o[0]] = None
                    view = nv = g = gen = None
                    last_exc = None
                    gc.collect()
                    res = ["none"]
                else:
                    view = views[o[0]]
                    kind = o[1]
                    if kind in ("fread", "fwrite"):
                        mc.fail_next = True
                        kind = kind[1:]
                    elif kind in ("sread", "swrite"):
                        warnings.simplefilter("error", TruncationWarning)
                        kind = kind[1:]
                    if view is None:
                        res = ["noview"]
                        if kind == "slice" and o[5] is not None:
                            views.append(None)
                    elif kind == "seek":
                        res = value(view.seek(o[2]) if o[3] is None else view.seek(o[2], o[3]))
                    elif kind == "read":
                        res = value(view.read() if o[2] is None else view.read(o[2]))
                    elif kind == "write":
                        res = value(view.write(bytes(bytearray(o[2]))))
                    elif kind == "slice":
                        made = o[5] is not None                   # the generator numbered a new view
                        nv = view[slice(o[2], o[3], o[4])]
                        res = ["view", nv._start_address, nv._end_address, len(nv)]
                        if made:
                            views.append(nv)
                            made = False
                    elif kind == "index":
                        nv = view[o[2]]
                        res = ["view", nv._start_address, nv._end_address, len(nv)]
                    elif kind == "tell":
                        res = value(view.tell())
                    elif kind == "len":
                        res = value(len(view))
                    elif kind == "address":
                        res = value(view.address)
                        if res[0] == "int":
                            res[0] = "addr"
                    elif kind == "flush":
                        res = value(view.flush())
                    elif kind == "close":
                        res = value(view.close())
                    elif kind == "enter":
                        gen = block(view)
                        g = next(gen)
                        blocks.setdefault(o[0], []).append(gen)
                        res = ["none"] if g is view else ["other", "enter-returned-another-object"]
                    elif kind == "exit":
                        exc = None
                        if o[2] == "body":
                            exc = ValueError("raised in the body of the with block")
                        elif o[2] == "truncation":
                            exc = TruncationWarning("raised in the body of the with block")
                        elif o[2] == "prev":
                            exc = last_exc if last_exc is not None else TransportError("earlier failure")
                        if blocks.get(o[0]):
                            leave(blocks[o[0]].pop(), exc)
                            res = ["none"]
                        else:                                     # no block open: the protocol by hand
                            r = view.__exit__(*((None, None, None) if exc is None
                                                else (type(exc), exc, exc.__traceback__)))
                            res = ["none"] if not r else ["other", "exit-swallows-the-exception"]
                    else:
                        res = ["other", "unknown-op"]
            except TransportError as e:
                last_exc = e
                res = ["err", 2]
            except TruncationWarning as e:
                last_exc = e
                res = ["err", 3]
            except OSError as e:
                last_exc = e
                res = ["err", 0]
            except ValueError as e:
                last_exc = e
                res = ["err", 1]
            except Exception as e:          # noqa
                last_exc = e
                res = ["other", type(e).__name__]
            if made:
                views.append(None)          # the slice that was to create this view failed
        mc.fail_next = False
        nwarn = sum(1 for x in w if issubclass(x.category, TruncationWarning))
        calls, attempts = mc.log, mc.attempts
        mc.log, mc.attempts = [], []
        probe = None
        if view is not None:
            try:
                with warnings.catch_warnings():
                    warnings.simplefilter("ignore")
                    probe = view.tell()
            except Exception:               # noqa
                probe = None
        out.append([res, nwarn, calls, probe, attempts])
    final = [mc.mem.get(c["lo"] + i, 0) for i in range(len(c["mem"]))]
    stray = sorted(a for a in mc.mem if not (c["lo"] <= a < c["lo"] + len(c["mem"])))
    return ["ok", out, final, stray]


if __name__ == "__main__":
    import implutil
    implutil.run_cases(run_case, per_case_s=5)
