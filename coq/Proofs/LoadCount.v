(* C09: the count diagnostic.  If no core other than the named ones waits under the app id and every
   named core either holds its binary (waiting) or is not waiting at all, then "the number of cores
   waiting under the app id equals the number of named cores" means that every named core is loaded. *)
From Coq Require Import ZArith List Bool Lia Permutation.
Require Import Rig.Generated.GenLoad Rig.Model.Base Rig.Model.Regions Rig.Spec.Regions Rig.Model.Load Rig.Spec.Load.
Require Import Rig.Proofs.LoadBits Rig.Proofs.LoadMachine.
Import ListNotations.
Open Scope Z_scope.

(* ---------------------------------------------------------------- numbering the cores of a machine *)
Fixpoint number {A} (i : nat) (l : list A) : list (nat * A) :=
  match l with [] => [] | a :: r => (i, a) :: number (S i) r end.

Lemma number_snd : forall A (l : list A) i, map snd (number i l) = l.
Proof. induction l as [|a l IH]; intros i; [reflexivity|]. cbn. rewrite IH. reflexivity. Qed.

Lemma number_In : forall A (l : list A) i j a,
  In (j, a) (number i l) -> (i <= j)%nat /\ nth_error l (j - i) = Some a.
Proof.
  induction l as [|b l IH]; intros i j a H; [destruct H|]. cbn [number] in H. destruct H as [H|H].
  - inversion H; subst. split; [lia|]. rewrite Nat.sub_diag. reflexivity.
  - apply IH in H. destruct H as [Hle Hn]. split; [lia|].
    replace (j - i)%nat with (S (j - S i)) by lia. exact Hn.
Qed.

Lemma number_fst_NoDup : forall A (l : list A) i, NoDup (map fst (number i l)).
Proof.
  induction l as [|b l IH]; intros i; [constructor|]. cbn [number map fst]. constructor; [|apply IH].
  intros Hin. apply in_map_iff in Hin. destruct Hin as [[j a] [Hj Hin]]. cbn [fst] in Hj. subst j.
  apply number_In in Hin. lia.
Qed.

Definition enum_chip (e : chip * chip_st) : list (core * core_st) :=
  map (fun ia => ((fst (fst e), snd (fst e), Z.of_nat (fst ia)), snd ia)) (number 0 (ch_cores (snd e))).

Definition enum (cs : list (chip * chip_st)) : list (core * core_st) := flat_map enum_chip cs.

Lemma enum_snd : forall cs, map snd (enum cs) = all_cores cs.
Proof.
  induction cs as [|e cs IH]; [reflexivity|]. unfold enum, all_cores in *. cbn [flat_map]. rewrite map_app, IH.
  f_equal. unfold enum_chip. rewrite map_map. cbn [snd]. apply number_snd.
Qed.

Lemma cassoc_In : forall (cs : list (chip * chip_st)) k c,
  NoDup (map fst cs) -> In (k, c) cs -> cassoc k cs = Some c.
Proof.
  induction cs as [|[k' c'] cs IH]; intros k c Hnd Hin; [destruct Hin|].
  cbn [map fst] in Hnd. inversion Hnd as [|? ? Hnin Hnd']; subst. cbn [cassoc]. destruct Hin as [H|H].
  - inversion H; subst. rewrite chip_eqb_refl. reflexivity.
  - destruct (chip_eqb k k') eqn:E.
    + apply chip_eqb_eq in E. subst k'. exfalso. apply Hnin. apply in_map_iff. exists (k, c). split; [reflexivity|exact H].
    + apply IH; assumption.
Qed.

Lemma enum_core_at : forall m c s, NoDup (map fst (m_chips m)) ->
  In (c, s) (enum (m_chips m)) -> core_at m c = Some s.
Proof.
  intros m c s Hnd Hin. unfold enum in Hin. apply in_flat_map in Hin. destruct Hin as [[[x y] ch] [He Hin]].
  unfold enum_chip in Hin. apply in_map_iff in Hin. destruct Hin as [[i a] [Heq Hin]]. cbn [fst snd] in Heq.
  inversion Heq; subst c s. clear Heq. apply number_In in Hin. destruct Hin as [_ Hn]. rewrite Nat.sub_0_r in Hn.
  unfold core_at. destruct (Z.of_nat i <? 0) eqn:E; [apply Z.ltb_lt in E; lia|].
  rewrite (cassoc_In _ _ _ Hnd He). rewrite Nat2Z.id. exact Hn.
Qed.

Lemma NoDup_app_intro : forall A (a b : list A),
  NoDup a -> NoDup b -> (forall x, In x a -> ~ In x b) -> NoDup (a ++ b).
Proof.
  intros A a b Ha Hb Hd. induction a as [|x a IH]; [exact Hb|]. cbn [app]. inversion Ha; subst. constructor.
  - intros Hin. apply in_app_or in Hin. destruct Hin as [Hin|Hin]; [contradiction|].
    apply (Hd x); [left; reflexivity|exact Hin].
  - apply IH; [assumption|intros z Hz; apply Hd; right; exact Hz].
Qed.

Lemma enum_fst_NoDup : forall cs, NoDup (map fst cs) -> NoDup (map fst (enum cs)).
Proof.
  induction cs as [|[[x y] ch] cs IH]; intros Hnd; [constructor|].
  cbn [map fst] in Hnd. inversion Hnd as [|? ? Hnin Hnd']; subst.
  unfold enum. cbn [flat_map]. rewrite map_app. fold (enum cs).
  assert (Hd : forall c, In c (map fst (enum_chip (x, y, ch))) -> ~ In c (map fst (enum cs))).
  { intros c H1 H2. apply in_map_iff in H1. destruct H1 as [[c1 s1] [E1 H1]]. cbn [fst] in E1. subst c1.
    unfold enum_chip in H1. apply in_map_iff in H1. destruct H1 as [[i a] [Heq _]]. cbn [fst snd] in Heq.
    inversion Heq; subst c. clear Heq.
    apply in_map_iff in H2. destruct H2 as [[c2 s2] [E2 H2]]. cbn [fst] in E2. subst c2.
    unfold enum in H2. apply in_flat_map in H2. destruct H2 as [[[x' y'] ch'] [He H2]].
    unfold enum_chip in H2. apply in_map_iff in H2. destruct H2 as [[j b] [Heq _]]. cbn [fst snd] in Heq.
    inversion Heq; subst x' y'. apply Hnin. apply in_map_iff. exists (x, y, ch'). split; [reflexivity|exact He]. }
  assert (Hn1 : NoDup (map fst (enum_chip (x, y, ch)))).
  { unfold enum_chip. rewrite map_map. cbn [fst snd].
    assert (G : forall l : list (nat * core_st), NoDup (map fst l) ->
                NoDup (map (fun ia : nat * core_st => (x, y, Z.of_nat (fst ia))) l)).
    { induction l as [|[i a] l IHl]; intros H; [constructor|]. cbn [map fst] in *. inversion H as [|? ? Hni Hr]; subst.
      constructor; [|apply IHl; exact Hr]. intros Hin. apply in_map_iff in Hin. destruct Hin as [[j b] [Heq Hin]].
      cbn [fst] in Heq. inversion Heq. apply Nat2Z.inj in H1. subst j. apply Hni. apply in_map_iff.
      exists (i, b). split; [reflexivity|exact Hin]. }
    apply G. apply number_fst_NoDup. }
  apply NoDup_app_intro; [exact Hn1|exact (IH Hnd')|exact Hd].
Qed.

Lemma NoDup_map_filter : forall A B (f : A -> B) (g : A -> bool) l, NoDup (map f l) -> NoDup (map f (filter g l)).
Proof.
  intros A B f g l. induction l as [|a l IH]; intros H; [constructor|]. cbn [map filter] in *.
  inversion H as [|? ? Hnin Hnd]; subst. destruct (g a); [|apply IH; exact Hnd].
  cbn [map]. constructor; [|apply IH; exact Hnd]. intros Hin. apply Hnin.
  apply in_map_iff in Hin. destruct Hin as [a' [Ha' Hin]]. apply filter_In in Hin. destruct Hin as [Hin _].
  apply in_map_iff. exists a'. split; assumption.
Qed.

(* ---------------------------------------------------------------- the count *)
Definition waiting_under (aid : Z) (s : core_st) : bool :=
  (cs_state s =? STATE_WAIT) && app_match 255 aid s.

Lemma count_state_enum : forall aid cs,
  count_state STATE_WAIT 255 aid cs = zlen (filter (fun e => waiting_under aid (snd e)) (enum cs)).
Proof.
  intros aid cs. unfold count_state. rewrite <- enum_snd. unfold zlen. f_equal.
  induction (enum cs) as [|e l IH]; [reflexivity|]. cbn [map filter]. unfold waiting_under at 1.
  destruct ((cs_state (snd e) =? STATE_WAIT) && app_match 255 aid (snd e)); cbn [length]; rewrite IH; reflexivity.
Qed.

Lemma waiting_under_spec : forall aid s, core_wf s -> 0 <= aid < 256 ->
  waiting_under aid s = true <-> cs_state s = STATE_WAIT /\ cs_app s = aid.
Proof.
  intros aid s [_ Ha] Haid. unfold waiting_under, app_match. rewrite andb_true_iff, !Z.eqb_eq.
  rewrite (land_255 (cs_app s) Ha), (land_255 aid Haid). reflexivity.
Qed.

Lemma core_count_named : forall am, core_count am = zlen (named am).
Proof.
  induction am as [|[b ts] r IH]; [reflexivity|]. unfold core_count in *. cbn [map fold_right fst snd].
  rewrite IH. unfold named. cbn [flat_map fst snd]. unfold zlen. rewrite app_length, map_length.
  rewrite Nat2Z.inj_add. f_equal. clear. induction ts as [|[xy ps] ts IH]; [reflexivity|].
  cbn [map fold_right snd]. rewrite IH. unfold cores_of_targets. cbn [flat_map fst snd].
  rewrite app_length, map_length. unfold zlen. rewrite Nat2Z.inj_add. reflexivity.
Qed.

Lemma core_eq_dec : forall a b : core, {a = b} + {a <> b}.
Proof. intros [[x y] p] [[x' y'] p']. repeat decide equality. Defined.

(* the counting argument *)
Theorem count_means_all_loaded : forall bins m am aid,
  machine_wf m -> 0 <= aid < 256 -> NoDup (map snd (named am)) ->
  (forall b c, In (b, c) (named am) -> ~ in_wait m c \/ holds bins m aid STATE_WAIT b c) ->
  (forall c s, ~ In c (map snd (named am)) -> core_at m c = Some s ->
               ~ (cs_state s = STATE_WAIT /\ cs_app s = aid)) ->
  core_count am = count_state STATE_WAIT 255 aid (m_chips m) ->
  forall b c, In (b, c) (named am) -> holds bins m aid STATE_WAIT b c.
Proof.
  intros bins m am aid Hm Haid Hnd Hnamed Hother Hcount.
  destruct Hm as (Hkeys & Hcores & _).
  set (W := map fst (filter (fun e => waiting_under aid (snd e)) (enum (m_chips m)))).
  assert (HW : NoDup W) by (apply NoDup_map_filter; apply enum_fst_NoDup; exact Hkeys).
  assert (Hin : forall c, In c W -> exists s, core_at m c = Some s /\ cs_state s = STATE_WAIT /\ cs_app s = aid).
  { intros c Hc. unfold W in Hc. apply in_map_iff in Hc. destruct Hc as [[c' s] [Hf Hc]]. cbn [fst] in Hf. subst c'.
    apply filter_In in Hc. destruct Hc as [He Hp]. cbn [snd] in Hp.
    pose proof (enum_core_at m c s Hkeys He) as Hat. exists s. split; [exact Hat|].
    apply waiting_under_spec; [apply (Hcores c s Hat)|exact Haid|exact Hp]. }
  assert (Hincl : incl W (map snd (named am))).
  { intros c Hc. destruct (Hin c Hc) as [s (Hat & Hst & Hap)].
    destruct (in_dec core_eq_dec c (map snd (named am))) as [Hyes|Hno]; [exact Hyes|].
    exfalso. apply (Hother c s Hno Hat). split; assumption. }
  assert (Hlen : length W = length (map snd (named am))).
  { rewrite core_count_named, count_state_enum in Hcount. unfold W. rewrite !map_length. unfold zlen in Hcount. lia. }
  assert (Hrev : incl (map snd (named am)) W).
  { apply NoDup_length_incl; [exact HW|lia|exact Hincl]. }
  intros b c Hbc.
  assert (Hc : In c W). { apply Hrev. apply in_map_iff. exists (b, c). split; [reflexivity|exact Hbc]. }
  destruct (Hin c Hc) as [s (Hat & Hst & Hap)].
  destruct (Hnamed b c Hbc) as [Hnw|Hh]; [|exact Hh].
  exfalso. apply Hnw. exists s. split; assumption.
Qed.
