(* C10 -- predicates in which the theorems about routing_tree_to_tables are stated (definitions only) *)
From Coq Require Import ZArith List Bool.
Require Import Rig.Model.Base Rig.Generated.GenRouter Rig.Model.Tables.
Import ListNotations.
Open Scope Z_scope.

(* ------------------------------------------------------------------------------------------------ *)
(** * Well-formed trees: the domain of routing_tree_to_tables *)

(* a child that is a subtree hangs on a link route (traverse asserts the route is not None; the table
   builder takes its .opposite, which only links have); a vertex may hang on any route or on None *)
Definition kid_ok (k : option Z * tree) : Prop :=
  match snd k with
  | TNode _ _ => exists d, fst k = Some d /\ 0 <= d < 6
  | TLeaf _ => True
  end.

Fixpoint wf_tree (t : tree) : Prop :=
  match t with
  | TLeaf _ => True
  | TNode _ kids =>
      (fix go (ks : list (option Z * tree)) : Prop :=
         match ks with
         | [] => True
         | k :: ks' => kid_ok k /\ wf_tree (snd k) /\ go ks'
         end) kids
  end.

Definition is_node (t : tree) : Prop := match t with TNode _ _ => True | TLeaf _ => False end.

(* every net has a key and its tree is a well-formed RoutingTree *)
Definition inputs_ok (routes : list (Z * tree)) (net_keys : list (Z * km)) : Prop :=
  Forall (fun nt => (exists k, zassoc (fst nt) net_keys = Some k) /\ is_node (snd nt) /\ wf_tree (snd nt))
         routes.

(* ------------------------------------------------------------------------------------------------ *)
(** * Breadth-first order, defined level by level *)

(* the nodes at depth n below a tree reached by direction d, from left to right, each with the direction
   taken to reach it, its chip and the set of routes of its children *)
Fixpoint level (n : nat) (d : Z) (t : tree) {struct t} : list visit :=
  match t with
  | TLeaf _ => []
  | TNode c kids =>
      match n with
      | O => [(d, c, out_set kids)]
      | S n' =>
          (fix go (ks : list (option Z * tree)) : list visit :=
             match ks with
             | [] => []
             | k :: ks' => (match fst k with Some r => level n' r (snd k) | None => [] end) ++ go ks'
             end) kids
      end
  end.

(* all levels, top down (there are fewer levels than nodes) *)
Definition bfs_order (t : tree) : list visit :=
  flat_map (fun n => level n none_dir t) (seq 0 (tsize t)).

(* ------------------------------------------------------------------------------------------------ *)
(** * The sequence of visits of a set of trees *)

(* a visit together with the key and mask of its net *)
Definition kvisit := (km * visit)%type.
Definition kv_km (v : kvisit) : km := fst v.
Definition kv_dir (v : kvisit) : Z := fst (fst (snd v)).
Definition kv_chip (v : kvisit) : chip := snd (fst (snd v)).
Definition kv_outs (v : kvisit) : list Z := snd (snd v).

(* the nets in the order of the dictionary, each tree breadth first *)
Definition all_visits (routes : list (Z * tree)) (net_keys : list (Z * km)) : list kvisit :=
  flat_map (fun nt => match zassoc (fst nt) net_keys with
                      | Some k => map (fun v => (k, v)) (bfs_order (snd nt))
                      | None => []
                      end) routes.

Definition same_place (u v : kvisit) : Prop := kv_chip u = kv_chip v /\ kv_km u = kv_km v.

(* two visits of the same chip with the same key and mask leave it by different sets of routes *)
Definition conflict (V : list kvisit) : Prop :=
  exists u v, In u V /\ In v V /\ same_place u v /\ kv_outs u <> kv_outs v.

(* the distinct elements of a list in the order of their first occurrence *)
Definition first_occ {A} (eqb : A -> A -> bool) (l : list A) : list A :=
  fold_left (fun acc x => if existsb (eqb x) acc then acc else acc ++ [x]) l [].

(* the link by which a visit enters its chip: the opposite of the direction travelled; none_dir (None)
   for a root *)
Definition arrival (v : kvisit) : option Z := in_direction (kv_dir v).

Definition at_place (c : chip) (k : km) (v : kvisit) : Prop := kv_chip v = c /\ kv_km v = k.

(* the tables are exactly what the visits say *)
Definition tables_spec (V : list kvisit) (T : list (chip * list entry)) : Prop :=
  (* the chips visited, in first-visit order *)
  map fst T = first_occ chip_eqb (map kv_chip V)
  /\ forall c es, cassoc c T = Some es ->
       (* one entry per (key, mask) visited on the chip, in first-visit order *)
       map (fun e => (e_key e, e_mask e)) es
       = first_occ km_eqb (map kv_km (filter (fun v => chip_eqb (kv_chip v) c) V))
       /\ forall e, In e es ->
            (* route: the set of routes by which every visit with that key and mask leaves the chip *)
            (forall v, In v V -> at_place c (e_key e, e_mask e) v -> e_route e = kv_outs v)
            (* sources: exactly the links by which those visits enter the chip (-1 = None: a root) *)
            /\ (forall s, In s (e_sources e) <->
                          exists v, In v V /\ at_place c (e_key e, e_mask e) v /\ arrival v = Some s).

(* the error names the first visit, in order, that disagrees with an earlier one *)
Definition first_conflict (V : list kvisit) (key mask : Z) (c : chip) : Prop :=
  exists V1 v V2, V = V1 ++ v :: V2 /\ ~ conflict V1 /\ at_place c (key, mask) v
                  /\ exists u, In u V1 /\ same_place u v /\ kv_outs u <> kv_outs v.

(* ------------------------------------------------------------------------------------------------ *)
(** * Nodes of a tree, declaratively *)

(* [node_in d t d' c' kids']: the tree t, reached by direction d, contains a node with chip c' and
   children kids' that is reached by direction d' *)
Inductive node_in : Z -> tree -> Z -> chip -> list (option Z * tree) -> Prop :=
| node_here : forall d c kids, node_in d (TNode c kids) d c kids
| node_below : forall d c kids r t d' c' kids',
    In (Some r, t) kids -> node_in r t d' c' kids' -> node_in d (TNode c kids) d' c' kids'.
