UNITS = {"GenSharedState": dict(props=["C17"], dumper="dump_c17.py")}
