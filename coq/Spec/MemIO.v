(* C13 -- what the property asks of the memory views, stated without reference to how the model
   computes.  Definitions only.

   (1) Confinement: predicates on the controller calls of a history.
   (2) The abstract object: ONE fixed-length file (a list of bytes that never changes length) seen
       through windows [lo, hi) with one cursor each.  A cursor may be any integer; bytes move only
       at positions inside the window.  Positions are relative to the start of the file; addresses
       do not occur.
   (3) The abstraction that ties a model state to such a file. *)
From Coq Require Import ZArith List Bool.
Require Import Rig.Model.Base Rig.Model.MemIO.
Import ListNotations.
Open Scope Z_scope.

(* ---------------------------------------------------------------------------------------- *)
(* (1) confinement                                                                            *)
(* ---------------------------------------------------------------------------------------- *)

(* a controller access [a, a+n) lies inside [lo, hi) and is not empty *)
Definition call_within (lo hi : Z) (c : call) : Prop :=
  match c with
  | CRead a n => lo <= a /\ a + n <= hi /\ 0 < n
  | CWrite a bs => lo <= a /\ a + zlen bs <= hi /\ 0 < zlen bs
  | CFree _ => False
  end.

(* an event of a history: the operation, the state it ran in, what it produced *)
Definition confined_event (e : state * op * output) : Prop :=
  let '(st, o, out) := e in
  match o with
  | OView i _ =>
      (* every access lies in the range of the view the method was called on *)
      forall c, In c (o_calls out) ->
        exists v, nth_error (st_views st) i = Some v /\ call_within (v_start v) (v_end v) c
  | OFree =>
      (* free() touches no memory: its only call is sdram_free(start of the allocation) *)
      forall c, In c (o_calls out) ->
        exists root, nth_error (st_views st) 0 = Some root /\ c = CFree (v_start root)
  | OFreeFault => o_calls out = []
  end.

(* every view is a well-formed range inside the allocation (= the range of view 0) *)
Definition views_inside (st : state) : Prop :=
  match st_views st with
  | [] => True
  | root :: _ => Forall (fun v => v_start root <= v_start v /\ v_start v <= v_end v /\ v_end v <= v_end root)
                        (st_views st)
  end.

(* an event that slices view i successfully: the new view's range is inside view i's, and it is the
   view appended to the list *)
Definition nested_event (e : state * op * output) : Prop :=
  let '(st, o, out) := e in
  match o with
  | OView i (Slice a b step) =>
      forall s' e', o_res out = Ok (VView s' e') ->
        exists v, nth_error (st_views st) i = Some v /\ v_start v <= s' /\ s' <= e' /\ e' <= v_end v
  | _ => True
  end.

(* ---------------------------------------------------------------------------------------- *)
(* slices: the sub-range a Python slice names in a sequence of n items                        *)
(* ---------------------------------------------------------------------------------------- *)

(* the index a bound names: negative bounds count from the end; an absent start is 0, an absent stop n *)
Definition named_start (n : Z) (a : option Z) : Z :=
  match a with None => 0 | Some x => if x <? 0 then n + x else x end.
Definition named_stop (n : Z) (b : option Z) : Z :=
  match b with None => n | Some x => if x <? 0 then n + x else x end.

(* position p of a sequence of n items belongs to seq[a:b] *)
Definition in_slice (n : Z) (a b : option Z) (p : Z) : Prop :=
  0 <= p < n /\ named_start n a <= p < named_stop n b.

(* the clipped bounds (what slice(a, b).indices(n) returns, with stop raised to start when reversed) *)
Definition clip (n x : Z) : Z := if x <? 0 then Z.max 0 (n + x) else Z.min n x.
Definition clip_start (n : Z) (a : option Z) : Z := match a with None => 0 | Some x => clip n x end.
Definition clip_stop (n : Z) (b : option Z) : Z := match b with None => n | Some x => clip n x end.

(* ---------------------------------------------------------------------------------------- *)
(* (2) the fixed-length file                                                                  *)
(* ---------------------------------------------------------------------------------------- *)
Record window := mkWindow { w_lo : Z; w_hi : Z; w_pos : Z; w_closed : bool }.
Record afile := mkAFile { a_data : list Z; a_wins : list window; a_freed : bool }.

Definition wlen (w : window) : Z := w_hi w - w_lo w.

(* bytes that move when `req` bytes are asked for at cursor `pos` of a window of `n` bytes:
   nothing exists before position 0, nothing beyond position n *)
Definition transfer (pos req n : Z) : Z :=
  if pos <? 0 then 0 else Z.max 0 (Z.min req (n - pos)).

(* a truncation warning is due exactly when fewer bytes move than were asked for (so never for an
   empty request, and never for "everything up to the end" unless the cursor is before position 0) *)
Definition warned (pos req n : Z) : bool := transfer pos req n <? req.

(* bytes [p, p+k) of the file; the file with bs stored at p (same length when p + |bs| <= length) *)
Definition sub (d : list Z) (p k : Z) : list Z := firstn (Z.to_nat k) (skipn (Z.to_nat p) d).
Definition splice (d : list Z) (p : Z) (bs : list Z) : list Z :=
  firstn (Z.to_nat p) d ++ bs ++ skipn (Z.to_nat p + length bs) d.

Inductive fop :=
| FSeekSet (n : Z)            (* file.seek(n, 0): position n *)
| FSeekCur (n : Z)            (* file.seek(n, 1): position + n *)
| FSeekEnd (n : Z)            (* file.seek(n, 2): length + n *)
| FSeekBad                    (* any other `whence`: ValueError *)
| FRead (n : Z)               (* n < 0: everything up to the end *)
| FWrite (bs : list Z)
| FSlice (a b step : option Z)
| FTell | FLen | FAddress | FFlush | FClose
(* the environment misbehaving: an I/O error during the transfer (if bytes were to move); the
   truncation warning treated as an error *)
| FFaultRead (n : Z) | FFaultWrite (bs : list Z)
| FStrictRead (n : Z) | FStrictWrite (bs : list Z)
(* a `with` block: entering does nothing, leaving it -- however it is left -- closes *)
| FEnter | FExit.

Inductive aop := AWin (i : nat) (o : fop) | AFree
                | AFreeFault.      (* freeing fails with an I/O error: the file stays as it is *)

(* what a file operation shows: the value (positions relative to the file: [VView lo hi],
   [VAddr position in the file]) and whether a truncation warning was given *)
Definition aout := (result value * bool)%type.

Definition set_pos (w : window) (p : Z) : window := mkWindow (w_lo w) (w_hi w) p (w_closed w).

Definition wstep (fr : bool) (d : list Z) (w : window) (o : fop)
  : window * option window * list Z * aout :=
  (* every operation but len() and close() fails once the window is closed or the file freed *)
  let live (x : window * option window * list Z * aout) :=
    if w_closed w || fr then (w, None, d, (Failed 0, false)) else x in
  let closing :=
      if w_closed w then (w, None, d, (Ok VNone, false))
      else if fr then (w, None, d, (Failed 0, false))
      else (mkWindow (w_lo w) (w_hi w) (w_pos w) true, None, d, (Ok VNone, false)) in
  match o with
  | FLen => (w, None, d, (Ok (VInt (wlen w)), false))
  | FClose => closing
  | FExit => closing
  | FEnter => (w, None, d, (Ok VNone, false))
  (* an I/O error while bytes were to move: nothing moves, the error comes out, the warning (if one
     was due) has been given; with no bytes to move the operation is the plain one *)
  | FFaultRead n =>
      let req := if n <? 0 then wlen w - w_pos w else n in
      let k := transfer (w_pos w) req (wlen w) in
      live (if 0 <? k then (w, None, d, (Failed 2, warned (w_pos w) req (wlen w)))
            else (set_pos w (w_pos w + k), None, d,
                  (Ok (VBytes (sub d (w_lo w + w_pos w) k)), warned (w_pos w) req (wlen w))))
  | FFaultWrite bs =>
      let k := transfer (w_pos w) (zlen bs) (wlen w) in
      live (if 0 <? k then (w, None, d, (Failed 2, warned (w_pos w) (zlen bs) (wlen w)))
            else (set_pos w (w_pos w + k), None, d, (Ok (VInt k), warned (w_pos w) (zlen bs) (wlen w))))
  (* the warning is an error: if one is due nothing happens and it comes out as the exception *)
  | FStrictRead n =>
      let req := if n <? 0 then wlen w - w_pos w else n in
      let k := transfer (w_pos w) req (wlen w) in
      live (if warned (w_pos w) req (wlen w) then (w, None, d, (Failed 3, false))
            else (set_pos w (w_pos w + k), None, d, (Ok (VBytes (sub d (w_lo w + w_pos w) k)), false)))
  | FStrictWrite bs =>
      let k := transfer (w_pos w) (zlen bs) (wlen w) in
      live (if warned (w_pos w) (zlen bs) (wlen w) then (w, None, d, (Failed 3, false))
            else (set_pos w (w_pos w + k), None,
                  (if 0 <? k then splice d (w_lo w + w_pos w) (firstn (Z.to_nat k) bs) else d),
                  (Ok (VInt k), false)))
  | FSeekSet n => live (set_pos w n, None, d, (Ok VNone, false))
  | FSeekCur n => live (set_pos w (w_pos w + n), None, d, (Ok VNone, false))
  | FSeekEnd n => live (set_pos w (wlen w + n), None, d, (Ok VNone, false))
  | FSeekBad => live (w, None, d, (Failed 1, false))
  | FRead n =>
      let req := if n <? 0 then wlen w - w_pos w else n in
      let k := transfer (w_pos w) req (wlen w) in
      live (set_pos w (w_pos w + k), None, d,
            (Ok (VBytes (sub d (w_lo w + w_pos w) k)), warned (w_pos w) req (wlen w)))
  | FWrite bs =>
      let k := transfer (w_pos w) (zlen bs) (wlen w) in
      live (set_pos w (w_pos w + k), None,
            (if 0 <? k then splice d (w_lo w + w_pos w) (firstn (Z.to_nat k) bs) else d),
            (Ok (VInt k), warned (w_pos w) (zlen bs) (wlen w)))
  | FSlice a b step =>
      if contiguous step then
        let s := clip_start (wlen w) a in
        let e := Z.max s (clip_stop (wlen w) b) in
        let nw := mkWindow (w_lo w + s) (w_lo w + e) 0 false in
        live (w, Some nw, d, (Ok (VView (w_lo nw) (w_hi nw)), false))
      else live (w, None, d, (Failed 1, false))
  | FTell => live (w, None, d, (Ok (VInt (w_pos w)), false))
  | FAddress => live (w, None, d, (Ok (VAddr (w_lo w + w_pos w)), false))
  | FFlush => live (w, None, d, (Ok VNone, false))
  end.

Definition astep (f : afile) (o : aop) : afile * aout :=
  match o with
  | AWin i fo =>
      match nth_error (a_wins f) i with
      | None => (f, (OtherError, false))
      | Some w =>
          let '(w', nw, d', out) := wstep (a_freed f) (a_data f) w fo in
          (mkAFile d' (set_nth i w' (a_wins f) ++ opt_list nw) (a_freed f), out)
      end
  | AFree =>
      match a_wins f with
      | [] => (f, (OtherError, false))
      | _ :: _ => if a_freed f then (f, (Failed 0, false))
                  else (mkAFile (a_data f) (a_wins f) true, (Ok VNone, false))
      end
  | AFreeFault =>
      match a_wins f with
      | [] => (f, (OtherError, false))
      | _ :: _ => if a_freed f then (f, (Failed 0, false)) else (f, (Failed 2, false))
      end
  end.

Fixpoint atrace (f : afile) (ops : list aop) : list aout :=
  match ops with
  | [] => []
  | o :: rest => let '(f', out) := astep f o in out :: atrace f' rest
  end.

Fixpoint arun (f : afile) (ops : list aop) : afile :=
  match ops with
  | [] => f
  | o :: rest => arun (fst (astep f o)) rest
  end.

(* the file a MemoryIO starts as: one window over everything, cursor 0 *)
Definition afile_init (d : list Z) : afile := mkAFile d [mkWindow 0 (zlen d) 0 false] false.

(* ---------------------------------------------------------------------------------------- *)
(* (3) the abstraction                                                                        *)
(* ---------------------------------------------------------------------------------------- *)

(* which file operation a method call is.  NOTE seek(n, 2): the code computes len - n, so the call
   seek(n, 2) is the FILE operation seek_end(-n).  (A file's own seek(n, 2) is len + n: see
   C13_seek_end_sign_refuted.) *)
Definition abs_vop (o : vop) : fop :=
  match o with
  | Seek n wh => if wh =? 0 then FSeekSet n else if wh =? 1 then FSeekCur n
                 else if wh =? 2 then FSeekEnd (- n) else FSeekBad
  | Read n => FRead n
  | Write bs => FWrite bs
  | Slice a b step => FSlice a b step
  | Tell => FTell | Len => FLen | Address => FAddress | Flush => FFlush | Close => FClose
  | FaultRead n => FFaultRead n | FaultWrite bs => FFaultWrite bs
  | StrictRead n => FStrictRead n | StrictWrite bs => FStrictWrite bs
  | Enter => FEnter | Exit => FExit
  end.

Definition abs_op (o : op) : aop :=
  match o with OView i vo => AWin i (abs_vop vo) | OFree => AFree | OFreeFault => AFreeFault end.

(* the literal reading, under which seek(n, 2) would be the file's seek(n, 2) *)
Definition abs_op_literal (o : op) : aop :=
  match o with
  | OView i (Seek n wh) => AWin i (if wh =? 2 then FSeekEnd n else abs_vop (Seek n wh))
  | _ => abs_op o
  end.

Definition view_is (base : Z) (v : view) (w : window) : Prop :=
  v_start v = base + w_lo w /\ v_end v = base + w_hi w /\ v_off v = w_pos w /\ v_closed v = w_closed w.

(* the state st is the file f placed at address base *)
Definition represents (base : Z) (st : state) (f : afile) : Prop :=
  Forall2 (view_is base) (st_views st) (a_wins f)
  /\ st_freed st = a_freed f
  /\ mem_read (st_mem st) base (zlen (a_data f)) = a_data f
  /\ Forall (fun w => 0 <= w_lo w /\ w_lo w <= w_hi w /\ w_hi w <= zlen (a_data f)) (a_wins f).

Definition value_is (base : Z) (x y : value) : Prop :=
  match x, y with
  | VView s e, VView lo hi => s = base + lo /\ e = base + hi
  | VAddr a, VAddr p => a = base + p
  | VNone, VNone => True
  | VInt a, VInt b => a = b
  | VBytes a, VBytes b => a = b
  | _, _ => False
  end.

Definition result_is (base : Z) (x y : result value) : Prop :=
  match x, y with
  | Ok a, Ok b => value_is base a b
  | Failed j, Failed k => j = k
  | OtherError, OtherError => True
  | _, _ => False
  end.

(* what the caller of a method sees equals what the caller of the file operation sees *)
Definition output_is (base : Z) (o : output) (a : aout) : Prop :=
  result_is base (o_res o) (fst a) /\ (0 <? o_warns o) = snd a.

(* ---------------------------------------------------------------------------------------- *)
(* dead views                                                                                 *)
(* ---------------------------------------------------------------------------------------- *)
(* the methods that must fail on a closed view / freed allocation: everything but len(), close() and
   the with-block protocol (__enter__ returns the object, __exit__ is close()) *)
Definition guarded (o : vop) : bool :=
  match o with Len | Close | Enter | Exit => false | _ => true end.

(* read/write with the environment misbehaving *)
Definition disturbed (o : vop) : bool :=
  match o with FaultRead _ | FaultWrite _ | StrictRead _ | StrictWrite _ => true | _ => false end.
