(* Witnesses: the completeness clause is false of the model (first-fit fragmentation), the code as found
   never tried the last position, the code as found accepted negative positions; rejection of
   overlapping / overflowing explicit definitions. *)
From Coq Require Import ZArith List Bool Lia.
Require Import Rig.Generated.GenBitField Rig.Model.Base Rig.Model.BitField Rig.Spec.BitField.
Require Import Rig.Proofs.BitFieldBits Rig.Proofs.BitFieldTree Rig.Proofs.BitFieldAssign
               Rig.Proofs.BitFieldAdd.
Import ListNotations.
Open Scope Z_scope.

Definition out_other (r : out) : bool := match r with OutErr (-1) => true | _ => false end.

Lemma out_other_false r : out_other r = false -> r <> OutErr E_OTHER.
Proof. intros H ->. discriminate. Qed.

Lemma exec_reachable : forall ops st, reachable st -> reachable (exec st ops).
Proof.
  induction ops as [|o ops IH]; intros st R; simpl; [exact R|].
  destruct (step st o) as [st' r] eqn:E.
  destruct (out_other r) eqn:Eo.
  - destruct r as [| k | | | | | |]; try discriminate. destruct k as [|p|p]; try discriminate.
    destruct p; try discriminate. exact R.
  - assert (reachable st') by (eapply reach_step; eauto using out_other_false).
    destruct r as [| k | | | | | |]; try (apply IH; assumption).
    destruct k as [|p|p]; try (apply IH; assumption). destruct p; try (apply IH; assumption). discriminate.
Qed.

(* ------------------------------------------------------------------ K1: fragmentation *)
(* root fields 0 (a), 1 (b), one bit each; field 2 (w, 1 bit) under a=1; field 3 (t, 1 bit) under b=1;
   field 4 (y, 2 bits) under a=0, b=1; length 5 *)
Definition k1_ops : list op :=
  [OpAdd 0 0 (Some 1) None []; OpAdd 0 1 (Some 1) None [];
   OpCall 0 [(0, 1)]; OpCall 0 [(1, 1)]; OpCall 0 [(0, 0); (1, 1)];
   OpAdd 1 2 (Some 1) None []; OpAdd 2 3 (Some 1) None []; OpAdd 3 4 (Some 2) None []].

Definition k1_state : state := exec (init 5) k1_ops.

Lemma k1_tree : s_tree k1_state =
  Node [(0, 0%nat); (1, 1%nat)]
       [([(0, 1)], Node [(2, 2%nat)] []); ([(1, 1)], Node [(3, 3%nat)] []);
        ([(0, 0); (1, 1)], Node [(4, 4%nat)] [])].
Proof. vm_compute. reflexivity. Qed.

Lemma k1_store : s_store k1_state =
  [mkField (Some 1) None [] 1; mkField (Some 1) None [] 1; mkField (Some 1) None [] 1;
   mkField (Some 1) None [] 1; mkField (Some 2) None [] 1].
Proof. vm_compute. reflexivity. Qed.

Lemma k1_widths_fit : widths_fit 5 (s_tree k1_state) (s_store k1_state).
Proof.
  intros fv. rewrite k1_tree, k1_store. cbn [enabled_fields flat_map app].
  unfold req_enabled. cbn [forallb fst snd].
  destruct (zassoc 0 fv) as [a|]; destruct (zassoc 1 fv) as [b|];
    repeat match goal with
           | |- context [?x =? ?y] => destruct (Z.eqb_spec x y)
           end; cbn; try lia.
Qed.

Lemma assign_complete_refuted :
  exists st st', reachable st /\ unpositioned (s_tree st) (s_store st)
                 /\ widths_fit (s_len st) (s_tree st) (s_store st)
                 /\ assign_fields st = (st', Some E_VALUE)
                 /\ exclusive_children (s_tree st) = false.
Proof.
  exists k1_state, (fst (assign_fields k1_state)). split; [|split; [|split; [|split; [|vm_compute; reflexivity]]]].
  - apply exec_reachable. apply reach_init.
  - intros i f Hin. rewrite k1_tree in Hin. rewrite k1_store. vm_compute in Hin.
    repeat (destruct Hin as [Hin|Hin]; [inversion Hin; subst; reflexivity|]). destruct Hin.
  - apply k1_widths_fit.
  - vm_compute. reflexivity.
Qed.

(* the same clause when the layout is extended after an earlier assign_fields: length 4; a (1 bit);
   x (1 bit) under a=0; assign_fields [x@0, a@1]; y (3 bits) under a=1; assign_fields fails although
   the children are exclusive and a + y = 4 *)
Definition incr_ops : list op :=
  [OpAdd 0 0 (Some 1) None []; OpCall 0 [(0, 0)]; OpAdd 1 1 (Some 1) None []; OpAssign 0;
   OpCall 0 [(0, 1)]; OpAdd 2 2 (Some 3) None []].

Lemma assign_complete_incremental_refuted :
  exists st st', reachable st /\ exclusive_children (s_tree st) = true
                 /\ widths_fit (s_len st) (s_tree st) (s_store st)
                 /\ assign_fields st = (st', Some E_VALUE)
                 /\ ~ unpositioned (s_tree st) (s_store st).
Proof.
  exists (exec (init 4) incr_ops), (fst (assign_fields (exec (init 4) incr_ops))).
  split; [apply exec_reachable, reach_init|]. split; [vm_compute; reflexivity|].
  split; [|split; [vm_compute; reflexivity|]].
  - intros fv.
    assert (Et : s_tree (exec (init 4) incr_ops) =
                 Node [(0, 0%nat)] [([(0, 0)], Node [(1, 1%nat)] []); ([(0, 1)], Node [(2, 2%nat)] [])])
      by (vm_compute; reflexivity).
    assert (Es : s_store (exec (init 4) incr_ops) =
                 [mkField (Some 1) (Some 1) [] 1; mkField (Some 1) (Some 0) [] 1; mkField (Some 3) None [] 1])
      by (vm_compute; reflexivity).
    rewrite Et, Es. cbn [enabled_fields flat_map app]. unfold req_enabled. cbn [forallb fst snd].
    destruct (zassoc 0 fv) as [a|]; [|vm_compute; discriminate].
    destruct (Z.eqb_spec 0 a) as [<-|N0].
    { change (1 =? 0) with false. vm_compute. discriminate. }
    destruct (Z.eqb_spec 1 a) as [<-|N1]; vm_compute; discriminate.
  - intros HU. specialize (HU 0 0%nat). vm_compute in HU. assert (H : Some 1 = None) by (apply HU; now left).
    discriminate.
Qed.

(* one more bit and the same hierarchy is laid out *)
Lemma k1_fits_in_six : exists st', assign_fields (exec (init 6) k1_ops) = (st', None).
Proof. eexists. vm_compute. reflexivity. Qed.

(* ------------------------------------------------------------------ the scan bound as found *)
Definition last_ops : list op := [OpAdd 0 0 (Some 8) None []].

Lemma assign_last_position_refuted :
  exists st st1 st2, reachable st /\ s_tree st = Node [(0, 0%nat)] []
    /\ unpositioned (s_tree st) (s_store st) /\ widths_fit (s_len st) (s_tree st) (s_store st)
    /\ assign_fields_orig st = (st1, Some E_VALUE)      (* range(0, length - field_length) *)
    /\ assign_fields st = (st2, None).                  (* repaired: ... + 1 *)
Proof.
  exists (exec (init 8) last_ops), (fst (assign_fields_orig (exec (init 8) last_ops))),
         (fst (assign_fields (exec (init 8) last_ops))).
  split; [apply exec_reachable, reach_init|].
  split; [vm_compute; reflexivity|].
  split; [|split; [|split; vm_compute; reflexivity]].
  - intros i f Hin. vm_compute in Hin. destruct Hin as [Hin|[]]. inversion Hin; subst. reflexivity.
  - intros fv. vm_compute. discriminate.
Qed.

(* ------------------------------------------------------------------ negative positions, as found *)
Lemma add_field_negative_start_orig_refuted :
  exists st', add_field_orig (init 8) [] 0 (Some 2) (Some (-1)) [] = (st', None)
              /\ add_field (init 8) [] 0 (Some 2) (Some (-1)) [] = (init 8, Some E_VALUE).
Proof. eexists. split; vm_compute; reflexivity. Qed.

(* ------------------------------------------------------------------ rejection of explicit definitions *)
(* a position outside the bit field (negative, beyond the end, or a field running over the end) *)
Lemma add_field_rejects_overflow st fv i len s tags :
  s < 0 \/ s_len st <= s \/ s_len st < s + len_or1 len ->
  add_field st fv i len (Some s) tags = (st, Some E_VALUE).
Proof.
  intros H. unfold add_field, gen_range_orig, add_field_gen.
  destruct (match len with Some l => l <=? 0 | None => false end); [reflexivity|].
  assert (E : range_bad false (s_len st) s len = true).
  { unfold range_bad. apply orb_true_iff.
    destruct H as [H|[H|H]].
    - left. apply negb_true_iff. apply andb_false_iff. left. apply Z.leb_gt. lia.
    - left. apply negb_true_iff. apply andb_false_iff. right. apply Z.ltb_ge. lia.
    - right. apply Z.gtb_lt. lia. }
  rewrite E. reflexivity.
Qed.

(* a position that overlaps an explicitly positioned (or already laid out) field that can be present
   together with the new one; a field of unknown length counts as one bit *)
Lemma add_field_rejects_overlap st fv i len s tags oi ofid os :
  In (oi, ofid) (potential_fields (s_tree st) fv) ->
  f_start (sget (s_store st) ofid) = Some os ->
  os < s + len_or1 len -> s < os + len_or1 (f_len (sget (s_store st) ofid)) ->
  add_field st fv i len (Some s) tags = (st, Some E_VALUE).
Proof.
  intros Hin Hs H1 H2. unfold add_field, gen_range_orig, add_field_gen.
  destruct (match len with Some l => l <=? 0 | None => false end); [reflexivity|].
  destruct (range_bad false (s_len st) s len); [reflexivity|].
  match goal with |- (if ?c then _ else _) = _ => assert (E : c = true) end.
  { apply existsb_exists. exists (oi, ofid). split; [exact Hin|]. cbv zeta. simpl snd. rewrite Hs.
    apply andb_true_iff. split; apply Z.gtb_lt; lia. }
  rewrite E. reflexivity.
Qed.

(* a zero or negative length *)
Lemma add_field_rejects_length st fv i l start tags :
  l <= 0 -> add_field st fv i (Some l) start tags = (st, Some E_VALUE).
Proof.
  intros H. unfold add_field, gen_range_orig, add_field_gen. destruct (Z.leb_spec l 0); [reflexivity|lia].
Qed.
