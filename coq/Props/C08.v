(* C08 -- Bit-field keys are collision-free: fields never overlap or overflow.
   Property theorems only; each is closed by `exact` of a lemma of Proofs/BitField*.v.

   The model (Model/BitField.v) follows rig/bitfield.py operation by operation; [reachable] is the set
   of states of ANY history of add_field / __call__ / assign_fields / queries on one BitField and the
   instances derived from it (any hierarchy depth, sibling scopes re-using names, fixed and automatic
   positions and lengths, tags, any bit-field length, any interleaving).  "Present together": both
   listed by enabled_fields for one assignment of values.

   Tie to the source, re-extracted on every run (Generated/GenBitField.v, fail closed): which scan bound and
   range test rig/bitfield.py has (the model is parameterised by them) and that the automatic length is
   int(max_value).bit_length() -- the model's [bitlen] -- and not the floating-point formula used before fix
   b55359e (C08_auto_length_is_bit_length; with the float formula the completeness theorems below were false of
   the code from 2^48 - 1 upwards).

   NOT covered by a theorem (harness only: correspondence, independent oracle, Generated/GenBitFieldShape.v):
   - the forms in which `tags` may be handed over (str / list / set / one-shot iterators) and aliasing of a
     caller's set object, edits by the caller of what get_tags returned, identity vs equality of int values,
     a second BitField sharing such objects: Python object-identity effects outside a value-level model;
   - the RecursionError of _Tree.add_field (histories stop there; excluded from [reachable]);
   - __repr__, __eq__, the texts of error messages. *)
From Coq Require Import ZArith List Bool.
Require Import Rig.Generated.GenBitField Rig.Model.Base Rig.Model.BitField Rig.Spec.BitField Rig.Proofs.BitField.
Import ListNotations.
Open Scope Z_scope.

Theorem C08_auto_length_is_bit_length : gen_auto_length_exact = true.
Proof. exact auto_length_is_bit_length. Qed.

(* ... and [bitlen] has the defining property of int.bit_length *)
Theorem C08_bitlen_spec : forall v, 0 < v -> 2 ^ (bitlen v - 1) <= v < 2 ^ bitlen v.
Proof. exact bitlen_spec. Qed.

(* ---------------------------------------------------------------- safety of the layout (U) *)

(* After a successful assign_fields every field has a position inside [0, length) and any two fields
   that can be present together occupy disjoint bit ranges. *)
Theorem C08_assign_no_overlap :
  forall st st', reachable st -> assign_fields st = (st', None) ->
    no_overlap (s_tree st') (s_store st') /\ all_placed (s_len st') (s_tree st') (s_store st').
Proof. exact assign_no_overlap. Qed.

(* Stronger, at every moment of every history (also before / without / after a failed assign_fields):
   the fields that already have a position never overlap when they can be present together, and a
   field's length, once known, exceeds the largest value recorded for it. *)
Theorem C08_no_overlap_at_any_time :
  forall st, reachable st ->
    no_overlap (s_tree st) (s_store st) /\ wide_enough (s_tree st) (s_store st).
Proof. exact reachable_no_overlap. Qed.

(* Every field is wide enough for every value ever given to it: a value accepted by __call__ (at state
   st1, for the field that identifier i resolves to) is non-negative and below 2^length in every later
   state st3 in which that field's length is known. *)
Theorem C08_assign_wide_enough :
  forall st1 fv kw st2 st3 i v,
    reachable st1 -> call st1 fv kw = (st2, None) -> In (i, v) (kw ++ fv) -> reaches st2 st3 ->
    exists fid, get_field (s_tree st2) i (kw ++ fv) = Some fid /\ 0 <= v /\
                forall l, f_len (sget (s_store st3) fid) = Some l -> v < 2 ^ l.
Proof. exact assign_wide_enough. Qed.

(* ---------------------------------------------------------------- keys (U) *)

(* Read-back: on a laid-out bit field, the key of any instance of the history returns every present
   field's value at the field's reported position. *)
Theorem C08_value_readback :
  forall st st' fv v,
    reachable st -> assign_fields st = (st', None) -> In fv (s_insts st') ->
    get_value st' fv None None = Ok v ->
    forall i f, In (i, f) (enabled_fields (s_tree st') fv) ->
      exists p l x, frange (s_store st') f = Some (p, l) /\ zassoc i fv = Some x /\ read_field v p l = x.
Proof. exact reachable_value_readback. Qed.

(* The same for EVERY reachable state in which all fields have a position -- in particular for instances
   created after assign_fields, the usual use; a complete layout stays complete while no field is added. *)
Theorem C08_value_readback_any_time :
  forall st fv v,
    reachable st -> all_placed (s_len st) (s_tree st) (s_store st) -> In fv (s_insts st) ->
    get_value st fv None None = Ok v ->
    forall i f, In (i, f) (enabled_fields (s_tree st) fv) ->
      exists p l x, frange (s_store st) f = Some (p, l) /\ zassoc i fv = Some x /\ read_field v p l = x.
Proof. exact value_readback_any_time. Qed.

Theorem C08_all_placed_persists :
  forall st st', reachable st -> reaches st st' -> s_tree st' = s_tree st ->
    all_placed (s_len st) (s_tree st) (s_store st) -> all_placed (s_len st') (s_tree st') (s_store st').
Proof. exact all_placed_persists. Qed.

(* On what the public methods return only: the position reported by get_location_and_length is where
   get_value put the value that the attribute access returns. *)
Theorem C08_reported_position_readback :
  forall st fv i p l v,
    reachable st -> all_placed (s_len st) (s_tree st) (s_store st) -> In fv (s_insts st) ->
    get_location_and_length st fv i = Ok (p, l) -> get_value st fv None None = Ok v ->
    exists x, zassoc i fv = Some x /\ get_attr st fv i = Ok (Some x) /\ read_field v p l = x.
Proof. exact reported_position_readback. Qed.

(* The mask is exactly the union of the present fields' bits; with a tag, of the present fields
   carrying the tag; with a field, that field's bits. *)
Theorem C08_mask_is_union :
  forall L st fv m, all_placed L (s_tree st) (s_store st) ->
    get_mask st fv None None = Ok m -> m = union_bits (s_store st) (enabled_fields (s_tree st) fv).
Proof. exact mask_is_union. Qed.

Theorem C08_tag_mask_is_union :
  forall L st fv tg m, all_placed L (s_tree st) (s_store st) ->
    get_mask st fv (Some tg) None = Ok m ->
    m = union_bits (s_store st) (filter (has_tag (s_store st) tg) (enabled_fields (s_tree st) fv)).
Proof. exact tag_mask_is_union. Qed.

Theorem C08_field_mask_is_range :
  forall L st fv i m, all_placed L (s_tree st) (s_store st) ->
    get_mask st fv None (Some i) = Ok m ->
    exists f p l, get_field (s_tree st) i fv = Some f /\ frange (s_store st) f = Some (p, l)
                  /\ m = range_mask p l.
Proof. exact field_mask_is_range. Qed.

(* Keys restricted to a tag or to one field: every selected field is read back at its position. *)
Theorem C08_tag_value_readback :
  forall L st fv tg v,
    sound_layout L (s_tree st) (s_store st) -> values_fit (s_tree st) (s_store st) fv ->
    get_value st fv (Some tg) None = Ok v ->
    forall i f, In (i, f) (filter (has_tag (s_store st) tg) (enabled_fields (s_tree st) fv)) ->
      exists p l x, frange (s_store st) f = Some (p, l) /\ zassoc i fv = Some x /\ read_field v p l = x.
Proof. exact tag_value_readback. Qed.

Theorem C08_field_value_readback :
  forall L st fv i v,
    sound_layout L (s_tree st) (s_store st) -> values_fit (s_tree st) (s_store st) fv ->
    get_value st fv None (Some i) = Ok v ->
    exists f p l x, get_field (s_tree st) i fv = Some f /\ frange (s_store st) f = Some (p, l)
                    /\ zassoc i fv = Some x /\ read_field v p l = x.
Proof. exact field_value_readback. Qed.

(* UnknownTagError (Failed E_TAG) is raised exactly when no present field carries the tag. *)
Theorem C08_unknown_tag_iff :
  forall st fv tg,
    get_mask st fv (Some tg) None = Failed E_TAG <->
    filter (has_tag (s_store st) tg) (enabled_fields (s_tree st) fv) = [].
Proof. exact unknown_tag_iff. Qed.

(* "... a tag's fields, which always include the fields they depend on": in every reachable state a field
   carries the tags of every field defined under a condition naming it, so the selection made for a tag
   contains, with a field, every field that field depends on. *)
Theorem C08_tags_closed :
  forall st, reachable st -> tags_closed (s_tree st) (s_store st).
Proof. exact reachable_tags_closed. Qed.

Theorem C08_tag_selection_closed :
  forall st fv tg i f i' f' p p',
    reachable st ->
    In (p, (i, f)) (flat (s_tree st) []) -> In (p', (i', f')) (flat (s_tree st) []) ->
    In (i, f) (filter (has_tag (s_store st) tg) (enabled_fields (s_tree st) fv)) ->
    req_enabled fv p = true ->
    depends_on (p, (i, f)) (p', (i', f')) = true ->
    In (i', f') (filter (has_tag (s_store st) tg) (enabled_fields (s_tree st) fv)).
Proof. exact tag_selection_closed. Qed.

(* Two complete instances that differ in the value of a field never produce key/mask pairs that match a
   common key (get_value only returns for complete instances: C08_key_needs_complete). *)
Theorem C08_keys_distinct :
  forall st st' fv1 fv2 v1 m1 v2 m2,
    reachable st -> assign_fields st = (st', None) -> In fv1 (s_insts st') -> In fv2 (s_insts st') ->
    get_value st' fv1 None None = Ok v1 -> get_mask st' fv1 None None = Ok m1 ->
    get_value st' fv2 None None = Ok v2 -> get_mask st' fv2 None None = Ok m2 ->
    (exists i f, In (i, f) (enabled_fields (s_tree st') fv1) /\ zassoc i fv1 <> zassoc i fv2) ->
    ~ keys_intersect v1 m1 v2 m2.
Proof. exact reachable_keys_distinct. Qed.

Theorem C08_keys_distinct_any_time :
  forall st fv1 fv2 v1 m1 v2 m2,
    reachable st -> all_placed (s_len st) (s_tree st) (s_store st) ->
    In fv1 (s_insts st) -> In fv2 (s_insts st) ->
    get_value st fv1 None None = Ok v1 -> get_mask st fv1 None None = Ok m1 ->
    get_value st fv2 None None = Ok v2 -> get_mask st fv2 None None = Ok m2 ->
    (exists i f, In (i, f) (enabled_fields (s_tree st) fv1) /\ zassoc i fv1 <> zassoc i fv2) ->
    ~ keys_intersect v1 m1 v2 m2.
Proof. exact keys_distinct_any_time. Qed.

Theorem C08_key_needs_complete :
  forall st fv v, get_value st fv None None = Ok v -> complete (s_tree st) fv.
Proof. exact get_value_complete. Qed.

(* The same three facts for ANY layout that satisfies the layout predicates (this is what the verified
   checker below establishes for the real object). *)
Theorem C08_keys_distinct_of_sound_layout :
  forall L st fv1 fv2 v1 m1 v2 m2,
    sound_layout L (s_tree st) (s_store st) -> keys_local (s_tree st) = true ->
    values_fit (s_tree st) (s_store st) fv1 -> values_fit (s_tree st) (s_store st) fv2 ->
    get_value st fv1 None None = Ok v1 -> get_mask st fv1 None None = Ok m1 ->
    get_value st fv2 None None = Ok v2 -> get_mask st fv2 None None = Ok m2 ->
    (exists i f, In (i, f) (enabled_fields (s_tree st) fv1) /\ zassoc i fv1 <> zassoc i fv2) ->
    ~ keys_intersect v1 m1 v2 m2.
Proof. exact keys_distinct. Qed.

Theorem C08_value_readback_of_sound_layout :
  forall L st fv v,
    sound_layout L (s_tree st) (s_store st) -> values_fit (s_tree st) (s_store st) fv ->
    get_value st fv None None = Ok v ->
    forall i f, In (i, f) (enabled_fields (s_tree st) fv) ->
      exists p l x, frange (s_store st) f = Some (p, l) /\ zassoc i fv = Some x /\ read_field v p l = x.
Proof. exact value_readback. Qed.

(* ---------------------------------------------------------------- verified checker (V) *)
(* check_bitfield is evaluated inside Coq on the tree and field objects extracted from the real
   BitField after every generated history; `true` is a proof of the layout sentences for that object:
   disjointness of co-present fields inside [0, length), max_value < 2^length, tags closed under
   requirements (a field carries the tags of every field defined under a condition naming it). *)
Theorem C08_check_bitfield_sound :
  forall L t s, check_bitfield L t s = true ->
    sound_layout L t s /\ keys_local t = true /\ wide_enough t s /\ tags_closed t s.
Proof. exact check_bitfield_sound. Qed.

(* ---------------------------------------------------------------- rejection of explicit definitions (U) *)
Theorem C08_add_field_rejects_overflow :
  forall st fv i len s tags,
    s < 0 \/ s_len st <= s \/ s_len st < s + len_or1 len ->
    add_field st fv i len (Some s) tags = (st, Some E_VALUE).
Proof. exact add_field_rejects_overflow. Qed.

Theorem C08_add_field_rejects_overlap :
  forall st fv i len s tags oi ofid os,
    In (oi, ofid) (potential_fields (s_tree st) fv) ->
    f_start (sget (s_store st) ofid) = Some os ->
    os < s + len_or1 len -> s < os + len_or1 (f_len (sget (s_store st) ofid)) ->
    add_field st fv i len (Some s) tags = (st, Some E_VALUE).
Proof. exact add_field_rejects_overlap. Qed.

(* An explicit definition that is accepted is honoured: in every later state of the history the field
   still has the start position (and the length, when one was given) of its definition -- assign_fields
   never relocates it; when the explicit range collides with a field that can be present together with it
   the layout is refused (C08_assign_no_overlap / C08_no_overlap_at_any_time leave no other outcome). *)
Theorem C08_explicit_start_kept :
  forall st fv i len p tags st1 st2,
    reachable st -> add_field st fv i len (Some p) tags = (st1, None) -> reaches st1 st2 ->
    let fid := length (s_store st) in
    f_start (sget (s_store st2) fid) = Some p /\
    (forall q l, frange (s_store st2) fid = Some (q, l) -> q = p) /\
    (forall l, len = Some l -> f_len (sget (s_store st2) fid) = Some l).
Proof. exact explicit_start_kept. Qed.

Theorem C08_add_field_rejects_length :
  forall st fv i l start tags, l <= 0 -> add_field st fv i (Some l) start tags = (st, Some E_VALUE).
Proof. exact add_field_rejects_length. Qed.

(* Refused operations leave no trace: a __call__ that raises (value out of range or negative, unknown or
   unavailable field, value given twice) and an add_field that raises ValueError return the state they
   were given -- in particular no max_value, tag or tree change survives a refused call, whatever came
   earlier in its keyword list. *)
Theorem C08_call_refused_no_effect :
  forall st fv kw st' k, call st fv kw = (st', Some k) -> st' = st.
Proof. exact call_refused_no_effect. Qed.

Theorem C08_add_field_refused_no_effect :
  forall st fv i len start tags st',
    add_field st fv i len start tags = (st', Some E_VALUE) -> st' = st.
Proof. exact add_field_refused. Qed.

(* the code as found (before fix 27665d7) accepted a field at a negative position *)
Theorem C08_add_field_negative_start_orig_refuted :
  exists st', add_field_orig (init 8) [] 0 (Some 2) (Some (-1)) [] = (st', None)
              /\ add_field (init 8) [] 0 (Some 2) (Some (-1)) [] = (init 8, Some E_VALUE).
Proof. exact add_field_negative_start_orig_refuted. Qed.

(* ---------------------------------------------------------------- completeness *)
(* Full clause of the property: `reachable st -> unpositioned .. -> widths_fit .. -> exists st',
   assign_fields st = (st', None)` ("no field is positioned and the widths of the fields that can be present
   together never sum to more than the length => assignment succeeds").  It is FALSE of the faithful
   model and of the code (R below: first-fit fragmentation).  It is proved (U) under the boolean guard
   [exclusive_children]: the children of every node have pairwise contradictory requirements -- every
   flat bit field, every hierarchy whose scopes are opened by the values of one field per node, ... -- i.e.
   exactly when the fields present together always form a chain of nested scopes. *)
Theorem C08_assign_complete_exclusive :
  forall st, reachable st -> exclusive_children (s_tree st) = true ->
    unpositioned (s_tree st) (s_store st) ->
    widths_fit (s_len st) (s_tree st) (s_store st) ->
    exists st', assign_fields st = (st', None).
Proof. exact assign_complete_exclusive_reachable. Qed.

(* in particular bit fields without sub-scopes *)
Theorem C08_assign_complete_flat :
  forall st fs, reachable st -> s_tree st = Node fs [] ->
    unpositioned (s_tree st) (s_store st) ->
    widths_fit (s_len st) (s_tree st) (s_store st) ->
    exists st', assign_fields st = (st', None).
Proof. exact assign_complete_flat_reachable. Qed.

(* R: first-fit fragmentation.  Length 5; root fields a, b (1 bit each); w (1 bit) under a=1; t (1 bit)
   under b=1; y (2 bits) under a=0, b=1: nothing positioned, never more than 5 bits present together,
   assign_fields raises ValueError. *)
Theorem C08_assign_complete_refuted :
  exists st st', reachable st /\ unpositioned (s_tree st) (s_store st)
                 /\ widths_fit (s_len st) (s_tree st) (s_store st)
                 /\ assign_fields st = (st', Some E_VALUE)
                 /\ exclusive_children (s_tree st) = false.
Proof. exact assign_complete_refuted. Qed.

(* R: the other premise of the proved part is needed as well: when fields are added after an earlier
   assign_fields (nothing is ever positioned explicitly), the positions fixed by the first layout can leave
   no room although the hierarchy is exclusive and the widths fit.  Length 4; a (1 bit); x (1 bit) under
   a=0; assign_fields; y (3 bits) under a=1; assign_fields raises ValueError. *)
Theorem C08_assign_complete_incremental_refuted :
  exists st st', reachable st /\ exclusive_children (s_tree st) = true
                 /\ widths_fit (s_len st) (s_tree st) (s_store st)
                 /\ assign_fields st = (st', Some E_VALUE)
                 /\ ~ unpositioned (s_tree st) (s_store st).
Proof. exact assign_complete_incremental_refuted. Qed.

(* R: the code as found (before fix df25254) never tried the last position: one 8-bit field in an 8-bit
   bit field failed; the repaired scan lays it out. *)
Theorem C08_assign_last_position_refuted :
  exists st st1 st2, reachable st /\ s_tree st = Node [(0, 0%nat)] []
    /\ unpositioned (s_tree st) (s_store st) /\ widths_fit (s_len st) (s_tree st) (s_store st)
    /\ assign_fields_orig st = (st1, Some E_VALUE)
    /\ assign_fields st = (st2, None).
Proof. exact assign_last_position_refuted. Qed.

(* ---------------------------------------------------------------- hypotheses are satisfiable *)
Example C08_layout_instance :
  exists st' v1 m1 v2 m2,
    reachable ex_state /\ assign_fields ex_state = (st', None)
    /\ get_value st' (nth 2 (s_insts st') []) None None = Ok v1
    /\ get_mask st' (nth 2 (s_insts st') []) None None = Ok m1
    /\ get_value st' (nth 4 (s_insts st') []) None None = Ok v2
    /\ get_mask st' (nth 4 (s_insts st') []) None None = Ok m2
    /\ (v1, m1, v2, m2) = (265, 783, 672, 992).
Proof. exact ex_instance. Qed.

(* an instance created after the layout, its key and the read-back of both fields *)
Example C08_instance_after_layout :
  let st := exec (init 8) ex_after_ops in
  reachable st /\ all_placed (s_len st) (s_tree st) (s_store st)
  /\ nth 3 (s_insts st) [] = [(0, 1); (1, 6)] /\ In (nth 3 (s_insts st) []) (s_insts st)
  /\ get_value st (nth 3 (s_insts st) []) None None = Ok 22
  /\ get_location_and_length st (nth 3 (s_insts st) []) 1 = Ok (0, 4)
  /\ get_location_and_length st (nth 3 (s_insts st) []) 0 = Ok (4, 2)
  /\ read_field 22 0 4 = 6 /\ read_field 22 4 2 = 1.
Proof. exact ex_after_instance. Qed.

Example C08_exclusive_guard_satisfiable :
  exists st, reachable st /\ exclusive_children (s_tree st) = true /\ t_children (s_tree st) <> []
    /\ unpositioned (s_tree st) (s_store st) /\ widths_fit (s_len st) (s_tree st) (s_store st)
    /\ s_len st = 5.
Proof. exact ex_exclusive_instance. Qed.

Example C08_complete_guard_satisfiable :
  exists st fs, reachable st /\ s_tree st = Node fs [] /\ fs <> []
    /\ unpositioned (s_tree st) (s_store st) /\ widths_fit (s_len st) (s_tree st) (s_store st).
Proof. exact ex_flat_instance. Qed.
