(* C01 composition: tables that agree with a routing tree at every node deliver the packet to exactly the
   tree's leaves.  Induction on the tree; no hypothesis that the chips of the tree are distinct is needed,
   the derivation of [delivers] is finite because the tree is. *)
From Coq Require Import ZArith List Bool Permutation Lia.
Require Import Rig.Model.Base Rig.Model.Table Rig.Model.Network Rig.Spec.Network Rig.Proofs.Network.
Import ListNotations.
Open Scope Z_scope.

(* ------------------------------------------------------------------------------------------------ *)
(** * Induction principle and unfolding equations for the nested tree *)

Fixpoint rtree_ind' (P : rtree -> Prop)
         (H : forall c cores exits kids, Forall (fun k => P (snd k)) kids -> P (RNode c cores exits kids))
         (t : rtree) {struct t} : P t :=
  match t with
  | RNode c cores exits kids =>
      H c cores exits kids
        ((fix go (ks : list (Z * rtree)) : Forall (fun k => P (snd k)) ks :=
            match ks with
            | [] => Forall_nil _
            | k :: ks' =>
                Forall_cons k
                  (match k as k0 return P (snd k0) with (_, t') => rtree_ind' P H t' end)
                  (go ks')
            end) kids)
  end.

Lemma tree_cores_eq : forall c cores exits kids,
  tree_cores (RNode c cores exits kids) = map (pair c) cores ++ kids_flat tree_cores kids.
Proof. reflexivity. Qed.
Lemma tree_exits_eq : forall c cores exits kids,
  tree_exits (RNode c cores exits kids) = map (pair c) exits ++ kids_flat tree_exits kids.
Proof. reflexivity. Qed.
Lemma kids_flat_cons : forall A (f : rtree -> list A) l t ks,
  kids_flat f ((l, t) :: ks) = f t ++ kids_flat f ks.
Proof. reflexivity. Qed.
Lemma kids_all_cons : forall P l t ks, kids_all P ((l, t) :: ks) = (P l t /\ kids_all P ks).
Proof. reflexivity. Qed.
Lemma kids_allb_cons : forall p l t ks, kids_allb p ((l, t) :: ks) = p l t && kids_allb p ks.
Proof. reflexivity. Qed.

Definition kid_ok (m : nmachine) (tables : list (chip * table)) (key : Z) (endpoints : list (chip * Z))
           (c : chip) (l : Z) (t' : rtree) : Prop :=
  ~ In (c, l) endpoints /\ ~ In (c, l) (n_dead_links m)
  /\ root t' = neighbour m c l /\ ~ In (root t') (n_dead_chips m)
  /\ tree_ok m tables key endpoints (Some (opposite l)) t'.

Lemma tree_ok_eq : forall m tables key endpoints a c cores exits kids,
  tree_ok m tables key endpoints a (RNode c cores exits kids) =
  (exists r,
      route_at tables key c a = Some r
      /\ Permutation (route_cores r) cores
      /\ Permutation (route_links r) (exits ++ map fst kids)
      /\ (forall l, In l exits -> In (c, l) endpoints)
      /\ kids_all (kid_ok m tables key endpoints c) kids).
Proof. reflexivity. Qed.

(* ------------------------------------------------------------------------------------------------ *)
(** * The order in which a router makes the copies does not matter *)

Lemma sends_perm : forall m tables key endpoints c ls ls',
  Permutation ls ls' ->
  forall ds es, sends m tables key endpoints c ls ds es ->
  exists ds' es', sends m tables key endpoints c ls' ds' es' /\ Permutation ds ds' /\ Permutation es es'.
Proof.
  intros m tables key endpoints c ls ls' HP.
  induction HP as [|x l l' HP IH|x y l|l l' l'' HP1 IH1 HP2 IH2]; intros ds es Hs.
  - exists ds, es. repeat split; [exact Hs | apply Permutation_refl | apply Permutation_refl].
  - inversion Hs as [|c0 l0 ls0 ds1 es1 ds2 es2 H1 H2]; subst.
    destruct (IH _ _ H2) as [ds' [es' [Hs' [Hpd Hpe]]]].
    exists (ds1 ++ ds'), (es1 ++ es'). split; [constructor; assumption|].
    split; apply Permutation_app_head; assumption.
  - inversion Hs as [|c0 l0 ls0 dsy esy dr er Hy Hr]; subst.
    inversion Hr as [|c1 l1 ls1 dsx esx d0 e0 Hx H0]; subst.
    exists (dsx ++ dsy ++ d0), (esx ++ esy ++ e0).
    split; [constructor; [exact Hx|]; constructor; assumption|].
    split; apply Permutation_app_swap_app.
  - destruct (IH1 _ _ Hs) as [ds1 [es1 [Hs1 [Hd1 He1]]]].
    destruct (IH2 _ _ Hs1) as [ds2 [es2 [Hs2 [Hd2 He2]]]].
    exists ds2, es2. split; [exact Hs2|].
    split; [transitivity ds1 | transitivity es1]; assumption.
Qed.

Lemma sends_exits : forall m tables key endpoints c exits,
  (forall l, In l exits -> In (c, l) endpoints) ->
  forall ls ds es, sends m tables key endpoints c ls ds es ->
  sends m tables key endpoints c (exits ++ ls) ds (map (pair c) exits ++ es).
Proof.
  intros m tables key endpoints c exits. induction exits as [|x exits IH]; intros Hex ls ds es Hs.
  - exact Hs.
  - cbn [app map]. change ds with ([] ++ ds).
    change ((c, x) :: map (pair c) exits ++ es) with ([(c, x)] ++ (map (pair c) exits ++ es)).
    constructor.
    + apply Send_exit. apply Hex. left. reflexivity.
    + apply IH; [|exact Hs]. intros l Hl. apply Hex. right. exact Hl.
Qed.

(* ------------------------------------------------------------------------------------------------ *)
(** * Delivery along a tree *)

Lemma delivery_of_tree : forall m tables key endpoints t arrival,
  tree_ok m tables key endpoints arrival t ->
  exists ds es,
    delivers m tables key endpoints (root t) arrival ds es
    /\ Permutation ds (tree_cores t) /\ Permutation es (tree_exits t).
Proof.
  intros m tables key endpoints t. induction t as [c cores exits kids IHk] using rtree_ind'.
  intros a Hok. rewrite tree_ok_eq in Hok.
  destruct Hok as [r [Hr [Hpc [Hpl [Hex Hkids]]]]].
  assert (Hk : exists ds es,
             sends m tables key endpoints c (map fst kids) ds es
             /\ Permutation ds (kids_flat tree_cores kids) /\ Permutation es (kids_flat tree_exits kids)).
  { clear Hpl. induction kids as [|[l t'] ks IHks].
    - exists [], []. repeat split; constructor.
    - rewrite kids_all_cons in Hkids. destruct Hkids as [[Hne [Hnd [Hroot [Hlive Hok']]]] Hrest].
      inversion IHk as [|k ks0 HP HF]; subst. cbn [snd] in HP.
      destruct (HP _ Hok') as [ds1 [es1 [Hd1 [Hpd1 Hpe1]]]].
      destruct (IHks HF Hrest) as [ds2 [es2 [Hs2 [Hpd2 Hpe2]]]].
      exists (ds1 ++ ds2), (es1 ++ es2). split.
      + cbn [map fst]. constructor; [|exact Hs2].
        apply Send_hop; [exact Hne | exact Hnd | rewrite <- Hroot; exact Hlive | rewrite <- Hroot; exact Hd1].
      + rewrite !kids_flat_cons. split; apply Permutation_app; assumption. }
  destruct Hk as [dsK [esK [HsK [HpdK HpeK]]]].
  pose proof (sends_exits m tables key endpoints c exits Hex _ _ _ HsK) as Hs1.
  destruct (sends_perm m tables key endpoints c _ _ (Permutation_sym Hpl) _ _ Hs1) as [ds' [es' [Hs' [Hpd' Hpe']]]].
  exists (map (pair c) (route_cores r) ++ ds'), es'. split.
  - cbn [root]. eapply Del_chip; [exact Hr | exact Hs'].
  - rewrite tree_cores_eq, tree_exits_eq. split.
    + apply Permutation_app; [apply Permutation_map; exact Hpc|].
      transitivity dsK; [symmetry; exact Hpd' | exact HpdK].
    + transitivity (map (pair c) exits ++ esK); [symmetry; exact Hpe'|].
      apply Permutation_app_head. exact HpeK.
Qed.

(* the property's sentence from a tree: the tree's leaves are pairwise distinct (C03's conclusion) and its
   exits are the net's endpoint links *)
Lemma tree_delivered_exactly : forall m tables key links t,
  tree_ok m tables key links None t ->
  NoDup (tree_cores t) -> Permutation (tree_exits t) links -> NoDup links ->
  DeliveredExactly m tables key (root t) (tree_cores t) links.
Proof.
  intros m tables key links t Hok Hnd Hpl Hnl.
  destruct (delivery_of_tree _ _ _ _ _ _ Hok) as [ds [es [Hd [Hpd Hpe]]]].
  exists ds, es. split; [exact Hd|]. split; [exact Hpd|]. split; [exact Hnd|].
  split; [transitivity (tree_exits t); assumption | exact Hnl].
Qed.

(* ------------------------------------------------------------------------------------------------ *)
(** * The boolean tree checker *)

Lemma tree_okb_sound : forall m tables key endpoints t arrival,
  tree_okb m tables key endpoints arrival t = true -> tree_ok m tables key endpoints arrival t.
Proof.
  intros m tables key endpoints t. induction t as [c cores exits kids IHk] using rtree_ind'.
  intros a H. rewrite tree_ok_eq. cbn [tree_okb] in H.
  destruct (route_at tables key c a) as [r|] eqn:Er; [|discriminate].
  apply andb_true_iff in H. destruct H as [H Hkids].
  apply andb_true_iff in H. destruct H as [H Hex].
  apply andb_true_iff in H. destruct H as [Hc Hl].
  exists r. split; [reflexivity|].
  split; [apply z_same_set_perm; exact Hc|].
  split; [apply z_same_set_perm; exact Hl|].
  split.
  - intros l Hin. rewrite forallb_forall in Hex. apply cl_mem_In. apply Hex. exact Hin.
  - clear Hl Hex Hc. induction kids as [|[l t'] ks IHks].
    + exact I.
    + rewrite kids_allb_cons in Hkids. apply andb_true_iff in Hkids. destruct Hkids as [H1 H2].
      inversion IHk as [|k ks0 HP HF]; subst. cbn [snd] in HP.
      rewrite kids_all_cons. split; [|apply IHks; assumption].
      apply andb_true_iff in H1. destruct H1 as [H1 Hrec].
      apply andb_true_iff in H1. destruct H1 as [H1 Hlive].
      apply andb_true_iff in H1. destruct H1 as [H1 Hroot].
      apply andb_true_iff in H1. destruct H1 as [Hne Hnd].
      unfold kid_ok.
      split; [apply cl_mem_not_In; destruct (cl_mem (c, l) endpoints); [discriminate | reflexivity]|].
      split; [apply cl_mem_not_In; destruct (cl_mem (c, l) (n_dead_links m)); [discriminate | reflexivity]|].
      split; [apply chip_eqb_eq; exact Hroot|].
      split; [apply chip_mem_not_In; destruct (chip_mem (root t') (n_dead_chips m)); [discriminate | reflexivity]|].
      apply HP. exact Hrec.
Qed.

(* ------------------------------------------------------------------------------------------------ *)
(** * A concrete instance *)

(* 3x3 torus; link north of (0,0) is dead in both directions; (2,0) has a device on its south link (which
   is therefore dead for chip-to-chip traffic); chip (1,1) is dead. *)
Definition ex_machine : nmachine :=
  {| n_width := 3; n_height := 3; n_dead_chips := [(1, 1)];
     n_dead_links := [((0, 0), 2); ((0, 1), 5); ((2, 0), 5)] |}.

(* net with key 5 (mask 0xf): source on (0,0), sinks = cores 1 and 2 of (2,0) and the device on link 5 of
   (2,0).  (0,0) sends it east; (1,0) has no entry for it (the entry east -> east was removed as a default
   route) but has an entry of another net; (2,0) delivers.  The sources word of the entries (bit 24 = local,
   bit 3 = west) plays no role in the hardware. *)
Definition ex_tables : list (chip * table) :=
  [((0, 0), [mkEntry 1 5 15 16777216]);
   ((1, 0), [mkEntry 4 6 15 16777216]);
   ((2, 0), [mkEntry 128 6 15 4; mkEntry (128 + 256 + 32) 5 15 8])].

Definition ex_tree : rtree :=
  RNode (0, 0) [] [] [(0, RNode (1, 0) [] [] [(0, RNode (2, 0) [1; 2] [5] [])])].

Definition ex_cores : list (chip * Z) := [((2, 0), 2); ((2, 0), 1)].
Definition ex_links : list (chip * Z) := [((2, 0), 5)].

Lemma ex_instance :
  check_delivery ex_machine ex_tables 5 (0, 0) ex_cores ex_links = true
  /\ tree_ok ex_machine ex_tables 5 ex_links None ex_tree
  /\ lookup (table_at ex_tables (1, 0)) 5 = None
  /\ Permutation (tree_cores ex_tree) ex_cores /\ tree_exits ex_tree = ex_links.
Proof.
  split; [vm_compute; reflexivity|].
  split; [apply tree_okb_sound; vm_compute; reflexivity|].
  split; [vm_compute; reflexivity|].
  split; [vm_compute; apply perm_swap | reflexivity].
Qed.

(* the same tables with the entry of (2,0) sending the packet back west instead: it bounces between (1,0)
   and (2,0)... no: (1,0) default-routes it west to (0,0), whose entry sends it east again: it circulates,
   and the checker says no.  Sending it down the dead link, or to the dead chip, is rejected as well. *)
Definition ex_tables_loop : list (chip * table) :=
  [((0, 0), [mkEntry 1 5 15 16777216]); ((2, 0), [mkEntry (128 + 256 + 32 + 8) 5 15 8])].
Definition ex_tables_dead_link : list (chip * table) :=
  [((0, 0), [mkEntry 4 5 15 16777216])].
Definition ex_tables_dead_chip : list (chip * table) :=
  [((0, 0), [mkEntry 2 5 15 16777216])].

Lemma ex_rejected :
  check_delivery ex_machine ex_tables_loop 5 (0, 0) ex_cores ex_links = false
  /\ run 1000 ex_machine ex_tables_loop 5 ex_links [((0, 0), None)] = None
  /\ run 1000 ex_machine ex_tables_dead_link 5 ex_links [((0, 0), None)] = None
  /\ run 1000 ex_machine ex_tables_dead_chip 5 ex_links [((0, 0), None)] = None
  /\ run 1000 ex_machine ex_tables 6 ex_links [((0, 0), None)] = None.
Proof. vm_compute. repeat split. Qed.
