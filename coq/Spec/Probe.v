(* Property C14, stated on machine states and on what the probing functions return (definitions only).

   The "machine" is described here per the SC&MP / SARK documentation, with every constant spelled out
   (nothing is taken from Generated/GenProbe.v): the layout of the `info` reply, of sv->p2p_dims, of the
   P2P table (one linear table of 256 x 256 three-bit entries, eight per 32-bit word, entry of chip
   (x, y) = number 256 x + y), of the IOBUF blocks.  The theorems of Props/C14.v say that the code's
   decoders invert these encoders. *)
From Coq Require Import ZArith String Ascii List Bool.
Require Import Rig.Model.Base Rig.Model.Probe.
Import ListNotations.
Open Scope Z_scope.

(* ------------------------------------------------------------------------------------------------ *)
(* one chip                                                                                          *)

Record chip_state := mkCS {
  cs_cores : Z;                 (* number of working cores: 5 bits *)
  cs_states : list Z;           (* the state of each of the 18 cores *)
  cs_linkmask : Z;              (* bit l set <-> link l works: 6 bits *)
  cs_sdram : Z;                 (* largest free SDRAM block *)
  cs_sram : Z;                  (* largest free SRAM block *)
  cs_rtr : Z;                   (* largest free block of router entries: 11 bits *)
  cs_eth_up : bool;
  cs_ip : list Z;               (* four bytes *)
  cs_eth : Z * Z }.             (* nearest Ethernet chip, a byte each *)

Definition is_byte (b : Z) : Prop := 0 <= b < 256.

(* the members of AppState (sark.h cpu_state_e as rig names them) *)
Definition app_states : list Z := [0; 1; 2; 3; 4; 5; 6; 7; 8; 9; 10; 11; 15].
Definition idle_state : Z := 15.

Definition cs_valid (cs : chip_state) : Prop :=
  0 <= cs_cores cs < 32 /\
  length (cs_states cs) = 18%nat /\ Forall (fun s => In s app_states) (cs_states cs) /\
  0 <= cs_linkmask cs < 64 /\
  0 <= cs_rtr cs < 2048 /\
  length (cs_ip cs) = 4%nat /\ Forall is_byte (cs_ip cs) /\
  is_byte (fst (cs_eth cs)) /\ is_byte (snd (cs_eth cs)).

(* the reply of SC&MP to CMD_INFO:
     arg1 = cores | links << 8 | largest free router block << 14 | ethernet up << 25
     arg2 = largest free SDRAM block, arg3 = largest free SRAM block
     data = 18 state bytes, sv->eth_addr (uint16, x << 8 | y), sv->ip_addr (4 bytes) *)
Definition encode_info (cs : chip_state) : reply :=
  mkReply (cs_cores cs + 256 * cs_linkmask cs + 16384 * cs_rtr cs + 33554432 * (if cs_eth_up cs then 1 else 0))
          (cs_sdram cs) (cs_sram cs)
          (cs_states cs ++ le_encode 2 (256 * fst (cs_eth cs) + snd (cs_eth cs)) ++ cs_ip cs).

Definition ip_text (ip : list Z) : string :=
  String.concat "." (map dec_string ip).

(* what must be reported for the chip *)
Definition truth_info (cs : chip_state) : chip_info :=
  mkCI (cs_cores cs) (firstn (Z.to_nat (cs_cores cs)) (cs_states cs))
       (filter (fun l => Z.testbit (cs_linkmask cs) l) [0; 1; 2; 3; 4; 5])
       (cs_sdram cs) (cs_sram cs) (cs_rtr cs) (cs_eth_up cs) (ip_text (cs_ip cs)) (cs_eth cs).

(* ------------------------------------------------------------------------------------------------ *)
(* the P2P table and the dimensions, as the boot chip's memory holds them                            *)

Definition SV_BASE : Z := 4110450432.            (* 0xf5007f00 *)
Definition SV_P2P_DIMS : Z := 2.                 (* uint16: width << 8 | height *)
Definition RTR_P2P : Z := 3774939136.            (* 0xe1010000 *)

Definition chip_of_index (n : Z) : chip := (n / 256, n mod 256).

(* word i of the table holds the entries number 8 i .. 8 i + 7, lowest first, three bits each *)
Definition p2p_word (route : chip -> Z) (i : Z) : Z :=
  fold_right (fun e acc => route (chip_of_index (8 * i + e)) + 8 * acc) 0 [0; 1; 2; 3; 4; 5; 6; 7].

Definition p2p_byte (route : chip -> Z) (off : Z) : Z :=
  (p2p_word route (off / 4) / 256 ^ (off mod 4)) mod 256.

Definition routes_valid (route : chip -> Z) : Prop := forall c, 0 <= route c < 8.

(* reads of the table region return the table's bytes *)
Definition reads_p2p (rd : reader) (route : chip -> Z) : Prop :=
  forall off n, 0 <= off -> 0 <= n -> off + n <= 32768 ->
    rd (RTR_P2P + off) n = map (fun j => p2p_byte route (off + j)) (zrange n).

Definition reads_dims (rd : reader) (w h : Z) : Prop :=
  rd (SV_BASE + SV_P2P_DIMS) 2 = le_encode 2 (256 * w + h).

(* the table get_p2p_routing_table must return: every chip of the w x h area with its entry, column by
   column *)
Definition p2p_truth (route : chip -> Z) (w h : Z) : list (chip * Z) :=
  flat_map (fun x => map (fun y => ((x, y), route (x, y))) (zrange h)) (zrange w).

(* ------------------------------------------------------------------------------------------------ *)
(* the whole machine as get_system_info sees it                                                      *)

Definition NO_ROUTE : Z := 6.

(* [answers c = None]: the chip does not answer (SCPError); [Some cs]: it answers with its state *)
Definition info_of_machine (answers : chip -> option chip_state) : chip -> option reply :=
  fun c => option_map encode_info (answers c).

Definition answers_valid (answers : chip -> option chip_state) : Prop :=
  forall c cs, answers c = Some cs -> cs_valid cs.

(* the chips to be reported: a route and an answer, in the order of the table *)
Definition live_chips (route : chip -> Z) (answers : chip -> option chip_state) (w h : Z)
  : list (chip * chip_info) :=
  flat_map (fun ce => if snd ce =? NO_ROUTE then []
                      else match answers (fst ce) with
                           | Some cs => [(fst ce, truth_info cs)]
                           | None => []
                           end) (p2p_truth route w h).

Definition has_route (route : chip -> Z) (w h : Z) (c : chip) : Prop :=
  0 <= fst c < w /\ 0 <= snd c < h /\ route c <> NO_ROUTE.

(* ------------------------------------------------------------------------------------------------ *)
(* descriptions on which build_machine / build_core_constraints are specified                        *)

Definition si_wf (si : sysinfo) : Prop :=
  NoDup (map fst (si_chips si)) /\
  forall c ci, In (c, ci) (si_chips si) ->
    0 <= fst c < si_width si /\ 0 <= snd c < si_height si.

Definition in_bounds (w h : Z) (c : chip) : Prop := 0 <= fst c < w /\ 0 <= snd c < h.

(* the reservations that bind on chip c: the global ones and those located at c *)
Definition applies_to (c : chip) (k : range * option chip) : bool :=
  match snd k with None => true | Some c' => chip_eqb c c' end.

Definition ranges_on (c : chip) (cons : list (range * option chip)) : list range :=
  map fst (filter (applies_to c) cons).

Definition in_range (p : Z) (r : range) : bool := (fst r <=? p) && (p <? snd r).

(* number of reservations (counted by position in the list) that contain core p *)
Definition cover_count (p : Z) (rs : list range) : nat := length (filter (in_range p) rs).

Definition core_busy (ci : chip_info) (p : Z) : Prop :=
  0 <= p < Z.of_nat (length (ci_states ci)) /\ nth (Z.to_nat p) (ci_states ci) idle_state <> idle_state.

(* ------------------------------------------------------------------------------------------------ *)
(* IOBUF: a chain of blocks in memory                                                                *)

Record iobuf_block := mkBlock {
  b_addr : Z; b_time : Z; b_ms : Z; b_length : Z; b_payload : list Z }.

Definition is_word (v : Z) : Prop := 0 <= v < 4294967296.

(* the block at [b_addr] : next (uint32), time, ms, length, then iobuf_size bytes of text buffer *)
Definition block_bytes (b : iobuf_block) (next : Z) : list Z :=
  le_encode 4 next ++ le_encode 4 (b_time b) ++ le_encode 4 (b_ms b) ++ le_encode 4 (b_length b) ++ b_payload b.

(* memory holds the chain [blocks] starting at address [a] (0 = end of chain) *)
Fixpoint chain_at (rd : reader) (size : Z) (a : Z) (blocks : list iobuf_block) : Prop :=
  match blocks with
  | [] => a = 0
  | b :: rest =>
    a = b_addr b /\ a <> 0 /\
    exists next, is_word next /\ is_word (b_time b) /\ is_word (b_ms b) /\ is_word (b_length b) /\
                 0 <= size /\ Z.of_nat (length (b_payload b)) = size /\ b_length b <= size /\
                 rd a (size + 16) = block_bytes b next /\ chain_at rd size next rest
  end.

Definition chain_text (blocks : list iobuf_block) : list Z :=
  flat_map (fun b => firstn (Z.to_nat (b_length b)) (b_payload b)) blocks.

(* ------------------------------------------------------------------------------------------------ *)
(* the per-core status block (vcpu_t of sark.h, 128 bytes, little-endian), as get_processor_status   *)
(* must report it: the values in the order of ProcessorStatus' fields, each as a list                *)

Definition SV_VCPU_BASE : Z := 204.            (* sv->vcpu_base, uint32 at 0xcc *)
Definition VCPU_SIZE : Z := 128.

Definition u32_at (d : list Z) (o : nat) : Z := le_decode (firstn 4 (skipn o d)).
Definition u16_at (d : list Z) (o : nat) : Z := le_decode (firstn 2 (skipn o d)).
Definition u8_at (d : list Z) (o : nat) : Z := le_decode (firstn 1 (skipn o d)).

Definition status_truth (d : list Z) : list (list Z) :=
  [ [u32_at d 0; u32_at d 4; u32_at d 8; u32_at d 12; u32_at d 16; u32_at d 20; u32_at d 24; u32_at d 28];  (* r0..r7 *)
    [u32_at d 32];                 (* psr *)
    [u32_at d 36];                 (* sp *)
    [u32_at d 40];                 (* lr *)
    [u8_at d 44];                  (* rt_code *)
    [u8_at d 45];                  (* phys_cpu *)
    [u8_at d 46];                  (* cpu_state *)
    [u32_at d 48];                 (* mbox_ap_msg *)
    [u32_at d 52];                 (* mbox_mp_msg *)
    [u8_at d 56];                  (* mbox_ap_cmd *)
    [u8_at d 57];                  (* mbox_mp_cmd *)
    [u16_at d 58];                 (* sw_count *)
    [u32_at d 60];                 (* sw_file *)
    [u32_at d 64];                 (* sw_line *)
    [u32_at d 68];                 (* time *)
    strip0 (firstn 16 (skipn 72 d));   (* app_name without its NUL padding *)
    [u32_at d 88];                 (* iobuf *)
    [u8_at d 47];                  (* app_id *)
    [(u32_at d 92 / 65536) mod 256; (u32_at d 92 / 256) mod 256; u32_at d 92 mod 256];   (* sw_ver *)
    [u32_at d 112; u32_at d 116; u32_at d 120; u32_at d 124] ].                          (* user0..3 *)

Definition rte_codes_max : Z := 20.            (* RuntimeException: 0 .. 20 *)

Definition status_block_valid (d : list Z) : Prop :=
  length d = 128%nat /\ Forall is_byte d /\
  In (u8_at d 46) app_states /\ 0 <= u8_at d 44 <= rte_codes_max /\
  is_ascii (strip0 (firstn 16 (skipn 72 d))) = true.

(* ------------------------------------------------------------------------------------------------ *)
(* the reply to CMD_VER (sver), in its two encodings                                                  *)

Definition ascii_text (s : list Z) : Prop := Forall (fun c => 0 < c < 128) s.     (* ASCII, no NUL *)
Definition digits (d : list Z) : Prop := d <> [] /\ Forall (fun c => 48 <= c <= 57) d.
(* what may follow the three numbers: nothing, or text that does not start with a digit; no newline *)
Definition labels_ok (l : list Z) : Prop :=
  ascii_text l /\ ~ In 10 l /\ match l with [] => True | c :: _ => c < 48 \/ 57 < c end.

Definition sver_arg1 (x y pcpu vcpu : Z) : Z := (256 * x + y) * 65536 + 256 * pcpu + vcpu.

(* [pad] = the number of NUL bytes after the last string (SC&MP sends one; none or several are accepted) *)
(* legacy: arg2 = (100 * major + minor) << 16 | buffer size; data = name, NULs *)
Definition encode_sver_legacy (x y pcpu vcpu major minor buf date : Z) (name : list Z) (pad : nat) : reply :=
  mkReply (sver_arg1 x y pcpu vcpu) ((100 * major + minor) * 65536 + buf) date (name ++ repeat 0 pad).

(* semantic versions: arg2 = 0xffff << 16 | buffer size; data = name, NUL, "major.minor.patch" labels, NULs *)
Definition encode_sver_semver (x y pcpu vcpu buf date : Z) (name d1 d2 d3 labels : list Z) (pad : nat) : reply :=
  mkReply (sver_arg1 x y pcpu vcpu) (65535 * 65536 + buf) date
          (name ++ 0 :: (d1 ++ 46 :: d2 ++ 46 :: d3 ++ labels) ++ repeat 0 pad).

Definition sver_header_valid (x y pcpu vcpu buf : Z) : Prop :=
  is_byte x /\ is_byte y /\ is_byte pcpu /\ is_byte vcpu /\ 0 <= buf < 65536.

(* ------------------------------------------------------------------------------------------------ *)
(* the place-and-route model derived from a description [si] matches the machine                     *)

Definition machine_busy (cs : chip_state) (p : Z) : Prop :=
  0 <= p < Z.min (cs_cores cs) 18 /\ nth (Z.to_nat p) (cs_states cs) idle_state <> idle_state.

Definition model_matches_machine (route : chip -> Z) (answers : chip -> option chip_state) (w h : Z) (si : sysinfo)
  : Prop :=
  let m := build_machine si in
  let cons := build_core_constraints si in
  (forall c, pm_has_chip m c = true <-> (has_route route w h c /\ exists cs, answers c = Some cs)) /\
  (forall c cs, has_route route w h c -> answers c = Some cs ->
     si_get si c = Some (truth_info cs) /\
     pm_get m c = Ok (cs_cores cs, cs_sdram cs, cs_sram cs) /\
     (forall l, In l [0; 1; 2; 3; 4; 5] -> (pm_has_link m c l = true <-> Z.testbit (cs_linkmask cs) l = true)) /\
     cassoc c (target_lengths si) = Some (cs_rtr cs) /\
     (forall r, In r (ranges_on c cons) -> 0 <= fst r < snd r) /\
     (forall p, (cover_count p (ranges_on c cons) <= 1)%nat) /\
     (forall p, (exists r, In r (ranges_on c cons) /\ fst r <= p < snd r) <-> machine_busy cs p)) /\
  (forall k, In k cons -> snd k = None \/ exists c, snd k = Some c /\ pm_has_chip m c = true).

(* ------------------------------------------------------------------------------------------------ *)
(* any struct layout                                                                                  *)

(* an integer field of n bytes: struct character B / H / I *)
Definition int_pack (pack : string) (n : nat) : Prop :=
  (pack = "B"%string /\ n = 1%nat) \/ (pack = "H"%string /\ n = 2%nat) \/ (pack = "I"%string /\ n = 4%nat).

(* memory holds value v in the field f of the struct at [base] *)
Definition field_holds (rd : reader) (base : Z) (f : string * Z * Z) (v : Z) : Prop :=
  exists pack off n, f = (pack, off, 1) /\ int_pack pack n /\ 0 <= v < 256 ^ Z.of_nat n /\
                     rd (base + off) (Z.of_nat n) = le_encode n v.

(* a vcpu layout: the fields of vcpu_t (names and struct characters as documented) at offsets [offs], in
   this order *)
Definition vcpu_names_packs : list (string * (string * Z)) :=
  [("r0", ("I", 1)); ("r1", ("I", 1)); ("r2", ("I", 1)); ("r3", ("I", 1)); ("r4", ("I", 1)); ("r5", ("I", 1));
   ("r6", ("I", 1)); ("r7", ("I", 1)); ("psr", ("I", 1)); ("sp", ("I", 1)); ("lr", ("I", 1));
   ("rt_code", ("B", 1)); ("phys_cpu", ("B", 1)); ("cpu_state", ("B", 1)); ("app_id", ("B", 1));
   ("mbox_ap_msg", ("I", 1)); ("mbox_mp_msg", ("I", 1)); ("mbox_ap_cmd", ("B", 1)); ("mbox_mp_cmd", ("B", 1));
   ("sw_count", ("H", 1)); ("sw_file", ("I", 1)); ("sw_line", ("I", 1)); ("time", ("I", 1));
   ("app_name", ("16s", 16)); ("iobuf", ("I", 1)); ("sw_ver", ("I", 1)); ("__PAD", ("I", 4));
   ("user0", ("I", 1)); ("user1", ("I", 1)); ("user2", ("I", 1)); ("user3", ("I", 1))]%string.

Definition vcpu_field_sizes : list Z :=
  [4; 4; 4; 4; 4; 4; 4; 4; 4; 4; 4; 1; 1; 1; 1; 4; 4; 1; 1; 2; 4; 4; 4; 16; 4; 4; 4; 4; 4; 4; 4].

Definition packaged_vcpu_offsets : list Z :=
  [0; 4; 8; 12; 16; 20; 24; 28; 32; 36; 40; 44; 45; 46; 47; 48; 52; 56; 57; 58; 60; 64; 68; 72; 88; 92; 96;
   112; 116; 120; 124].

Definition vcpu_fields_at (offs : list Z) : list (string * (string * Z * Z)) :=
  map (fun no => (fst (fst no), (fst (snd (fst no)), snd no, snd (snd (fst no))))) (combine vcpu_names_packs offs).

(* every field lies inside the block (the part of __PAD that is read is its first word) *)
Definition vcpu_offsets_fit (offs : list Z) (size : Z) : Prop :=
  Forall2 (fun o n => 0 <= o /\ o + n <= size) offs vcpu_field_sizes.

Definition status_truth_at (offs : list Z) (d : list Z) : list (list Z) :=
  let o i := Z.to_nat (nth i offs 0) in
  [ [u32_at d (o 0%nat); u32_at d (o 1%nat); u32_at d (o 2%nat); u32_at d (o 3%nat); u32_at d (o 4%nat);
     u32_at d (o 5%nat); u32_at d (o 6%nat); u32_at d (o 7%nat)];
    [u32_at d (o 8%nat)]; [u32_at d (o 9%nat)]; [u32_at d (o 10%nat)];
    [u8_at d (o 11%nat)]; [u8_at d (o 12%nat)]; [u8_at d (o 13%nat)];
    [u32_at d (o 15%nat)]; [u32_at d (o 16%nat)]; [u8_at d (o 17%nat)]; [u8_at d (o 18%nat)];
    [u16_at d (o 19%nat)]; [u32_at d (o 20%nat)]; [u32_at d (o 21%nat)]; [u32_at d (o 22%nat)];
    strip0 (firstn 16 (skipn (o 23%nat) d));
    [u32_at d (o 24%nat)]; [u8_at d (o 14%nat)];
    [(u32_at d (o 25%nat) / 65536) mod 256; (u32_at d (o 25%nat) / 256) mod 256; u32_at d (o 25%nat) mod 256];
    [u32_at d (o 27%nat); u32_at d (o 28%nat); u32_at d (o 29%nat); u32_at d (o 30%nat)] ].

Definition status_block_valid_at (offs : list Z) (size : Z) (d : list Z) : Prop :=
  Z.of_nat (length d) = size /\ Forall is_byte d /\ length offs = 31%nat /\ vcpu_offsets_fit offs size /\
  In (u8_at d (Z.to_nat (nth 13 offs 0))) app_states /\
  0 <= u8_at d (Z.to_nat (nth 11 offs 0)) <= rte_codes_max /\
  is_ascii (strip0 (firstn 16 (skipn (Z.to_nat (nth 23 offs 0)) d))) = true.
